// target: kiki/src/data/oset.rs
// leaves: Oset (public ordered set) - BOUNDED STAND-IN for changed code the verifier cannot ingest (the unchanged methods are verified)
// props leaf_oset_model: C18   (every history against std BTreeSet: iteration strictly increasing and complete, contains, equality and ordering by element set)
// covers leaf_oset_model: fn insert, fn contains, fn from_iter, fn extend, fn into_iter, fn deref
// bound: every history `from_iter(l0); op1; ..; opk` with k <= 3 (k <= 4 in the thorough tier), l0 and the extend arguments from 8 lists over {0,1,2,3}
//        (empty, singleton, sorted, reversed, with duplicates, sorted with duplicates), ops = insert(0..3), extend(list), extend(list through a filter adapter, whose
//        size_hint lower bound is 0); after every operation: iteration by reference, by value and through Deref, contains(0..4); at the end
//        equality / cmp of every pair of final states against the element sets
#[cfg(test)]
mod __vx_leafcheck {
    use super::*;
    use std::collections::BTreeSet;

    const LISTS: [&[u8]; 8] = [&[], &[2], &[0, 1, 3], &[3, 2, 0], &[1, 1, 1, 0], &[2, 3, 2, 3, 0], &[1, 1, 2], &[0, 3, 3]];
    #[derive(Clone, Copy, Debug)]
    enum Op { Insert(u8), Extend(usize), ExtendFiltered(usize) }

    fn observe(s: &Oset<u8>, m: &BTreeSet<u8>, history: &str) {
        let want: Vec<u8> = m.iter().cloned().collect();
        let by_ref: Vec<u8> = (&*s).into_iter().cloned().collect();
        let by_val: Vec<u8> = s.clone().into_iter().collect();
        let by_deref: Vec<u8> = s.iter().cloned().collect();
        if by_ref != want || by_val != want || by_deref != want {
            println!("LEAFCHECK-FAIL leaf=Oset input={} got=iteration yields {:?} / {:?} / {:?} want={:?} (each element once, strictly increasing)", history, by_ref, by_val, by_deref, want);
            panic!("Oset iteration");
        }
        for x in 0..5u8 {
            if s.contains(&x) != m.contains(&x) {
                println!("LEAFCHECK-FAIL leaf=Oset input={} got=contains({}) == {} want={}", history, x, s.contains(&x), m.contains(&x));
                panic!("Oset contains");
            }
        }
    }

    #[test]
    fn leaf_oset_model() {
        let depth = if std::env::var("VX_LEAF_THOROUGH").is_ok() { 4 } else { 3 };
        let mut ops = vec![];
        for x in 0..4u8 { ops.push(Op::Insert(x)); }
        for l in 0..LISTS.len() { ops.push(Op::Extend(l)); ops.push(Op::ExtendFiltered(l)); }
        let mut finals: Vec<(Oset<u8>, BTreeSet<u8>, String)> = vec![];
        let mut n = 0usize;
        for l0 in 0..LISTS.len() {
            let s0: Oset<u8> = LISTS[l0].iter().cloned().collect();
            let m0: BTreeSet<u8> = LISTS[l0].iter().cloned().collect();
            let h0 = format!("from_iter({:?})", LISTS[l0]);
            observe(&s0, &m0, &h0);
            let mut frontier = vec![(s0, m0, h0)];
            for _ in 0..depth {
                let mut next = vec![];
                for (s, m, h) in &frontier {
                    for op in &ops {
                        let (mut s, mut m) = (s.clone(), m.clone());
                        match *op {
                            Op::Insert(x) => { s.insert(x); m.insert(x); }
                            Op::Extend(l) => { s.extend(LISTS[l].iter().cloned()); m.extend(LISTS[l].iter().cloned()); }
                            Op::ExtendFiltered(l) => { s.extend(LISTS[l].iter().cloned().filter(|x| *x < 9)); m.extend(LISTS[l].iter().cloned()); }
                        }
                        let h = format!("{}; {:?}", h, op).replace("Extend(", "extend(list #").replace("ExtendFiltered(", "extend(filtered list #");
                        observe(&s, &m, &h);
                        n += 1;
                        next.push((s, m, h));
                    }
                }
                finals.extend(frontier.drain(..));
                frontier = next;
            }
            finals.extend(frontier);
        }
        // equality and ordering depend only on the element sets: one representative history per (element set, last operation kind) is enough to
        // keep the pair count small, every final state is compared with each representative
        let mut reps: Vec<usize> = vec![];
        for (i, (_, m, _)) in finals.iter().enumerate() {
            if reps.iter().filter(|j| finals[**j].1 == *m).count() < 3 { reps.push(i); }
        }
        for (s, m, h) in &finals {
            for j in &reps {
                let (s2, m2, h2) = &finals[*j];
                let (v, v2): (Vec<u8>, Vec<u8>) = (m.iter().cloned().collect(), m2.iter().cloned().collect());
                if (s == s2) != (m == m2) || s.cmp(s2) != v.cmp(&v2) || s.partial_cmp(s2) != Some(v.cmp(&v2)) {
                    println!("LEAFCHECK-FAIL leaf=Oset input=[{}] versus [{}] got=eq {} cmp {:?} want=eq {} cmp {:?} (element sets {:?} and {:?})", h, h2, s == s2, s.cmp(s2), m == m2, v.cmp(&v2), v, v2);
                    panic!("Oset comparison");
                }
                n += 1;
            }
        }
        println!("LEAFCHECK leaf=Oset cases={}", n);
    }
}
