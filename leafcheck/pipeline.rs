// target: kiki/src/lib.rs
// leaves: generate, get_grammar_hash (the public entry points, called as a whole) - BOUNDED STAND-IN for the parts of the pipeline that sit
//         outside the verified text (trusted leaves, format! templates, std hash containers) and for changed code the verifier cannot ingest
// props leaf_generate_total: C07        (no panic and a result within 120 s on any text of the family, in any layout, and on its truncations)
// props leaf_generate_repeatable: C14   (six calls, two of them on fresh threads hence fresh RandomState keys, give the same result)
// props leaf_generate_layout: C16       (same token sequence in 7 layouts: same emitted text but for the hash line, same error with positions carried along)
// props leaf_hash_readback: C15         (get_grammar_hash against a direct reading of the statement; header of every emitted text reads back sha256(source))
// props leaf_emitted_compiles: C05      (rustc --emit=metadata on the emitted module, payload types without any derive)
// props leaf_validation_truthful: C10   (Ok only for files that an independent reading of the statement finds well-formed; a validation error names a violation really present at its positions)
// props leaf_lalr_acceptance: C04       (a well-formed file is accepted iff the LALR(1) automaton built here from the definition - canonical LR(1) collection, states merged by core - has no conflict)
// props leaf_lalr_conflict_report: C11   (a table-conflict error: the attached automaton is that LALR(1) automaton up to renumbering, the state exists, holds both items, and they demand different actions on one lookahead)
// props leaf_lalr_tables: C17           (ACTION/GOTO rows read back from the emitted text against that automaton up to renumbering of states: shift, goto, reduce on the lookahead sets, accept, error elsewhere)
// props leaf_parser_tables: C09          (every ACTION / GOTO cell of the checked-in front-end parser kiki/src/parser.rs against the LALR(1) automaton by definition of the published grammar kiki/src/parser.kiki)
// props leaf_emitted_structure: C06     (type section and parse signature of the emitted text, parsed back, against the declarations: names, order, Box, `_` omitted, pub)
// props leaf_emitted_attributes: C12    (attribute lines before each emitted type, byte for byte and in order; each attribute text occurs exactly once in the emitted text)
// props leaf_emitted_payload_types: C13 (payload type tokens in the terminal enum and in every field of that terminal, against the declaration)
// covers leaf_generate_total: fn generate
// covers leaf_generate_repeatable: fn generate
// covers leaf_generate_layout: fn generate
// covers leaf_hash_readback: fn get_grammar_hash
// covers leaf_emitted_compiles: fn generate
// covers leaf_validation_truthful: fn generate
// covers leaf_lalr_acceptance: fn generate
// covers leaf_lalr_conflict_report: fn generate
// covers leaf_lalr_tables: fn generate
// covers leaf_parser_tables: fn parse
// covers leaf_emitted_structure: fn generate
// covers leaf_emitted_attributes: fn generate
// covers leaf_emitted_payload_types: fn generate
// bound: family = 70 hand-written token sequences (every error kind with several simultaneous instances, LALR-not-SLR, LR(1)-not-LALR, ambiguous,
//        nullable, unreachable, unproductive, attribute and payload-type shapes, the generator's own helper names as user names) + every grammar
//        over nonterminals {S, A} and terminals {$X, $Y} whose right-hand sides have length <= 1 (930 files; length <= 2 sampled 1 in 97 in the
//        quick tier, 1 in 3 in the thorough tier) + 300 pseudo-random files (5 000 thorough, see LALR below) + the example files of the repository. Layouts: 7. get_grammar_hash: every text of <= 4 lines
//        (<= 5 thorough) over an 11-line alphabet, LF and CRLF, with and without final terminator. Compile check: 6 grammar shapes x 56 namings
//        (one internal name at a time on every user-chosen position, then all at once) + the valid grammars of the family.
//        Validation: the family + every single renaming `identifier j := identifier i` and every first-letter case flip in 9 base files (about 2 000 files with
//        0..4 simultaneous violations).
//        LALR: the well-formed files of the family, of the enumeration (right-hand sides <= 1: all; <= 2: 1 in 97, thorough 1 in 3) and 12 textbook grammars
//        (LALR-not-SLR, LR(1)-not-LALR, dangling else, expression grammars, nullable chains) + 2 500 pseudo-random files (100 000 thorough) over 2..4
//        nonterminals and 1..3 terminals with right-hand sides of 0..3 symbols (fixed LCG seeded with VERIF_SEED); the ill-formed ones are skipped.
//        Emitted types: the accepted files of the family + 9 payload type expressions (unit, paths, generics nested <= 3) on 3 use sites + 13 attribute
//        texts (non-ASCII, the three bracket kinds nested, 300 deep, quotes) on struct / enum / terminal declarations, 0..3 per declaration.
#[cfg(test)]
mod __vx_leafcheck {
    use crate::{generate, get_grammar_hash, KikiErr, RustSrc, RustSrcRef};
    use std::panic::{catch_unwind, AssertUnwindSafe};

    fn thorough() -> bool { std::env::var("VX_LEAF_THOROUGH").is_ok() }

    // ------------------------------------------------------------------ the family ------------------------------------------------------------------
    // compact form: tokens separated by blanks; `~` stands for a blank inside a token (attributes), `<TAB>` for a tab
    const VALID: &[&str] = &[
        "start Expr enum Expr { Empty Wrap { _ : $L inner : Expr _ : $R } } terminal Tok { $L : ( ) $R : ( ) }",
        "start S enum S { Assign ( L $Eq R ) Val ( R ) } enum L { Deref ( $Star R ) Id ( $Id ) } struct R ( L ) terminal Tok { $Eq : ( ) $Star : ( ) $Id : String }",
        "start S struct S { a : OptA b : OptB c : $C } enum OptA { None0 Some0 ( $A ) } enum OptB { None1 Some1 ( $B ) } terminal T { $A : ( ) $B : ( ) $C : ( ) }",
        "start S struct S terminal T { }",
        "start S struct S terminal T { $A : ( ) }",
        "start S struct S ( $A ) struct U ( U $A ) struct W ( $A ) terminal T { $A : ( ) }",
        "start S enum S { } terminal T { $A : ( ) }",
        "start S struct S { t : $T x : X e : E } struct X enum E { } terminal K { $T : ( ) }",
        "start S enum S { A ( $T E ) B ( E $T ) C ( X E X ) } struct X ( $T ) enum E { } enum F { } terminal K { $T : ( ) }",
        "start List enum List { Nil Cons ( $N List ) } terminal T { $N : i32 }",
        "start List enum List { Nil Snoc ( List $N ) } terminal T { $N : i32 }",
        "start E enum E { Add ( E $Plus T ) Term ( T ) } enum T { Mul ( T $Star F ) Fac ( F ) } enum F { Par ( $L E $R ) Num ( $N ) } terminal Tok { $Plus : ( ) $Star : ( ) $L : ( ) $R : ( ) $N : u64 }",
        "start S #[derive(Debug)] #[allow(unused)] #[derive(Clone,~PartialEq)] struct S { x : $A } #[doc~=~\"t~[~{~(~)~}~]~\u{e9}\"] #[cfg(all())] terminal T { $A : ( ) }",
        "start S struct S ( $A $B $C ) terminal T { $A : Vec < Option < crate :: P0 > > $B : std :: string :: String $C : ( ) }",
        "start S struct S { _ : $A _ : $A } terminal T { $A : ( ) }",
        "start S enum S { A ( $A ) B ( $B $A ) C { x : $B _ : $B } D } terminal T { $A : ( ) $B : ( ) }",
        "start State enum State { Node ( Node ) Action ( Action ) } struct Node ( $Eof ) struct Action { states : $Terminal nodes : RuleKind } struct RuleKind terminal Quasiterminal { $Eof : ( ) $Terminal : ( ) }",
        "start S struct S ( A $Y A ) enum A { X ( $X ) E } terminal T { $X : ( ) $Y : ( ) }",
        "start Json enum Json { Obj ( Obj ) Arr ( Arr ) Str ( $Str ) } struct Obj { _ : $LC entries : Entries _ : $RC } enum Entries { None0 Some0 ( Entry Rest ) } enum Rest { End More ( $Comma Entry Rest ) } struct Entry { key : $Str _ : $Colon val : Json } struct Arr ( $LS $RS ) terminal Token { $Str : String $LC : ( ) $RC : ( ) $LS : ( ) $RS : ( ) $Comma : ( ) $Colon : ( ) }",
        "terminal T { $A : ( ) } struct S { a : $A } start S",
        "struct Atom ( $N ) start Sum terminal Tok { $N : u8 $Plus : ( ) } enum Sum { One ( Atom ) More ( Sum $Plus Atom ) } struct Unused ( Atom )",
        "enum Helper { H ( $A ) } struct Other { h : Helper } start Top struct Top ( Other Helper )  terminal T { $A : ( ) }",
        "start S enum S { P ( _ : $P X ) Q ( _ : $Q X ) R ( _ : $Q Y ) } struct X ( _ : $A _ : $B ) struct Y ( _ : $A _ : $C ) terminal Token { $P : ( ) $Q : ( ) $A : ( ) $B : ( ) $C : ( ) }",
        "start S enum S { A ( $A X $A ) B ( $B X $B ) C ( $A Y $B ) } enum X { One ( $C ) More ( X $C ) } enum Y { One ( $C $C ) } terminal T { $A : ( ) $B : ( ) $C : ( ) }",
    ];
    const CONFLICTING: &[&str] = &[
        "start S enum S { A ( $A X $D ) B ( $B Y $D ) C ( $A Y $E ) D ( $B X $E ) } struct X ( $C ) struct Y ( $C ) terminal T { $A : ( ) $B : ( ) $C : ( ) $D : ( ) $E : ( ) }",
        "start E enum E { Add ( E $Plus E ) Mul ( E $Star E ) Num ( $N ) } terminal T { $Plus : ( ) $Star : ( ) $N : ( ) }",
        "start St enum St { If ( $If St ) IfElse ( $If St $Else St ) Other ( $O ) } terminal T { $If : ( ) $Else : ( ) $O : ( ) }",
        "start S enum S { A ( A ) B ( B ) } struct A ( $X ) struct B ( $X ) terminal T { $X : ( ) }",
        "start S enum S { A ( A ) B ( B ) C ( C ) } struct A struct B struct C terminal T { $X : ( ) }",
        "start S enum S { L ( S S ) X ( $X ) N } terminal T { $X : ( ) }",
        "start S struct S ( A A ) enum A { X ( $X ) E } terminal T { $X : ( ) }",
        "start S struct S ( S ) terminal T { }",
        "start S enum S { A ( S $A S ) B ( S $B S ) C ( S $C S ) D ( $D ) } terminal T { $A : ( ) $B : ( ) $C : ( ) $D : ( ) }",
    ];
    const INVALID: &[&str] = &[
        "struct S terminal T { }",
        "start S start S start S struct S terminal T { }",
        "start S start U struct S struct U terminal T { }",
        "start S struct S",
        "start S struct S terminal T { } terminal U { } terminal V { }",
        "start s struct s struct u ( s ) terminal T { }",
        "start S struct S ( $a $b ) terminal T { $a : ( ) $b : ( ) }",
        "start S struct S terminal t { }",
        "start S struct S { A : $A B : $A } enum E { V { X : $A } } terminal T { $A : ( ) }",
        "start S struct S struct S struct U struct U enum U { } terminal T { }",
        "start S struct S struct A struct B terminal T { $A : ( ) $B : ( ) }",
        "start S struct S terminal T { $A : ( ) $A : ( ) $B : ( ) $B : u8 }",
        "start S struct S struct T terminal T { }",
        "start S struct S terminal T { $T : ( ) }",
        "start S struct S terminal S { $S : ( ) }",
        "start S enum S { A A B B ( $X ) } enum E { V V W ( $X ) W } terminal T { $X : ( ) }",
        "start S enum S { A ( $X ) B ( $X ) C D } enum E { V ( S $X ) W { a : S _ : $X } } terminal T { $X : ( ) }",
        "start S struct S ( U V U ) enum E { A ( W ) } terminal T { }",
        "start U struct S terminal T { }",
        "start S struct S ( $A $B $A ) enum E { A ( $C ) } terminal T { }",
        "start $S struct S terminal T { }",
        "start u start S struct S ( V $W ) struct S enum E { A A } terminal t { $a : ( ) } terminal T { }",
        "start S enum S { a ( $X ) b } terminal T { $X : ( ) }",
        "start S struct S { a : $X a : $X } terminal T { $X : ( ) }",
    ];
    const UNPARSABLE: &[&str] = &[
        "", "start", "start S struct", "start S struct S {", "start S struct S { a : }", "start S struct S ( ) terminal T { }", "start S struct S { } terminal T { }",
        "terminal T { $A }", "terminal T { $A : }", "terminal T { $A : ( ) , $B : ( ) }", "enum E { V ( ) }", "struct S ( _ $A )", "struct S { $A }", "struct S ( a : $A )",
        "start S S", "struct struct", "terminal T { A : ( ) }", "terminal T { $A : Vec < > }", "terminal T { $A : Vec < u8 , > }", "terminal T { $A : Vec < u8 u8 > }", "terminal T { $A : :: u8 }",
        "start S struct S ; terminal T { }", "start S #[a] #[b]", "#[a] start S struct S terminal T { }", "enum E { V , W }", "terminal T { $A : ( u8 ) }", "struct S ( $A , $B )", "} start S",
        "struct S { a : $A , b : $A }", "start S struct S terminal T { $A : Vec < ( ) > } >",
    ];
    // texts that are not a blank-separated token list (lexical errors, odd characters); used as raw text only
    const RAW: &[&str] = &[
        "%", "start S %", "$", "$ ", "$a", "$start", "$struct x", "$_", "$$", "$9", "9", "#", "#x", "#[", "#[a", "#[a]]", "#[[a]", "#[(])]", "#[a\n]", "/", "/ /", "/x", "//", "// c",
        "start\u{e9}", "\u{e9}", "// \u{e9}\nstart S struct S terminal T { }", "start S struct S terminal T { } // \u{2200}", ":::", ": : :: :", "_x _ x_", "start_ S",
        "#[\u{e9}\u{2200}] struct S start S terminal T {}", "\u{feff}start S struct S terminal T { }", "start S struct S terminal T { $A: (), $B: [u8; 4] }", "a.b", "a-b", "\"s\"", "'c'", "\0",
    ];

    fn sym(i: usize) -> &'static str { ["S", "A", "$X", "$Y"][i] }
    /// every right-hand side of length <= n over {S, A, $X, $Y}
    fn rhs_all(n: usize) -> Vec<Vec<usize>> {
        let mut out = vec![vec![]];
        let mut last: Vec<Vec<usize>> = vec![vec![]];
        for _ in 0..n {
            let mut next = vec![];
            for r in &last { for s in 0..4 { let mut q = r.clone(); q.push(s); next.push(q); } }
            out.extend(next.iter().cloned());
            last = next;
        }
        out
    }
    fn rhs_text(r: &[usize]) -> String {
        if r.is_empty() { String::new() } else { format!("( {} )", r.iter().map(|s| sym(*s)).collect::<Vec<_>>().join(" ")) }
    }
    /// all files `start S <decl of S> [<decl of A>] terminal T { $X: (), $Y: () }`, each declaration a struct or a two-variant enum
    fn enumerated(n: usize, stride: usize) -> Vec<String> {
        let rs = rhs_all(n);
        let mut decl_s = vec![];
        let mut decl_a = vec![String::new()];
        for r in &rs {
            decl_s.push(format!("struct S {}", rhs_text(r)));
            decl_a.push(format!("struct A {}", rhs_text(r)));
        }
        for r in &rs { for q in &rs {
            decl_s.push(format!("enum S {{ V0 {} V1 {} }}", rhs_text(r), rhs_text(q)));
            decl_a.push(format!("enum A {{ W0 {} W1 {} }}", rhs_text(r), rhs_text(q)));
        } }
        let mut out = vec![];
        let mut k = 0usize;
        for s in &decl_s { for a in &decl_a {
            if k % stride == 0 { out.push(format!("start S {} {} terminal T {{ $X : ( ) $Y : ( ) }}", s, a)); }
            k += 1;
        } }
        out
    }

    fn tokens(compact: &str) -> Vec<String> { compact.split_whitespace().map(|t| t.replace('~', " ").replace("<TAB>", "\t")).collect() }

    /// `layout` in 0..7; returns the text and the byte position of every token in it. Every layout ends with trivia, so that "end of the source"
    /// is never also the end of the last token.
    fn render(toks: &[String], layout: usize) -> (String, Vec<usize>) {
        let (lead, sep, trail): (&str, &str, &str) = match layout {
            0 => ("", " ", "\n"),
            1 => ("\n", "\n", "\n"),
            2 => ("\r\n", "\r\n\t", "\r\n"),
            3 => ("// start $X { \u{e9}\u{2200} #[a] /\n", " // terminal T { } \u{e9} \"q\" \r struct % // /\n", " // last \u{2200}"),
            4 => ("\u{3000}", "\u{2003}\u{a0}\u{85}", "\u{2028}"),
            5 => ("//\n", "//\r\n//\u{e9}\n \t", "\t//"),
            _ => ("", "", " "),
        };
        let mut s = String::from(lead);
        let mut pos = vec![];
        let wordy = |t: &str| t.chars().next().map_or(false, |c| c.is_ascii_alphanumeric() || c == '_' || c == '$');
        let wordy_end = |t: &str| t.chars().last().map_or(false, |c| c.is_ascii_alphanumeric() || c == '_');
        for (i, t) in toks.iter().enumerate() {
            if i > 0 {
                if layout >= 6 {
                    // tight: a blank only where two tokens would fuse (word after word, colon after colon)
                    let p = &toks[i - 1];
                    if (wordy_end(p) && wordy(t)) || (p.ends_with(':') && t.starts_with(':')) {
                        s.push(' ');
                    }
                } else {
                    s.push_str(sep);
                }
            }
            pos.push(s.len());
            s.push_str(t);
        }
        s.push_str(trail);
        (s, pos)
    }
    const LAYOUTS: usize = 7;

    fn compact_family() -> Vec<&'static str> {
        VALID.iter().chain(CONFLICTING).chain(INVALID).chain(UNPARSABLE).cloned().collect()
    }
    fn example_files() -> Vec<String> {
        let mut out = vec![];
        let root = std::path::Path::new(env!("CARGO_MANIFEST_DIR")).join("src");
        let mut stack = vec![root];
        while let Some(d) = stack.pop() {
            let Ok(rd) = std::fs::read_dir(&d) else { continue };
            let mut entries: Vec<_> = rd.filter_map(|e| e.ok()).map(|e| e.path()).collect();
            entries.sort();
            for p in entries {
                if p.is_dir() { stack.push(p); } else if p.extension().map_or(false, |e| e == "kiki") {
                    if let Ok(t) = std::fs::read_to_string(&p) { out.push(t); }
                }
            }
        }
        out
    }
    /// every text the whole-pipeline checks run on (layout 0 of the token lists, the raw texts, the examples)
    fn all_texts() -> Vec<String> {
        let mut out: Vec<String> = compact_family().iter().map(|c| render(&tokens(c), 0).0).collect();
        out.extend(RAW.iter().map(|s| s.to_string()));
        out.extend(enumerated(1, 1).iter().map(|c| render(&tokens(c), 0).0));
        out.extend(enumerated(2, if thorough() { 3 } else { 97 }).iter().map(|c| render(&tokens(c), 0).0));
        out.extend(random_grammars(if thorough() { 5000 } else { 300 }).iter().map(|c| render(&tokens(c), 0).0));
        out.extend(example_files());
        out
    }

    /// generate, with a panic turned into a value (whether it panics at all is the business of leaf_generate_total)
    fn run(t: &str) -> Option<Result<RustSrc, KikiErr>> {
        catch_unwind(AssertUnwindSafe(|| generate(t))).ok()
    }
    fn show_opt(r: &Option<Result<RustSrc, KikiErr>>) -> String {
        match r { Some(r) => show(r), None => "PANIC".to_string() }
    }
    fn show(r: &Result<RustSrc, KikiErr>) -> String {
        match r { Ok(s) => format!("Ok({})", s.0), Err(e) => format!("Err({:?})", e) }
    }
    fn brief(s: &str) -> String {
        let one: String = s.chars().take(400).collect();
        format!("{:?}", one)
    }
    fn first_difference(a: &str, b: &str) -> String {
        let i = a.chars().zip(b.chars()).take_while(|(x, y)| x == y).count();
        let ctx = |s: &str| s.chars().skip(i.saturating_sub(40)).take(120).collect::<String>();
        format!("first difference at char {}: {:?} vs {:?}", i, ctx(a), ctx(b))
    }

    // ------------------------------------------------------------------ C07 ------------------------------------------------------------------
    #[test]
    fn leaf_generate_total() {
        let mut texts = all_texts();
        for c in compact_family() {
            let t = tokens(c);
            for l in 1..LAYOUTS { texts.push(render(&t, l).0); }
        }
        // every truncation (at a character boundary) of the hand-written texts
        let hand: Vec<String> = compact_family().iter().map(|c| render(&tokens(c), 3).0).chain(RAW.iter().map(|s| s.to_string())).collect();
        for t in &hand {
            for (i, _) in t.char_indices() { texts.push(t[..i].to_string()); }
        }
        // one worker walks through the texts and reports after each; the test thread waits at most 120 s for the next report (each text is tiny: a
        // generate call that does not come back within that time on any machine counts as a hang)
        let (tx, rx) = std::sync::mpsc::channel::<(usize, bool)>();
        let shared = std::sync::Arc::new(texts);
        let worker_texts = shared.clone();
        std::thread::spawn(move || {
            for (i, t) in worker_texts.iter().enumerate() {
                let ok = catch_unwind(AssertUnwindSafe(|| { let _ = generate(t); })).is_ok();
                if tx.send((i, ok)).is_err() || !ok { return; }
            }
        });
        let mut n = 0usize;
        while n < shared.len() {
            match rx.recv_timeout(std::time::Duration::from_secs(120)) {
                Ok((_, true)) => n += 1,
                Ok((i, false)) => {
                    println!("LEAFCHECK-FAIL leaf=generate(total) input={} got=panic want=Ok or Err", brief(&shared[i]));
                    panic!("generate panicked");
                }
                Err(_) => {
                    println!("LEAFCHECK-FAIL leaf=generate(total) input={} got=no result within 120 s want=Ok or Err within bounded time", brief(&shared[n]));
                    panic!("generate hangs");
                }
            }
        }
        println!("LEAFCHECK leaf=generate(total) cases={}", n);
    }

    // ------------------------------------------------------------------ C14 ------------------------------------------------------------------
    #[test]
    fn leaf_generate_repeatable() {
        let texts = all_texts();
        let mut n = 0usize;
        for t in &texts {
            let first = show_opt(&run(t));
            for k in 0..5 {
                let again = if k % 2 == 1 {
                    let t2 = t.clone();
                    // a fresh thread draws fresh RandomState keys
                    std::thread::spawn(move || show_opt(&run(&t2))).join().unwrap_or_else(|_| "PANIC".to_string())
                } else {
                    show_opt(&run(t))
                };
                if again != first {
                    println!("LEAFCHECK-FAIL leaf=generate(repeatable) input={} got=call {} differs from call 0: {} want=identical results", brief(t), k + 1, first_difference(&first, &again));
                    panic!("generate is not repeatable");
                }
                n += 1;
            }
        }
        println!("LEAFCHECK leaf=generate(repeatable) cases={}", n);
    }

    // ------------------------------------------------------------------ C16 ------------------------------------------------------------------
    /// the result with every byte position rewritten as (token index, offset inside the token) and the hash line blanked
    fn layout_free(r: &Option<Result<RustSrc, KikiErr>>, text: &str, pos: &[usize]) -> String {
        let Some(r) = r else { return "PANIC".to_string() };
        match r {
            Ok(s) => {
                let lines: Vec<&str> = s.0.split('\n').map(|l| if l.starts_with("// @sha256 ") { "// @sha256 *" } else { l }).collect();
                format!("Ok({})", lines.join("\n"))
            }
            Err(e) => {
                // a span is carried along as (start, length): in a tight layout the end of a token is also the start of the next one
                let d = match e {
                    KikiErr::Parse(a, s, b) => format!("Parse({:?}, {:?}, length {})", a, s, b.0 as i64 - a.0 as i64),
                    _ => format!("{:?}", e),
                };
                let mut out = String::new();
                let mut rest: &str = &d;
                while let Some(i) = rest.find("ByteIndex(") {
                    out.push_str(&rest[..i]);
                    let after = &rest[i + "ByteIndex(".len()..];
                    let j = after.find(')').unwrap();
                    let n: usize = after[..j].trim().parse().unwrap();
                    let k = pos.iter().rposition(|p| *p <= n);
                    if n == text.len() { out.push_str("@end"); } else {
                        match k { Some(k) => out.push_str(&format!("@{}+{}", k, n - pos[k])), None => out.push_str(&format!("@before+{}", n)) }
                    }
                    rest = &after[j + 1..];
                }
                out.push_str(rest);
                format!("Err({})", out)
            }
        }
    }
    #[test]
    fn leaf_generate_layout() {
        let mut fam: Vec<String> = compact_family().iter().map(|s| s.to_string()).collect();
        fam.extend(enumerated(1, if thorough() { 1 } else { 7 }));
        // lexical errors whose position lies inside a token (the position must move with the token)
        for bad in ["#[derive(Debug])", "#[a(b]c)", "%", "#[x{]}]", "S%", "$A%"] {
            fam.push(format!("start S {} struct S terminal T {{ }}", bad));
            fam.push(format!("start S struct S ( $A ) terminal T {{ $A : ( ) }} {}", bad));
        }
        let mut n = 0usize;
        for c in &fam {
            let t = tokens(c);
            let (text0, pos0) = render(&t, 0);
            let base = layout_free(&run(&text0), &text0, &pos0);
            for l in 1..LAYOUTS {
                let (text, pos) = render(&t, l);
                let got = layout_free(&run(&text), &text, &pos);
                if got != base {
                    println!("LEAFCHECK-FAIL leaf=generate(layout) input={} got=differs from the result for {}: {} want=same result (positions carried along, hash line aside)", brief(&text), brief(&text0), first_difference(&base, &got));
                    panic!("layout changes the result");
                }
                n += 1;
            }
        }
        println!("LEAFCHECK leaf=generate(layout) cases={}", n);
    }

    // ------------------------------------------------------------------ C15 ------------------------------------------------------------------
    /// FIPS 180-4 SHA-256, written out here so that the digest in the header is compared with something other than the crate the generator uses
    fn sha256_reference(msg: &[u8]) -> [u8; 32] {
        const K: [u32; 64] = [
            0x428a2f98, 0x71374491, 0xb5c0fbcf, 0xe9b5dba5, 0x3956c25b, 0x59f111f1, 0x923f82a4, 0xab1c5ed5, 0xd807aa98, 0x12835b01, 0x243185be, 0x550c7dc3, 0x72be5d74, 0x80deb1fe, 0x9bdc06a7, 0xc19bf174,
            0xe49b69c1, 0xefbe4786, 0x0fc19dc6, 0x240ca1cc, 0x2de92c6f, 0x4a7484aa, 0x5cb0a9dc, 0x76f988da, 0x983e5152, 0xa831c66d, 0xb00327c8, 0xbf597fc7, 0xc6e00bf3, 0xd5a79147, 0x06ca6351, 0x14292967,
            0x27b70a85, 0x2e1b2138, 0x4d2c6dfc, 0x53380d13, 0x650a7354, 0x766a0abb, 0x81c2c92e, 0x92722c85, 0xa2bfe8a1, 0xa81a664b, 0xc24b8b70, 0xc76c51a3, 0xd192e819, 0xd6990624, 0xf40e3585, 0x106aa070,
            0x19a4c116, 0x1e376c08, 0x2748774c, 0x34b0bcb5, 0x391c0cb3, 0x4ed8aa4a, 0x5b9cca4f, 0x682e6ff3, 0x748f82ee, 0x78a5636f, 0x84c87814, 0x8cc70208, 0x90befffa, 0xa4506ceb, 0xbef9a3f7, 0xc67178f2];
        let mut h: [u32; 8] = [0x6a09e667, 0xbb67ae85, 0x3c6ef372, 0xa54ff53a, 0x510e527f, 0x9b05688c, 0x1f83d9ab, 0x5be0cd19];
        let mut data = msg.to_vec();
        data.push(0x80);
        while data.len() % 64 != 56 { data.push(0); }
        data.extend_from_slice(&((msg.len() as u64) * 8).to_be_bytes());
        for chunk in data.chunks(64) {
            let mut w = [0u32; 64];
            for i in 0..16 { w[i] = u32::from_be_bytes([chunk[4 * i], chunk[4 * i + 1], chunk[4 * i + 2], chunk[4 * i + 3]]); }
            for i in 16..64 {
                let s0 = w[i - 15].rotate_right(7) ^ w[i - 15].rotate_right(18) ^ (w[i - 15] >> 3);
                let s1 = w[i - 2].rotate_right(17) ^ w[i - 2].rotate_right(19) ^ (w[i - 2] >> 10);
                w[i] = w[i - 16].wrapping_add(s0).wrapping_add(w[i - 7]).wrapping_add(s1);
            }
            let mut v = h;
            for i in 0..64 {
                let s1 = v[4].rotate_right(6) ^ v[4].rotate_right(11) ^ v[4].rotate_right(25);
                let ch = (v[4] & v[5]) ^ (!v[4] & v[6]);
                let t1 = v[7].wrapping_add(s1).wrapping_add(ch).wrapping_add(K[i]).wrapping_add(w[i]);
                let s0 = v[0].rotate_right(2) ^ v[0].rotate_right(13) ^ v[0].rotate_right(22);
                let maj = (v[0] & v[1]) ^ (v[0] & v[2]) ^ (v[1] & v[2]);
                let t2 = s0.wrapping_add(maj);
                v = [t1.wrapping_add(t2), v[0], v[1], v[2], v[3].wrapping_add(t1), v[4], v[5], v[6]];
            }
            for i in 0..8 { h[i] = h[i].wrapping_add(v[i]); }
        }
        let mut out = [0u8; 32];
        for i in 0..8 { out[4 * i..4 * i + 4].copy_from_slice(&h[i].to_be_bytes()); }
        out
    }
    /// direct reading of the statement: the remainder of the first line starting with `// @sha256 ` inside the leading block of `//` lines
    fn hash_reference(text: &str) -> Option<&str> {
        let mut rest = text;
        while !rest.is_empty() {
            let (line, next) = match rest.find('\n') { Some(i) => (&rest[..i], &rest[i + 1..]), None => (rest, "") };
            let line = line.strip_suffix('\r').unwrap_or(line);
            if !line.starts_with("//") { return None; }
            if line.starts_with("// @sha256 ") { return Some(&line["// @sha256 ".len()..]); }
            rest = next;
        }
        None
    }
    #[test]
    fn leaf_hash_readback() {
        const LINES: [&str; 11] = ["// @sha256 abc", "//", "// x", "", "x", " // @sha256 q", "// @sha256 ", "//@sha256 z", "/ / @sha256 w", "// @sha256 d\u{e9} f ", "// a // @sha256 mid"];
        let depth = if thorough() { 5 } else { 4 };
        let mut n = 0usize;
        let mut idx = vec![0usize; 0];
        // all sequences of length 0..=depth
        loop {
            for (term, fin) in [("\n", true), ("\n", false), ("\r\n", true), ("\r\n", false)] {
                let mut text = String::new();
                for (k, i) in idx.iter().enumerate() {
                    text.push_str(LINES[*i]);
                    if k + 1 < idx.len() || fin { text.push_str(term); }
                }
                let got = get_grammar_hash(RustSrcRef(&text));
                let want = hash_reference(&text);
                if got != want {
                    println!("LEAFCHECK-FAIL leaf=get_grammar_hash input={:?} got={:?} want={:?}", text, got, want);
                    panic!("get_grammar_hash disagrees with the statement");
                }
                n += 1;
            }
            // next sequence
            let mut k = idx.len();
            loop {
                if k == 0 { idx = vec![0; idx.len() + 1]; break; }
                k -= 1;
                if idx[k] + 1 < LINES.len() { idx[k] += 1; for j in k + 1..idx.len() { idx[j] = 0; } break; }
            }
            if idx.len() > depth { break; }
        }
        // the header of every emitted text reads back the digest of exactly the source it was generated from
        let mut sources = all_texts();
        // the digest is that of the EXACT source: leading / trailing blanks, line ends and comments included
        for c in VALID { for l in 1..LAYOUTS { sources.push(render(&tokens(c), l).0); } }
        for t in sources {
            if let Ok(out) = generate(&t) {
                let want: String = sha256_reference(t.as_bytes()).iter().map(|b| format!("{:02x}", b)).collect();
                let got = get_grammar_hash(out.as_ref());
                let header_ok = out.0.starts_with("//");
                if got != Some(&want[..]) || !header_ok {
                    println!("LEAFCHECK-FAIL leaf=get_grammar_hash(generate) input={} got={:?} want=Some({:?}) and a leading `//` block", brief(&t), got, want);
                    panic!("emitted header does not read back the source digest");
                }
                n += 1;
            }
        }
        println!("LEAFCHECK leaf=get_grammar_hash cases={}", n);
    }

    // ------------------------------------------------------------------ C05 ------------------------------------------------------------------
    /// grammar shapes with holes: N0..N3 nonterminals, V0..V3 variants, f0..f3 fields, X0..X2 terminals, TE the terminal enum
    const SHAPES: &[&str] = &[
        "start N0 enum N0 { V0 ( N1 ) V1 { f0 : N2 _ : $X0 f1 : $X1 } V2 } struct N1 ( $X0 N2 ) struct N2 { f2 : $X2 f3 : $X1 } terminal TE { $X0 : ( ) $X1 : crate :: P0 $X2 : Vec < crate :: P1 > }",
        "start N0 struct N0 { f0 : N1 f1 : $X1 f2 : N1 } enum N1 { V0 V1 ( $X0 N1 ) } terminal TE { $X0 : crate :: P0 $X1 : ( ) }",
        "start N0 struct N0 terminal TE { $X0 : ( ) }",
        "start N0 enum N0 { V0 ( $X0 $X1 $X2 ) V1 ( $X2 $X1 ) V3 { f0 : $X0 } } terminal TE { $X0 : crate :: P0 $X1 : crate :: P0 $X2 : ( ) }",
        "start N0 struct N0 ( N1 N2 N3 ) struct N1 ( $X0 ) struct N2 ( $X0 ) struct N3 { _ : $X0 } terminal TE { $X0 : crate :: P1 }",
        "start N0 enum N0 { V0 ( $X0 N1 ) V1 { f0 : $X1 f1 : $X2 } } struct N1 ( $X2 $X1 ) terminal TE { $X0 : std :: collections :: HashMap < String , Vec < crate :: P0 > > $X1 : Result < ( ) , std :: string :: String > $X2 : Option < Box < Vec < ( ) > > > }",
    ];
    const HOLES_UPPER: [&str; 13] = ["N0", "N1", "N2", "N3", "V0", "V1", "V2", "V3", "X0", "X1", "X2", "TE", ""];
    const HOLES_LOWER: [&str; 4] = ["f0", "f1", "f2", "f3"];
    const DEFAULT_UPPER: [&str; 12] = ["Alpha", "Beta", "Gamma", "Delta", "Va", "Vb", "Vc", "Vd", "Xa", "Xb", "Xc", "Tok"];
    const DEFAULT_LOWER: [&str; 4] = ["fa", "fb", "fc", "fd"];
    /// the generator's own names (types, variants, constants, type parameter) ...
    const INTERNAL_UPPER: &[&str] = &["State", "Node", "Action", "RuleKind", "Eof", "Quasiterminal", "QuasiterminalKind", "NonterminalKind", "S", "Terminal",
        "Shift", "Reduce", "Accept", "Token", "Error", "S0", "R0", "T", "Item", "State2", "Node2", "S2", "ACTION_TABLE", "GOTO_TABLE", "Reduce0", "Kind", "Rule", "Src"];
    /// ... and its locals, parameters and functions
    const INTERNAL_LOWER: &[&str] = &["states", "nodes", "quasiterminals", "top_state", "temp_top_state", "next_quasiterminal_kind", "t0", "t1", "rule_kind", "new_node",
        "src", "node", "parse", "get_action", "terminal", "state", "new_state", "new_node_kind", "reduce_r0", "pop_and_reduce", "get_goto", "try_from", "from_terminal", "try_into_terminal", "n", "t", "e", "i"];

    fn instantiate(shape: &str, upper: &[String; 12], lower: &[String; 4]) -> String {
        let mut out = vec![];
        for t in shape.split_whitespace() {
            let (dollar, core) = match t.strip_prefix('$') { Some(c) => ("$", c), None => ("", t) };
            let name = if let Some(i) = HOLES_UPPER.iter().position(|h| *h == core && !h.is_empty()) { upper[i].clone() }
                else if let Some(i) = HOLES_LOWER.iter().position(|h| *h == core) { lower[i].clone() } else { core.to_string() };
            out.push(format!("{}{}", dollar, name));
        }
        out.join(" ")
    }

    fn rustc_check(dir: &std::path::Path, tag: &str, emitted: &str) -> Result<(), String> {
        let file = dir.join(format!("{}.rs", tag));
        // payload types with no derive and no trait implementation at all
        let text = format!("#![allow(warnings)]\npub struct P0;\npub struct P1;\npub mod generated {{\n{}\n}}\n", emitted);
        std::fs::write(&file, text).map_err(|e| format!("cannot write {}: {}", file.display(), e))?;
        let rustc = std::env::var("RUSTC").unwrap_or_else(|_| "rustc".to_string());
        let out = std::process::Command::new(rustc)
            .args(["--edition", "2021", "--crate-type", "lib", "--emit=metadata", "--crate-name", "vx_emitted", "-o"])
            .arg(dir.join(format!("{}.rmeta", tag)))
            .arg(&file)
            .output()
            .map_err(|e| format!("cannot run rustc: {}", e))?;
        let _ = std::fs::remove_file(dir.join(format!("{}.rmeta", tag)));
        if out.status.success() { let _ = std::fs::remove_file(&file); return Ok(()); }
        let err = String::from_utf8_lossy(&out.stderr);
        let firsts: Vec<&str> = err.lines().filter(|l| l.starts_with("error")).take(3).collect();
        // a compiler that dies without a diagnostic (killed, out of memory) says nothing about the module: no verdict
        if firsts.is_empty() { return Err(format!("cannot tell: rustc ended with {} and no error line", out.status)); }
        Err(firsts.join(" | "))
    }

    #[test]
    fn leaf_emitted_compiles() {
        let dir = std::env::var("VX_LEAF_SCRATCH").map(std::path::PathBuf::from).unwrap_or_else(|_| std::env::temp_dir()).join(format!("vx-emitted-{}", std::process::id()));
        std::fs::create_dir_all(&dir).expect("scratch directory");
        let mut cases: Vec<(String, String)> = vec![];
        let du: [String; 12] = DEFAULT_UPPER.map(|s| s.to_string());
        let dl: [String; 4] = DEFAULT_LOWER.map(|s| s.to_string());
        for (si, shape) in SHAPES.iter().enumerate() {
            cases.push((format!("shape{}/default", si), instantiate(shape, &du, &dl)));
            // one internal name at a time, on every position in turn (positions rotate with the name so that the quick tier stays small)
            for (ni, name) in INTERNAL_UPPER.iter().enumerate() {
                let positions: Vec<usize> = if thorough() { (0..12).collect() } else { vec![ni % 12, (ni + 5) % 12] };
                for p in positions {
                    let mut u = du.clone();
                    u[p] = name.to_string();
                    cases.push((format!("shape{}/{}={}", si, HOLES_UPPER[p], name), instantiate(shape, &u, &dl)));
                }
            }
            for (ni, name) in INTERNAL_LOWER.iter().enumerate() {
                let positions: Vec<usize> = if thorough() { (0..4).collect() } else { vec![ni % 4] };
                for p in positions {
                    let mut l = dl.clone();
                    l[p] = name.to_string();
                    cases.push((format!("shape{}/{}={}", si, HOLES_LOWER[p], name), instantiate(shape, &du, &l)));
                }
            }
            // all positions taken by internal names at once, three rotations
            for rot in 0..3 {
                let u: [String; 12] = std::array::from_fn(|i| INTERNAL_UPPER[(i + rot * 7) % INTERNAL_UPPER.len()].to_string());
                let l: [String; 4] = std::array::from_fn(|i| INTERNAL_LOWER[(i + rot * 5) % INTERNAL_LOWER.len()].to_string());
                cases.push((format!("shape{}/all-internal-rot{}", si, rot), instantiate(shape, &u, &l)));
            }
        }
        for (i, v) in VALID.iter().enumerate() { cases.push((format!("valid{}", i), v.to_string())); }
        // files that break a static rule: generate rejects them (nothing to compile); if it ever accepts one, what it emits must still compile.
        // Files whose only fault is a repeated field name are left out (excluded by the statement of C05).
        for (i, t) in validation_family().iter().enumerate() {
            let repeated_field = { let (text, pos) = render(t, 0); let _ = text; read_file(t, &pos).map_or(false, |f| all_fieldsets(&f).iter().any(|fs| {
                let names: Vec<&String> = fs.iter().filter_map(|x| x.name.as_ref().map(|n| &n.0)).collect();
                names.iter().enumerate().any(|(k, a)| names[..k].contains(a))
            })) };
            if !repeated_field { cases.push((format!("validation-family{}", i), t.iter().map(|x| x.replace(' ', "~")).collect::<Vec<_>>().join(" "))); }
        }
        for (i, v) in enumerated(1, if thorough() { 3 } else { 31 }).iter().enumerate() { cases.push((format!("enumerated{}", i), v.clone())); }

        let work: Vec<(String, String, String)> = cases.into_iter().filter_map(|(tag, compact)| {
            let text = render(&tokens(&compact), 0).0;
            match generate(&text) { Ok(out) => Some((tag, text, out.0)), Err(_) => None }
        }).collect();
        let total = work.len();
        let next = std::sync::atomic::AtomicUsize::new(0);
        let failures = std::sync::Mutex::new(Vec::<(usize, String, String, String)>::new());
        std::thread::scope(|sc| {
            for _ in 0..6 {
                sc.spawn(|| loop {
                    let i = next.fetch_add(1, std::sync::atomic::Ordering::SeqCst);
                    if i >= total { break; }
                    let (tag, text, emitted) = &work[i];
                    if let Err(e) = rustc_check(&dir, &format!("case{}", i), emitted) {
                        failures.lock().unwrap().push((i, tag.clone(), text.clone(), e));
                    }
                });
            }
        });
        let mut failures = failures.into_inner().unwrap();
        failures.sort();
        let _ = std::fs::remove_dir_all(&dir);
        // every failing case is printed; the runner sets aside those listed in /verif/known_findings.txt and reports the rest
        for (_, tag, text, e) in &failures {
            if e.starts_with("cannot ") { panic!("compile check could not run: {}", e); }
            println!("LEAFCHECK-FAIL leaf=emitted-module-compiles case={} input={} got=rustc: {} want=the emitted module compiles", tag, brief(text), e);
        }
        if !failures.is_empty() {
            println!("LEAFCHECK leaf=emitted-module-compiles cases={}", total);
            panic!("{} emitted module(s) do not compile", failures.len());
        }
        println!("LEAFCHECK leaf=emitted-module-compiles cases={}", total);
    }
    // ------------------------------------------------------------------ C06 / C12 / C13 ------------------------------------------------------------------
    #[derive(Clone, Debug, PartialEq)]
    enum Fs { Unit, Named(Vec<(String, Vec<String>)>), Tuple(Vec<Vec<String>>) }
    #[derive(Clone, Debug, PartialEq)]
    struct Item { attrs: Vec<String>, kind: String, name: String, fieldset: Fs, variants: Vec<(String, Fs)>, pub_fields: bool }

    /// words, `::`, and every other visible character on its own
    fn rust_tokens(s: &str) -> Vec<String> {
        let cs: Vec<char> = s.chars().collect();
        let mut out = vec![];
        let mut i = 0;
        while i < cs.len() {
            let c = cs[i];
            if c.is_whitespace() { i += 1; }
            else if c.is_alphanumeric() || c == '_' { let mut j = i; while j < cs.len() && (cs[j].is_alphanumeric() || cs[j] == '_') { j += 1; } out.push(cs[i..j].iter().collect()); i = j; }
            else if c == ':' && cs.get(i + 1) == Some(&':') { out.push("::".to_string()); i += 2; }
            else { out.push(c.to_string()); i += 1; }
        }
        out
    }

    /// the declarations of a compact token list (an independent reading of the Kiki surface syntax, for files this module wrote itself),
    /// turned into the type definitions the statement of C06 asks for
    fn expected_items(toks: &[String]) -> Option<(String, Vec<Item>)> {
        let mut start = None;
        let mut pending_attrs: Vec<String> = vec![];
        let mut raw: Vec<(Vec<String>, String, String, Vec<String>)> = vec![];   // attrs, kind, name, body tokens
        let mut i = 0;
        while i < toks.len() {
            let t = toks[i].as_str();
            if t.starts_with("#[") { pending_attrs.push(t.to_string()); i += 1; continue; }
            match t {
                "start" => { start = Some(toks.get(i + 1)?.clone()); i += 2; }
                "struct" | "enum" | "terminal" => {
                    let name = toks.get(i + 1)?.clone();
                    let mut j = i + 2;
                    let mut body = vec![];
                    let opener = toks.get(j).map(|s| s.as_str());
                    if opener == Some("{") || (t == "struct" && opener == Some("(")) {
                        let mut depth = 0i32;
                        loop {
                            let u = toks.get(j)?;
                            if u == "{" || u == "(" { depth += 1; }
                            if u == "}" || u == ")" { depth -= 1; }
                            body.push(u.clone());
                            j += 1;
                            if depth == 0 { break; }
                        }
                    }
                    raw.push((std::mem::take(&mut pending_attrs), t.to_string(), name, body));
                    i = j;
                }
                _ => return None,
            }
        }
        // payload types of the terminals
        let mut payload: Vec<(String, Vec<String>)> = vec![];
        for (_, kind, _, body) in &raw {
            if kind != "terminal" { continue; }
            let inner = &body[1..body.len() - 1];
            let mut k = 0;
            while k < inner.len() {
                let name = inner[k].strip_prefix('$')?.to_string();
                if inner.get(k + 1).map(|s| s.as_str()) != Some(":") { return None; }
                let mut e = k + 2;
                while e < inner.len() && !inner[e].starts_with('$') { e += 1; }
                payload.push((name, inner[k + 2..e].to_vec()));
                k = e;
            }
        }
        let type_of = |sym: &str| -> Option<Vec<String>> {
            match sym.strip_prefix('$') {
                Some(tn) => payload.iter().find(|p| p.0 == tn).map(|p| p.1.clone()),
                None => Some(vec!["Box".to_string(), "<".to_string(), sym.to_string(), ">".to_string()]),
            }
        };
        // fieldset tokens (with their brackets, possibly empty) -> emitted fieldset
        let fieldset = |b: &[String]| -> Option<Fs> {
            if b.is_empty() { return Some(Fs::Unit); }
            let inner = &b[1..b.len() - 1];
            if b[0] == "{" {
                let mut fs = vec![];
                let mut k = 0;
                while k < inner.len() {
                    if inner.get(k + 1).map(|s| s.as_str()) != Some(":") { return None; }
                    if inner[k] != "_" { fs.push((inner[k].clone(), type_of(inner.get(k + 2)?)?)); }
                    k += 3;
                }
                Some(if fs.is_empty() { Fs::Unit } else { Fs::Named(fs) })
            } else {
                let mut fs = vec![];
                let mut k = 0;
                while k < inner.len() {
                    if inner[k] == "_" { k += 3; continue; }
                    fs.push(type_of(&inner[k])?);
                    k += 1;
                }
                Some(if fs.is_empty() { Fs::Unit } else { Fs::Tuple(fs) })
            }
        };
        let mut terminal_item = None;
        let mut items = vec![];
        for (attrs, kind, name, body) in &raw {
            match kind.as_str() {
                "terminal" => {
                    let variants = payload.iter().map(|(n, t)| (n.clone(), Fs::Tuple(vec![t.clone()]))).collect();
                    terminal_item = Some(Item { attrs: attrs.clone(), kind: "enum".to_string(), name: name.clone(), fieldset: Fs::Unit, variants, pub_fields: false });
                }
                "struct" => items.push(Item { attrs: attrs.clone(), kind: "struct".to_string(), name: name.clone(), fieldset: fieldset(body)?, variants: vec![], pub_fields: true }),
                _ => {
                    let inner = &body[1..body.len() - 1];
                    let mut variants = vec![];
                    let mut k = 0;
                    while k < inner.len() {
                        let vname = inner[k].clone();
                        let mut e = k + 1;
                        if inner.get(e).map_or(false, |s| s == "{" || s == "(") {
                            let mut depth = 0i32;
                            loop {
                                let u = inner.get(e)?;
                                if u == "{" || u == "(" { depth += 1; }
                                if u == "}" || u == ")" { depth -= 1; }
                                e += 1;
                                if depth == 0 { break; }
                            }
                        }
                        variants.push((vname, fieldset(&inner[k + 1..e])?));
                        k = e;
                    }
                    items.push(Item { attrs: attrs.clone(), kind: "enum".to_string(), name: name.clone(), fieldset: Fs::Unit, variants, pub_fields: false });
                }
            }
        }
        let mut all = vec![terminal_item?];
        all.extend(items);
        Some((start?, all))
    }

    /// split at top-level commas (brackets of all four kinds nest; a trailing comma adds nothing)
    fn split_commas(toks: &[String]) -> Vec<Vec<String>> {
        let mut out = vec![];
        let mut cur = vec![];
        let mut depth = 0i32;
        for t in toks {
            match t.as_str() { "<" | "(" | "[" | "{" => depth += 1, ">" | ")" | "]" | "}" => depth -= 1, _ => {} }
            if t == "," && depth == 0 { out.push(std::mem::take(&mut cur)); } else { cur.push(t.clone()); }
        }
        if !cur.is_empty() { out.push(cur); }
        out
    }
    fn close_of(toks: &[String], open: usize) -> Option<usize> {
        let mut depth = 0i32;
        for (k, t) in toks.iter().enumerate().skip(open) {
            match t.as_str() { "<" | "(" | "[" | "{" => depth += 1, ">" | ")" | "]" | "}" => { depth -= 1; if depth == 0 { return Some(k); } } _ => {} }
        }
        None
    }
    /// (fieldset, whether every field is `pub`, index after it)
    fn read_fieldset(toks: &[String], at: usize) -> Option<(Fs, bool, usize)> {
        match toks.get(at).map(|s| s.as_str()) {
            Some("{") => {
                let c = close_of(toks, at)?;
                let mut all_pub = true;
                let mut fs = vec![];
                for f in split_commas(&toks[at + 1..c]) {
                    let (is_pub, f) = if f.first().map_or(false, |s| s == "pub") { (true, &f[1..]) } else { (false, &f[..]) };
                    all_pub &= is_pub;
                    if f.get(1).map(|s| s.as_str()) != Some(":") { return None; }
                    fs.push((f[0].clone(), f[2..].to_vec()));
                }
                Some((Fs::Named(fs), all_pub, c + 1))
            }
            Some("(") => {
                let c = close_of(toks, at)?;
                let mut all_pub = true;
                let mut fs = vec![];
                for f in split_commas(&toks[at + 1..c]) {
                    let (is_pub, f) = if f.first().map_or(false, |s| s == "pub") { (true, &f[1..]) } else { (false, &f[..]) };
                    all_pub &= is_pub;
                    fs.push(f.to_vec());
                }
                Some((Fs::Tuple(fs), all_pub, c + 1))
            }
            _ => Some((Fs::Unit, true, at)),
        }
    }
    /// the type definitions found between the lint attributes and `pub fn parse`, and the tokens of the parse signature up to its body
    fn emitted_items(out: &str) -> Option<(Vec<Item>, Vec<String>)> {
        let lines: Vec<&str> = out.lines().collect();
        let first = lines.iter().position(|l| !(l.starts_with("//") || l.trim().is_empty() || l.starts_with("#![")))?;
        let parse_at = lines.iter().position(|l| l.starts_with("pub fn parse"))?;
        let mut end = parse_at;
        while end > first && lines[end - 1].starts_with("///") { end -= 1; }
        let mut items = vec![];
        let mut attrs: Vec<String> = vec![];
        let mut k = first;
        while k < end {
            let l = lines[k];
            if l.trim().is_empty() { k += 1; continue; }
            if l.starts_with("#[") { attrs.push(l.to_string()); k += 1; continue; }
            // one definition: from this line to the line that closes it
            let mut text = String::new();
            let mut depth = 0i32;
            loop {
                let l = *lines.get(k)?;
                if k >= end { return None; }
                for c in l.chars() { match c { '{' | '(' => depth += 1, '}' | ')' => depth -= 1, _ => {} } }
                text.push_str(l);
                text.push('\n');
                k += 1;
                if depth == 0 && (l.trim_end().ends_with('}') || l.trim_end().ends_with(';')) { break; }
            }
            let t = rust_tokens(&text);
            if t.first().map(|s| s.as_str()) != Some("pub") { return None; }
            let kind = t.get(1)?.clone();
            let name = t.get(2)?.clone();
            if kind == "struct" {
                let (fs, all_pub, _) = read_fieldset(&t, 3)?;
                items.push(Item { attrs: std::mem::take(&mut attrs), kind, name, fieldset: fs, variants: vec![], pub_fields: all_pub });
            } else if kind == "enum" {
                let c = close_of(&t, 3)?;
                let mut variants = vec![];
                for v in split_commas(&t[4..c]) {
                    let (fs, _, _) = read_fieldset(&v, 1)?;
                    variants.push((v[0].clone(), fs));
                }
                items.push(Item { attrs: std::mem::take(&mut attrs), kind, name, fieldset: Fs::Unit, variants, pub_fields: false });
            } else { return None; }
        }
        let mut sig = String::new();
        for l in &lines[parse_at..] { if let Some(i) = l.find('{') { sig.push_str(&l[..i]); break; } sig.push_str(l); sig.push(' '); }
        Some((items, rust_tokens(&sig)))
    }

    const PAYLOADS: &[&str] = &["( )", "u8", "crate :: P0", "std :: string :: String", "Vec < u8 >", "Vec < ( ) >", "Map < a :: K , Vec < Option < b :: V > > >", "Box < Box < Box < T > > >", "Result < ( ) , E >"];
    const ATTRS: &[&str] = &["#[a]", "#[derive(Clone,~Debug)]", "#[doc~=~\"\u{e9}~\u{2200}~(~[~{~}~]~)~//~x\"]", "#[cfg_attr(all(),~allow(unused))]", "#[x~=~\"#[a]\"]", "#[~spaced~~out~]", "#[k({[({[x]})]})]", "#[serde(rename~=~\"$X~start~_\")]", "#[derive(Clone,<TAB>Debug)]", "#[doc~=~\"two~~blanks<TAB>and~~~more\"]", "#[\u{65e5}]", "#[k(\u{2200})\u{1f600}]", "#[\u{1f600}{\u{e9}}\u{2200}[\u{65e5}]]"];

    fn types_family() -> Vec<Vec<String>> {
        let mut fam: Vec<String> = VALID.iter().map(|s| s.to_string()).collect();
        let du: [String; 12] = DEFAULT_UPPER.map(|s| s.to_string());
        let dl: [String; 4] = DEFAULT_LOWER.map(|s| s.to_string());
        fam.extend(SHAPES.iter().map(|s| instantiate(s, &du, &dl)));
        fam.extend(enumerated(1, if thorough() { 1 } else { 5 }));
        for (i, p) in PAYLOADS.iter().enumerate() {
            let q = PAYLOADS[(i + 4) % PAYLOADS.len()];
            fam.push(format!("start S enum S {{ A ( $X ) B {{ x : $X _ : $Y y : $Y z : S }} C ( _ : $X $Y ) }} struct N {{ a : $Y }} struct M ( $X $Y ) terminal T {{ $X : {} $Y : {} }}", p, q));
        }
        let deep = format!("#[d{}x{}]", "(".repeat(300), ")".repeat(300));
        let mut attrs: Vec<String> = ATTRS.iter().map(|s| s.to_string()).collect();
        attrs.push(deep);
        for i in 0..attrs.len() {
            let a = |k: usize| attrs[(i + k) % attrs.len()].clone();
            fam.push(format!("start S {} struct S ( E $X ) {} {} enum E {{ V W ( $X ) }} {} {} {} terminal T {{ $X : ( ) }}", a(0), a(1), a(2), a(3), a(4), a(5)));
            fam.push(format!("start S struct S {{ e : E }} enum E {{ V }} struct U {} {} {} struct W ( $X ) terminal T {{ $X : u8 }}", a(0), a(0), a(1)));
        }
        // attributes on declarations without content, terminals whose names differ only in case
        fam.push("start S struct S ( $X ) #[a] #[b(c)] enum E { } #[c] struct U #[d] terminal T { $X : ( ) }".to_string());
        fam.push("start S struct S ( $AB $Ab $ABc ) struct N { p : $Ab q : $AB r : $ABc } terminal T { $Ab : u8 $AB : ( ) $ABc : Vec < u8 > }".to_string());
        fam.push("start My_Expr enum My_Expr { V_1 ( $L_Paren My_Expr $R_PAREN ) V__2 { my_field : $Num_9 _x : Other_ } } struct Other_ ( $L_Paren ) terminal Tok_T { $L_Paren : ( ) $R_PAREN : ( ) $Num_9 : u8 }".to_string());
        fam.iter().map(|c| tokens(c)).collect()
    }

    fn strip_types(fs: &Fs, terminal_types: &[(String, Vec<String>)]) -> Fs {
        // the structure projection: a payload type is replaced by the name of a terminal that carries it in the EMITTED terminal enum
        let abs = |t: &Vec<String>| -> Vec<String> {
            if t.first().map_or(false, |s| s == "Box") && t.len() == 4 { return t.clone(); }
            match terminal_types.iter().find(|p| p.1 == *t) { Some(_) => vec!["<payload>".to_string()], None => vec!["<unknown payload>".to_string()] }
        };
        match fs { Fs::Unit => Fs::Unit, Fs::Named(v) => Fs::Named(v.iter().map(|(n, t)| (n.clone(), abs(t))).collect()), Fs::Tuple(v) => Fs::Tuple(v.iter().map(abs).collect()) }
    }
    fn structure_of(items: &[Item]) -> Vec<Item> {
        let terminal_types: Vec<(String, Vec<String>)> = items.first().map_or(vec![], |t| t.variants.iter().map(|(n, fs)| (n.clone(), match fs { Fs::Tuple(v) if v.len() == 1 => v[0].clone(), _ => vec![] })).collect());
        items.iter().enumerate().map(|(i, it)| Item {
            attrs: vec![], kind: it.kind.clone(), name: it.name.clone(), pub_fields: it.pub_fields || it.kind == "enum",
            fieldset: it.fieldset.clone(),
            variants: it.variants.iter().map(|(n, fs)| (n.clone(), if i == 0 { Fs::Unit } else { fs.clone() })).collect(),
        }).collect()
    }
    fn payload_sites(items: &[Item]) -> Vec<(String, Vec<String>)> {
        let mut out = vec![];
        let mut visit = |site: String, fs: &Fs| match fs {
            Fs::Unit => {}
            Fs::Named(v) => for (n, t) in v { if !(t.first().map_or(false, |s| s == "Box") && t.len() == 4) { out.push((format!("{}.{}", site, n), t.clone())); } },
            Fs::Tuple(v) => for (k, t) in v.iter().enumerate() { if !(t.first().map_or(false, |s| s == "Box") && t.len() == 4) { out.push((format!("{}.{}", site, k), t.clone())); } },
        };
        for it in items {
            visit(it.name.clone(), &it.fieldset);
            for (n, fs) in &it.variants { visit(format!("{}::{}", it.name, n), fs); }
        }
        out
    }

    fn emitted_check(which: &str) {
        let mut n = 0usize;
        let layouts: &[usize] = if which == "attributes" { &[1, 6] } else { &[1] };     // attributes also where nothing separates them from their neighbours
        for (toks, layout) in types_family().into_iter().flat_map(|t| layouts.iter().map(move |l| (t.clone(), *l))) {
            let text = render(&toks, layout).0;
            let leaf = format!("generate(emitted-{})", which.replace(' ', "-"));
            let out = match run(&text) {
                Some(Ok(out)) => out,
                rejected => {
                    // the file is not accepted. It counts against this property only if the part the property is about is to blame: the same file
                    // without its attributes (C12) / with every payload type replaced by `()` (C13) is accepted
                    let simpler: Option<Vec<String>> = match which {
                        "attributes" => Some(toks.iter().filter(|t| !t.starts_with("#[")).cloned().collect()),
                        "payload types" => {
                            let mut out = vec![];
                            let mut k = 0;
                            let mut in_terminal = false;
                            while k < toks.len() {
                                if toks[k] == "terminal" { in_terminal = true; }
                                if in_terminal && toks[k].starts_with('$') && toks.get(k + 1).map_or(false, |c| c == ":") {
                                    out.extend([toks[k].clone(), ":".to_string(), "(".to_string(), ")".to_string()]);
                                    k += 2;
                                    let mut depth = 0i32;
                                    while k < toks.len() && !(depth == 0 && (toks[k].starts_with('$') || toks[k] == "}")) {
                                        match toks[k].as_str() { "<" | "(" => depth += 1, ">" | ")" => depth -= 1, _ => {} }
                                        k += 1;
                                    }
                                    continue;
                                }
                                out.push(toks[k].clone());
                                k += 1;
                            }
                            Some(out)
                        }
                        _ => None,
                    };
                    if let Some(simpler) = simpler {
                        if simpler != toks && matches!(run(&render(&simpler, layout).0), Some(Ok(_))) {
                            let got = match rejected { Some(Err(e)) => format!("Err({:?})", e).chars().take(160).collect::<String>(), _ => "panic".to_string() };
                            println!("LEAFCHECK-FAIL leaf={} input={} got={} want=accepted and reproduced: the same file {} is accepted", leaf, brief(&text), got,
                                if which == "attributes" { "without its attributes" } else { "with `()` for every payload type" });
                            panic!("a file is rejected because of its {}", which);
                        }
                    }
                    continue;
                }
            };
            let Some((start, want)) = expected_items(&toks) else { panic!("the family holds a file this module cannot read: {}", text) };
            let Some((got, sig)) = emitted_items(&out.0) else {
                // no verdict: the layout of the emitted text is not what this reader knows (no LEAFCHECK-FAIL line, the runner reports the check as undecided)
                panic!("{}: type section of the emitted text cannot be read back for {}", leaf, brief(&text));
            };
            let fail = |got: String, want: String| {
                println!("LEAFCHECK-FAIL leaf={} input={} got={} want={}", leaf, brief(&text), got, want);
                panic!("emitted types differ from the declarations");
            };
            match which {
                "structure" => {
                    let (g, w) = (structure_of(&got), structure_of(&want));
                    if g != w {
                        let k = g.iter().zip(w.iter()).position(|(a, b)| a != b).unwrap_or(g.len().min(w.len()));
                        fail(format!("{} definitions, first difference: {:?}", g.len(), g.get(k)), format!("{} definitions: {:?}", w.len(), w.get(k)));
                    }
                    let tn = &want[0].name;
                    let p = sig.get(4).cloned().unwrap_or_default();
                    let want_sig = rust_tokens(&format!("pub fn parse<{p}>(src: {p}) -> Result<{start}, Option<{tn}>> where {p}: IntoIterator<Item = {tn}>"));
                    if sig != want_sig { fail(format!("signature {}", sig.join(" ")), want_sig.join(" ")); }
                }
                "attributes" => {
                    let g: Vec<(String, Vec<String>)> = got.iter().map(|i| (i.name.clone(), i.attrs.clone())).collect();
                    let w: Vec<(String, Vec<String>)> = want.iter().map(|i| (i.name.clone(), i.attrs.clone())).collect();
                    if g != w { fail(format!("{:?}", g), format!("{:?}", w)); }
                    // nowhere else: every distinct attribute text occurs in the emitted text as often as it was written
                    for it in &want { for a in &it.attrs {
                        let written: usize = want.iter().map(|i| i.attrs.iter().filter(|b| *b == a).count()).sum();
                        // an attribute text may be a substring of another one of the same file: count those occurrences as written too
                        let inside: usize = want.iter().map(|i| i.attrs.iter().filter(|b| *b != a).map(|b| b.matches(a.as_str()).count()).sum::<usize>()).sum();
                        let found = out.0.matches(a.as_str()).count();
                        if found != written + inside { fail(format!("{} occurrences of {} in the emitted text", found, a), format!("{}", written + inside)); }
                    } }
                }
                _ => {
                    let (g, w) = (payload_sites(&got), payload_sites(&want));
                    if g != w {
                        let k = g.iter().zip(w.iter()).position(|(a, b)| a != b).unwrap_or(g.len().min(w.len()));
                        fail(format!("{:?}", g.get(k)), format!("{:?}", w.get(k)));
                    }
                }
            }
            n += 1;
        }
        println!("LEAFCHECK leaf=generate(emitted-{}) cases={}", which.replace(' ', "-"), n);
    }
    #[test]
    fn leaf_emitted_structure() { emitted_check("structure"); }
    #[test]
    fn leaf_emitted_attributes() { emitted_check("attributes"); }
    #[test]
    fn leaf_emitted_payload_types() { emitted_check("payload types"); }
    // ------------------------------------------------------------------ C10 ------------------------------------------------------------------
    #[derive(Clone, Debug)]
    struct SymRef { name: String, terminal: bool, at: usize }          // `at`: byte position the generator reports for this occurrence
    #[derive(Clone, Debug)]
    struct FieldM { name: Option<(String, usize)>, sym: SymRef }       // name: Some for `x: ...` in a named fieldset
    #[derive(Clone, Debug)]
    struct VariantM { name: (String, usize), fields: Vec<FieldM> }
    #[derive(Clone, Debug)]
    struct NontermM { name: (String, usize), is_enum: bool, fields: Vec<FieldM>, variants: Vec<VariantM> }
    #[derive(Clone, Debug)]
    struct TermEnumM { name: (String, usize), variants: Vec<(String, usize)> }
    #[derive(Clone, Debug, Default)]
    struct FileM { starts: Vec<(String, usize)>, nonterminals: Vec<NontermM>, terminal_enums: Vec<TermEnumM> }

    fn read_file(toks: &[String], pos: &[usize]) -> Option<FileM> {
        let mut f = FileM::default();
        let sym = |k: usize| -> Option<SymRef> {
            let t = toks.get(k)?;
            Some(match t.strip_prefix('$') { Some(n) => SymRef { name: n.to_string(), terminal: true, at: pos[k] + 1 }, None => SymRef { name: t.clone(), terminal: false, at: pos[k] } })
        };
        // fieldset starting at k (or none): returns fields and the index after it
        let fieldset = |k: usize| -> Option<(Vec<FieldM>, usize)> {
            match toks.get(k).map(|s| s.as_str()) {
                Some("{") => {
                    let mut fs = vec![];
                    let mut j = k + 1;
                    while toks.get(j)? != "}" {
                        if toks.get(j + 1)? != ":" { return None; }
                        let name = if toks[j] == "_" { None } else { Some((toks[j].clone(), pos[j])) };
                        fs.push(FieldM { name, sym: sym(j + 2)? });
                        j += 3;
                    }
                    Some((fs, j + 1))
                }
                Some("(") => {
                    let mut fs = vec![];
                    let mut j = k + 1;
                    while toks.get(j)? != ")" {
                        if toks[j] == "_" { fs.push(FieldM { name: None, sym: sym(j + 2)? }); j += 3; } else { fs.push(FieldM { name: None, sym: sym(j)? }); j += 1; }
                    }
                    Some((fs, j + 1))
                }
                _ => Some((vec![], k)),
            }
        };
        let mut i = 0;
        while i < toks.len() {
            let t = toks[i].as_str();
            if t.starts_with("#[") { i += 1; continue; }
            match t {
                "start" => { f.starts.push((toks.get(i + 1)?.clone(), pos[i + 1])); i += 2; }
                "struct" => {
                    let (fields, j) = fieldset(i + 2)?;
                    f.nonterminals.push(NontermM { name: (toks.get(i + 1)?.clone(), pos[i + 1]), is_enum: false, fields, variants: vec![] });
                    i = j;
                }
                "enum" => {
                    if toks.get(i + 2)? != "{" { return None; }
                    let mut variants = vec![];
                    let mut j = i + 3;
                    while toks.get(j)? != "}" {
                        let (fields, e) = fieldset(j + 1)?;
                        variants.push(VariantM { name: (toks[j].clone(), pos[j]), fields });
                        j = e;
                    }
                    f.nonterminals.push(NontermM { name: (toks.get(i + 1)?.clone(), pos[i + 1]), is_enum: true, fields: vec![], variants });
                    i = j + 1;
                }
                "terminal" => {
                    if toks.get(i + 2)? != "{" { return None; }
                    let mut variants = vec![];
                    let mut j = i + 3;
                    let mut depth = 0i32;
                    while !(toks.get(j)? == "}" && depth == 0) {
                        match toks[j].as_str() { "<" | "(" => depth += 1, ">" | ")" => depth -= 1, _ => {} }
                        if let Some(n) = toks[j].strip_prefix('$') { variants.push((n.to_string(), pos[j] + 1)); }
                        j += 1;
                    }
                    f.terminal_enums.push(TermEnumM { name: (toks.get(i + 1)?.clone(), pos[i + 1]), variants });
                    i = j + 1;
                }
                _ => return None,
            }
        }
        Some(f)
    }
    fn first_letter(s: &str) -> Option<char> { s.chars().find(|c| c.is_ascii_alphabetic()) }
    fn upper_ok(s: &str) -> bool { first_letter(s).map_or(true, |c| c.is_ascii_uppercase()) }
    fn lower_ok(s: &str) -> bool { first_letter(s).map_or(true, |c| c.is_ascii_lowercase()) }
    fn sym_debug(r: &SymRef) -> String { if r.terminal { format!("Terminal(DollarlessTerminalName({:?}))", r.name) } else { format!("Nonterminal({:?})", r.name) } }
    fn all_fieldsets(f: &FileM) -> Vec<&Vec<FieldM>> {
        let mut out = vec![];
        for n in &f.nonterminals { if n.is_enum { for v in &n.variants { out.push(&v.fields); } } else { out.push(&n.fields); } }
        out
    }
    /// every top-level definition: (name, position)
    fn definitions(f: &FileM) -> Vec<(String, usize)> {
        let mut d: Vec<(String, usize)> = f.nonterminals.iter().map(|n| n.name.clone()).collect();
        for t in &f.terminal_enums { d.extend(t.variants.iter().cloned()); d.push(t.name.clone()); }
        d
    }
    /// the statement of C10, first half
    fn well_formed(f: &FileM) -> bool {
        let nt = |n: &str| f.nonterminals.iter().any(|x| x.name.0 == n);
        if f.starts.len() != 1 || f.terminal_enums.len() != 1 || !nt(&f.starts[0].0) { return false; }
        let te = &f.terminal_enums[0];
        let term = |n: &str| te.variants.iter().any(|x| x.0 == n);
        let d = definitions(f);
        for (i, a) in d.iter().enumerate() { for b in &d[i + 1..] { if a.0 == b.0 { return false; } } }
        if !upper_ok(&te.name.0) || te.variants.iter().any(|v| !upper_ok(&v.0)) { return false; }
        for n in &f.nonterminals {
            if !upper_ok(&n.name.0) { return false; }
            for (i, v) in n.variants.iter().enumerate() {
                if !upper_ok(&v.name.0) { return false; }
                for w in &n.variants[i + 1..] {
                    if v.name.0 == w.name.0 { return false; }
                    let (a, b): (Vec<String>, Vec<String>) = (v.fields.iter().map(|x| sym_debug(&x.sym)).collect(), w.fields.iter().map(|x| sym_debug(&x.sym)).collect());
                    if a == b { return false; }
                }
            }
        }
        for fs in all_fieldsets(f) { for x in fs {
            if let Some((n, _)) = &x.name { if !lower_ok(n) { return false; } }
            if x.sym.terminal { if !term(&x.sym.name) { return false; } } else if !nt(&x.sym.name) { return false; }
        } }
        true
    }
    /// the statement of C10, second half: `None` = not a validation error
    fn truthful(f: &FileM, e: &KikiErr) -> Option<bool> {
        let nt = |n: &str| f.nonterminals.iter().any(|x| x.name.0 == n);
        Some(match e {
            KikiErr::NoStartSymbol => f.starts.is_empty(),
            KikiErr::MultipleStartSymbols(ps) => f.starts.len() >= 2 && ps.len() >= 2 && ps.iter().all(|p| f.starts.iter().any(|s| s.1 == p.0)) && ps.iter().enumerate().all(|(i, p)| ps[..i].iter().all(|q| q != p)),
            KikiErr::NoTerminalEnum => f.terminal_enums.is_empty(),
            KikiErr::MultipleTerminalEnums(ps) => f.terminal_enums.len() >= 2 && ps.len() >= 2 && ps.iter().all(|p| f.terminal_enums.iter().any(|s| s.name.1 == p.0)) && ps.iter().enumerate().all(|(i, p)| ps[..i].iter().all(|q| q != p)),
            KikiErr::SymbolOrTerminalEnumNameFirstLetterNotUppercase(p) => {
                let mut names: Vec<(String, usize)> = definitions(f);
                for n in &f.nonterminals { names.extend(n.variants.iter().map(|v| v.name.clone())); }
                names.iter().any(|(n, q)| *q == p.0 && !upper_ok(n))
            }
            KikiErr::FieldFirstLetterNotLowercase(p) => all_fieldsets(f).iter().any(|fs| fs.iter().any(|x| x.name.as_ref().map_or(false, |(n, q)| *q == p.0 && !lower_ok(n)))),
            KikiErr::NameClash(n, p, q) => { let d = definitions(f); p != q && d.iter().any(|x| x.0 == *n && x.1 == p.0) && d.iter().any(|x| x.0 == *n && x.1 == q.0) }
            KikiErr::NonterminalEnumVariantNameClash(n, p, q) => p != q && f.nonterminals.iter().any(|e| e.variants.iter().any(|v| v.name.0 == *n && v.name.1 == p.0) && e.variants.iter().any(|v| v.name.0 == *n && v.name.1 == q.0)),
            KikiErr::NonterminalEnumVariantSymbolSequenceClash(syms, p, q) => {
                let want: Vec<String> = syms.iter().map(|s| format!("{:?}", s)).collect();
                let seq = |v: &VariantM| -> Vec<String> { v.fields.iter().map(|x| sym_debug(&x.sym)).collect() };
                p != q && f.nonterminals.iter().any(|e| e.variants.iter().any(|v| v.name.1 == p.0 && seq(v) == want) && e.variants.iter().any(|v| v.name.1 == q.0 && seq(v) == want))
            }
            KikiErr::UndefinedNonterminal(n, p) => !nt(n) && (f.starts.iter().any(|s| s.0 == *n && s.1 == p.0)
                || all_fieldsets(f).iter().any(|fs| fs.iter().any(|x| !x.sym.terminal && x.sym.name == *n && x.sym.at == p.0))),
            KikiErr::UndefinedTerminal(n, p) => !f.terminal_enums.iter().any(|t| t.variants.iter().any(|v| v.0 == n.raw()))
                && all_fieldsets(f).iter().any(|fs| fs.iter().any(|x| x.sym.terminal && x.sym.name == n.raw() && x.sym.at == p.0)),
            _ => return None,
        })
    }

    const BASES: &[&str] = &[
        "start S enum S { A ( T $X ) B { x : $Y y : T } C } struct T ( $X _ : $Y ) terminal Tok { $X : ( ) $Y : u8 }",
        "start E enum E { Add { l : E _ : $Plus r : F } One ( F ) } enum F { Num ( $N ) Par ( $L E $R ) } terminal K { $Plus : ( ) $N : ( ) $L : ( ) $R : ( ) }",
        "start S struct S { a : A b : B } struct A ( $X ) struct B ( $Y ) terminal T { $X : ( ) $Y : ( ) }",
        "start S start T struct S struct T ( S ) terminal K { $X : ( ) } terminal L { $Y : ( ) }",
        "start S enum S { A B ( $X ) } enum T { A B ( $X ) }",
        "struct S ( $X ) enum E { V ( S ) W ( E ) } terminal T { $X : ( ) }",
        "start S enum S { A ( $X $X ) B ( $X ) C ( _ : $X ) D { p : $X q : $X } } terminal T { $X : ( ) }",
        "start S enum S { Neg { _ : $Minus val : $Num } Lit { val : $Num } Par ( _ : $L S _ : $R ) Bare ( S ) } terminal T { $Minus : ( ) $Num : ( ) $L : ( ) $R : ( ) }",
        "start S_1 struct S_1 { _0 : $X_ _1st : $X_ x9 : __9Y __ : __9Y } struct __9Y ( $_9Z ) terminal T_ { $X_ : ( ) $_9Z : ( ) }",
    ];
    fn validation_family() -> Vec<Vec<String>> {
        let mut fam: Vec<Vec<String>> = VALID.iter().chain(CONFLICTING).chain(INVALID).map(|c| tokens(c)).collect();
        fam.extend(enumerated(1, 1).iter().map(|c| tokens(c)));
        let is_name = |t: &str| !matches!(t, "start" | "struct" | "enum" | "terminal" | "_" | "u8") && t.chars().next().map_or(false, |c| c.is_ascii_alphabetic() || c == '$');
        for b in BASES {
            let t = tokens(b);
            fam.push(t.clone());
            let names: Vec<usize> = (0..t.len()).filter(|k| is_name(&t[*k])).collect();
            for &j in &names {
                // case flip of the first letter
                let mut u = t.clone();
                let (d, core) = match u[j].strip_prefix('$') { Some(c) => ("$", c.to_string()), None => ("", u[j].clone()) };
                let mut cs: Vec<char> = core.chars().collect();
                cs[0] = if cs[0].is_ascii_uppercase() { cs[0].to_ascii_lowercase() } else { cs[0].to_ascii_uppercase() };
                u[j] = format!("{}{}", d, cs.iter().collect::<String>());
                fam.push(u);
                for &i in &names {
                    if i == j || t[i] == t[j] || t[i].starts_with('$') != t[j].starts_with('$') { continue; }
                    let mut u = t.clone();
                    u[j] = t[i].clone();
                    fam.push(u);
                }
                // this occurrence alone becomes a name that nothing defines
                let mut u = t.clone();
                u[j] = format!("{}{}", d, if cs[0].is_ascii_uppercase() { "zz9" } else { "Zz9" });
                fam.push(u);
                // every occurrence of the name renamed at once: flipped case, flipped case behind underscores, same case behind underscores
                if names.iter().position(|&k| t[k] == t[j]) == names.iter().position(|&k| k == j) {
                    let flipped: String = cs.iter().collect();
                    for new in [flipped.clone(), format!("_{}", flipped), format!("__9{}", flipped), format!("_{}", core)] {
                        let u: Vec<String> = t.iter().map(|x| if *x == t[j] { format!("{}{}", d, new) } else if x.strip_prefix('$') == Some(&core) && d.is_empty() { x.clone() } else { x.clone() }).collect();
                        fam.push(u);
                    }
                }
            }
        }
        fam
    }

    #[test]
    fn leaf_validation_truthful() {
        let mut n = 0usize;
        for toks in validation_family() {
            let (text, pos) = render(&toks, if n % 2 == 0 { 0 } else { 3 });
            let Some(file) = read_file(&toks, &pos) else { continue };
            let wf = well_formed(&file);
            match run(&text) {
                // on a well-formed file a panic is the business of leaf_generate_total; on an ill-formed one it means the violation went unreported
                None => if !wf {
                    println!("LEAFCHECK-FAIL leaf=generate(validation) input={} got=panic in a later stage want=a validation error (the file breaks a static rule)", brief(&text));
                    panic!("ill-formed file passed validation");
                },
                Some(Ok(_)) => if !wf {
                    println!("LEAFCHECK-FAIL leaf=generate(validation) input={} got=Ok want=a validation error (the file breaks a static rule)", brief(&text));
                    panic!("ill-formed file accepted");
                },
                Some(Err(e)) => match truthful(&file, &e) {
                    Some(true) => if wf {
                        println!("LEAFCHECK-FAIL leaf=generate(validation) input={} got=Err({:?}) want=no validation error (the file obeys every static rule)", brief(&text), e);
                        panic!("well-formed file rejected");
                    },
                    Some(false) => {
                        println!("LEAFCHECK-FAIL leaf=generate(validation) input={} got=Err({:?}) want=an error that describes a violation present at the positions it carries", brief(&text), e);
                        panic!("untruthful validation error");
                    }
                    None => if !wf && !matches!(e, KikiErr::Lex(..) | KikiErr::Parse(..)) {
                        println!("LEAFCHECK-FAIL leaf=generate(validation) input={} got=a later stage ran (table conflict) want=a validation error (the file breaks a static rule)", brief(&text));
                        panic!("ill-formed file passed validation");
                    },
                },
            }
            n += 1;
        }
        println!("LEAFCHECK leaf=generate(validation) cases={}", n);
    }
    // ------------------------------------------------------------------ C04 / C11 / C17 ------------------------------------------------------------------
    use std::collections::{BTreeMap, BTreeSet};
    #[derive(Clone, Copy, Debug, PartialEq, Eq, PartialOrd, Ord)]
    enum Sy { T(usize), N(usize) }
    /// rules in declaration order (one per struct, one per enum variant); terminal `terms.len()` is the end of input, rule `rules.len()` the augmented rule
    struct Gram { nts: Vec<String>, terms: Vec<String>, rules: Vec<(usize, Vec<Sy>)>, start: usize }
    type It = (usize, usize, usize);     // (rule, dot, lookahead)

    fn grammar_of(f: &FileM) -> Gram {
        let nts: Vec<String> = f.nonterminals.iter().map(|n| n.name.0.clone()).collect();
        let terms: Vec<String> = f.terminal_enums[0].variants.iter().map(|v| v.0.clone()).collect();
        let sy = |r: &SymRef| if r.terminal { Sy::T(terms.iter().position(|t| *t == r.name).unwrap()) } else { Sy::N(nts.iter().position(|t| *t == r.name).unwrap()) };
        let mut rules = vec![];
        for (i, n) in f.nonterminals.iter().enumerate() {
            if n.is_enum { for v in &n.variants { rules.push((i, v.fields.iter().map(|x| sy(&x.sym)).collect())); } } else { rules.push((i, n.fields.iter().map(|x| sy(&x.sym)).collect())); }
        }
        let start = nts.iter().position(|t| *t == f.starts[0].0).unwrap();
        Gram { nts, terms, rules, start }
    }
    impl Gram {
        fn rhs(&self, r: usize) -> Vec<Sy> { if r == self.rules.len() { vec![Sy::N(self.start)] } else { self.rules[r].1.clone() } }
        fn nullable_first(&self) -> (Vec<bool>, Vec<BTreeSet<usize>>) {
            let mut nullable = vec![false; self.nts.len()];
            let mut first = vec![BTreeSet::new(); self.nts.len()];
            loop {
                let mut changed = false;
                for (lhs, rhs) in &self.rules {
                    let mut all_nullable = true;
                    for s in rhs {
                        match s {
                            Sy::T(t) => { changed |= first[*lhs].insert(*t); all_nullable = false; }
                            Sy::N(n) => { let add: Vec<usize> = first[*n].iter().cloned().collect(); for t in add { changed |= first[*lhs].insert(t); } if !nullable[*n] { all_nullable = false; } }
                        }
                        if !all_nullable { break; }
                    }
                    if all_nullable && !nullable[*lhs] { nullable[*lhs] = true; changed = true; }
                }
                if !changed { return (nullable, first); }
            }
        }
        fn closure(&self, kernel: &BTreeSet<It>, nf: &(Vec<bool>, Vec<BTreeSet<usize>>)) -> BTreeSet<It> {
            let mut set = kernel.clone();
            let mut work: Vec<It> = kernel.iter().cloned().collect();
            while let Some((r, d, la)) = work.pop() {
                let rhs = self.rhs(r);
                let Some(Sy::N(b)) = rhs.get(d).cloned() else { continue };
                // FIRST(beta la)
                let mut las = BTreeSet::new();
                let mut all_nullable = true;
                for s in &rhs[d + 1..] {
                    match s { Sy::T(t) => { las.insert(*t); all_nullable = false; } Sy::N(n) => { las.extend(nf.1[*n].iter().cloned()); if !nf.0[*n] { all_nullable = false; } } }
                    if !all_nullable { break; }
                }
                if all_nullable { las.insert(la); }
                for (k, (lhs, _)) in self.rules.iter().enumerate() {
                    if *lhs != b { continue; }
                    for l in &las { let it = (k, 0, *l); if set.insert(it) { work.push(it); } }
                }
            }
            set
        }
        /// the LALR(1) automaton by its definition: canonical LR(1) collection, then states with equal cores merged.
        /// Returns (states as item sets, transitions (from, symbol) -> to, start state)
        fn lalr(&self) -> (Vec<BTreeSet<It>>, BTreeMap<(usize, Sy), usize>, usize) {
            let nf = self.nullable_first();
            let eof = self.terms.len();
            let s0 = self.closure(&[(self.rules.len(), 0, eof)].into_iter().collect(), &nf);
            let mut states = vec![s0.clone()];
            let mut index: BTreeMap<BTreeSet<It>, usize> = [(s0, 0)].into_iter().collect();
            let mut trans: BTreeMap<(usize, Sy), usize> = BTreeMap::new();
            let mut k = 0;
            while k < states.len() {
                let st = states[k].clone();
                let mut by_sym: BTreeMap<Sy, BTreeSet<It>> = BTreeMap::new();
                for (r, d, la) in &st { if let Some(s) = self.rhs(*r).get(*d) { by_sym.entry(*s).or_default().insert((*r, d + 1, *la)); } }
                for (s, kernel) in by_sym {
                    let c = self.closure(&kernel, &nf);
                    let to = match index.get(&c) { Some(i) => *i, None => { states.push(c.clone()); index.insert(c, states.len() - 1); states.len() - 1 } };
                    trans.insert((k, s), to);
                }
                k += 1;
            }
            // merge by core
            let core = |st: &BTreeSet<It>| -> BTreeSet<(usize, usize)> { st.iter().map(|(r, d, _)| (*r, *d)).collect() };
            let mut cores: Vec<BTreeSet<(usize, usize)>> = vec![];
            let mut merged: Vec<BTreeSet<It>> = vec![];
            let mut class = vec![0usize; states.len()];
            for (i, st) in states.iter().enumerate() {
                let c = core(st);
                match cores.iter().position(|x| *x == c) { Some(j) => { merged[j].extend(st.iter().cloned()); class[i] = j; } None => { cores.push(c); merged.push(st.clone()); class[i] = cores.len() - 1; } }
            }
            let mut mtrans = BTreeMap::new();
            for ((from, s), to) in trans { mtrans.insert((class[from], s), class[to]); }
            (merged, mtrans, class[0])
        }
    }
    #[derive(Clone, Copy, Debug, PartialEq, Eq, PartialOrd, Ord)]
    enum Act { Shift, Reduce(usize), Accept }
    /// the actions each (state, lookahead) cell is asked for
    fn demands(g: &Gram, states: &[BTreeSet<It>]) -> Vec<BTreeMap<usize, BTreeSet<Act>>> {
        states.iter().map(|st| {
            let mut m: BTreeMap<usize, BTreeSet<Act>> = BTreeMap::new();
            for (r, d, la) in st {
                match g.rhs(*r).get(*d) {
                    Some(Sy::T(t)) => { m.entry(*t).or_default().insert(Act::Shift); }
                    Some(Sy::N(_)) => {}
                    None => { m.entry(*la).or_default().insert(if *r == g.rules.len() { Act::Accept } else { Act::Reduce(*r) }); }
                }
            }
            m
        }).collect()
    }
    fn has_conflict(g: &Gram, states: &[BTreeSet<It>]) -> bool { demands(g, states).iter().any(|m| m.values().any(|a| a.len() > 1)) }

    const TEXTBOOK: &[&str] = &[
        "start S enum S { A ( $A E $C ) B ( $A F $D ) C ( $B F $C ) D ( $B E $D ) } struct E ( $Z ) struct F ( $Z ) terminal T { $A : ( ) $B : ( ) $C : ( ) $D : ( ) $Z : ( ) }",
        "start S enum S { A ( L $Eq R ) B ( R ) } enum L { C ( $Star R ) D ( $Id ) } struct R ( L ) terminal T { $Eq : ( ) $Star : ( ) $Id : ( ) }",
        "start S enum S { A ( $A X $D ) B ( $B X $E ) C ( $A Y $E ) D ( $B Y $D ) } struct X ( $C ) struct Y ( $C ) terminal T { $A : ( ) $B : ( ) $C : ( ) $D : ( ) $E : ( ) }",
        "start St enum St { If ( $If St ) IfElse ( $If St $Else St ) Other ( $O ) } terminal T { $If : ( ) $Else : ( ) $O : ( ) }",
        "start E enum E { Add ( E $Plus T ) Term ( T ) } enum T { Mul ( T $Star F ) Fac ( F ) } enum F { Par ( $L E $R ) Num ( $N ) } terminal Tok { $Plus : ( ) $Star : ( ) $L : ( ) $R : ( ) $N : ( ) }",
        "start S struct S ( A B C ) enum A { N0 Y0 ( $X ) } enum B { N1 Y1 ( $Y ) } enum C { N2 Y2 ( $Z ) } terminal T { $X : ( ) $Y : ( ) $Z : ( ) }",
        "start S struct S ( A B A ) enum A { N0 Y0 ( $X ) } enum B { N1 Y1 ( $Y ) } terminal T { $X : ( ) $Y : ( ) }",
        "start S enum S { A ( S $A ) B ( $A S ) C } terminal T { $A : ( ) }",
        "start S enum S { P ( $P X ) Q ( $Q X ) R ( $Q Y ) } struct X ( $A $B ) struct Y ( $A $C ) terminal T { $P : ( ) $Q : ( ) $A : ( ) $B : ( ) $C : ( ) }",
        "start S struct S { first : B rest : Wrap } struct B ( $Bee ) struct Wrap { inner : Opt } enum Opt { None0 Some0 ( $Cee ) } terminal T { $Bee : ( ) $Cee : ( ) }",
        "start S struct S { a : A b : B _ : $X c : C } struct A { _ : O p : O } struct B ( O _ : O ) struct C { q : O } enum O { N Y { y : $Y } } terminal T { $X : ( ) $Y : ( ) }",
        "start L enum L { One ( I ) More ( L $Comma I ) } enum I { Id ( $Id ) Call ( $Id $Lp Args $Rp ) } enum Args { None0 Some0 ( L ) } terminal T { $Comma : ( ) $Id : ( ) $Lp : ( ) $Rp : ( ) }",
    ];
    fn lalr_family() -> Vec<Vec<String>> {
        let du: [String; 12] = DEFAULT_UPPER.map(|s| s.to_string());
        let dl: [String; 4] = DEFAULT_LOWER.map(|s| s.to_string());
        let mut fam: Vec<String> = VALID.iter().chain(CONFLICTING).chain(TEXTBOOK).map(|s| s.to_string()).collect();
        fam.extend(SHAPES.iter().map(|s| instantiate(s, &du, &dl)));
        fam.extend(enumerated(1, 1));
        fam.extend(enumerated(2, if thorough() { 3 } else { 97 }));
        fam.extend(random_grammars(if thorough() { 100000 } else { 2500 }));
        fam.iter().map(|c| tokens(c)).collect()
    }
    /// pseudo-random files over nonterminals N0..N3 (any of them the start symbol; struct or enum of 0..3 variants; right-hand sides of 0..3 symbols as tuple or named fieldsets with used and `_` fields, biased
    /// towards short and nullable ones) and terminals $A..$C; the generator is a fixed LCG seeded with VERIF_SEED (default 1)
    fn random_grammars(count: usize) -> Vec<String> {
        let mut x: u64 = std::env::var("VERIF_SEED").ok().and_then(|s| s.parse::<u64>().ok()).unwrap_or(1).wrapping_mul(0x9E37_79B9_7F4A_7C15) | 1;
        let mut next = |m: u64| -> u64 { x = x.wrapping_mul(6364136223846793005).wrapping_add(1442695040888963407); (x >> 33) % m };
        let mut out = vec![];
        for _ in 0..count {
            let n_nt = 2 + next(3) as usize;
            let n_t = 1 + next(3) as usize;
            let rhs = |next: &mut dyn FnMut(u64) -> u64| -> String {
                let len = [0, 1, 1, 2, 2, 3][next(6) as usize];
                if len == 0 { return String::new(); }
                let syms: Vec<String> = (0..len).map(|_| { let k = next((n_nt + n_t) as u64) as usize; if k < n_nt { format!("N{}", k) } else { format!("${}", ["A", "B", "C"][k - n_nt]) } }).collect();
                // tuple or named fieldset, every field used or skipped (`_`): the production is the same
                if next(2) == 0 {
                    let fields: Vec<String> = syms.iter().map(|s| if next(4) == 0 { format!("_ : {}", s) } else { s.clone() }).collect();
                    format!("( {} )", fields.join(" "))
                } else {
                    let fields: Vec<String> = syms.iter().enumerate().map(|(k, s)| if next(4) == 0 { format!("_ : {}", s) } else { format!("f{} : {}", k, s) }).collect();
                    format!("{{ {} }}", fields.join(" "))
                }
            };
            // the start symbol is any of the nonterminals, not necessarily the first one declared
            let mut text = format!("start N{}", next(n_nt as u64));
            for i in 0..n_nt {
                if next(3) == 0 { text.push_str(&format!(" struct N{} {}", i, rhs(&mut next))); }
                else {
                    let nv = [0, 1, 1, 2, 2, 3][next(6) as usize];      // a variant-less enum now and then
                    let vs: Vec<String> = (0..nv).map(|v| format!("V{} {}", v, rhs(&mut next))).collect();
                    text.push_str(&format!(" enum N{} {{ {} }}", i, vs.join(" ")));
                }
            }
            let ts: Vec<String> = (0..n_t).map(|k| format!("${} : ( )", ["A", "B", "C"][k])).collect();
            text.push_str(&format!(" terminal T {{ {} }}", ts.join(" ")));
            out.push(text);
        }
        out
    }
    /// (text, model, grammar, its LALR(1) automaton) for the well-formed files of the family
    fn lalr_cases() -> Vec<(String, Gram, (Vec<BTreeSet<It>>, BTreeMap<(usize, Sy), usize>, usize))> {
        let mut out = vec![];
        for toks in lalr_family() {
            let (text, pos) = render(&toks, 0);
            let Some(file) = read_file(&toks, &pos) else { continue };
            if !well_formed(&file) { continue; }
            let g = grammar_of(&file);
            let a = g.lalr();
            out.push((text, g, a));
        }
        out
    }

    #[test]
    fn leaf_lalr_acceptance() {
        let mut n = 0usize;
        for (text, g, (states, _, _)) in lalr_cases() {
            let conflict = has_conflict(&g, &states);
            let verdict = match run(&text) { Some(Ok(_)) => "Ok", Some(Err(KikiErr::TableConflict(_))) => "table conflict", _ => continue };
            if (verdict == "Ok") == conflict {
                println!("LEAFCHECK-FAIL leaf=generate(lalr-acceptance) input={} got={} want={} (the LALR(1) automaton of this grammar, {} states, {})", brief(&text), verdict,
                    if conflict { "table conflict" } else { "Ok" }, states.len(), if conflict { "has a conflict" } else { "has no conflict" });
                panic!("acceptance differs from LALR(1) conflict-freeness");
            }
            n += 1;
        }
        println!("LEAFCHECK leaf=generate(lalr-acceptance) cases={}", n);
    }

    fn item_of(g: &Gram, it: &crate::data::machine::StateItem) -> Option<It> {
        use crate::data::machine::{Lookahead, RuleIndex};
        let r = match it.rule_index { RuleIndex::Original(i) => i, RuleIndex::Augmented => g.rules.len() };
        let la = match &it.lookahead { Lookahead::Terminal(t) => g.terms.iter().position(|x| x == t.raw())?, Lookahead::Eof => g.terms.len() };
        Some((r, it.dot, la))
    }

    #[test]
    fn leaf_lalr_conflict_report() {
        let mut n = 0usize;
        for (text, g, (states, trans, start)) in lalr_cases() {
            let Some(Err(KikiErr::TableConflict(c))) = run(&text) else { continue };
            let fail = |got: String, want: &str| {
                println!("LEAFCHECK-FAIL leaf=generate(lalr-conflict-report) input={} got={} want={}", brief(&text), got, want);
                panic!("table-conflict report");
            };
            // the attached automaton, state by state, as item sets over this grammar
            let mut theirs: Vec<BTreeSet<It>> = vec![];
            for st in c.machine.states.iter() {
                let mut set = BTreeSet::new();
                for it in st.items.iter() { match item_of(&g, it) { Some(x) => { set.insert(x); } None => fail(format!("an item with an unknown lookahead: {:?}", it), "items over the terminals of the grammar") } }
                theirs.push(set);
            }
            let map: Vec<Option<usize>> = theirs.iter().map(|s| states.iter().position(|x| x == s)).collect();
            let distinct: BTreeSet<usize> = map.iter().flatten().cloned().collect();
            if theirs.len() != states.len() || map.iter().any(|m| m.is_none()) || distinct.len() != states.len() {
                fail(format!("attached automaton with {} states, {} of which are LALR(1) states of the grammar", theirs.len(), distinct.len()), &format!("the {} LALR(1) states (same cores and lookahead sets)", states.len()));
            }
            let their_trans: BTreeMap<(usize, Sy), usize> = c.machine.transitions.iter().filter_map(|t| {
                let s = match &t.symbol { crate::data::Symbol::Terminal(x) => Sy::T(g.terms.iter().position(|y| y == x.raw())?), crate::data::Symbol::Nonterminal(x) => Sy::N(g.nts.iter().position(|y| y == x)?) };
                Some(((map[t.from.0]?, s), map[t.to.0]?))
            }).collect();
            if their_trans != trans || c.machine.transitions.len() != trans.len() { fail(format!("{} transitions, {} of them as in the LALR(1) automaton", c.machine.transitions.len(), their_trans.iter().filter(|(k, v)| trans.get(k) == Some(v)).count()), &format!("its {} transitions", trans.len())); }
            if map.get(c.machine.start.0).cloned().flatten() != Some(start) { fail(format!("start state {:?}", c.machine.start), "the state of the augmented item"); }
            // the reported conflict
            let Some(st) = theirs.get(c.state_index.0) else { fail(format!("state index {:?} of {} states", c.state_index, theirs.len()), "an existing state"); unreachable!() };
            let (a, b) = (item_of(&g, &c.items.0), item_of(&g, &c.items.1));
            let (Some(a), Some(b)) = (a, b) else { fail(format!("items {:?}", c.items), "items of the grammar"); unreachable!() };
            if !st.contains(&a) || !st.contains(&b) { fail(format!("items {:?} and {:?}, state {:?} holds {:?}", a, b, c.state_index, st), "two items of the reported state"); }
            let demand = |it: It| -> Option<(usize, Act)> { match g.rhs(it.0).get(it.1) { Some(Sy::T(t)) => Some((*t, Act::Shift)), Some(Sy::N(_)) => None, None => Some((it.2, if it.0 == g.rules.len() { Act::Accept } else { Act::Reduce(it.0) })) } };
            match (demand(a), demand(b)) {
                (Some((la, x)), Some((lb, y))) if la == lb && x != y => {}
                (x, y) => fail(format!("items {:?} and {:?} demanding {:?} and {:?} (lookahead, action)", a, b, x, y), "two different actions on one lookahead"),
            }
            if format!("{:?}", c.file) != format!("{:?}", c.file.clone()) { unreachable!(); }
            n += 1;
        }
        println!("LEAFCHECK leaf=generate(lalr-conflict-report) cases={}", n);
    }

    /// rows of a table in the emitted text: the lines from the one that declares `name` to the closing `];`, split into entries
    fn emitted_rows(out: &str, name: &str) -> Option<Vec<Vec<Vec<String>>>> {
        let lines: Vec<&str> = out.lines().collect();
        let at = lines.iter().position(|l| (l.starts_with("static ") || l.starts_with("const ")) && l.contains(name) && l.trim_end().ends_with('['))?;
        let end = at + lines[at..].iter().position(|l| l.starts_with("];"))?;
        let toks = rust_tokens(&lines[at + 1..end].join("\n"));
        let mut rows = vec![];
        let mut k = 0;
        while k < toks.len() {
            if toks[k] == "," { k += 1; continue; }
            if toks[k] != "[" { return None; }
            let c = close_of(&toks, k)?;
            rows.push(split_commas(&toks[k + 1..c]));
            k = c + 1;
        }
        Some(rows)
    }
    /// `Name = index` pairs of the enum whose variants are exactly `names` (in any order) plus `extra` others
    fn emitted_numbering(out: &str, names: &[String], extra: usize) -> Option<BTreeMap<String, usize>> {
        let lines: Vec<&str> = out.lines().collect();
        let mut k = 0;
        while k < lines.len() {
            if lines[k].starts_with("enum ") && lines[k].trim_end().ends_with('{') {
                let mut m = BTreeMap::new();
                let mut j = k + 1;
                let mut plain = true;
                while j < lines.len() && !lines[j].starts_with('}') {
                    let t = rust_tokens(lines[j]);
                    if t.len() == 4 && t[1] == "=" && t[3] == "," { if let Ok(v) = t[2].parse::<usize>() { m.insert(t[0].clone(), v); } else { plain = false; } } else if !t.is_empty() { plain = false; }
                    j += 1;
                }
                if plain && m.len() == names.len() + extra && names.iter().all(|n| m.contains_key(n)) { return Some(m); }
                k = j;
            }
            k += 1;
        }
        None
    }
    fn trailing_number(t: &[String], prefix: char) -> Option<usize> {
        t.iter().rev().find_map(|x| x.strip_prefix(prefix).and_then(|d| d.parse::<usize>().ok()))
    }

    /// ACTION / GOTO rows read back from `out` against the LALR(1) automaton (states, trans, start) of `g`, up to renumbering of states
    fn check_tables(leaf: &str, label: &str, g: &Gram, states: &[BTreeSet<It>], trans: &BTreeMap<(usize, Sy), usize>, start: usize, out: &str) {
        let unreadable = |what: &str| -> ! { panic!("{}: {} of the text cannot be read back for {}", leaf, what, label) };
        let Some(actions) = emitted_rows(out, "ACTION_TABLE") else { unreadable("the action table") };
        let Some(gotos) = emitted_rows(out, "GOTO_TABLE") else { unreadable("the goto table") };
        let Some(tcol) = emitted_numbering(out, &g.terms, 1) else { unreadable("the numbering of terminal kinds") };
        let ncol = if g.nts.len() == g.terms.len() + 1 && g.nts.iter().all(|x| tcol.contains_key(x)) { unreadable("the numbering of nonterminal kinds (same names as the terminal kinds)") } else { emitted_numbering(out, &g.nts, 0) };
        let Some(ncol) = ncol else { unreadable("the numbering of nonterminal kinds") };
        let eof_col = (0..=g.terms.len()).find(|c| !g.terms.iter().any(|t| tcol[t] == *c));
        let Some(eof_col) = eof_col else { unreadable("the end-of-input column") };
        let Some(start_line) = out.lines().find(|l| l.contains("let mut states = vec![")) else { unreadable("the start state") };
        let Some(their_start) = trailing_number(&rust_tokens(start_line), 'S') else { unreadable("the start state") };
        let fail = |got: String, want: String| {
            println!("LEAFCHECK-FAIL leaf={} input={} got={} want={}", leaf, label, got, want);
            panic!("emitted tables differ from the LALR(1) automaton");
        };
        if actions.len() != states.len() || gotos.len() != states.len() { fail(format!("{} action rows, {} goto rows", actions.len(), gotos.len()), format!("{} states (one per reachable LR(0) core)", states.len())); }
        // walk both automata from their start states
        let mut to_ref: BTreeMap<usize, usize> = [(their_start, start)].into_iter().collect();
        let mut work = vec![their_start];
        let dem = demands(&g, &states);
        while let Some(s) = work.pop() {
            let r = to_ref[&s];
            let (Some(arow), Some(grow)) = (actions.get(s), gotos.get(s)) else { fail(format!("state S{} out of range", s), format!("{} states", states.len())); unreachable!() };
            if arow.len() != g.terms.len() + 1 || grow.len() != g.nts.len() { fail(format!("rows of {} actions and {} gotos", arow.len(), grow.len()), format!("{} and {}", g.terms.len() + 1, g.nts.len())); }
            let mut link = |their_to: usize, ref_to: Option<usize>, what: String, to_ref: &mut BTreeMap<usize, usize>, work: &mut Vec<usize>| {
                match ref_to {
                    None => fail(format!("state S{}: {} to S{}", s, what, their_to), "no such transition in the LALR(1) automaton".to_string()),
                    Some(rt) => match to_ref.get(&their_to) {
                        Some(x) => if *x != rt { fail(format!("state S{}: {} to S{}, which stands for another state", s, what, their_to), "the transition of the LALR(1) automaton".to_string()) },
                        None => { if to_ref.values().any(|x| *x == rt) { fail(format!("state S{}: {} to S{}: two emitted states for one LALR(1) state", s, what, their_to), "one state per core".to_string()); } to_ref.insert(their_to, rt); work.push(their_to); }
                    },
                }
            };
            for la in 0..=g.terms.len() {
                let col = if la == g.terms.len() { eof_col } else { tcol[&g.terms[la]] };
                let e = &arow[col];
                let want: Option<Act> = dem[r].get(&la).and_then(|a| a.iter().next().cloned());
                let la_name = if la == g.terms.len() { "end of input".to_string() } else { format!("${}", g.terms[la]) };
                if dem[r].get(&la).map_or(0, |a| a.len()) > 1 {
                    fail(format!("a table for a grammar whose LALR(1) automaton demands {:?} in one cell (state S{}, {})", dem[r][&la], s, la_name), "no table: reduce entries exactly on the lookahead sets cannot hold here".to_string());
                }
                let kind = ["Shift", "Reduce", "Accept", "Err"].iter().find(|k| e.iter().any(|t| t == *k)).cloned();
                match (kind, want) {
                    (Some("Shift"), Some(Act::Shift)) => { let Some(to) = trailing_number(e, 'S') else { unreadable("a shift entry") }; link(to, trans.get(&(r, Sy::T(la))).cloned(), format!("shift on {}", la_name), &mut to_ref, &mut work); }
                    (Some("Reduce"), Some(Act::Reduce(k))) => { let Some(rk) = trailing_number(e, 'R') else { unreadable("a reduce entry") }; if rk != k { fail(format!("state S{}, {}: reduce by rule {}", s, la_name, rk), format!("reduce by rule {}", k)); } }
                    (Some("Accept"), Some(Act::Accept)) => {}
                    (Some("Err"), None) => {}
                    (None, _) => unreadable("an action entry"),
                    (Some(k), w) => fail(format!("state S{}, {}: {}", s, la_name, e.join("")), format!("{:?} (None = error)", w).replace("Some(", "").replace(k, k)),
                }
            }
            for (ni, name) in g.nts.iter().enumerate() {
                let e = &grow[ncol[name]];
                let want = trans.get(&(r, Sy::N(ni))).cloned();
                if e.iter().any(|t| t == "None") { if want.is_some() { fail(format!("state S{}: no goto on {}", s, name), "the goto of the LALR(1) automaton".to_string()); } }
                else if e.iter().any(|t| t == "Some") { let Some(to) = trailing_number(e, 'S') else { unreadable("a goto entry") }; link(to, want, format!("goto on {}", name), &mut to_ref, &mut work); }
                else { unreadable("a goto entry") }
            }
        }
        if to_ref.len() != states.len() { fail(format!("{} states reachable in the emitted tables", to_ref.len()), format!("{}", states.len())); }
    }

    #[test]
    fn leaf_lalr_tables() {
        let mut n = 0usize;
        for (text, g, (states, trans, start)) in lalr_cases() {
            let Some(Ok(out)) = run(&text) else { continue };
            check_tables("generate(lalr-tables)", &brief(&text), &g, &states, &trans, start, &out.0);
            n += 1;
        }
        println!("LEAFCHECK leaf=generate(lalr-tables) cases={}", n);
    }

    /// the token texts of a source file, through the real lexer (whose behaviour is the subject of C08)
    fn lexed_tokens(src: &str) -> Option<Vec<String>> {
        use crate::data::token::Token;
        let toks = crate::pipeline::tokenize::tokenize(src).ok()?;
        Some(toks.iter().map(|t| match t {
            Token::Underscore(_) => "_".to_string(), Token::Ident(i) => i.name.clone(), Token::TerminalIdent(t) => format!("${}", t.name.raw()), Token::OuterAttribute(a) => a.src.clone(),
            Token::StartKw(_) => "start".into(), Token::StructKw(_) => "struct".into(), Token::EnumKw(_) => "enum".into(), Token::TerminalKw(_) => "terminal".into(), Token::Colon(_) => ":".into(),
            Token::DoubleColon(_) => "::".into(), Token::Comma(_) => ",".into(), Token::LParen(_) => "(".into(), Token::RParen(_) => ")".into(), Token::LCurly(_) => "{".into(), Token::RCurly(_) => "}".into(),
            Token::LAngle(_) => "<".into(), Token::RAngle(_) => ">".into(),
        }).collect())
    }

    /// C09: the front end's own parser (kiki/src/parser.rs, a checked-in generated file) carries the tables of the published grammar
    /// (kiki/src/parser.kiki): every ACTION and GOTO cell against the LALR(1) automaton of that grammar, up to renumbering of states
    #[test]
    fn leaf_parser_tables() {
        let grammar = include_str!("parser.kiki");
        let parser = include_str!("parser.rs");
        let toks = lexed_tokens(grammar).expect("parser.kiki must lex");
        let pos: Vec<usize> = (0..toks.len()).collect();
        let file = read_file(&toks, &pos).expect("parser.kiki must be readable");
        assert!(well_formed(&file), "parser.kiki must be well-formed");
        let g = grammar_of(&file);
        let (states, trans, start) = g.lalr();
        assert!(!has_conflict(&g, &states), "the published grammar must be LALR(1)");
        check_tables("parser.rs(tables)", "kiki/src/parser.rs against kiki/src/parser.kiki", &g, &states, &trans, start, parser);
        println!("LEAFCHECK leaf=parser.rs(tables) cases={}", states.len() * (g.terms.len() + 1 + g.nts.len()));
    }
}
