// target: kiki/src/data/validated_file.rs
// leaves: File::get_defined_identifiers (props C05 C06 C07), File::get_rules (props C17 C04 C11 C07 C10)
// props leaf_get_defined_identifiers: C05 C07
// props leaf_get_rules: C17 C04 C11 C07 C10
// covers leaf_get_defined_identifiers: fn get_defined_identifiers, fn get_nonterminal_names, fn get_terminal_enum_variant_names
// covers leaf_get_rules: fn get_rules
// bound: all validated files with <= 2 nonterminals (struct with 0..2 tuple fields / enum with 0..2 variants), names from a pool of 4,
//        terminal enum name from a pool of 3, 0..2 terminal variants from a pool of 3
#[cfg(test)]
mod __vx_leafcheck {
    use super::*;
    use crate::data::ast::{Enum, EnumVariant, Fieldset, IdentOrTerminalIdent, Struct, TupleField, TupleFieldset};
    use crate::data::token::{Ident, TerminalIdent};
    use crate::data::{ByteIndex, DollarlessTerminalName};
    use std::collections::HashSet;

    fn ident(n: &str) -> Ident { Ident { name: n.to_string(), position: ByteIndex(0) } }
    fn tuple(n: usize) -> Fieldset {
        if n == 0 { return Fieldset::Empty; }
        let mut fields = vec![];
        for i in 0..n {
            let sym = if i % 2 == 0 { IdentOrTerminalIdent::Ident(ident("A")) }
                      else { IdentOrTerminalIdent::Terminal(TerminalIdent { name: DollarlessTerminalName::remove_dollars("X"), dollarless_position: ByteIndex(1) }) };
            fields.push(if i == 0 { TupleField::Used(sym) } else { TupleField::Skipped(sym) });
        }
        Fieldset::Tuple(TupleFieldset { fields })
    }
    fn nonterminals() -> Vec<Nonterminal> {
        let mut out = vec![];
        for name in ["A", "B", "S", "Eof"] {
            for k in 0..3 { out.push(Nonterminal::Struct(Struct { attributes: vec![], name: ident(name), fieldset: tuple(k) })); }
            for k in 0..3 {
                let variants = (0..k).map(|i| EnumVariant { name: ident(["V", "W"][i]), fieldset: tuple(i + 1) }).collect();
                out.push(Nonterminal::Enum(Enum { attributes: vec![], name: ident(name), variants }));
            }
        }
        out
    }
    fn files() -> Vec<File> {
        let nts = nonterminals();
        let mut lists: Vec<Vec<Nonterminal>> = vec![vec![]];
        for a in &nts { lists.push(vec![a.clone()]); }
        for a in &nts { for b in &nts { lists.push(vec![a.clone(), b.clone()]); } }
        let tv = |n: &str| TerminalVariant { dollarless_name: DollarlessTerminalName::remove_dollars(n), type_: "()".to_string() };
        let variant_lists = vec![vec![], vec![tv("X")], vec![tv("Eof")], vec![tv("X"), tv("A")], vec![tv("A"), tv("X")]];
        let mut out = vec![];
        for l in &lists {
            for te in ["T", "S", "A"] {
                for vs in &variant_lists {
                    out.push(File {
                        start: "A".to_string(),
                        terminal_enum: TerminalEnum { attributes: vec![], name: te.to_string(), variants: vs.clone() },
                        nonterminals: l.clone(),
                    });
                }
            }
        }
        out
    }

    #[test]
    fn leaf_get_defined_identifiers() {
        let fs = files();
        for f in &fs {
            let got = f.get_defined_identifiers();
            let mut want: HashSet<String> = HashSet::new();
            for nt in &f.nonterminals { want.insert(nt.name().to_string()); }
            for v in &f.terminal_enum.variants { want.insert(v.dollarless_name.raw().to_string()); }
            want.insert(f.terminal_enum.name.clone());
            assert!(got == want, "LEAFCHECK-FAIL leaf=File::get_defined_identifiers input={:?} got={:?} want={:?}", f, got, want);
            assert!(got.len() <= f.nonterminals.len() + f.terminal_enum.variants.len() + 1);
        }
        println!("LEAFCHECK leaf=File::get_defined_identifiers cases={}", fs.len());
    }

    #[test]
    fn leaf_get_rules() {
        let fs = files();
        for f in &fs {
            let got: Vec<Rule> = f.get_rules().collect();
            // one rule per struct / enum variant, in declaration order, carrying that declaration's fieldset
            let mut want: Vec<(String, Option<String>, *const Fieldset)> = vec![];
            for nt in &f.nonterminals {
                match nt {
                    Nonterminal::Struct(s) => want.push((s.name.name.clone(), None, &s.fieldset as *const Fieldset)),
                    Nonterminal::Enum(e) => for v in &e.variants { want.push((e.name.name.clone(), Some(v.name.name.clone()), &v.fieldset as *const Fieldset)); },
                }
            }
            let shown: Vec<(String, Option<String>, *const Fieldset)> = got.iter().map(|r| match r.constructor_name {
                ConstructorName::Struct(n) => (n.to_string(), None, r.fieldset as *const Fieldset),
                ConstructorName::EnumVariant { enum_name, variant_name } => (enum_name.to_string(), Some(variant_name.to_string()), r.fieldset as *const Fieldset),
            }).collect();
            assert!(shown == want, "LEAFCHECK-FAIL leaf=File::get_rules input={:?} got={:?} want={:?}", f, shown, want);
        }
        println!("LEAFCHECK leaf=File::get_rules cases={}", fs.len());
    }
}
