// target: kiki/src/pipeline/sort_and_get_index_updater.rs
// leaves: sort_and_get_index_updater (props C17 C14 C04 C11)
// covers leaf_sort_and_get_index_updater: fn sort_and_get_index_updater, fn get_sorted_indexed, fn get_index_updater, fn get_index_changes
// bound: all vectors of length <= 6 (<= 8 in the thorough tier) over {0, 1, 2, 3}
#[cfg(test)]
mod __vx_leafcheck {
    use super::*;

    #[test]
    fn leaf_sort_and_get_index_updater() {
        let mut all: Vec<Vec<u8>> = vec![vec![]];
        let mut frontier: Vec<Vec<u8>> = vec![vec![]];
        let maxlen = if std::env::var("VX_LEAF_THOROUGH").is_ok() { 8 } else { 6 };
        for _ in 0..maxlen {
            let mut next = vec![];
            for v in &frontier { for x in 0..4u8 { let mut w = v.clone(); w.push(x); next.push(w); } }
            all.extend(next.iter().cloned());
            frontier = next;
        }
        for v in &all {
            let (sorted, updater) = sort_and_get_index_updater(v.clone());
            let ok_len = sorted.len() == v.len();
            let ok_sorted = sorted.windows(2).all(|w| w[0] <= w[1]);
            let pi: Vec<usize> = (0..v.len()).map(|i| updater.update(i)).collect();
            let ok_map = pi.iter().enumerate().all(|(i, p)| *p < sorted.len() && sorted[*p] == v[i]);
            let mut seen = vec![false; v.len()];
            let mut ok_inj = true;
            for p in &pi { if *p >= seen.len() || seen[*p] { ok_inj = false; } else { seen[*p] = true; } }
            assert!(ok_len && ok_sorted && ok_map && ok_inj,
                "LEAFCHECK-FAIL leaf=sort_and_get_index_updater input={:?} got=(sorted {:?}, index map {:?}) want=non-decreasing order and a bijection old index -> position of the same element", v, sorted, pi);
        }
        println!("LEAFCHECK leaf=sort_and_get_index_updater cases={}", all.len());
    }
}
