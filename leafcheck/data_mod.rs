// target: kiki/src/data/mod.rs
// leaves: DollarlessTerminalName::remove_dollars (props C08 C10 C07)
// bound: all strings of length <= 5 (<= 7 in the thorough tier) over the alphabet {a, Z, $, _, é}
#[cfg(test)]
mod __vx_leafcheck {
    use super::*;

    #[test]
    fn leaf_remove_dollars() {
        let alphabet = ['a', 'Z', '$', '_', 'é'];
        let mut all: Vec<String> = vec![String::new()];
        let mut frontier = vec![String::new()];
        let maxlen = if std::env::var("VX_LEAF_THOROUGH").is_ok() { 7 } else { 5 };
        for _ in 0..maxlen {
            let mut next = vec![];
            for s in &frontier { for c in alphabet { let mut t = s.clone(); t.push(c); next.push(t); } }
            all.extend(next.iter().cloned());
            frontier = next;
        }
        for s in &all {
            let got = DollarlessTerminalName::remove_dollars(s);
            let want: String = s.chars().filter(|c| *c != '$').collect();
            assert!(got.raw() == want, "LEAFCHECK-FAIL leaf=DollarlessTerminalName::remove_dollars input={:?} got={:?} want={:?}", s, got.raw(), want);
        }
        println!("LEAFCHECK leaf=DollarlessTerminalName::remove_dollars cases={}", all.len());
    }
}
