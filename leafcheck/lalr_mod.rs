// target: kiki/src/pipeline/validated_ast_to_machine/mod.rs
// leaves: augment_with_lookahead, convert_first_set_to_augmented_as_is, ImmutContext::get_closure_implied_items_for_nonterminal
//         (with ..._with_lookahead and get_rule_indices_for_nonterminal)   (props C17 C04 C11 C07)
// covers leaf_get_closure_implied_items_for_nonterminal: fn get_closure_implied_items_for_nonterminal, fn get_closure_implied_items_for_nonterminal_with_lookahead, fn get_rule_indices_for_nonterminal
// bound: FIRST sets = all subsets of 3 terminals x nullable flag, lookahead = each terminal or Eof;
//        closure-implied items: 3 small grammars (3 nonterminals, structs and enums), every nonterminal name, every lookahead set of <= 2 elements
#[cfg(test)]
mod __vx_leafcheck {
    use super::*;
    use crate::data::ast::{Enum, EnumVariant, Fieldset, IdentOrTerminalIdent, Struct, TupleField, TupleFieldset};
    use crate::data::token::{Ident, TerminalIdent};
    use crate::data::validated_file::{File as VFile, Nonterminal, TerminalEnum, TerminalVariant};
    use crate::data::{ByteIndex, DollarlessTerminalName};

    fn term(n: &str) -> DollarlessTerminalName { DollarlessTerminalName::remove_dollars(n) }
    fn first_sets() -> Vec<FirstSet> {
        let names = ["X", "Y", "Z"];
        let mut out = vec![];
        for mask in 0..8u8 {
            for eps in [false, true] {
                let terminals: Oset<DollarlessTerminalName> = names.iter().enumerate().filter(|(i, _)| mask & (1 << i) != 0).map(|(_, n)| term(n)).collect();
                out.push(FirstSet { terminals, contains_epsilon: eps });
            }
        }
        out
    }
    fn lookaheads() -> Vec<Lookahead> { vec![Lookahead::Eof, Lookahead::Terminal(term("X")), Lookahead::Terminal(term("W"))] }

    #[test]
    fn leaf_augment_with_lookahead() {
        let mut n = 0;
        for f in first_sets() {
            for la in lookaheads() {
                let got = augment_with_lookahead(f.clone(), &la);
                let mut want: Vec<Lookahead> = f.terminals.iter().cloned().map(Lookahead::Terminal).collect();
                want.push(la.clone());
                want.sort(); want.dedup();
                let got_v: Vec<Lookahead> = got.0.iter().cloned().collect();
                assert!(got_v == want, "LEAFCHECK-FAIL leaf=augment_with_lookahead input=({:?}, {:?}) got={:?} want={:?}", f, la, got_v, want);
                n += 1;
            }
        }
        println!("LEAFCHECK leaf=augment_with_lookahead cases={}", n);
    }

    #[test]
    fn leaf_convert_first_set_to_augmented_as_is() {
        let mut n = 0;
        for f in first_sets() {
            let got = convert_first_set_to_augmented_as_is(f.clone());
            let mut want: Vec<Lookahead> = f.terminals.iter().cloned().map(Lookahead::Terminal).collect();
            want.sort(); want.dedup();
            let got_v: Vec<Lookahead> = got.0.iter().cloned().collect();
            assert!(got_v == want, "LEAFCHECK-FAIL leaf=convert_first_set_to_augmented_as_is input={:?} got={:?} want={:?}", f, got_v, want);
            n += 1;
        }
        println!("LEAFCHECK leaf=convert_first_set_to_augmented_as_is cases={}", n);
    }

    fn ident(n: &str) -> Ident { Ident { name: n.to_string(), position: ByteIndex(0) } }
    fn fs(syms: &[&str]) -> Fieldset {
        if syms.is_empty() { return Fieldset::Empty; }
        Fieldset::Tuple(TupleFieldset { fields: syms.iter().map(|s| TupleField::Used(
            if let Some(t) = s.strip_prefix('$') { IdentOrTerminalIdent::Terminal(TerminalIdent { name: term(t), dollarless_position: ByteIndex(1) }) }
            else { IdentOrTerminalIdent::Ident(ident(s)) })).collect() })
    }
    fn grammars() -> Vec<VFile> {
        let te = TerminalEnum { attributes: vec![], name: "T".to_string(), variants: ["X", "Y"].iter().map(|n| TerminalVariant { dollarless_name: term(n), type_: "()".to_string() }).collect() };
        let st = |n: &str, f: Fieldset| Nonterminal::Struct(Struct { attributes: vec![], name: ident(n), fieldset: f });
        let en = |n: &str, vs: Vec<Fieldset>| Nonterminal::Enum(Enum { attributes: vec![], name: ident(n),
            variants: vs.into_iter().enumerate().map(|(i, f)| EnumVariant { name: ident(&format!("V{}", i)), fieldset: f }).collect() });
        vec![
            VFile { start: "A".to_string(), terminal_enum: te.clone(), nonterminals: vec![st("A", fs(&["B", "$X"])), en("B", vec![fs(&[]), fs(&["$Y", "B"])]), en("C", vec![])] },
            VFile { start: "A".to_string(), terminal_enum: te.clone(), nonterminals: vec![en("A", vec![fs(&["A", "$X"]), fs(&["$X"]), fs(&["B"])]), st("B", fs(&[]))] },
            VFile { start: "B".to_string(), terminal_enum: te.clone(), nonterminals: vec![st("B", fs(&["$X"])), st("B2", fs(&["B"])), en("A", vec![fs(&["$Y"])])] },
        ]
    }

    #[test]
    fn leaf_get_closure_implied_items_for_nonterminal() {
        let mut n = 0;
        let las = vec![Lookahead::Eof, Lookahead::Terminal(term("X")), Lookahead::Terminal(term("Y"))];
        let mut la_sets: Vec<Vec<Lookahead>> = vec![vec![]];
        for a in &las { la_sets.push(vec![a.clone()]); }
        for (i, a) in las.iter().enumerate() { for b in &las[i + 1..] { la_sets.push(vec![a.clone(), b.clone()]); } }
        for file in grammars() {
            let ctx = ImmutContext::new(&file);
            for name in ["A", "B", "B2", "C", "Nope"] {
                for las in &la_sets {
                    let aug = AugmentedFirstSet(las.iter().cloned().collect());
                    let mut got = ctx.get_closure_implied_items_for_nonterminal(name.to_string(), aug);
                    got.sort(); got.dedup();
                    let mut want = vec![];
                    for (ri, rule) in ctx.rules.iter().enumerate() {
                        if rule.constructor_name.type_name() == name {
                            for la in las { want.push(StateItem { rule_index: RuleIndex::Original(ri), lookahead: la.clone(), dot: 0 }); }
                        }
                    }
                    want.sort(); want.dedup();
                    assert!(got == want, "LEAFCHECK-FAIL leaf=ImmutContext::get_closure_implied_items_for_nonterminal input=(grammar {:?}, nonterminal {:?}, lookaheads {:?}) got={:?} want={:?}", file, name, las, got, want);
                    n += 1;
                }
            }
        }
        println!("LEAFCHECK leaf=ImmutContext::get_closure_implied_items_for_nonterminal cases={}", n);
    }
}
