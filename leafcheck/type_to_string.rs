// target: kiki/src/pipeline/validate_ast/type_to_string.rs
// leaves: type_to_string / path_to_string / complex_to_string (props C13) - BOUNDED STAND-IN for the rendering half of C13:
//         re-tokenising the rendered text gives back the tokens of the type expression
// covers leaf_type_to_string: fn type_to_string, fn path_to_string, fn complex_to_string
// bound: all type expressions of nesting depth <= 2 with paths of <= 2 segments over {a, Bc}, <= 2 generic arguments
#[cfg(test)]
mod __vx_leafcheck {
    use super::*;
    use crate::data::token::Ident;
    use crate::data::ByteIndex;

    fn ident(n: &str) -> Ident { Ident { name: n.to_string(), position: ByteIndex(0) } }
    fn paths() -> Vec<Vec<Ident>> {
        let names = ["a", "Bc"];
        let mut out = vec![];
        for a in names { out.push(vec![ident(a)]); for b in names { out.push(vec![ident(a), ident(b)]); } }
        out
    }
    fn types(depth: usize) -> Vec<Type> {
        let mut out = vec![Type::Unit];
        for p in paths() { out.push(Type::Path(p)); }
        if depth > 0 {
            let sub = types(depth - 1);
            let sub_small: Vec<Type> = sub.iter().take(9).cloned().collect();
            for p in paths().into_iter().take(3) {
                for a in &sub { out.push(Type::Complex(Box::new(ComplexType { callee: p.clone(), args: vec![a.clone()] }))); }
                for a in &sub_small { for b in &sub_small { out.push(Type::Complex(Box::new(ComplexType { callee: p.clone(), args: vec![a.clone(), b.clone()] }))); } }
            }
        }
        out
    }
    /// the token sequence the user wrote (Kiki type syntax = Rust type syntax for these forms)
    fn tokens_of(t: &Type, out: &mut Vec<String>) {
        match t {
            Type::Unit => { out.push("(".into()); out.push(")".into()); }
            Type::Path(p) => path_tokens(p, out),
            Type::Complex(c) => {
                path_tokens(&c.callee, out);
                out.push("<".into());
                for (i, a) in c.args.iter().enumerate() { if i > 0 { out.push(",".into()); } tokens_of(a, out); }
                out.push(">".into());
            }
        }
    }
    fn path_tokens(p: &[Ident], out: &mut Vec<String>) {
        for (i, seg) in p.iter().enumerate() { if i > 0 { out.push("::".into()); } out.push(seg.name.clone()); }
    }
    fn retokenize(s: &str) -> Vec<String> {
        let cs: Vec<char> = s.chars().collect();
        let mut out = vec![];
        let mut i = 0;
        while i < cs.len() {
            let c = cs[i];
            if c.is_whitespace() { i += 1; }
            else if c.is_alphanumeric() || c == '_' { let mut j = i; while j < cs.len() && (cs[j].is_alphanumeric() || cs[j] == '_') { j += 1; } out.push(cs[i..j].iter().collect()); i = j; }
            else if c == ':' && i + 1 < cs.len() && cs[i + 1] == ':' { out.push("::".into()); i += 2; }
            else { out.push(c.to_string()); i += 1; }
        }
        out
    }

    #[test]
    fn leaf_type_to_string() {
        let ts = types(2);
        for t in &ts {
            let got = type_to_string(t);
            let mut want = vec![];
            tokens_of(t, &mut want);
            assert!(retokenize(&got) == want, "LEAFCHECK-FAIL leaf=type_to_string input={:?} got={:?} want tokens={:?}", t, got, want);
        }
        println!("LEAFCHECK leaf=type_to_string cases={}", ts.len());
    }
}
