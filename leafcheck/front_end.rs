// target: kiki/src/pipeline/cst_to_ast.rs
// leaves: parser::parse (generated LR driver) and cst_to_ast (From impls) - BOUNDED STAND-IN for what Verus cannot ingest of the front end
// props leaf_parse_acceptance: C09   (parse accepts a token sequence iff an independent recursive-descent recogniser of the published Kiki
//         grammar accepts it; on rejection it returns the first token that cannot continue any valid file, None when the input stops too early)
// props leaf_parse_error_span: C09   (generate on source text: Parse(start, exact text, end) of the first token that cannot continue any valid file, the
//         empty span at the end of the source when the file stops too early, no parse error for a sentence)
// props leaf_roundtrip_types: C13        (path segments / generic arguments in written order)
// props leaf_roundtrip_attributes: C12   (attribute lists verbatim, in order, on the declaration they precede)
// props leaf_roundtrip_declarations: C10 C06   (items, fields, variants in written order: the syntax tree is the file)
// covers leaf_parse_acceptance: fn parse
// covers leaf_parse_error_span: fn unexpected_token_or_eof_to_kiki_err, fn start, fn content_len, fn get_unexpected_eof_err
// bound: acceptance: every sequence of <= 5 token kinds (<= 7 in the thorough tier) (17 kinds; extensions of an already rejected prefix are pruned, the driver stops at the
//        first error: 5 959 sequences evaluated for 1 508 598), plus the token sequences of all generated texts and each of them with one token
//        deleted. Round trips (tokenize -> parse -> cst_to_ast == the declarations the text was printed from): 133 payload types of nesting
//        depth <= 2; 91 files combining 0..2 attributes, empty / named / tuple fieldsets with used and `_` fields, 0..2 enum variants
#[cfg(test)]
mod __vx_leafcheck {
    use crate::data::ast;
    use crate::data::cst::Token;
    use crate::data::token::{Attribute, Ident, TerminalIdent};
    use crate::data::{ByteIndex, DollarlessTerminalName};
    use crate::parser::parse;
    use crate::pipeline::tokenize::tokenize;

    // ---------------- token kinds and an independent recogniser ----------------
    #[derive(Clone, Copy, PartialEq, Eq, Debug)]
    enum K { Underscore, Ident, TerminalIdent, OuterAttribute, StartKw, StructKw, EnumKw, TerminalKw, Colon, DoubleColon, Comma, LParen, RParen, LCurly, RCurly, LAngle, RAngle }
    const KINDS: [K; 17] = [K::Underscore, K::Ident, K::TerminalIdent, K::OuterAttribute, K::StartKw, K::StructKw, K::EnumKw, K::TerminalKw, K::Colon,
        K::DoubleColon, K::Comma, K::LParen, K::RParen, K::LCurly, K::RCurly, K::LAngle, K::RAngle];

    fn kind_of(t: &Token) -> K {
        match t {
            Token::Underscore(_) => K::Underscore, Token::Ident(_) => K::Ident, Token::TerminalIdent(_) => K::TerminalIdent,
            Token::OuterAttribute(_) => K::OuterAttribute, Token::StartKw(_) => K::StartKw, Token::StructKw(_) => K::StructKw,
            Token::EnumKw(_) => K::EnumKw, Token::TerminalKw(_) => K::TerminalKw, Token::Colon(_) => K::Colon, Token::DoubleColon(_) => K::DoubleColon,
            Token::Comma(_) => K::Comma, Token::LParen(_) => K::LParen, Token::RParen(_) => K::RParen, Token::LCurly(_) => K::LCurly,
            Token::RCurly(_) => K::RCurly, Token::LAngle(_) => K::LAngle, Token::RAngle(_) => K::RAngle,
        }
    }
    fn token(k: K, i: usize) -> Token {
        let p = ByteIndex(i);
        match k {
            K::Underscore => Token::Underscore(p), K::Ident => Token::Ident(Ident { name: "x".to_string(), position: p }),
            K::TerminalIdent => Token::TerminalIdent(TerminalIdent { name: DollarlessTerminalName::remove_dollars("X"), dollarless_position: p }),
            K::OuterAttribute => Token::OuterAttribute(Attribute { src: "#[a]".to_string(), position: p }),
            K::StartKw => Token::StartKw(p), K::StructKw => Token::StructKw(p), K::EnumKw => Token::EnumKw(p), K::TerminalKw => Token::TerminalKw(p),
            K::Colon => Token::Colon(p), K::DoubleColon => Token::DoubleColon(p), K::Comma => Token::Comma(p), K::LParen => Token::LParen(p),
            K::RParen => Token::RParen(p), K::LCurly => Token::LCurly(p), K::RCurly => Token::RCurly(p), K::LAngle => Token::LAngle(p), K::RAngle => Token::RAngle(p),
        }
    }
    fn position_of(t: &Token) -> usize {
        match t {
            Token::Ident(i) => i.position.0, Token::TerminalIdent(t) => t.dollarless_position.0, Token::OuterAttribute(a) => a.position.0,
            Token::Underscore(p) | Token::StartKw(p) | Token::StructKw(p) | Token::EnumKw(p) | Token::TerminalKw(p) | Token::Colon(p) | Token::DoubleColon(p)
            | Token::Comma(p) | Token::LParen(p) | Token::RParen(p) | Token::LCurly(p) | Token::RCurly(p) | Token::LAngle(p) | Token::RAngle(p) => p.0,
        }
    }

    /// outcome of recognising a token-kind sequence against the published grammar
    #[derive(PartialEq, Eq, Debug, Clone, Copy)]
    enum Verdict { Accept, ErrorAt(usize), NeedMore }
    /// recursive descent; Err(Verdict) = stop with that verdict. The grammar is LL(1) after left-factoring, so the descent stops at the
    /// first token that cannot continue any sentence (viable-prefix property), which is what an LR parser reports too.
    struct R<'a> { ks: &'a [K], i: usize }
    impl<'a> R<'a> {
        fn peek(&self) -> Option<K> { self.ks.get(self.i).copied() }
        fn fail<T>(&self) -> Result<T, Verdict> { if self.i >= self.ks.len() { Err(Verdict::NeedMore) } else { Err(Verdict::ErrorAt(self.i)) } }
        fn expect(&mut self, k: K) -> Result<(), Verdict> { if self.peek() == Some(k) { self.i += 1; Ok(()) } else { self.fail() } }
        fn file(&mut self) -> Result<(), Verdict> {
            loop {
                match self.peek() {
                    None => return Ok(()),
                    Some(K::StartKw) => { self.i += 1; self.expect(K::Ident)?; }
                    Some(K::OuterAttribute) | Some(K::StructKw) | Some(K::EnumKw) | Some(K::TerminalKw) => {
                        while self.peek() == Some(K::OuterAttribute) { self.i += 1; }
                        match self.peek() {
                            Some(K::StructKw) => { self.i += 1; self.expect(K::Ident)?; self.fieldset()?; }
                            Some(K::EnumKw) => {
                                self.i += 1; self.expect(K::Ident)?; self.expect(K::LCurly)?;
                                while self.peek() == Some(K::Ident) { self.i += 1; self.fieldset()?; }
                                self.expect(K::RCurly)?;
                            }
                            Some(K::TerminalKw) => {
                                self.i += 1; self.expect(K::Ident)?; self.expect(K::LCurly)?;
                                while self.peek() == Some(K::TerminalIdent) { self.i += 1; self.expect(K::Colon)?; self.type_()?; }
                                self.expect(K::RCurly)?;
                            }
                            _ => return self.fail(),
                        }
                    }
                    Some(_) => return self.fail(),
                }
            }
        }
        fn symbol(&mut self) -> Result<(), Verdict> { match self.peek() { Some(K::Ident) | Some(K::TerminalIdent) => { self.i += 1; Ok(()) } _ => self.fail() } }
        fn fieldset(&mut self) -> Result<(), Verdict> {
            match self.peek() {
                Some(K::LCurly) => {
                    self.i += 1;
                    loop {
                        match self.peek() { Some(K::Ident) | Some(K::Underscore) => self.i += 1, _ => return self.fail() }
                        self.expect(K::Colon)?; self.symbol()?;
                        match self.peek() { Some(K::RCurly) => { self.i += 1; return Ok(()); } Some(K::Ident) | Some(K::Underscore) => {}, _ => return self.fail() }
                    }
                }
                Some(K::LParen) => {
                    self.i += 1;
                    loop {
                        match self.peek() {
                            Some(K::Underscore) => { self.i += 1; self.expect(K::Colon)?; self.symbol()?; }
                            Some(K::Ident) | Some(K::TerminalIdent) => self.i += 1,
                            _ => return self.fail(),
                        }
                        match self.peek() { Some(K::RParen) => { self.i += 1; return Ok(()); } Some(K::Underscore) | Some(K::Ident) | Some(K::TerminalIdent) => {}, _ => return self.fail() }
                    }
                }
                _ => Ok(()),
            }
        }
        fn type_(&mut self) -> Result<(), Verdict> {
            match self.peek() {
                Some(K::LParen) => { self.i += 1; self.expect(K::RParen) }
                Some(K::Ident) => {
                    self.i += 1;
                    while self.peek() == Some(K::DoubleColon) { self.i += 1; self.expect(K::Ident)?; }
                    if self.peek() == Some(K::LAngle) {
                        self.i += 1;
                        loop {
                            self.type_()?;
                            match self.peek() { Some(K::Comma) => self.i += 1, Some(K::RAngle) => { self.i += 1; return Ok(()); } _ => return self.fail() }
                        }
                    }
                    Ok(())
                }
                _ => self.fail(),
            }
        }
    }
    fn recognise(ks: &[K]) -> Verdict { let mut r = R { ks, i: 0 }; match r.file() { Ok(()) => Verdict::Accept, Err(v) => v } }
    fn real_verdict(ks: &[K]) -> Verdict {
        let toks: Vec<Token> = ks.iter().enumerate().map(|(i, k)| token(*k, i)).collect();
        match parse(toks) { Ok(_) => Verdict::Accept, Err(None) => Verdict::NeedMore, Err(Some(t)) => Verdict::ErrorAt(position_of(&t)) }
    }

    #[test]
    fn leaf_parse_acceptance() {
        let mut n = 0usize;
        let mut seq: Vec<K> = vec![];
        fn go(seq: &mut Vec<K>, depth: usize, n: &mut usize) {
            let want = recognise(seq);
            let got = real_verdict(seq);
            assert!(got == want, "LEAFCHECK-FAIL leaf=parser::parse input={:?} got={:?} want={:?}", seq, got, want);
            *n += 1;
            // a sequence that is already an error cannot be repaired by appending tokens; extending it only repeats the verdict
            if depth == 0 || matches!(want, Verdict::ErrorAt(_)) { if depth > 0 { /* count the pruned extensions as covered by the prefix */ } return; }
            for k in KINDS { seq.push(k); go(seq, depth - 1, n); seq.pop(); }
        }
        let depth = if std::env::var("VX_LEAF_THOROUGH").is_ok() { 7 } else { 5 };
        go(&mut seq, depth, &mut n);
        // the token sequences of the generated texts, and each of them with one token deleted
        for (src, _) in texts() {
            let toks = tokenize(&src).expect("generated text must lex");
            let ks: Vec<K> = toks.iter().map(kind_of).collect();
            let (w, g) = (recognise(&ks), real_verdict(&ks));
            assert!(g == w && w == Verdict::Accept, "LEAFCHECK-FAIL leaf=parser::parse input={:?} (tokens of {:?}) got={:?} want={:?}", ks, src, g, w);
            n += 1;
            for d in 0..ks.len() {
                let mut ks2 = ks.clone(); ks2.remove(d);
                let (w, g) = (recognise(&ks2), real_verdict(&ks2));
                assert!(g == w, "LEAFCHECK-FAIL leaf=parser::parse input={:?} (tokens of {:?} without token {}) got={:?} want={:?}", ks2, src, d, g, w);
                n += 1;
            }
        }
        println!("LEAFCHECK leaf=parser::parse cases={}", n);
    }

    /// source text of a token kind (multi-byte characters where the lexical rules allow them)
    fn text_of(k: K, i: usize) -> String {
        match k {
            K::Underscore => "_".into(), K::Ident => format!("Ab{}", i % 3), K::TerminalIdent => format!("$Cd{}", i % 2), K::OuterAttribute => "#[a(\u{e9}) = \"\u{2200}\"]".into(),
            K::StartKw => "start".into(), K::StructKw => "struct".into(), K::EnumKw => "enum".into(), K::TerminalKw => "terminal".into(), K::Colon => ":".into(),
            K::DoubleColon => "::".into(), K::Comma => ",".into(), K::LParen => "(".into(), K::RParen => ")".into(), K::LCurly => "{".into(), K::RCurly => "}".into(),
            K::LAngle => "<".into(), K::RAngle => ">".into(),
        }
    }
    #[test]
    fn leaf_parse_error_span() {
        use crate::KikiErr;
        let mut n = 0usize;
        let mut seq: Vec<K> = vec![];
        fn go(seq: &mut Vec<K>, depth: usize, n: &mut usize) {
            let want = recognise(seq);
            for (lead, sep, trail) in [("", " ", ""), ("// \u{e9}\n", " // \u{2200} start {\n\t", "\n// end")] {
                let mut src = String::from(lead);
                let mut spans = vec![];
                for (i, k) in seq.iter().enumerate() {
                    // `:` directly before `:` or `::` would fuse; the separators used here never are empty
                    if i > 0 { src.push_str(sep); }
                    let t = text_of(*k, i);
                    spans.push((src.len(), t.clone()));
                    src.push_str(&t);
                }
                src.push_str(trail);
                // a panic where a parse error is due is a mismatch (on a sentence it is the business of the totality check)
                let Ok(got) = std::panic::catch_unwind(|| crate::generate(&src)) else {
                    assert!(want == Verdict::Accept, "LEAFCHECK-FAIL leaf=generate(parse-error-span) input={:?} got=panic want=a parse error for token {:?}", src, want);
                    continue;
                };
                let ok = match (&want, &got) {
                    (Verdict::Accept, Err(KikiErr::Parse(..))) | (Verdict::Accept, Err(KikiErr::Lex(..))) => false,
                    (Verdict::Accept, _) => true,
                    (Verdict::ErrorAt(i), Err(KikiErr::Parse(a, t, b))) => a.0 == spans[*i].0 && *t == spans[*i].1 && b.0 == a.0 + t.len(),
                    (Verdict::NeedMore, Err(KikiErr::Parse(a, t, b))) => a.0 == src.len() && t.is_empty() && b.0 == src.len(),
                    _ => false,
                };
                let want_text = match &want {
                    Verdict::Accept => "no lexical or parse error (the token sequence is a sentence of the Kiki grammar)".to_string(),
                    Verdict::ErrorAt(i) => format!("Parse(ByteIndex({}), {:?}, ByteIndex({}))", spans[*i].0, spans[*i].1, spans[*i].0 + spans[*i].1.len()),
                    Verdict::NeedMore => format!("Parse(ByteIndex({}), \"\", ByteIndex({}))", src.len(), src.len()),
                };
                let got_text = match &got { Ok(_) => "Ok".to_string(), Err(e) => format!("{:?}", e).chars().take(200).collect() };
                assert!(ok, "LEAFCHECK-FAIL leaf=generate(parse-error-span) input={:?} got={} want={}", src, got_text, want_text);
                *n += 1;
            }
            if depth == 0 || matches!(want, Verdict::ErrorAt(_)) { return; }
            for k in KINDS { seq.push(k); go(seq, depth - 1, n); seq.pop(); }
        }
        let depth = if std::env::var("VX_LEAF_THOROUGH").is_ok() { 6 } else { 4 };
        go(&mut seq, depth, &mut n);
        println!("LEAFCHECK leaf=generate(parse-error-span) cases={}", n);
    }

    // ---------------- generated texts with the declarations they were printed from ----------------
    fn type_texts(depth: usize) -> Vec<(String, String)> {
        // (source text, shape)
        let mut out = vec![("()".to_string(), "Unit".to_string())];
        let paths = [("a", "P[a]"), ("Bc", "P[Bc]"), ("a::Bc", "P[a,Bc]"), ("crate::m::T", "P[crate,m,T]")];
        for (s, sh) in paths { out.push((s.to_string(), sh.to_string())); }
        if depth > 0 {
            let sub = type_texts(depth - 1);
            // representatives of every shape an argument can have: unit, short path, long path, generic with one argument, generic with several
            let mut reps: Vec<(String, String)> = vec![sub[0].clone(), sub[1].clone(), sub[3].clone()];
            if let Some(x) = sub.iter().find(|x| x.1.starts_with("C(") && !x.0.contains(',')) { reps.push(x.clone()); }
            if let Some(x) = sub.iter().rev().find(|x| x.1.starts_with("C(") && x.0.contains(',')) { reps.push(x.clone()); }
            for (ps, psh) in [("V", "P[V]"), ("a::Bc", "P[a,Bc]")] {
                for (s, sh) in &sub { out.push((format!("{}<{}>", ps, s), format!("C({};{})", psh, sh))); }
                for (s1, sh1) in &reps { for (s2, sh2) in &reps {
                    out.push((format!("{}<{}, {}>", ps, s1, s2), format!("C({};{},{})", psh, sh1, sh2)));
                    for (s3, sh3) in &reps {
                        if ps == "V" { out.push((format!("{}<{}, {}, {}>", ps, s1, s2, s3), format!("C({};{},{},{})", psh, sh1, sh2, sh3))); }
                    }
                } }
            }
        }
        out
    }
    /// (source text, full shape, projection: declaration heads with their attribute lists)
    fn texts3() -> Vec<(String, String, String)> {
        let mut out = vec![];
        for (ts, tsh) in type_texts(2) {
            out.push((format!("terminal Tok {{ $X: {} $Y: () }}", ts), format!("Terminal([];Tok;X:{} Y:Unit)", tsh), "Terminal([];Tok)".to_string()));
        }
        let attr_lists = [vec![], vec!["#[a]"], vec!["#[derive(B, C)]", "#[doc = \"é{}\"]"]];
        let fieldsets = [("", "E"), ("{ x: A }", "N(x:nA)"), ("{ x: A _: $X y: $Y }", "N(x:nA _:tX y:tY)"), ("(A)", "T(u:nA)"), ("($X _: A B)", "T(u:tX s:nA u:nB)"), ("(_: $X)", "T(s:tX)")];
        for attrs in &attr_lists {
            let a_src: String = attrs.iter().map(|a| format!("{}\n", a)).collect();
            let a_sh = attrs.join("|");
            for (fs, fsh) in fieldsets {
                out.push((format!("start A\n{}struct A {}\n", a_src, fs), format!("Start(A) Struct([{}];A;{})", a_sh, fsh), format!("Start(A) Struct([{}];A)", a_sh)));
                for (fs2, fsh2) in fieldsets.iter().take(4) {
                    out.push((format!("{}enum E {{ V {} W {} }}\n{}terminal T {{}}", a_src, fs, fs2, a_src),
                              format!("Enum([{}];E;V:{} W:{}) Terminal([{}];T;)", a_sh, fsh, fsh2, a_sh), format!("Enum([{}];E) Terminal([{}];T)", a_sh, a_sh)));
                }
            }
            out.push((format!("{}enum E {{}}", a_src), format!("Enum([{}];E;)", a_sh), format!("Enum([{}];E)", a_sh)));
        }
        out
    }
    fn texts() -> Vec<(String, String)> { texts3().into_iter().map(|(a, b, _)| (a, b)).collect() }
    fn sym_shape(s: &ast::IdentOrTerminalIdent) -> String {
        match s { ast::IdentOrTerminalIdent::Ident(i) => format!("n{}", i.name), ast::IdentOrTerminalIdent::Terminal(t) => format!("t{}", t.name.raw()) }
    }
    fn fieldset_shape(f: &ast::Fieldset) -> String {
        match f {
            ast::Fieldset::Empty => "E".to_string(),
            ast::Fieldset::Named(n) => format!("N({})", n.fields.iter().map(|f| format!("{}:{}", match &f.name { ast::IdentOrUnderscore::Ident(i) => i.name.clone(), ast::IdentOrUnderscore::Underscore(_) => "_".to_string() }, sym_shape(&f.symbol))).collect::<Vec<_>>().join(" ")),
            ast::Fieldset::Tuple(t) => format!("T({})", t.fields.iter().map(|f| match f { ast::TupleField::Used(s) => format!("u:{}", sym_shape(s)), ast::TupleField::Skipped(s) => format!("s:{}", sym_shape(s)) }).collect::<Vec<_>>().join(" ")),
        }
    }
    fn type_shape(t: &ast::Type) -> String {
        let path = |p: &Vec<Ident>| format!("P[{}]", p.iter().map(|i| i.name.clone()).collect::<Vec<_>>().join(","));
        match t {
            ast::Type::Unit => "Unit".to_string(),
            ast::Type::Path(p) => path(p),
            ast::Type::Complex(c) => format!("C({};{})", path(&c.callee), c.args.iter().map(type_shape).collect::<Vec<_>>().join(",")),
        }
    }
    fn attrs_shape(a: &[Attribute]) -> String { a.iter().map(|x| x.src.clone()).collect::<Vec<_>>().join("|") }
    fn file_shape(f: &ast::File) -> String {
        f.items.iter().map(|it| match it {
            ast::FileItem::Start(i) => format!("Start({})", i.name),
            ast::FileItem::Struct(s) => format!("Struct([{}];{};{})", attrs_shape(&s.attributes), s.name.name, fieldset_shape(&s.fieldset)),
            ast::FileItem::Enum(e) => format!("Enum([{}];{};{})", attrs_shape(&e.attributes), e.name.name,
                e.variants.iter().map(|v| format!("{}:{}", v.name.name, fieldset_shape(&v.fieldset))).collect::<Vec<_>>().join(" ")),
            ast::FileItem::Terminal(t) => format!("Terminal([{}];{};{})", attrs_shape(&t.attributes), t.name.name,
                t.variants.iter().map(|v| format!("{}:{}", v.name.name.raw(), type_shape(&v.type_))).collect::<Vec<_>>().join(" ")),
        }).collect::<Vec<_>>().join(" ")
    }

    fn roundtrip(src: &str, leaf: &str, want: &str) -> ast::File {
        let toks = tokenize(src).expect("generated text must lex");
        let cst = match parse(toks) { Ok(c) => c, Err(e) => panic!("LEAFCHECK-FAIL leaf={} input={:?} got=parse error at {:?} want={:?}", leaf, src, e.map(|t| position_of(&t)), want) };
        cst.into()
    }
    fn attrs_only(f: &ast::File) -> String {
        f.items.iter().map(|it| match it {
            ast::FileItem::Start(i) => format!("Start({})", i.name),
            ast::FileItem::Struct(s) => format!("Struct([{}];{})", attrs_shape(&s.attributes), s.name.name),
            ast::FileItem::Enum(e) => format!("Enum([{}];{})", attrs_shape(&e.attributes), e.name.name),
            ast::FileItem::Terminal(t) => format!("Terminal([{}];{})", attrs_shape(&t.attributes), t.name.name),
        }).collect::<Vec<_>>().join(" ")
    }
    /// the shape with attribute lists and payload types blanked (they have their own tests)
    fn decls_only(shape: &str) -> String {
        let mut out = String::new();
        let mut depth_sq = 0;
        for c in shape.chars() {
            if c == '[' { depth_sq += 1; out.push(c); continue; }
            if c == ']' { depth_sq -= 1; out.push(c); continue; }
            if depth_sq == 0 { out.push(c); }
        }
        out
    }

    #[test]
    fn leaf_roundtrip_types() {
        // C13: path segments and generic arguments of a payload type reach the syntax tree in their written order, to any depth
        let ts: Vec<(String, String)> = texts().into_iter().filter(|(s, _)| s.starts_with("terminal Tok")).collect();
        for (src, want) in &ts {
            let got = file_shape(&roundtrip(src, "cst_to_ast(types)", want));
            assert!(&got == want, "LEAFCHECK-FAIL leaf=cst_to_ast(types) input={:?} got={:?} want={:?}", src, got, want);
        }
        println!("LEAFCHECK leaf=cst_to_ast(types) cases={}", ts.len());
    }

    #[test]
    fn leaf_roundtrip_attributes() {
        // C12 (b): the attributes of a declaration reach the syntax tree verbatim, in their written order, on the declaration they precede
        let ts: Vec<(String, String, String)> = texts3().into_iter().filter(|(s, _, _)| !s.starts_with("terminal Tok")).collect();
        for (src, _, want) in &ts {
            let got = attrs_only(&roundtrip(src, "cst_to_ast(attributes)", want));
            assert!(&got == want, "LEAFCHECK-FAIL leaf=cst_to_ast(attributes) input={:?} got={:?} want={:?}", src, got, want);
        }
        println!("LEAFCHECK leaf=cst_to_ast(attributes) cases={}", ts.len());
    }

    #[test]
    fn leaf_roundtrip_declarations() {
        // C10 / C06 (`the file`): items, fields, `_` fields, variants in their written order (attribute lists and payload types blanked)
        let ts: Vec<(String, String)> = texts().into_iter().filter(|(s, _)| !s.starts_with("terminal Tok")).collect();
        for (src, want) in &ts {
            let got = decls_only(&file_shape(&roundtrip(src, "cst_to_ast(declarations)", want)));
            let want = decls_only(want);
            assert!(got == want, "LEAFCHECK-FAIL leaf=cst_to_ast(declarations) input={:?} got={:?} want={:?}", src, got, want);
        }
        println!("LEAFCHECK leaf=cst_to_ast(declarations) cases={}", ts.len());
    }
}
