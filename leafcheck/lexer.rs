// target: kiki/src/pipeline/tokenize.rs
// leaves: tokenize - BOUNDED STAND-IN for changed code the verifier cannot ingest (the unchanged tokenizer is verified against its invariant)
// props leaf_tokenize_reference: C08   (token list / lexical error equal to those of an independent longest-match scanner written from the statement)
// covers leaf_tokenize_reference: fn tokenize
// bound: every string of <= 4 characters (<= 5 in the thorough tier) over a 17-character alphabet (blank, LF, CR, `/ a _ 9 $ : # [ ] ( } ,`, e-acute, U+3000),
//        every reserved word and near-miss with 6 prefixes and 9 suffixes, attributes with 0..3 nested brackets of the three kinds in all
//        balanced and unbalanced arrangements of <= 6 brackets, with multi-byte text, and nested 1, 254, 255, 256, 257, 300 and 70 000 deep
#[cfg(test)]
mod __vx_leafcheck {
    use super::*;

    fn is_start(c: char) -> bool { c.is_ascii_alphabetic() || c == '_' }
    fn is_cont(c: char) -> bool { c.is_ascii_alphanumeric() || c == '_' }

    /// longest-match scanner written from the statement of the property; Err((byte index, offending character or None at end of input))
    fn reference(src: &str) -> Result<Vec<Token>, (usize, Option<char>)> {
        let cs: Vec<(usize, char)> = src.char_indices().collect();
        let at = |i: usize| -> Option<char> { cs.get(i).map(|p| p.1) };
        let pos = |i: usize| -> usize { cs.get(i).map_or(src.len(), |p| p.0) };
        let mut out = vec![];
        let mut i = 0usize;
        while i < cs.len() {
            let c = cs[i].1;
            let p = ByteIndex(pos(i));
            if c.is_whitespace() { i += 1; continue; }
            if c == '/' {
                if at(i + 1) != Some('/') { return Err((pos(i), Some('/'))); }
                while i < cs.len() && cs[i].1 != '\n' { i += 1; }
                continue;
            }
            if is_start(c) {
                let mut j = i + 1;
                while at(j).map_or(false, is_cont) { j += 1; }
                let word = &src[pos(i)..pos(j)];
                out.push(match word {
                    "_" => Token::Underscore(p), "start" => Token::StartKw(p), "struct" => Token::StructKw(p), "enum" => Token::EnumKw(p), "terminal" => Token::TerminalKw(p),
                    _ => Token::Ident(Ident { name: word.to_string(), position: p }),
                });
                i = j;
                continue;
            }
            if c == '$' {
                if !at(i + 1).map_or(false, is_start) { return Err((pos(i), Some('$'))); }
                let mut j = i + 2;
                while at(j).map_or(false, is_cont) { j += 1; }
                let word = &src[pos(i + 1)..pos(j)];
                if matches!(word, "_" | "start" | "struct" | "enum" | "terminal") { return Err((pos(j), at(j))); }
                out.push(Token::TerminalIdent(TerminalIdent { name: DollarlessTerminalName::remove_dollars(word), dollarless_position: ByteIndex(pos(i + 1)) }));
                i = j;
                continue;
            }
            if c == ':' {
                if at(i + 1) == Some(':') { out.push(Token::DoubleColon(p)); i += 2; } else { out.push(Token::Colon(p)); i += 1; }
                continue;
            }
            if c == '#' {
                if at(i + 1) != Some('[') { return Err((pos(i), Some('#'))); }
                // the attribute ends where the bracket depth (any of the three kinds) returns to zero; it may not span a line
                let mut depth = 0usize;
                let mut j = i + 1;
                let end;
                loop {
                    match at(j) {
                        None => return Err((src.len(), None)),
                        Some('\n') => return Err((pos(j), Some('\n'))),
                        Some('(') | Some('[') | Some('{') => depth += 1,
                        Some(')') | Some(']') | Some('}') => { depth -= 1; if depth == 0 { end = j + 1; break; } }
                        _ => {}
                    }
                    j += 1;
                }
                // ... and inside it every closing bracket must match the kind of the one it closes
                let mut stack = vec![];
                for k in i + 1..end {
                    match cs[k].1 {
                        o @ ('(' | '[' | '{') => stack.push(o),
                        cl @ (')' | ']' | '}') => {
                            let o = stack.pop();
                            if !matches!((o, cl), (Some('('), ')') | (Some('['), ']') | (Some('{'), '}')) { return Err((pos(k), Some(cl))); }
                        }
                        _ => {}
                    }
                }
                out.push(Token::OuterAttribute(Attribute { src: src[pos(i)..pos(end)].to_string(), position: p }));
                i = end;
                continue;
            }
            out.push(match c {
                ',' => Token::Comma(p), '(' => Token::LParen(p), ')' => Token::RParen(p), '{' => Token::LCurly(p), '}' => Token::RCurly(p), '<' => Token::LAngle(p), '>' => Token::RAngle(p),
                _ => return Err((pos(i), Some(c))),
            });
            i += 1;
        }
        Ok(out)
    }

    fn check(src: &str) -> bool {
        let want = match reference(src) { Ok(t) => format!("Ok({:?})", t), Err((i, c)) => format!("Err(Lex(ByteIndex({}), {:?}))", i, c) };
        let got = match tokenize(src) { Ok(t) => format!("Ok({:?})", t), Err(e) => format!("Err({:?})", e) };
        if got != want {
            let short = |s: &str| if s.len() > 300 { format!("{}.. ({} bytes)", s.chars().take(300).collect::<String>(), s.len()) } else { s.to_string() };
            println!("LEAFCHECK-FAIL leaf=tokenize input={:?} got={} want={}", short(src), short(&got), short(&want));
            return false;
        }
        true
    }

    #[test]
    fn leaf_tokenize_reference() {
        let thorough = std::env::var("VX_LEAF_THOROUGH").is_ok();
        const ALPHA: [char; 17] = [' ', '\n', '\r', '/', 'a', '_', '9', '$', ':', '#', '[', ']', '(', '}', ',', '\u{e9}', '\u{3000}'];
        let mut n = 0usize;
        let maxlen = if thorough { 5 } else { 4 };
        let mut frontier = vec![String::new()];
        assert!(check(""), "tokenize disagrees with the reference scanner");
        for _ in 0..maxlen {
            let mut next = Vec::with_capacity(frontier.len() * ALPHA.len());
            for s in &frontier { for c in ALPHA { let mut t = s.clone(); t.push(c); assert!(check(&t), "tokenize disagrees with the reference scanner"); n += 1; next.push(t); } }
            frontier = next;
        }
        drop(frontier);
        for w in ["start", "struct", "enum", "terminal", "_", "star", "starts", "Start", "__", "_a", "a_", "x9", "terminal_"] {
            for pre in ["", "$", "$$", "a", " ", "\u{e9}"] { for suf in ["", "a", "9", " ", ":", "\n", "\u{e9}", "$", "//"] {
                assert!(check(&format!("{}{}{}", pre, w, suf)), "tokenize disagrees with the reference scanner"); n += 1;
            } }
        }
        // attributes: every arrangement of <= 6 brackets after `#[`, with text between them
        const BR: [char; 6] = ['(', ')', '[', ']', '{', '}'];
        let mut arr = vec![String::new()];
        let mut all = vec![String::new()];
        for _ in 0..(if thorough { 6 } else { 5 }) {
            let mut next = vec![];
            for s in &arr { for b in BR { let mut t = s.clone(); t.push(b); next.push(t); } }
            all.extend(next.iter().cloned());
            arr = next;
        }
        for a in &all {
            for (fill, tail) in [("", ""), ("\u{e9}x ", " struct"), ("\"", "\n]")] {
                let body: String = a.chars().flat_map(|c| fill.chars().chain(std::iter::once(c))).collect();
                assert!(check(&format!("#[{}{}", body, tail)), "tokenize disagrees with the reference scanner"); n += 1;
            }
        }
        for depth in [1usize, 254, 255, 256, 257, 300, 70_000] {
            for (open, close) in [("(", ")"), ("[", "]"), ("{", "}")] {
                let s = format!("#[a{}x{}] struct", open.repeat(depth), close.repeat(depth));
                assert!(check(&s), "tokenize disagrees with the reference scanner"); n += 1;
                let s = format!("#[a{}x{}] struct", open.repeat(depth), close.repeat(depth - 1));
                assert!(check(&s), "tokenize disagrees with the reference scanner"); n += 1;
            }
        }
        println!("LEAFCHECK leaf=tokenize cases={}", n);
    }
}
