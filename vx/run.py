"""Runs Verus on the generated unit files and turns its diagnostics into obligations per property.

exit code protocol (DESIGN 2.5):  0 = every obligation mapped to the property discharged and the
vacuity guards hold;  1 = an obligation failed (VIOLATION line);  2 = undecided (UNDECIDED line).
"""
import concurrent.futures
import hashlib
import json
import os
import re
import shutil
import subprocess
import sys
import time

HERE = os.path.dirname(os.path.abspath(__file__))
VERIF = os.path.dirname(HERE)
sys.path.insert(0, HERE)
import extract

PROP_RE = re.compile(r'\bC\d\d\b')

KIND_PATTERNS = [
    ('post', re.compile(r'postcondition not satisfied|unable to prove post-?condition of closure')),
    ('pre', re.compile(r'unable to prove pre-?condition of closure')),
    ('pre', re.compile(r'precondition not satisfied')),
    ('assert', re.compile(r'assertion failed|assertion not satisfied')),
    ('inv', re.compile(r'invariant not satisfied')),
    ('arith', re.compile(r'possible arithmetic (underflow|overflow)|possible division by zero|possible bit shift')),
    ('term', re.compile(r'decreases not satisfied|could not prove termination')),
    ('unreachable', re.compile(r'unreachable|panic')),
    ('rlimit', re.compile(r'[Rr]esource limit|rlimit|timed? ?out')),
]
# kinds that are Verus' built-in safety obligations (totality, C07) rather than functional contracts
BUILTIN_KINDS = {'arith', 'term', 'unreachable'}


class Diag:
    def __init__(self):
        self.kind = 'other'
        self.message = ''
        self.spans = []       # (line_start, line_end, primary, label, file)
        self.children = []
        self.rendered = ''
        self.item = None      # (section file, item path)
        self.props = set()
        self.region = None
        self.callee_external = False
        self.is_canary = False
        self.in_machinery = False
        self.text = ''        # source text of the primary span

    def oblig_id(self):
        it = '%s::%s' % self.item if self.item else 'machinery'
        return '%s#%s' % (it, self.kind)


class UnitRun:
    def __init__(self, name):
        self.name = name
        self.info = None
        self.undecided = None     # reason string
        self.diags = []
        self.verified = 0
        self.errors = 0
        self.breakdown = []       # (function, mode, ms, rlimit, success)
        self.wall_s = 0.0
        self.smt_ms = 0
        self.cmd = ''
        self.gen_path = ''
        self.canaries_failed = 0
        self.canaries_expected = 0
        self.assumptions = []
        self.gen_lines = []


def classify(msg):
    for k, rx in KIND_PATTERNS:
        if rx.search(msg):
            return k
    return 'other'


def scan_assumptions(lines):
    out = []
    rx = re.compile(r'\b(assume_specification|external_body|external_fn_specification|admit\s*\(|assume\s*\(|exec_allows_no_decreases_clause|#\[verifier::external\]|uninterp\s+spec\s+fn|axiom\s+fn)')
    i = 0
    n = len(lines)
    while i < n:
        ln = lines[i]
        m = rx.search(ln)
        if m and not ln.lstrip().startswith('//'):
            what = m.group(1).strip()
            # gather the declaration text up to the first ';' or '{' at depth 0 (contract included)
            text = ln.strip()
            j = i
            if what in ('external_body', '#[verifier::external]'):
                j = i + 1
                text = ''
            buf = []
            while j < n and len(buf) < 14:
                buf.append(lines[j].strip())
                if re.search(r'[;{]\s*(//.*)?$', lines[j]) and what != 'assume_specification':
                    break
                if what == 'assume_specification' and lines[j].rstrip().endswith(';'):
                    break
                j += 1
            out.append({'line': i + 1, 'kind': what.rstrip('( '), 'text': ' '.join(b for b in buf if b)[:600]})
        i += 1
    return out


def run_unit(unit, repo, workdir, rlimit=None, seed=None, extra=None):
    ur = UnitRun(unit)
    t0 = time.time()
    unit_json = os.path.join(VERIF, 'units', unit + '.json')
    gen = os.path.join(workdir, unit + '.rs')
    ur.gen_path = gen
    try:
        ur.info = extract.build_unit(unit_json, repo, gen)
    except extract.Undecided as ex:
        ur.undecided = 'extractor: %s' % ex
        ur.wall_s = time.time() - t0
        return ur
    ur.gen_lines = open(gen).read().split('\n')
    ur.assumptions = scan_assumptions(ur.gen_lines)
    cmd = ['verus', gen, '--output-json', '--time', '--triggers-mode', 'silent',
           '--error-format=json', '--multiple-errors', '20', '--num-threads', '8']
    unit_cfg = json.load(open(unit_json))
    for m in unit_cfg.get('verify_modules', []):
        if m in ('', 'crate'):
            cmd += ['--verify-root']
        else:
            cmd += ['--verify-only-module', m]
    if rlimit:
        cmd += ['--rlimit', str(rlimit)]
    if seed is not None:
        cmd += ['--smt-option', 'smt.random_seed=%d' % seed, '--smt-option', 'sat.random_seed=%d' % seed]
    if extra:
        cmd += extra
    ur.cmd = ' '.join(cmd)
    try:
        p = subprocess.run(cmd, cwd=workdir, stdout=subprocess.PIPE, stderr=subprocess.PIPE, timeout=3000,
                           env=dict(os.environ, RUST_MIN_STACK='2000000000'))
    except subprocess.TimeoutExpired:
        ur.undecided = 'verus timed out on unit %s' % unit
        ur.wall_s = time.time() - t0
        return ur
    out = p.stdout.decode('utf-8', 'replace')
    err = p.stderr.decode('utf-8', 'replace')
    open(os.path.join(workdir, unit + '.out.json'), 'w').write(out)
    open(os.path.join(workdir, unit + '.err.json'), 'w').write(err)
    try:
        js = json.loads(out)
    except Exception:
        js = None
    # diagnostics
    raw_err_lines = []
    for line in err.split('\n'):
        line = line.strip()
        if not line:
            continue
        if not line.startswith('{'):
            raw_err_lines.append(line)
            continue
        try:
            j = json.loads(line)
        except Exception:
            raw_err_lines.append(line)
            continue
        if j.get('level') not in ('error', 'error: internal compiler error'):
            continue
        msg = j.get('message', '')
        if msg.startswith('aborting due to'):
            continue
        d = Diag()
        d.message = msg
        d.rendered = j.get('rendered') or ''
        d.kind = classify(msg)
        if j.get('code'):
            d.kind = 'rustc'
        for s in j.get('spans', []):
            d.spans.append((s['line_start'], s['line_end'], s.get('is_primary', False), s.get('label'), s.get('file_name')))
        for c in j.get('children', []):
            for s in c.get('spans', []):
                d.spans.append((s['line_start'], s['line_end'], False, c.get('message'), s.get('file_name')))
            d.children.append(c.get('message', ''))
        ur.diags.append(d)
    if js is None:
        ur.undecided = 'verus produced no JSON result (exit %d): %s' % (p.returncode, ' | '.join(raw_err_lines[:5])[:500])
        ur.wall_s = time.time() - t0
        locate_all(ur)
        return ur
    vr = js.get('verification-results', {})
    ur.verified = vr.get('verified', 0)
    ur.errors = vr.get('errors', 0)
    smt = js.get('times-ms', {}).get('smt', {})
    ur.smt_ms = smt.get('total', 0)
    for m in smt.get('smt-run-module-times', []):
        for f in m.get('function-breakdown', []):
            ur.breakdown.append({'function': f['function'], 'mode': f.get('mode:', f.get('mode', '')),
                                 'ms': f.get('time', 0), 'rlimit': f.get('rlimit', 0), 'success': f.get('success', False),
                                 'module': m.get('module', '')})
    if vr.get('encountered-vir-error'):
        ur.undecided = 'verus front-end error (unsupported construct or ill-formed generated file)'
    locate_all(ur)
    ur.wall_s = time.time() - t0
    return ur


def locate_all(ur):
    info = ur.info
    gen_base = os.path.basename(ur.gen_path)
    vm = None
    try:
        vm = json.load(open(os.path.join(VERIF, 'units', ur.name + '.json'))).get('verify_modules')
    except Exception:
        pass
    def in_scope(s):
        if vm is None:
            return True
        m = s['mod'][len('crate'):].lstrip(':')
        return m in vm or (m == '' and 'crate' in vm)
    canary_lines = {s['canary_line'] for s in info['sections'] if in_scope(s)}
    ur.canaries_expected = len(canary_lines)
    for s in info['sections']:
        s['in_scope'] = in_scope(s)
    for d in ur.diags:
        locate(d, info, gen_base, ur.gen_lines)
        if d.is_canary:
            ur.canaries_failed += 1


def find_item(info, line):
    """Map a generated-file line to (section, item path, kind) of the innermost real item; None if overlay-only."""
    for s in info['sections']:
        if not (s['first_line'] <= line <= s['last_line']):
            continue
        for (a, b, owner) in s['extra_ranges']:
            if owner and a <= line <= b:
                return s, owner
        best = None
        for (path, kind, a, b) in s['items']:
            if a is not None and b is not None and a <= line <= b and kind == 'fn':
                if best is None or (b - a) < (best[2] - best[1]):
                    best = (path, a, b)
        if best:
            return s, best[0]
        return s, None
    return None, None


def find_region(info, line):
    for s in info['sections']:
        if s['first_line'] <= line <= s['last_line']:
            best = None
            for (a, b, label) in s['regions']:
                if a <= line <= b:
                    if best is None or (b - a) < (best[1] - best[0]):
                        best = (a, b, label)
            return best
    return None


def item_props(sec, path):
    """Property ids named by the overlay regions that lie inside a real item."""
    rng = None
    for (p, kind, a, b) in sec['items']:
        if p == path:
            rng = (a, b)
    props = set()
    if rng:
        for (a, b, label) in sec['regions']:
            if rng[0] <= a and b <= rng[1] + 1:
                props.update(PROP_RE.findall(label))
    # pasted-away bodies: regions that contain a paste owned by this item
    for (a, b, owner) in sec['extra_ranges']:
        if owner == path:
            for (ra, rb, label) in sec['regions']:
                if ra <= a and b <= rb:
                    props.update(PROP_RE.findall(label))
    return props


def locate(d, info, gen_base, gen_lines):
    spans = sorted(d.spans, key=lambda s: (not s[2],))
    own = [s for s in spans if s[4] and os.path.basename(s[4]) == gen_base]
    ext = [s for s in spans if not (s[4] and os.path.basename(s[4]) == gen_base)]
    d.callee_external = bool(ext) and d.kind == 'pre'
    canary_lines = {s['canary_line'] for s in info['sections']}
    for s in own:
        if s[0] in canary_lines:
            d.is_canary = True
            return
    prim = [s for s in own if s[2]]
    if prim:
        a, b = prim[0][0], prim[0][1]
        d.text = ' '.join(l.strip() for l in gen_lines[a - 1:min(b, a + 3)])[:300]
        reg = find_region(info, a)
        if reg:
            d.region = reg[2]
    sec = None
    for s in own:
        sec, path = find_item(info, s[0])
        if path:
            d.item = (sec['file'], path)
            break
    if d.item is None:
        d.in_machinery = True
        return
    # properties: the clause's own label if it names some, else everything the function serves
    if d.region and PROP_RE.findall(d.region):
        d.props.update(PROP_RE.findall(d.region))
    else:
        for s in info['sections']:
            if s['file'] == d.item[0]:
                d.props.update(item_props(s, d.item[1]))


def map_breakdown(ur):
    """function-breakdown entry -> list of (section file, item path) candidates (by module + fn name)."""
    res = []
    info = ur.info
    crate = os.path.splitext(os.path.basename(ur.gen_path))[0]
    for f in ur.breakdown:
        parts = f['function'].split('::')
        fn = parts[-1]
        cands = []
        for s in info['sections']:
            mod = s['mod'].split('::')[1:]
            if parts[1:1 + len(mod)] == mod and len(parts) - 1 - len(mod) in (1, 2):
                for (path, kind, a, b) in s['items']:
                    if kind == 'fn' and path.split(' :: ')[-1] == 'fn ' + fn:
                        cands.append((s['file'], path))
                # relocated bodies: __vx_<name>
                if fn.startswith('__vx_'):
                    for (a, b, owner) in s['extra_ranges']:
                        if owner and owner.split(' :: ')[-1] == 'fn ' + fn[5:]:
                            cands.append((s['file'], owner))
        res.append((f, cands))
    return res
