"""T3: mechanical rewrite of `format!("lit{a}lit{}..", args)` into a call of a generated helper.

Verus has no model of `format!`.  Every invocation whose format string uses only plain placeholders
(`{}`, `{0}`, `{name}`; `{{`/`}}` escapes) is replaced, on every run, by

    __vx_fmt_<n>(&a, &(arg), ...)

and the helper is generated next to it:

    #[verifier::external_body]
    fn __vx_fmt_<n><A0: Display + ?Sized, ..>(a0: &A0, ..) -> (r: String)
        ensures r@ == "lit"@ + disp(a0) + "lit"@ + disp(a1) + ...
    { format!("lit{}lit{}..", a0, a1, ..) }

The literal pieces are copied from the format string; `disp` (prelude vx_fmt) is the Display rendering:
the characters of a String / &str, the decimal digits of an integer.  The contract of the helper is the
documented meaning of `format!` for plain placeholders (trusted, listed as T3 in the evidence).
Invocations with format specs (`{:?}`, `{:>4}`), named arguments or escapes that could hide a brace are
left untouched (Verus then rejects the file and the run is undecided).
"""
import os
import re
import sys

sys.path.insert(0, os.path.dirname(os.path.abspath(__file__)))
import rtok

PLAIN = re.compile(r'^([A-Za-z_][A-Za-z0-9_]*|[0-9]+)?$')


def _split_literal(tok_text):
    """Return (prefix, body, suffix) of a string literal token: r##" body "##  or  " body "."""
    m = re.match(r'^(r#*")', tok_text)
    if m:
        pre = m.group(1)
        suf = '"' + '#' * (len(pre) - 2)
        return pre, tok_text[len(pre):len(tok_text) - len(suf)], suf
    if tok_text.startswith('"'):
        return '"', tok_text[1:-1], '"'
    return None


def _parse_pieces(body, raw):
    """Split a format string body into literal pieces and placeholder names.  None if unsupported."""
    if not raw and re.search(r'\\u\{|\\x7[bBdD]', body):
        return None
    pieces, holes = [], []
    cur = []
    i, n = 0, len(body)
    while i < n:
        c = body[i]
        if c == '{':
            if i + 1 < n and body[i + 1] == '{':
                cur.append('{')
                i += 2
                continue
            j = body.find('}', i)
            if j < 0:
                return None
            inner = body[i + 1:j].strip()
            if not PLAIN.match(inner):
                return None
            pieces.append(''.join(cur))
            cur = []
            holes.append(inner)
            i = j + 1
            continue
        if c == '}':
            if i + 1 < n and body[i + 1] == '}':
                cur.append('}')
                i += 2
                continue
            return None
        if not raw and c == '\\' and i + 1 < n:
            cur.append(body[i:i + 2])
            i += 2
            continue
        cur.append(c)
        i += 1
    pieces.append(''.join(cur))
    return pieces, holes


def _match_close(toks, i):
    depth = 0
    for j in range(i, len(toks)):
        t = toks[j]
        if t.kind == 'p':
            if t.text in '([{':
                depth += 1
            elif t.text in ')]}':
                depth -= 1
                if depth == 0:
                    return j
    return -1


def _text(toks):
    return ''.join(t.ws + t.text for t in toks)


def rewrite_format(text, start_index, tag):
    """Return (new_text, helpers_text, records).  Line structure of `text` is preserved."""
    try:
        toks, trailing = rtok.tokenize(text)
    except rtok.TokError:
        return text, '', []
    out = []
    helpers = []
    records = []
    i = 0
    n = len(toks)
    k = start_index
    while i < n:
        t = toks[i]
        if (t.kind == 'id' and t.text == 'format' and i + 2 < n and toks[i + 1].kind == 'p' and toks[i + 1].text == '!'
                and toks[i + 2].kind == 'p' and toks[i + 2].text == '('):
            c = _match_close(toks, i + 2)
            lit = toks[i + 3] if i + 3 < c else None
            done = False
            if c > 0 and lit is not None and lit.kind == 'str':
                sp = _split_literal(lit.text)
                if sp is not None:
                    pre, body, suf = sp
                    raw = pre.startswith('r')
                    pp = _parse_pieces(body, raw)
                    # positional arguments
                    args = []
                    ok = pp is not None
                    if ok:
                        j = i + 4
                        cur = []
                        depth = 0
                        seen_comma = False
                        while j < c:
                            tj = toks[j]
                            if tj.kind == 'p' and tj.text in '([{':
                                depth += 1
                            elif tj.kind == 'p' and tj.text in ')]}':
                                depth -= 1
                            if depth == 0 and tj.kind == 'p' and tj.text == ',':
                                if seen_comma:
                                    args.append(cur)
                                seen_comma = True
                                cur = []
                            else:
                                cur.append(tj)
                            j += 1
                        if seen_comma and cur:
                            args.append(cur)
                        elif not seen_comma and cur:
                            ok = False
                        for a in args:
                            # named argument  name = expr  is not supported
                            if len(a) >= 2 and a[0].kind == 'id' and a[1].kind == 'p' and a[1].text == '=' and not (
                                    len(a) >= 3 and a[2].kind == 'p' and a[2].text == '='):
                                ok = False
                    if ok:
                        pieces, holes = pp
                        call_args = []
                        nextpos = 0
                        for h in holes:
                            if h == '':
                                if nextpos >= len(args):
                                    ok = False
                                    break
                                call_args.append('&(' + _text(args[nextpos]).strip() + ')')
                                nextpos += 1
                            elif h.isdigit():
                                if int(h) >= len(args):
                                    ok = False
                                    break
                                call_args.append('&(' + _text(args[int(h)]).strip() + ')')
                            else:
                                call_args.append('&' + h)
                    if ok:
                        name = '__vx_fmt_%s_%d' % (tag, k)
                        k += 1
                        m = len(holes)
                        gens = ', '.join('A%d: std::fmt::Display + ?Sized' % q for q in range(m))
                        params = ', '.join('a%d: &A%d' % (q, q) for q in range(m))
                        terms = []
                        for q in range(m + 1):
                            if pieces[q] != '':
                                terms.append(pre + pieces[q] + suf + '@')
                            if q < m:
                                terms.append('crate::vx_fmt::disp(a%d)' % q)
                        # right-nested concatenation: r@ == t0 + (t1 + (t2 + ...)), convenient for reasoning about prefixes
                        if not terms:
                            spec = 'Seq::<char>::empty()'
                        else:
                            spec = terms[-1]
                            for tm in reversed(terms[:-1]):
                                spec = tm + ' + (' + spec + ')'
                        # body: same literal with every placeholder made positional
                        fbody = []
                        for q in range(m + 1):
                            fbody.append(pieces[q].replace('{', '{{').replace('}', '}}'))
                            if q < m:
                                fbody.append('{}')
                        fcall = 'format!(' + pre + ''.join(fbody) + suf + ''.join(', a%d' % q for q in range(m)) + ')'
                        helpers.append('#[verifier::external_body]\nfn %s%s(%s) -> (r: String)\n    ensures r@ == %s\n{ %s }\n'
                                       % (name, ('<' + gens + '>') if m else '', params, spec, fcall))
                        orig = _text(toks[i:c + 1])
                        nl = orig.count('\n')
                        out.append(t.ws + name + '(' + ', '.join(call_args) + ')' + '\n' * (nl - t.ws.count('\n')))
                        records.append({'name': name, 'kind': 'T3', 'line': t.line,
                                        'original': ' '.join(orig.split())[:300],
                                        'replacement': name + '(' + ', '.join(call_args) + ')'})
                        i = c + 1
                        done = True
            if done:
                continue
        out.append(t.ws + t.text)
        i += 1
    return ''.join(out) + trailing, '\n'.join(helpers), records
