"""Bounded stand-in for trusted leaves (tier T): native, exhaustive-up-to-a-bound checks of the ASSUMED contracts.

A leaf that Verus cannot ingest (iterator adapters, `impl Iterator`, fn items in a recursion cycle) keeps an assumed
contract in the mirror.  For each such leaf /verif/leafcheck/<x>.rs holds a Rust test module that calls the REAL
function (it is appended, inside `#[cfg(test)]`, to a scratch copy of the file that defines the leaf - /repo is
never touched) on every input of a stated finite family and compares the result with an executable reading of the
assumed contract.  The outcome is labelled `bounded` in the evidence and never counted as proved; a mismatch is a
VIOLATION with the failing input (the only place where this machinery has a concrete counterexample).
"""
import os
import re
import shutil
import subprocess
import time

HERE = os.path.dirname(os.path.abspath(__file__))
VERIF = os.path.dirname(HERE)
LEAFDIR = os.path.join(VERIF, 'leafcheck')


def modules():
    out = []
    for fn in sorted(os.listdir(LEAFDIR)):
        if not fn.endswith('.rs'):
            continue
        text = open(os.path.join(LEAFDIR, fn), encoding='utf-8').read()
        m = re.search(r'^// target:\s*(\S+)', text, re.M)
        if not m:
            continue
        head = text.split('#[cfg(test)]')[0]
        leaves = re.search(r'^// leaves?:\s*(.*?)^// bound:', head, re.M | re.S)
        bound = re.search(r'^// bound:\s*(.*)', head, re.M | re.S)
        out.append({'file': fn, 'target': m.group(1), 'text': text,
                    'props': sorted(set(re.findall(r'\bC\d\d\b', leaves.group(1) if leaves else head))),
                    'leaves_text': ' '.join((leaves.group(1) if leaves else '').replace('//', ' ').split()),
                    'bound': ' '.join((bound.group(1) if bound else '').replace('//', ' ').split()),
                    'tests': re.findall(r'fn (leaf_\w+)\s*\(', text)})
    return out


def covered_leaves():
    """{(target file, fn name): set of property ids} for every function named in a `// covers <test>: fn a, fn b` line:
    the properties that the (assumed) contract of that leaf serves, as declared by the bounded check that re-checks it."""
    out = {}
    for m in modules():
        for t in m['tests']:
            covers = re.findall(r'fn (\w+)', ' '.join(re.findall(r'^// covers %s:(.*)' % t, m['text'], re.M)))
            tp = re.findall(r'\bC\d\d\b', ' '.join(re.findall(r'^// props %s:([^\n(]*)' % t, m['text'], re.M))) or m['props']
            for fn in (covers or [t[len('leaf_'):]]):
                out.setdefault((m['target'], fn), set()).update(tp)
    return out


def run(repo, scratch, prop=None, thorough=False):
    """Run the leaf checks that serve `prop` (all if None).  Returns a dict:
    {'ran': bool, 'undecided': str|None, 'wall_s': float, 'results': [{test, leaf, cases, outcome, detail, module, bound, props}]}"""
    t0 = time.time()
    mods = [m for m in modules() if prop is None or prop in m['props']]
    res = {'ran': False, 'undecided': None, 'wall_s': 0.0, 'results': [], 'cmd': ''}
    if not mods:
        return res
    work = os.path.join(scratch, 'leafrepo')
    shutil.rmtree(work, ignore_errors=True)
    try:
        subprocess.run(['rsync', '-a', '--exclude', 'target', '--exclude', '.git', repo.rstrip('/') + '/', work + '/'], check=True)
    except Exception:
        shutil.rmtree(work, ignore_errors=True)
        shutil.copytree(repo, work, ignore=shutil.ignore_patterns('target', '.git'), symlinks=True)
    for m in mods:
        tgt = os.path.join(work, m['target'])
        if not os.path.exists(tgt):
            res['undecided'] = 'leaf check %s: target file %s no longer exists' % (m['file'], m['target'])
            res['wall_s'] = time.time() - t0
            return res
        with open(tgt, 'a', encoding='utf-8') as f:
            f.write('\n\n// ---- appended by /verif/vx/leaf.py (scratch copy only) ----\n' + m['text'])
    env = dict(os.environ, CARGO_NET_OFFLINE='true', CARGO_TARGET_DIR=os.path.join(scratch, 'leaftarget'))
    env.pop('VX_LEAF_THOROUGH', None)
    env['VX_LEAF_SCRATCH'] = scratch
    if thorough:
        env['VX_LEAF_THOROUGH'] = '1'
    # only the tests that serve `prop` (a module may hold tests for several properties)
    wanted = []
    for m in mods:
        for t in m['tests']:
            tp = re.findall(r'\bC\d\d\b', ' '.join(re.findall(r'^// props %s:([^\n(]*)' % t, m['text'], re.M))) or m['props']
            if prop is None or prop in tp:
                wanted.append(t)
    cmd = ['cargo', 'test', '--offline', '--lib', '--'] + (sorted(set(wanted)) if prop is not None else ['__vx_leafcheck']) + ['--test-threads=8', '--show-output']
    res['cmd'] = 'cd <scratch copy of the repository>/kiki && ' + ' '.join(cmd)
    try:
        p = subprocess.run(cmd, cwd=os.path.join(work, 'kiki'), env=env, stdout=subprocess.PIPE, stderr=subprocess.STDOUT, timeout=1800)
    except subprocess.TimeoutExpired:
        res['undecided'] = 'leaf checks timed out'
        res['wall_s'] = time.time() - t0
        return res
    out = p.stdout.decode('utf-8', 'replace')
    open(os.path.join(scratch, 'leafcheck.out'), 'w').write(out)
    status = dict(re.findall(r'^test \S*__vx_leafcheck::(leaf_\w+) \.\.\. (ok|FAILED)', out, re.M))
    if not status:
        # the scratch copy does not compile with the appended modules (a leaf changed its signature, ...)
        err = [l for l in out.splitlines() if l.startswith('error')][:3]
        res['undecided'] = 'leaf checks do not build against this tree: ' + ' | '.join(err)[:300]
        res['wall_s'] = time.time() - t0
        return res
    res['ran'] = True
    # per-test captured output: "---- path::__vx_leafcheck::leaf_x stdout ----" followed by the lines the test printed
    blocks = {}
    for m_ in re.finditer(r'^---- \S*__vx_leafcheck::(leaf_\w+) stdout ----\n(.*?)(?=^---- |^failures:|^successes:|\Z)', out, re.M | re.S):
        blocks.setdefault(m_.group(1), '')
        blocks[m_.group(1)] += m_.group(2)
    for m in mods:
        for t in m['tests']:
            if prop is not None and t not in wanted:
                continue
            st = status.get(t)
            blk = blocks.get(t, '')
            mc = re.search(r'LEAFCHECK leaf=(\S+) cases=(\d+)', blk)
            mf = re.search(r'LEAFCHECK-FAIL leaf=(\S+) (.*)', blk)
            fails = [d for (_, d) in re.findall(r'LEAFCHECK-FAIL leaf=(\S+) (.*)', blk)]
            covers = re.findall(r'fn (\w+)', ' '.join(re.findall(r'^// covers %s:(.*)' % t, m['text'], re.M)))
            tp = re.findall(r'\bC\d\d\b', ' '.join(re.findall(r'^// props %s:([^\n(]*)' % t, m['text'], re.M)))
            wh = re.search(r'^// props %s:[^\n(]*\((.*?)\)\s*$' % t, m['text'], re.M | re.S)
            r = {'test': t, 'module': m['file'], 'what': ' '.join(wh.group(1).replace('//', ' ').split()) if wh else '', 'covers': covers or [t[len('leaf_'):]], 'target': m['target'], 'bound': m['bound'], 'props': sorted(set(tp)) or m['props'],
                 'leaf': (mc.group(1) if mc else mf.group(1) if mf else t[len('leaf_'):]), 'cases': int(mc.group(2)) if mc else 0,
                 # a FAILED test counts as a contract mismatch only if it printed its LEAFCHECK-FAIL line (failing input, got, want);
                 # any other failure (the test itself or the leaf panicked) leaves the question open
                 'outcome': ('pass' if st == 'ok' else 'FAIL' if (st == 'FAILED' and mf) else 'crashed' if st == 'FAILED' else 'not run'),
                 'detail': (mf.group(2)[:1500] if mf else (blk[-600:] if st == 'FAILED' else '')),
                 # every mismatch the test printed (one test may report several cases); /verif/check sets aside the listed known findings
                 'fails': [d[:1500] for d in fails]}
            res['results'].append(r)
    if prop is not None:
        res['results'] = [x for x in res['results'] if prop in x['props']]
    crashed = [x['test'] for x in res['results'] if x['outcome'] in ('crashed', 'not run')]
    if crashed and not res['undecided']:
        res['undecided'] = 'leaf check(s) %s did not run to a verdict (panic outside the comparison)' % ', '.join(crashed)
    res['wall_s'] = time.time() - t0
    return res
