"""Mechanical extractor: /repo tokens + contract overlay -> one Verus file per unit.

See DESIGN.md section 2.2.  A *mirror section* is an annotated copy of (a selection of the items of)
one file of /repo.  Everything that is not a token of /repo is delimited by marker comments:

  //@file <repo path> mod=<crate::path>       section header
  //@[ <label>   ...   //@]                   ins : pure insertion (contracts, proof blocks, ghost items)
  /*@[*/ ... /*@]*/                           ins, inline form
  //@{ <name> [live]                          sub : substitution
  //@- <original tokens>                      (dead form: original recorded in comments; /*@- ... */ inline)
  //@|                                        separator original | replacement
  //@}                                        end of sub
  /*@orig <name>*/                            paste the *current* original tokens of sub <name>
                                              (only inside ins / replacement text)

Erasing the overlay (drop ins, keep the original side of sub) gives token sequence E.  The items
present in E select, by item key, the items of the current /repo file: token sequence R.  On every
run E is compared with R token by token.  If they differ (the repository was edited) the overlay is
re-anchored on R by token alignment; the generated file always contains R's tokens.
"""
import difflib
import json
import os
import re
import sys

sys.path.insert(0, os.path.dirname(os.path.abspath(__file__)))
import rtok
import items as itm
import fmt as vfmt


class Undecided(Exception):
    """The extractor cannot produce a verifiable file: exit 2, never a VIOLATION."""


# ----------------------------------------------------------------------------------------------
# mirror parsing
# ----------------------------------------------------------------------------------------------

class Real:
    __slots__ = ('tok', 'eidx', 'dead')

    def __init__(self, tok, dead=False):
        self.tok = tok
        self.eidx = -1
        self.dead = dead


class Ins:
    __slots__ = ('toks', 'label', 'close_ws', 'inline')

    def __init__(self, label):
        self.toks = []
        self.label = label
        self.close_ws = ''
        self.inline = False     # written as /*@[*/ ... /*@]*/ (annotation inside an expression)


class Sub:
    __slots__ = ('name', 'live', 'orig', 'repl', 'close_ws', 'open_ws', 'line')

    def __init__(self, name, live, line):
        self.name = name
        self.live = live
        self.orig = []      # Real | Ins
        self.repl = []      # raw tokens (may contain paste markers)
        self.close_ws = ''
        self.open_ws = ''
        self.line = line


class Section:
    def __init__(self, path, mod, mirror_file):
        self.path = path
        self.mod = mod
        self.mirror_file = mirror_file
        self.nodes = []
        self.trailing = ''


def marker_body(tok):
    t = tok.text
    if t.startswith('//@'):
        return t[3:].strip()
    assert t.startswith('/*@') and t.endswith('*/')
    return t[3:-2].strip()


def parse_mirror(text, mirror_file):
    toks, trailing = rtok.tokenize(text, markers=True)
    sections = []
    cur = None
    cur_ins = None
    sub_stack = []      # list of [Sub, state] ; state in 'orig' | 'repl'

    def err(msg, t):
        raise Undecided('%s in %s line %d' % (msg, mirror_file, t.line))

    def target():
        return sub_stack[-1][0].orig if sub_stack else cur.nodes

    for t in toks:
        if t.kind == 'mark':
            body = marker_body(t)
            head = body.split()[0] if body.split() else ''
            if head == 'file':
                m = re.match(r'file\s+(\S+)\s+mod=(\S+)', body)
                if not m:
                    err('bad file marker', t)
                if cur_ins or sub_stack:
                    err('unclosed region before file marker', t)
                cur = Section(m.group(1), m.group(2), mirror_file)
                sections.append(cur)
                continue
            if cur is None:
                err('marker before //@file', t)
            if body.startswith('['):
                if cur_ins is not None:
                    err('nested ins', t)
                if sub_stack and sub_stack[-1][1] == 'repl':
                    err('ins inside replacement', t)
                if sub_stack and not sub_stack[-1][0].live:
                    err('ins inside dead sub', t)
                cur_ins = Ins(body[1:].strip())
                cur_ins.inline = t.text.startswith('/*')
                cur_ins.toks.append(rtok.Tok('ws', '', t.ws, t.line))
                continue
            if body == ']':
                if cur_ins is None:
                    err('stray ins close', t)
                cur_ins.close_ws = t.ws
                target().append(cur_ins)
                cur_ins = None
                continue
            if body.startswith('{'):
                if cur_ins is not None:
                    err('sub inside ins', t)
                words = body[1:].split()
                live = 'live' in words
                names = [w for w in words if w != 'live']
                if sub_stack:
                    if sub_stack[-1][1] != 'orig' or not sub_stack[-1][0].live or live:
                        err('only a dead sub may be nested, inside the original of a live sub', t)
                sub = Sub(names[0] if names else '', live, t.line)
                sub.open_ws = t.ws
                sub_stack.append([sub, 'orig'])
                continue
            if body.startswith('-'):
                if not sub_stack or sub_stack[-1][1] != 'orig' or sub_stack[-1][0].live or cur_ins is not None:
                    err('stray //@-', t)
                otoks, _ = rtok.tokenize(body[1:])
                for ot in otoks:
                    ot.line = t.line
                    sub_stack[-1][0].orig.append(Real(ot, dead=True))
                continue
            if body == '|':
                if not sub_stack or sub_stack[-1][1] != 'orig' or cur_ins is not None:
                    err('stray //@|', t)
                sub_stack[-1][1] = 'repl'
                sub_stack[-1][0].repl.append(rtok.Tok('ws', '', t.ws if sub_stack[-1][0].live else '', t.line))
                continue
            if body == '}':
                if not sub_stack or sub_stack[-1][1] != 'repl':
                    err('stray //@}', t)
                sub = sub_stack.pop()[0]
                sub.close_ws = t.ws
                target().append(sub)
                continue
            if head == 'orig':
                if cur_ins is not None:
                    cur_ins.toks.append(t)
                elif sub_stack and sub_stack[-1][1] == 'repl':
                    sub_stack[-1][0].repl.append(t)
                else:
                    err('paste marker outside ins/replacement', t)
                continue
            err('unknown marker %r' % body, t)
        if cur is None:
            err('token before //@file', t)
        if cur_ins is not None:
            cur_ins.toks.append(t)
        elif sub_stack:
            sub, state = sub_stack[-1]
            if state == 'orig':
                if not sub.live:
                    err('live token in dead sub original', t)
                sub.orig.append(Real(t))
            else:
                sub.repl.append(t)
        else:
            cur.nodes.append(Real(t))
    if cur_ins is not None or sub_stack:
        raise Undecided('unclosed region at end of %s' % mirror_file)
    if cur is not None:
        cur.trailing = trailing
    return sections


def reals_of(nodes):
    for n in nodes:
        if isinstance(n, Real):
            yield n
        elif isinstance(n, Sub):
            yield from reals_of(n.orig)


def all_subs(nodes):
    for n in nodes:
        if isinstance(n, Sub):
            yield n
            yield from all_subs(n.orig)


def flatten_E(section):
    """Assign E indices; return list of Real in E order."""
    out = []
    for r in reals_of(section.nodes):
        r.eidx = len(out)
        out.append(r)
    return out


# ----------------------------------------------------------------------------------------------
# selecting the items of /repo that the mirror ingests
# ----------------------------------------------------------------------------------------------

def select_repo_tokens(e_items, r_items, r_toks, where, dropped, removed, e_toks):
    """Return the list of R tokens for the items whose keys occur in e_items (recursively).

    A private (non-`pub`) fn item of the mirror that no longer exists in /repo is recorded in `removed`
    (its contract is void; whoever called it was rewritten and is checked against its own contract).
    Any other vanished item is a lost anchor."""
    ekeys = {it.key: it for it in e_items}
    rkeys = {it.key for it in r_items}
    itm._mark_pub(e_items, e_toks)
    for k in ekeys:
        if k not in rkeys:
            eit = ekeys[k]
            if eit.kind == 'fn' and not eit.is_pub and not where.split(' :: ')[-1].startswith('trait'):
                removed.append((where + ' :: ' + k, eit))
                continue
            raise Undecided('lost anchor: item `%s` of the mirror no longer exists in %s' % (k, where))
    out = []
    for rit in r_items:
        eit = ekeys.get(rit.key)
        if eit is None:
            dropped.append(where + ' :: ' + rit.key)
            continue
        if rit.body is not None and eit.body is not None:
            out.extend(r_toks[rit.start:rit.body[0] + 1])
            out.extend(select_repo_tokens(eit.children, rit.children, r_toks,
                                          where + ' :: ' + rit.key, dropped, removed, e_toks))
            out.extend(r_toks[rit.body[1]:rit.end])
        else:
            out.extend(r_toks[rit.start:rit.end])
    return out


# ----------------------------------------------------------------------------------------------
# generation
# ----------------------------------------------------------------------------------------------

class Emitter:
    def __init__(self):
        self.parts = []
        self.line = 1

    def write(self, s):
        if s:
            self.parts.append(s)
            self.line += s.count('\n')

    def glues(self, text):
        """would `text`, written right now without whitespace, fuse with the previous token into one word?"""
        last = self.parts[-1][-1:] if self.parts else ''
        w = lambda c: c.isalnum() or c == '_' or c in '"\''
        return bool(last) and bool(text) and w(last) and w(text[0])

    def text(self):
        return ''.join(self.parts)


class SectionResult:
    def __init__(self):
        self.equal = True
        self.e_tokens = 0
        self.r_tokens = 0
        self.edits = []          # textual description of transferred edits
        self.rewrites = []       # sub regions
        self.ins_regions = 0
        self.items = []          # (path, kind, first_line, last_line) in the generated file
        self.dropped = []        # items of the repo file not ingested
        self.extra_ranges = []   # (first_line, last_line, owner item path) for pasted originals
        self.regions = []        # (first_line, last_line, label) of ins regions in the generated file
        self.hints_dropped = []  # proof-hint regions dropped because the code around them was rewritten
        self.hints_dropped_items = []  # the functions those hints belonged to (item paths)
        self.items_removed = []  # private fns of the mirror that no longer exist in /repo (their contracts are void)


def tokens_text(toks):
    return ' '.join(t.text for t in toks)


def generate_section(section, repo_root, em, res):
    E = flatten_E(section)
    e_toks = [r.tok for r in E]
    res.e_tokens = len(e_toks)
    try:
        e_items = itm.parse_items(e_toks, 0, len(e_toks))
    except itm.ItemError as ex:
        raise Undecided('mirror %s (erased) does not parse into items: %s' % (section.mirror_file, ex))
    rpath = os.path.join(repo_root, section.path)
    if not os.path.exists(rpath):
        raise Undecided('lost anchor: file %s no longer exists' % section.path)
    try:
        r_all, _ = rtok.tokenize(open(rpath, encoding='utf-8').read())
        r_items = itm.parse_items(r_all, 0, len(r_all))
    except (rtok.TokError, itm.ItemError) as ex:
        raise Undecided('cannot parse %s: %s' % (section.path, ex))
    removed = []
    R = select_repo_tokens(e_items, r_items, r_all, section.path, res.dropped, removed, e_toks)
    res.r_tokens = len(R)
    gone = set()
    for path, it in removed:
        res.items_removed.append(path)
        gone.update(range(it.start, it.end))

    nE = len(e_toks)
    pre_a = [[] for _ in range(nE + 1)]   # emitted before the regions anchored at i (pure inserts)
    pre_b = [[] for _ in range(nE + 1)]   # emitted after those regions, in place of deleted tokens
    deleted = [False] * nE
    dropped_hints = set()
    ek = [rtok.key(t) for t in e_toks]
    rk = [rtok.key(t) for t in R]
    owner_early = {}
    for path, it in itm.walk(e_items):
        if it.kind == 'fn' or not it.children:
            for p_ in range(it.start, it.end):
                owner_early[p_] = path
    anchors = {}
    dead = set()
    _collect_anchors(section, anchors, dead)
    dropped_nodes = set()      # overlay nodes inside removed items
    for path, it in removed:
        for p in range(it.start, it.end):
            deleted[p] = True
            for node in anchors.get(p, []):
                if p > it.start or isinstance(node, Sub) or _is_attr_ins(node):
                    dropped_nodes.add(id(node))
        for node in anchors.get(it.end, []):
            if isinstance(node, Sub):
                rs = list(reals_of(node.orig))
                if rs and rs[0].eidx >= it.start:
                    dropped_nodes.add(id(node))
    keep = [i for i in range(nE) if i not in gone]
    ek2 = [ek[i] for i in keep]
    if ek2 != rk or gone:
        res.equal = False
    if ek2 != rk:
        sm = difflib.SequenceMatcher(a=ek2, b=rk, autojunk=False)
        for tag, k1, k2, j1, j2 in sm.get_opcodes():
            if tag == 'equal':
                continue
            idx = [keep[q] for q in range(k1, k2)]
            i1 = keep[k1] if k1 < len(keep) else nE
            i2 = (idx[-1] + 1) if idx else i1
            for p in range(i1 + 1, i2):
                if p in gone:
                    continue
                for node in anchors.get(p, []):
                    if id(node) in dropped_nodes:
                        continue
                    if isinstance(node, Ins) and node.label.split()[:1] == ['proof']:
                        # a proof hint whose surrounding code was rewritten: the hint is dropped
                        dropped_hints.add(id(node))
                        res.hints_dropped.append('%s:%d' % (os.path.basename(section.mirror_file), node.toks[0].line))
                        res.hints_dropped_items.append(owner_early.get(p) or owner_early.get(p - 1))
                        continue
                    raise Undecided('overlay conflict: edit of %s near line %d spans an annotation boundary (mirror %s line %d)'
                                    % (section.path, R[j1].line if j1 < len(R) else -1,
                                       section.mirror_file, e_toks[p].line))
            for p in idx:
                if p in dead:
                    raise Undecided('overlay conflict: edit of %s touches tokens rewritten by sub region (mirror %s line %d)'
                                    % (section.path, section.mirror_file, e_toks[p].line))
            run = [(t, q == 0) for q, t in enumerate(R[j1:j2])]
            if not idx:
                # pure insertion: a proof hint that sits exactly here could belong before or after the new tokens (a block that
                # /repo closes at this point may or may not contain it): its place is ambiguous, the hint is dropped
                # (only when the new tokens open or close a block: balanced statements simply go in front of the hint, as they always did)
                depth = low = 0
                for t_, _ in run:
                    if t_.text in ('{', '(', '['):
                        depth += 1
                    elif t_.text in ('}', ')', ']'):
                        depth -= 1
                        low = min(low, depth)
                for node in (anchors.get(i1, []) if (depth != 0 or low < 0) else []):
                    if isinstance(node, Ins) and node.label.split()[:1] == ['proof'] and id(node) not in dropped_nodes and id(node) not in dropped_hints:
                        dropped_hints.add(id(node))
                        res.hints_dropped.append('%s:%d' % (os.path.basename(section.mirror_file), node.toks[0].line))
                        res.hints_dropped_items.append(owner_early.get(i1) or owner_early.get(i1 - 1))
                pre_a[i1].extend(run)
            else:
                pre_b[i1].extend(run)
                for p in idx:
                    deleted[p] = True
            old_t = [e_toks[p].text for p in idx]
            new_t = [t.text for t in R[j1:j2]]
            loops = lambda ts: sum(1 for x in ts if x in ('for', 'while', 'loop'))
            fns = lambda ts: {ts[q + 1] for q in range(len(ts) - 1) if ts[q] == 'fn'}
            # a `|` / `||` where an expression starts opens a closure (after an operand it is an operator)
            closures = lambda ts: sum(1 for q, x in enumerate(ts) if x in ('|', '||') and (q == 0 or ts[q - 1] in ('(', ',', '=', '{', ';', 'move', 'return', '=>')))
            res.edits.append({'item': owner_early.get(i1) or owner_early.get(i1 - 1) or owner_early.get(i2),
                              # structural edits: a loop or a closure appears or disappears (a new loop has no invariant, a new closure no contract), a function is added
                              # ... or the string literals of the text change: Verus knows nothing about a literal (its characters, its length)
                              # until a proof reveals it, and the proof text reveals the literals that were there
                              'loops_changed': (loops(old_t) != loops(new_t) or closures(old_t) != closures(new_t)
                                                or {t.text for t in R[j1:j2] if t.kind == 'str'} != {e_toks[p].text for p in idx if e_toks[p].kind == 'str'}),
                              'fns_added': sorted(fns(new_t) - fns(old_t)),
                              'repo_line': R[j1].line if j1 < len(R) else (R[-1].line if R else 0),
                              'was': tokens_text([e_toks[p] for p in idx])[:200], 'now': tokens_text(R[j1:j2])[:200]})
    dropped_hints |= dropped_nodes

    # item line ranges
    starts = {}
    ends = {}
    for path, it in itm.walk(e_items):
        starts.setdefault(it.start, []).append((path, it))
        ends.setdefault(it.end - 1, []).append((path, it))
    item_lines = {}
    subs = {}
    for n in all_subs(section.nodes):
        if n.name:
            if n.name in subs:
                raise Undecided('duplicate sub name %s in %s' % (n.name, section.mirror_file))
            subs[n.name] = n
    emitted_pre_a = set()
    owner_of = {}
    for path, it in itm.walk(e_items):
        if it.kind == 'fn' or not it.children:
            for p in range(it.start, it.end):
                owner_of[p] = path

    def emit_pre_a(i):
        if i not in emitted_pre_a:
            emitted_pre_a.add(i)
            for t, first in pre_a[i]:
                em.write(t.ws if (t.ws or not first or not em.glues(t.text)) else ' ')
                em.write(t.text)

    def emit_real(r, track=True):
        i = r.eidx
        emit_pre_a(i)
        for t, first in pre_b[i]:
            em.write(t.ws if (t.ws or not first or not em.glues(t.text)) else ' ')
            em.write(t.text)
        if track:
            for path, it in starts.get(i, []):
                item_lines.setdefault(path, [None, None, it])[0] = em.line + r.tok.ws.count('\n')
        if not deleted[i]:
            em.write(r.tok.ws)
            em.write(r.tok.text)
        elif r.tok.ws and not pre_b[i]:
            # keep the separation the deleted token provided (`if !x` -> `if x`, not `ifx`)
            em.write(' ' if '\n' not in r.tok.ws else '\n')
        if track:
            for path, it in ends.get(i, []):
                item_lines.setdefault(path, [None, None, it])[1] = em.line

    def first_real(nodes, default):
        for r in reals_of(nodes):
            return r.eidx
        return default

    def emit_raw(toks):
        for t in toks:
            if t.kind == 'ws':
                em.write(t.ws)
            elif t.kind == 'mark':
                body = marker_body(t)
                name = body.split()[1] if len(body.split()) > 1 else ''
                if name not in subs:
                    raise Undecided('paste of unknown sub %r in %s line %d' % (name, section.mirror_file, t.line))
                if id(subs[name]) in dropped_hints:
                    raise Undecided('paste of sub %r whose function was removed from %s' % (name, section.path))
                em.write(t.ws)
                first = em.line
                owner = owner_of.get(first_real(subs[name].orig, -1))
                emit_nodes(subs[name].orig, track=False)
                res.extra_ranges.append((first, em.line, owner))
            else:
                em.write(t.ws)
                em.write(t.text)

    def emit_nodes(nodes, track=True):
        for k, n in enumerate(nodes):
            if isinstance(n, Real):
                emit_real(n, track)
            elif isinstance(n, Ins):
                nxt = first_real(nodes[k + 1:], None)
                # tokens that /repo inserted at this position go BEFORE a line-form region (a proof block or an invariant
                # stays next to the statement it talks about) but AFTER an inline annotation (`|x| -> (o: T) ensures .. {` + new body tokens)
                # (an inline annotation that starts with a closer, e.g. the `}` that ends an inserted closure block, stays behind them)
                first_tok = next((t_ for t_ in n.toks if t_.kind not in ('ws', 'mark')), None)
                closes = first_tok is not None and first_tok.kind == 'p' and first_tok.text in ')]}'
                # ... except in front of a `proof` hint: what a proof block establishes persists, so new statements are better off behind it
                # (a hoisted expression then still finds the facts it needs); an insertion that opens or closes a block drops the hint instead
                is_hint = n.label.split()[:1] == ['proof']
                if nxt is not None and (not n.inline or closes) and not is_hint:
                    emit_pre_a(nxt)
                if id(n) in dropped_hints:
                    continue
                res.ins_regions += 1
                first = em.line
                emit_raw(n.toks)
                em.write(n.close_ws)
                res.regions.append((first, em.line, n.label))
            else:
                if id(n) in dropped_hints:
                    continue
                a = first_real(n.orig, None)
                if a is not None:
                    emit_pre_a(a)
                orig_text = tokens_text([m.tok for m in reals_of(n.orig)])
                res.rewrites.append({'file': section.path,
                                     'mirror': '%s:%d' % (os.path.basename(section.mirror_file), n.line),
                                     'name': n.name, 'kind': 'live' if n.live else 'dead',
                                     'original': orig_text[:400],
                                     'replacement': tokens_text([t for t in n.repl if t.kind not in ('ws', 'mark')])[:400]})
                em.write(n.open_ws if '\n' in n.open_ws else ' ')
                first = em.line
                emit_raw(n.repl)
                em.write(n.close_ws)
                owner = owner_of.get(a) if a is not None else None
                res.extra_ranges.append((first, em.line, owner))
                for r in reals_of(n.orig):
                    for path, it in starts.get(r.eidx, []):
                        ent = item_lines.setdefault(path, [None, None, it])
                        if ent[0] is None:
                            ent[0] = first
                    for path, it in ends.get(r.eidx, []):
                        item_lines.setdefault(path, [None, None, it])[1] = em.line
                # dead originals are never emitted; live originals only where pasted

    emit_nodes(section.nodes)
    emit_pre_a(nE)
    for t, first in pre_b[nE]:
        em.write(t.ws)
        em.write(t.text)
    em.write(section.trailing)
    gone_items = {id(it) for _, it in removed}
    for path, (a, b, it) in item_lines.items():
        if id(it) not in gone_items:
            res.items.append((path, it.kind, a, b))


def _is_attr_ins(node):
    """an inserted region that consists of outer attributes only (it belongs to the item that follows it)"""
    if not isinstance(node, Ins):
        return False
    ts = [t for t in node.toks if t.kind not in ('ws', 'mark')]
    return len(ts) >= 2 and ts[0].text == '#' and ts[1].text == '[' and ts[-1].text == ']'


def _collect_anchors(section, anchors, dead):
    """anchors: E index -> overlay nodes sitting immediately before that token."""
    def add(i, node):
        anchors.setdefault(i, []).append(node)

    def rec(nodes, end_default):
        for k, n in enumerate(nodes):
            if isinstance(n, Ins):
                nxt = None
                for r in reals_of(nodes[k + 1:]):
                    nxt = r.eidx
                    break
                add(nxt if nxt is not None else end_default, n)
            elif isinstance(n, Sub):
                rs = list(reals_of(n.orig))
                if rs:
                    add(rs[0].eidx, n)
                    add(rs[-1].eidx + 1, n)
                    if not n.live:
                        for m in rs:
                            dead.add(m.eidx)
                    else:
                        rec(n.orig, rs[-1].eidx + 1)
                else:
                    nxt = None
                    for r in reals_of(nodes[k + 1:]):
                        nxt = r.eidx
                        break
                    add(nxt if nxt is not None else end_default, n)
    total = sum(1 for _ in reals_of(section.nodes))
    rec(section.nodes, total)


# ----------------------------------------------------------------------------------------------
# unit assembly
# ----------------------------------------------------------------------------------------------

def build_unit(unit_path, repo_root, out_path):
    """unit_path: /verif/units/<unit>.json.  Returns the info dict (also written next to out_path)."""
    unit = json.load(open(unit_path))
    base = os.path.dirname(os.path.abspath(unit_path))
    for inc in unit.get('include', []):
        sub = json.load(open(os.path.join(base, inc)))
        unit['preludes'] = sub.get('preludes', []) + [p for p in unit.get('preludes', []) if p not in sub.get('preludes', [])]
        unit['sections'] = sub.get('sections', []) + [x for x in unit.get('sections', []) if x not in sub.get('sections', [])]
        unit['crate_attrs'] = unit.get('crate_attrs') or sub.get('crate_attrs', [])
    em = Emitter()
    for a in unit.get('crate_attrs', []):
        em.write(a + '\n')
    em.write('#![allow(unused_imports, dead_code, unused_variables, unused_mut, unused_parens, non_snake_case, unused_braces, unreachable_code, unused_assignments, non_local_definitions)]\n')
    info = {'unit': unit['name'], 'sections': [], 'preludes': []}
    for p in unit.get('preludes', []):
        pp = os.path.normpath(os.path.join(base, p))
        first = em.line
        em.write(open(pp).read())
        em.write('\n')
        info['preludes'].append({'file': pp, 'first_line': first, 'last_line': em.line})
    # sections -> module tree
    sections = []
    for s in unit['sections']:
        sp = os.path.normpath(os.path.join(base, s))
        secs = parse_mirror(open(sp).read(), sp)
        if not secs:
            raise Undecided('mirror %s has no //@file section' % sp)
        sections.extend(secs)
    tree = {}
    for sec in sections:
        parts = sec.mod.split('::')
        if parts[0] != 'crate':
            raise Undecided('module path must start with crate: %s' % sec.mod)
        node = tree
        for p in parts[1:]:
            node = node.setdefault('mods', {}).setdefault(p, {})
        if 'section' in node:
            raise Undecided('two sections for module %s' % sec.mod)
        node['section'] = sec

    def emit_node(node, depth):
        sec = node.get('section')
        if sec is not None:
            res = SectionResult()
            em.write('use vstd::prelude::*;\nverus! {\n')
            first = em.line
            sub = Emitter()
            sub.line = em.line
            generate_section(sec, repo_root, sub, res)
            text = ''.join(sub.parts)
            if 'format' in text:
                tag = re.sub(r'[^A-Za-z0-9]', '_', sec.mod.split('::')[-1])
                text, helpers, recs = vfmt.rewrite_format(text, 0, tag)
                for rc in recs:
                    res.rewrites.append({'file': sec.path, 'mirror': os.path.basename(sec.mirror_file), 'name': rc['name'],
                                         'kind': 'T3', 'original': rc['original'], 'replacement': rc['replacement']})
            else:
                helpers = ''
            em.write(text)
            if helpers:
                em.write('\n// ---- T3: generated format! helpers (bodies not verified; contract = meaning of format! for plain placeholders)\n')
                h0 = em.line
                em.write(helpers)
                res.extra_ranges.append((h0, em.line, None))
            em.write('\nproof fn __vx_canary() ensures false {}\n')
            canary_line = em.line - 1
            em.write('} // verus!\n')
            info['sections'].append({
                'file': sec.path, 'mod': sec.mod, 'mirror': sec.mirror_file,
                'first_line': first, 'last_line': em.line, 'canary_line': canary_line,
                'erasure_equal': res.equal, 'mirror_tokens': res.e_tokens, 'repo_tokens': res.r_tokens,
                'edits_transferred': res.edits, 'rewrites': res.rewrites, 'ins_regions': res.ins_regions,
                'items': res.items, 'not_ingested': res.dropped, 'extra_ranges': res.extra_ranges,
                'hints_dropped': res.hints_dropped, 'hints_dropped_items': res.hints_dropped_items, 'regions': res.regions, 'items_removed': res.items_removed,
            })
        for name, child in node.get('mods', {}).items():
            em.write('pub mod %s {\n' % name)
            emit_node(child, depth + 1)
            em.write('} // mod %s\n' % name)

    emit_node(tree, 0)
    for p in unit.get('postludes', []):
        pp = os.path.normpath(os.path.join(base, p))
        first = em.line
        em.write(open(pp).read())
        em.write('\n')
        info['preludes'].append({'file': pp, 'first_line': first, 'last_line': em.line})
    em.write('fn main() {}\n')
    with open(out_path, 'w') as f:
        f.write(em.text())
    return info


if __name__ == '__main__':
    import argparse
    ap = argparse.ArgumentParser()
    ap.add_argument('unit')
    ap.add_argument('--repo', default='/repo')
    ap.add_argument('--out', required=True)
    a = ap.parse_args()
    try:
        info = build_unit(a.unit, a.repo, a.out)
    except Undecided as ex:
        print('UNDECIDED', ex)
        sys.exit(2)
    for s in info['sections']:
        print('%s: erasure_equal=%s mirror_tokens=%d repo_tokens=%d ins=%d subs=%d not_ingested=%d' % (
            s['file'], s['erasure_equal'], s['mirror_tokens'], s['repo_tokens'], s['ins_regions'],
            len(s['rewrites']), len(s['not_ingested'])))
        for e in s['edits_transferred']:
            print('   edit:', e)
