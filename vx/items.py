"""Item-level structure of a Rust token stream (top-level items, impl/trait/mod children).

Only what the extractor needs: where each item starts and ends, a stable key for it, and the
children of containers.  No expression parsing.
"""

OPEN = {'(': ')', '[': ']', '{': '}'}
CLOSE = {')', ']', '}'}
QUALS = {'unsafe', 'async', 'extern', 'default'}
CONTAINERS = {'impl', 'trait', 'mod'}


class Item:
    def __init__(self, kind, name, start, end):
        self.kind = kind
        self.name = name
        self.start = start      # first token (attributes included)
        self.end = end          # one past last token
        self.body = None        # (open_brace_index, close_brace_index) for containers
        self.children = []
        self.key = None
        self.is_pub = False     # carries a `pub` / `pub(..)` visibility

    def __repr__(self):
        return 'Item(%s,%d..%d)' % (self.key, self.start, self.end)


class ItemError(Exception):
    pass


def match_close(toks, i):
    """toks[i] is an opener; return index of its matching closer."""
    depth = 0
    j = i
    n = len(toks)
    while j < n:
        t = toks[j]
        if t.kind == 'p':
            if t.text in OPEN:
                depth += 1
            elif t.text in CLOSE:
                depth -= 1
                if depth == 0:
                    return j
        j += 1
    raise ItemError('unbalanced bracket at token %d (line %d)' % (i, toks[i].line))


def is_p(t, s):
    return t.kind == 'p' and t.text == s


def is_id(t, s):
    return t.kind == 'id' and t.text == s


def parse_items(toks, lo, hi):
    """Parse toks[lo:hi] as a sequence of items."""
    items = []
    i = lo
    while i < hi:
        start = i
        # inner attribute  #![...]
        if is_p(toks[i], '#') and i + 1 < hi and is_p(toks[i + 1], '!'):
            j = match_close(toks, i + 2)
            it = Item('innerattr', ''.join(t.text for t in toks[i:j + 1]), start, j + 1)
            items.append(it)
            i = j + 1
            continue
        # outer attributes
        while i < hi and is_p(toks[i], '#') and i + 1 < hi and is_p(toks[i + 1], '['):
            i = match_close(toks, i + 1) + 1
        if i >= hi:
            raise ItemError('dangling attributes at line %d' % toks[start].line)
        # visibility
        if is_id(toks[i], 'pub'):
            i += 1
            if i < hi and is_p(toks[i], '('):
                i = match_close(toks, i) + 1
        # verus function modes / qualifiers
        while i < hi and toks[i].kind == 'id' and toks[i].text in (
                'unsafe', 'async', 'default', 'open', 'closed', 'spec', 'proof', 'exec',
                'uninterp', 'broadcast', 'tracked', 'ghost', 'axiom'):
            i += 1
            if i < hi and is_p(toks[i], '('):   # spec(checked)
                i = match_close(toks, i) + 1
        if i < hi and is_id(toks[i], 'extern'):
            i += 1
            if i < hi and toks[i].kind == 'str':
                i += 1
        if i < hi and is_id(toks[i], 'const') and i + 1 < hi and is_id(toks[i + 1], 'fn'):
            i += 1
        if i >= hi:
            raise ItemError('item without keyword at line %d' % toks[start].line)
        kw = toks[i]
        if kw.kind != 'id':
            raise ItemError('unexpected token %r at line %d' % (kw.text, kw.line))
        k = kw.text
        if k == 'fn':
            name = toks[i + 1].text
            end = _end_brace_or_semi(toks, i, hi)
            items.append(Item('fn', name, start, end))
            i = end
        elif k in ('struct', 'enum', 'union'):
            name = toks[i + 1].text
            end = _end_brace_or_semi(toks, i, hi)
            # tuple struct followed by ; handled by _end_brace_or_semi (paren depth)
            items.append(Item(k, name, start, end))
            i = end
        elif k in CONTAINERS:
            j = i + 1
            # find the body brace or ;
            depth = 0
            while j < hi:
                t = toks[j]
                if t.kind == 'p':
                    if t.text in ('(', '['):
                        depth += 1
                    elif t.text in (')', ']'):
                        depth -= 1
                    elif depth == 0 and t.text in ('{', ';'):
                        break
                j += 1
            if j >= hi:
                raise ItemError('unterminated %s at line %d' % (k, kw.line))
            header = ' '.join(t.text for t in toks[i + 1:j])
            if toks[j].text == ';':
                it = Item(k, header, start, j + 1)
            else:
                c = match_close(toks, j)
                it = Item(k, header, start, c + 1)
                it.body = (j, c)
                it.children = parse_items(toks, j + 1, c)
            items.append(it)
            i = it.end
        elif k in ('use', 'const', 'static', 'type'):
            end = _end_semi(toks, i, hi)
            if k == 'use':
                name = ' '.join(t.text for t in toks[i + 1:end - 1])
            else:
                nm = i + 1
                if is_id(toks[nm], 'mut'):
                    nm += 1
                name = toks[nm].text
            items.append(Item(k, name, start, end))
            i = end
        elif k == 'assume_specification':
            end = _end_semi(toks, i, hi)
            items.append(Item('assume_spec', str(len(items)), start, end))
            i = end
        elif i + 1 < hi and is_p(toks[i + 1], '!'):
            # macro invocation item
            j = i + 2
            if toks[j].kind == 'id':
                j += 1
            c = match_close(toks, j)
            end = c + 1
            if end < hi and is_p(toks[end], ';'):
                end += 1
            items.append(Item('macro', k, start, end))
            i = end
        else:
            raise ItemError('unknown item keyword %r at line %d' % (k, kw.line))
    _assign_keys(items)
    return items


def _mark_pub(items, toks):
    for it in items:
        j = it.start
        while j < it.end and is_p(toks[j], '#') and j + 1 < it.end and is_p(toks[j + 1], '['):
            j = match_close(toks, j + 1) + 1
        it.is_pub = j < it.end and is_id(toks[j], 'pub')
        if it.children:
            _mark_pub(it.children, toks)


def _end_brace_or_semi(toks, i, hi):
    depth = 0
    j = i
    while j < hi:
        t = toks[j]
        if t.kind == 'p':
            if t.text in ('(', '['):
                depth += 1
            elif t.text in (')', ']'):
                depth -= 1
            elif depth == 0 and t.text == ';':
                return j + 1
            elif depth == 0 and t.text == '{':
                return match_close(toks, j) + 1
        j += 1
    raise ItemError('unterminated item at line %d' % toks[i].line)


def _end_semi(toks, i, hi):
    depth = 0
    j = i
    while j < hi:
        t = toks[j]
        if t.kind == 'p':
            if t.text in OPEN:
                depth += 1
            elif t.text in CLOSE:
                depth -= 1
            elif depth == 0 and t.text == ';':
                return j + 1
        j += 1
    raise ItemError('unterminated item at line %d' % toks[i].line)


def _assign_keys(items):
    seen = {}
    for it in items:
        base = '%s %s' % (it.kind, it.name)
        n = seen.get(base, 0) + 1
        seen[base] = n
        it.key = base if n == 1 else '%s #%d' % (base, n)


def walk(items, prefix=''):
    for it in items:
        path = prefix + it.key
        yield path, it
        if it.children:
            yield from walk(it.children, path + ' :: ')
