"""Minimal Rust tokenizer (whitespace/comment-insensitive comparison, exact re-emission).

Token = (kind, text, ws) where ws is the whitespace+comments preceding the token in the source.
Kinds: id, life, char, str, num, p (single punctuation char), mark (mirror marker comment).
Mirror markers are comments that start with `//@` (line form) or `/*@` (block form); they are
returned as tokens of kind 'mark' when markers=True, otherwise treated as ordinary comments.
"""
import re

ID_START = re.compile(r'[A-Za-z_\u0080-\U0010ffff]')
ID_RE = re.compile(r'[A-Za-z_\u0080-\U0010ffff][A-Za-z0-9_\u0080-\U0010ffff]*')
NUM_RE = re.compile(r'[0-9][A-Za-z0-9_]*(\.[0-9][A-Za-z0-9_]*)?')


class Tok:
    __slots__ = ('kind', 'text', 'ws', 'line')

    def __init__(self, kind, text, ws, line):
        self.kind = kind
        self.text = text
        self.ws = ws
        self.line = line

    def __repr__(self):
        return 'Tok(%s,%r,l%d)' % (self.kind, self.text, self.line)


class TokError(Exception):
    pass


def tokenize(src, markers=False):
    toks = []
    i = 0
    n = len(src)
    ws_start = 0
    line = 1

    def emit(kind, start, end):
        nonlocal ws_start, line
        ws = src[ws_start:start]
        line += ws.count('\n')
        toks.append(Tok(kind, src[start:end], ws, line))
        line += src[start:end].count('\n')
        ws_start = end

    while i < n:
        c = src[i]
        if c in ' \t\r\n':
            i += 1
            continue
        if c == '/' and i + 1 < n and src[i + 1] == '/':
            j = src.find('\n', i)
            if j < 0:
                j = n
            if markers and src.startswith('//@', i):
                emit('mark', i, j)
            i = j
            continue
        if c == '/' and i + 1 < n and src[i + 1] == '*':
            depth = 1
            j = i + 2
            while j < n and depth > 0:
                if src.startswith('/*', j):
                    depth += 1
                    j += 2
                elif src.startswith('*/', j):
                    depth -= 1
                    j += 2
                else:
                    j += 1
            if depth != 0:
                raise TokError('unterminated block comment at %d' % i)
            if markers and src.startswith('/*@', i):
                emit('mark', i, j)
            i = j
            continue
        # raw strings / byte strings
        m = re.match(r'(br|rb|r)(#*)"', src[i:i + 40]) if c in 'rb' else None
        if m:
            hashes = m.group(2)
            close = '"' + hashes
            j = src.find(close, i + len(m.group(0)))
            if j < 0:
                raise TokError('unterminated raw string at %d' % i)
            emit('str', i, j + len(close))
            i = j + len(close)
            continue
        if c == '"' or (c == 'b' and i + 1 < n and src[i + 1] == '"'):
            j = i + (2 if c == 'b' else 1)
            while j < n and src[j] != '"':
                if src[j] == '\\':
                    j += 1
                j += 1
            if j >= n:
                raise TokError('unterminated string at %d' % i)
            emit('str', i, j + 1)
            i = j + 1
            continue
        if c == "'" or (c == 'b' and i + 1 < n and src[i + 1] == "'"):
            k = i + (1 if c == 'b' else 0)
            # char literal or lifetime
            if k + 1 < n and src[k + 1] == '\\':
                j = k + 2
                # escaped char: read until closing quote
                j = src.find("'", j + 1) if src[j] != "'" else src.find("'", j + 1)
                if j < 0:
                    raise TokError('unterminated char at %d' % i)
                emit('char', i, j + 1)
                i = j + 1
                continue
            if k + 2 < n and src[k + 2] == "'":
                emit('char', i, k + 3)
                i = k + 3
                continue
            m2 = ID_RE.match(src, k + 1)
            if m2 and c == "'":
                emit('life', i, m2.end())
                i = m2.end()
                continue
            raise TokError('bad quote at %d: %r' % (i, src[i:i + 10]))
        m = ID_RE.match(src, i)
        if m:
            emit('id', i, m.end())
            i = m.end()
            continue
        m = NUM_RE.match(src, i)
        if m:
            # avoid swallowing `..` range after integer: NUM_RE requires digit after '.'
            emit('num', i, m.end())
            i = m.end()
            continue
        emit('p', i, i + 1)
        i += 1
    trailing = src[ws_start:]
    return toks, trailing


def same(a, b):
    return a.kind == b.kind and a.text == b.text


def key(t):
    return (t.kind, t.text)
