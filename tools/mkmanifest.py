#!/usr/bin/env python3
"""Regenerate /verif/MANIFEST.json from props.json (claimed checks) and not_applicable.json."""
import json, os
V = os.path.dirname(os.path.dirname(os.path.abspath(__file__)))
props = json.load(open(os.path.join(V, 'props.json')))
na = json.load(open(os.path.join(V, 'not_applicable.json')))
old = json.load(open(os.path.join(V, 'MANIFEST.json')))
checks = []
for pid in sorted(props):
    p = props[pid]
    note = '; '.join(p.get('trusted_base', []))
    if p.get('not_covered'):
        note += ' | not covered: ' + '; '.join(p['not_covered'])
    checks.append({
        'property_id': pid,
        'quick_cmd': './check %s --tier quick' % pid,
        'thorough_cmd': './check %s --tier thorough' % pid,
        'evidence_file': 'evidence/%s.json' % pid,
        'replay_cmd_template': './check %s --replay {path}' % pid,
        'engine': 'verus-overlay',
        'level_claimed': {'category': p['level'], 'text': p['explanation'] + (
            ' || BOUNDED STAND-IN (native run of the real function against an oracle written from the statement; labelled bounded in the evidence, '
            'never counted as proved; supplies the failing input when it or a Verus obligation fails; DESIGN.md 2.6b): ' + p['bounded_standin'] if p.get('bounded_standin') else ''),
            'design_ref': p.get('design_ref', 'DESIGN.md')},
        'level_note': note,
        'technique': 'contract-based deductive verification (Verus) of code extracted mechanically from /repo; bounded native stand-in for what stays outside the verifier',
    })
claimed = {c['property_id'] for c in checks}
m = {
    'version': 1,
    'setup_cmd': old.get('setup_cmd', 'true'),
    'hooks': old['hooks'],
    'engines': old.get('engines', []),
    'checks': checks,
    'notes': na.get('_notes', old.get('notes', '')),
    'not_applicable': [{'property_id': k, 'reason': v} for k, v in sorted(na.items()) if not k.startswith('_') and k not in claimed],
}
for e in m['engines']:
    e['serves_properties'] = sorted(claimed)
json.dump(m, open(os.path.join(V, 'MANIFEST.json'), 'w'), indent=1)
print('claimed', sorted(claimed), 'n/a', [x['property_id'] for x in m['not_applicable']])
