#!/bin/bash
# quick dev loop: extract a unit and run verus on it, printing errors compactly. usage: vl.sh <unit> [extra verus args]
U=$1; shift
cd /verif && python3 vx/extract.py units/$U.json --out /var/tmp/vx/$U.rs | grep -v "equal=True"
MODS=$(python3 -c "
import json
u=json.load(open('/verif/units/$U.json'))
print(' '.join(('--verify-root' if m in ('','crate') else '--verify-only-module '+m) for m in u.get('verify_modules',[])))")
if [ -n "${ONLY:-}" ]; then MODS=""; for m in $ONLY; do MODS="$MODS --verify-only-module $m"; done; fi
cd /var/tmp/vx && RUST_MIN_STACK=2000000000 verus $U.rs --triggers-mode silent --multiple-errors 5 $MODS "$@" 2>&1 | grep -E "^error|^verification" -A${CTX:-9} | grep -v "^--" | grep -v "canary\|at the end of the function body\|      |       |$" 
