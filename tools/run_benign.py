#!/usr/bin/env python3
"""Run EVERY claimed check against every behaviour-preserving edit of seeded/benign/ (scratch worktree, never /repo).

usage: run_benign.py [names...]        results -> seeded/benign/RESULTS.json
An edit passes when no check exits 1 (an alarm on code where the property holds would be a false alarm);
exit 2 (undecided) is recorded but is not an alarm."""
import json, os, re, subprocess, sys, shutil
from concurrent.futures import ThreadPoolExecutor
V = os.path.dirname(os.path.dirname(os.path.abspath(__file__)))
B = os.path.join(V, 'seeded', 'benign')
names = [a for a in sys.argv[1:] if not a.startswith('--')] or sorted(f[:-5] for f in os.listdir(B) if f.endswith('.diff'))
claimed = sorted(json.load(open(os.path.join(V, 'props.json'))).keys())
env = dict(os.environ, CARGO_NET_OFFLINE='true', VERIF_EVIDENCE_DIR='/var/tmp/mt-evidence-benign')
respath = next((a.split('=', 1)[1] for a in sys.argv[1:] if a.startswith('--out=')), os.path.join(B, 'RESULTS.json'))
results = json.load(open(respath)) if os.path.exists(respath) else {}


def sh(cmd, cwd=None):
    p = subprocess.run(cmd, shell=True, cwd=cwd, env=env, stdout=subprocess.PIPE, stderr=subprocess.STDOUT, timeout=3600)
    return p.returncode, p.stdout.decode('utf-8', 'replace')


# --relevant: only the checks whose evidence lists a function of a touched file (plus C07, which spans every unit) and the
# checks whose bounded stand-ins call the touched code through `generate`
relevant_only = '--relevant' in sys.argv
names = [n for n in names if not n.startswith('--')]
file_props = {}
if relevant_only:
    import glob
    for f in glob.glob(os.path.join(V, 'evidence', 'C*.json')):
        j = json.load(open(f))
        for fn in j['coverage']['functions']:
            if fn.get('file'):
                file_props.setdefault(fn['file'], set()).add(j['property_id'])
alarms = 0
for name in names:
    w = '/var/tmp/benign-%s-%d' % (name, os.getpid())
    sh('git -C /repo worktree add -q --detach %s HEAD' % w)
    r = {}
    try:
        rc, out = sh('git -C %s apply %s' % (w, os.path.join(B, name + '.diff')))
        if rc != 0:
            r = {'patch': 'does not apply: ' + out[-300:]}
        else:
            def one(c):
                rc, out = sh('./check %s --repo %s' % (c, w), cwd=V)
                lines = [l.replace(w, '<wt>')[:300] for l in out.splitlines() if l.startswith(('VIOLATION', 'UNDECIDED'))][:3]
                return c, {'exit': rc, 'lines': lines}
            todo = claimed
            if relevant_only:
                touched = re.findall(r'^\+\+\+ b/(\S+)', open(os.path.join(B, name + '.diff')).read(), re.M)
                want = {'C07'}
                for t in touched:
                    want |= file_props.get(t, set(claimed))
                todo = [c for c in claimed if c in want]
                r['checks_run'] = todo
            with ThreadPoolExecutor(max_workers=3) as ex:
                r['checks'] = dict(ex.map(one, todo))
            r['alarm'] = sorted(c for c, x in r['checks'].items() if x['exit'] == 1)
            r['undecided'] = sorted(c for c, x in r['checks'].items() if x['exit'] == 2)
            r['outcome'] = 'ALARM' if r['alarm'] else ('undecided' if r['undecided'] else 'pass')
            alarms += bool(r['alarm'])
    finally:
        sh('git -C /repo worktree remove --force %s' % w)
        shutil.rmtree(w, ignore_errors=True)
    results[name] = r
    json.dump(results, open(respath, 'w'), indent=1, sort_keys=True)
    print(name, r.get('outcome', r.get('patch')), 'alarm:', r.get('alarm'), 'undecided:', r.get('undecided'), flush=True)
sys.exit(1 if alarms else 0)
