#!/usr/bin/env python3
"""Confirm every seeded change and run the checks against it, in a scratch worktree (never in /repo).

usage: run_seeded.py [--no-confirm] [names...]      results -> seeded/RESULTS.json and seeded/<name>/meta.json["verif"]
For each seeded/<name>: (1) demo on the clean worktree must pass, (2) apply patch, cargo test must pass, demo must fail,
(3) ./check <own property> --repo <worktree>; if that does not report a violation, the other claimed checks are tried."""
import json, os, subprocess, sys, re, shutil
V = os.path.dirname(os.path.dirname(os.path.abspath(__file__)))
args = [a for a in sys.argv[1:] if not a.startswith('--')]
confirm = '--no-confirm' not in sys.argv
names = args or sorted(d for d in os.listdir(os.path.join(V, 'seeded')) if os.path.isdir(os.path.join(V, 'seeded', d)))
claimed = sorted(json.load(open(os.path.join(V, 'props.json'))).keys())
env = dict(os.environ, CARGO_NET_OFFLINE='true', VERIF_EVIDENCE_DIR='/var/tmp/mt-evidence', CARGO_TARGET_DIR='/var/tmp/seed-target')
respath = os.path.join(V, 'seeded', 'RESULTS.json')
results = json.load(open(respath)) if os.path.exists(respath) else {}

def sh(cmd, cwd=None, timeout=3600):
    p = subprocess.run(cmd, shell=True, cwd=cwd, env=env, stdout=subprocess.PIPE, stderr=subprocess.STDOUT, timeout=timeout)
    return p.returncode, p.stdout.decode('utf-8', 'replace')

for name in names:
    d = os.path.join(V, 'seeded', name)
    prop = name.split('-')[0]
    w = '/var/tmp/seed-%s-%d' % (name, os.getpid())
    sh('git -C /repo worktree add -q --detach %s HEAD' % w)
    r = {'property': prop}
    if not confirm and name in results:
        r.update({k: v for k, v in results[name].items() if k in ('demo_on_unchanged_tree', 'tests_with_change', 'demo_with_change')})
    try:
        demo = os.path.join(d, 'demo.sh')
        if confirm:
            if os.path.exists(demo):
                rc0, _ = sh('bash %s %s' % (demo, w))
                r['demo_on_unchanged_tree'] = 'passes' if rc0 == 0 else 'FAILS (exit %d)' % rc0
        rc, out = sh('git -C %s apply %s' % (w, os.path.join(d, 'patch.diff')))
        if rc != 0:
            r['patch'] = 'does not apply: ' + out[-300:]
            results[name] = r
            continue
        if confirm:
            rc, out = sh('cargo test --workspace --no-fail-fast --offline 2>&1 | grep -E "^test result"', cwd=w)
            passed = sum(int(x) for x in re.findall(r'(\d+) passed', out))
            failed = sum(int(x) for x in re.findall(r'(\d+) failed', out))
            r['tests_with_change'] = '%d passed, %d failed' % (passed, failed)
            if os.path.exists(demo):
                rc1, _ = sh('bash %s %s' % (demo, w))
                r['demo_with_change'] = 'fails (exit %d)' % rc1 if rc1 != 0 else 'PASSES'
            sh('git -C %s clean -fdq -e target' % w)
        order = [prop] + [c for c in claimed if c != prop] if prop in claimed else claimed
        r['checks'] = {}
        for c in order:
            rc, out = sh('./check %s --repo %s' % (c, w), cwd=V)
            lines = [l for l in out.splitlines() if l.startswith(('VIOLATION', 'UNDECIDED'))]
            r['checks'][c] = {'exit': rc, 'lines': [l.replace(w, '<wt>')[:300] for l in lines[:12]]}
            if rc == 1:
                break
        hit = [c for c, x in r['checks'].items() if x['exit'] == 1]
        r['outcome'] = ('detected by ' + hit[0]) if hit else ('undecided' if any(x['exit'] == 2 for x in r['checks'].values()) else 'not detected')
    finally:
        sh('git -C /repo worktree remove --force %s' % w)
        shutil.rmtree(w, ignore_errors=True)
    results[name] = r
    json.dump(results, open(respath, 'w'), indent=1, sort_keys=True)
    mp = os.path.join(d, 'meta.json')
    try:
        m = json.load(open(mp))
    except Exception:
        m = {}
    m['verif'] = r
    json.dump(m, open(mp, 'w'), indent=1)
    print(name, r.get('tests_with_change'), r.get('demo_on_unchanged_tree'), r.get('demo_with_change'), '->', r['outcome'], flush=True)
