#!/bin/bash
# usage: try_mutation.sh <mutation dir with patch.diff [demo.sh]> <prop> [more props...]
# Confirms a seeded change in a scratch worktree of /repo (tests pass, demo fails with / passes without),
# then runs ./check <prop> --repo <worktree>.  Removes the worktree afterwards.
set -u
M=$(realpath "$1"); shift
W=/var/tmp/mt-$$
export CARGO_NET_OFFLINE=true
git -C /repo worktree add -q --detach $W HEAD || exit 9
trap 'git -C /repo worktree remove --force $W >/dev/null 2>&1; rm -rf $W' EXIT
if [ -z "${SKIP_CONFIRM:-}" ]; then
  if [ -f $M/demo.sh ]; then
    (bash $M/demo.sh $W >/var/tmp/mt-demo0.log 2>&1); echo "demo without change: exit $?"
  fi
fi
git -C $W apply $M/patch.diff || { echo "PATCH DOES NOT APPLY"; exit 8; }
if [ -z "${SKIP_CONFIRM:-}" ]; then
  (cd $W && cargo test --workspace --offline 2>&1 | grep -E "^test result|FAILED|error(\[|:)" | head -5)
  if [ -f $M/demo.sh ]; then
    (bash $M/demo.sh $W >/var/tmp/mt-demo1.log 2>&1); echo "demo with change: exit $?"
  fi
fi
cd /verif
export VERIF_EVIDENCE_DIR=/var/tmp/mt-evidence
for p in "$@"; do
  ./check $p --repo $W 2>&1 | sed "s#$W#<wt>#g" | cut -c1-400
  echo "check $p exit=${PIPESTATUS[0]}"
done
