#!/usr/bin/env python3
"""Print the table of DESIGN.md section 7 from seeded/RESULTS.json and seeded/benign/RESULTS.json."""
import json, os, re
V = os.path.dirname(os.path.dirname(os.path.abspath(__file__)))
r = json.load(open(os.path.join(V, 'seeded', 'RESULTS.json')))
rows = {'verus+bounded': [], 'verus': [], 'bounded': [], 'other check': [], 'undecided': [], 'not detected': [], 'unconfirmed': []}
for name in sorted(r, key=lambda n: (n.split('-')[0], int(n.split('-m')[1]))):
    x = r[name]
    ok = x.get('tests_with_change', '').startswith('118 passed, 0 failed') and x.get('demo_on_unchanged_tree') == 'passes' and str(x.get('demo_with_change', '')).startswith('fails')
    if not ok:
        rows['unconfirmed'].append(name)
        continue
    o = x['outcome']
    if o.startswith('detected by '):
        c = o.split()[-1]
        lines = x['checks'][c]['lines']
        leaf = any('obligation=leaf_contract:' in l for l in lines)
        ver = any(l.startswith('VIOLATION') and 'obligation=leaf_contract:' not in l for l in lines)
        if c != x['property']:
            rows['other check'].append('%s (%s)' % (name, c))
        elif leaf and ver:
            rows['verus+bounded'].append(name)
        elif leaf:
            rows['bounded'].append(name)
        else:
            rows['verus'].append(name)
    elif o == 'undecided':
        rows['undecided'].append(name)
    else:
        rows['not detected'].append(name)
total = sum(len(v) for v in rows.values())
print('%d seeded changes' % total)
labels = [('verus+bounded', 'VIOLATION: a Verus obligation fails **and** a bounded stand-in supplies the failing input'),
          ('verus', 'VIOLATION: Verus obligation only (`no-failing-input-found`)'),
          ('bounded', 'VIOLATION: bounded stand-in only (the change is in code without a contract, or the verifier cannot ingest the changed code)'),
          ('other check', 'VIOLATION by the check of another property'),
          ('undecided', 'undecided (exit 2)'), ('not detected', 'missed (exit 0)'), ('unconfirmed', 'not confirmed (tests or demo)')]
print('| outcome | n | changes |')
print('|---------|---|---------|')
for k, lab in labels:
    print('| %s | %d | %s |' % (lab, len(rows[k]), ', '.join(rows[k]) or '—'))
bp = os.path.join(V, 'seeded', 'benign', 'RESULTS.json')
if os.path.exists(bp):
    b = json.load(open(bp))
    n = len(b)
    al = [k for k, v in b.items() if v.get('alarm')]
    un = [k for k, v in b.items() if v.get('undecided') and not v.get('alarm')]
    print()
    print('benign: %d edits x every claimed check; alarm: %s; undecided in some check: %s; pass everywhere: %d' % (n, al or 'none', un or 'none', n - len(al) - len(un)))
