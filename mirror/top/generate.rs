//@file kiki/src/lib.rs mod=crate::vx_generate
//@[ imports: the section is placed in its own module of the generated file; names as in lib.rs
use vstd::prelude::*;
use crate::vx_str::*;
use crate::vx_fmt::*;
use crate::vx_lex::*;
use crate::vx_valid::*;
use crate::vx_gram::*;
use crate::vx_chain::*;
use crate::vx_link::*;
use crate::data::*;
use crate::parser::Token;
use crate::pipeline::tokenize::*;
use crate::pipeline::validate_ast::*;
use crate::pipeline::validated_ast_to_machine::*;
use crate::pipeline::machine_to_table::*;
use crate::pipeline::table_to_rust::*;

/// the front end that cannot be ingested (generated LR driver parser.rs, cst_to_ast.rs): an uninterpreted function
/// from the token list and the text to a syntax tree or an error
pub uninterp spec fn spec_front(toks: Seq<Token>, src: Seq<char>) -> Result<crate::data::ast::File, KikiErr>;
/// T13: stands for `parse(tokens).map_err(..)?` followed by `cst.into()` (bodies not verified, nothing assumed but determinism)
#[verifier::external_body]
fn __vx_parse_to_ast(tokens: Vec<Token>, src: &str) -> (r: Result<crate::data::ast::File, KikiErr>)
    ensures r == spec_front(tokens@, src@),
        // the only error this expression can produce is what unexpected_token_or_eof_to_kiki_err returns: a Parse error (verified in unit lexer)
        r is Err ==> r->Err_0 is Parse,
{ unimplemented!() }

/// hypotheses under which the stages compose, for the syntax tree of THIS text:
/// (1) the front end hands over terminal names without `$` (the lexer guarantees it for its tokens; parser.rs / cst_to_ast,
///     which only move the names, are not verified);
/// (2) the size bound of C07's quantifier: the table dimensions of every LALR(1) automaton of a validated form fit usize,
///     and the declaration count stays below 2^31 - 2^17
pub open spec fn gen_hyp(src: Seq<char>) -> bool {
    &&& forall|toks: Seq<Token>| (#[trigger] spec_front(toks, src)) is Ok ==> dollar_free(spec_front(toks, src)->Ok_0)
    &&& forall|toks: Seq<Token>, v: crate::data::validated_file::File, m: crate::data::machine::Machine|
        #![trigger spec_front(toks, src), is_lalr_of(&v, m)]
        spec_front(toks, src) is Ok && validated_view(spec_front(toks, src)->Ok_0, v) && is_lalr_of(&v, m)
        ==> sizes_fit(&v, m) && v.nonterminals@.len() + v.terminal_enum.variants@.len() < 0x7ffe_0000
}
pub open spec fn lexes_to(src: Seq<char>, toks: Seq<Token>) -> bool { ref_lex(src) == Ok::<Seq<STok>, (int, Option<char>)>(toks_view(toks)) }
pub open spec fn gen_post_validation(src: Seq<char>, e: KikiErr) -> bool {
    exists|toks: Seq<Token>| lexes_to(src, toks) && (#[trigger] spec_front(toks, src)) is Ok && err_truthful(spec_front(toks, src)->Ok_0, e)
}
pub open spec fn gen_post_conflict(e: KikiErr) -> bool {
    exists|v: crate::data::validated_file::File, m: crate::data::machine::Machine| #[trigger] is_lalr_of(&v, m) && err_is_conflict(file_rules(&v), &m, &v, e)
}
pub open spec fn gen_post_ok(src: Seq<char>, out: Seq<char>) -> bool {
    exists|toks: Seq<Token>, v: crate::data::validated_file::File, m: crate::data::machine::Machine|
        #![trigger spec_front(toks, src), is_lalr_of(&v, m)]
        lexes_to(src, toks) && spec_front(toks, src) is Ok && file_wf(spec_front(toks, src)->Ok_0)
        && validated_view(spec_front(toks, src)->Ok_0, v) && is_lalr_of(&v, m) && no_conflict(file_rules(&v), &m)
        && emits_type_section(out, &v) && emits_parse_sig(out, &v)
}
/// errors of the static validation
pub open spec fn is_validation_err(e: KikiErr) -> bool {
    e is NoStartSymbol || e is MultipleStartSymbols || e is NoTerminalEnum || e is MultipleTerminalEnums
    || e is SymbolOrTerminalEnumNameFirstLetterNotUppercase || e is FieldFirstLetterNotLowercase || e is NameClash
    || e is NonterminalEnumVariantNameClash || e is NonterminalEnumVariantSymbolSequenceClash || e is UndefinedNonterminal || e is UndefinedTerminal
}
//@]

pub fn generate(src: &str) -> /*@[*/(r: /*@]*/Result<RustSrc, KikiErr>/*@[*/)/*@]*/
    //@[ C15 C08 C10 C04 C11 C07 C16 generate: the stages composed (under gen_hyp)
    requires gen_hyp(src@),
    ensures
        // C08: a lexical error is the reference lexer's error, and is reported whenever the text has one
        r is Err && r->Err_0 is Lex ==> lex_err(src@, r->Err_0),
        ref_lex(src@) is Err ==> r is Err && r->Err_0 is Lex,
        // C10: a validation error is true of the syntax tree of the text
        r is Err && is_validation_err(r->Err_0) ==> gen_post_validation(src@, r->Err_0),
        // C04 / C11: a table conflict is a real conflict of the LALR(1) automaton of the validated file
        r is Err && r->Err_0 is TableConflict ==> gen_post_conflict(r->Err_0),
        // Ok: well-formed, conflict-free, and the emitted text carries the hash of exactly this text (C15) and the declared types (C06)
        r is Ok ==> spec_hash(r->Ok_0.0@) == Some(sha256_hex(src@)) && gen_post_ok(src@, r->Ok_0.0@),
    //@]
{
    let tokens = tokenize(src)?;
    //@[ proof
    let ghost toks = tokens@;
    //@]
    /*@{ T13_front*//*@- let cst = parse(tokens)
        .map_err(|unexpected| unexpected_token_or_eof_to_kiki_err(unexpected.as_ref(), src))?;
    let ast: data::ast::File = cst.into(); *//*@|*/let ast: crate::data::ast::File = __vx_parse_to_ast(tokens, src)?;/*@}*/
    //@[ proof
    let ghost ast0 = ast;
    //@]
    let validated = validate_ast(ast)?;
    let machine = validated_ast_to_machine(&validated);
    //@[ proof
    proof {
        assert(validated_view(ast0, validated) && is_lalr_of(&validated, machine));
        lemma_validated_syms_known(ast0, validated);
        lemma_lalr_machine_ok(&validated, machine);
        assert forall|e: KikiErr| err_is_conflict(file_rules(&validated), &machine, &validated, e) implies #[trigger] gen_post_conflict(e) by {}
    }
    //@]
    let table = machine_to_table(&machine, &validated)?;
    Ok(table_to_rust(&table, &validated, src))
}
