//@file kiki/src/pipeline/machine_to_table.rs mod=crate::pipeline::machine_to_table
//@[ imports
use vstd::prelude::*;
use vstd::std_specs::iter::*;
use crate::vx_gram::*;
use crate::vx_ord::*;
use crate::vx_hash::*;
use crate::vx_utf8::*;
broadcast use {vstd::std_specs::hash::group_hash_axioms, crate::vx_hash_ax::group_key_models};
//@]
use crate::data::{machine::*, table::*, validated_file::*, KikiErr, *};

use std::collections::HashMap;

pub fn machine_to_table(machine: &Machine, file: &File) -> /*@[*/(r: /*@]*/Result<Table, KikiErr>/*@[*/)/*@]*/
    //@[ C04 C11 C07 C17 C14 machine_to_table: a table exactly for conflict-free automata, and then THE table of the automaton (every cell a function of the automaton); an error pinpoints a real conflict
    requires machine_ok(file_rules(file), machine, file_terms(file), file_nts(file)),
    ensures
        r is Ok <==> no_conflict(file_rules(file), machine),
        r matches Err(e) ==> err_is_conflict(file_rules(file), machine, file, e),
        r matches Ok(t) ==> table_is(file_rules(file), machine, file_terms(file), file_nts(file), &t),
    //@]
{
    ImmutContext::new(machine, file).get_table()
}

//@[ C04 C11 C07 C17 ghost vocabulary: what each item demands, conflicts, and the invariant of the action map
/// the parser action an item of state s demands, and the quasi-terminal on which it demands it
pub open spec fn demanded<'a>(rules: Seq<Rule>, m: &Machine, s: StateIndex, it: &'a StateItem) -> Option<(Quasiterminal<'a>, Action)> {
    match it.rule_index {
        RuleIndex::Augmented => if it.dot == 0 { None } else { Some((Quasiterminal::Eof, Action::Accept)) },
        RuleIndex::Original(ri) =>
            if it.dot == rule_rhs(rules[ri as int]).len() { Some((la_quasi(&it.lookahead), Action::Reduce(ri))) }
            else {
                match fieldset_idents(*rules[ri as int].fieldset)[it.dot as int] {
                    IdentOrTerminalIdent::Terminal(t) =>
                        Some((Quasiterminal::Terminal(&t.name), Action::Shift(shift_dest(m.transitions.seq(), s, t.name, 0)->Some_0))),
                    IdentOrTerminalIdent::Ident(_) => None,
                }
            },
    }
}

pub open spec fn items_of(m: &Machine, s: int) -> Seq<StateItem> { m.states.seq()[s].items.seq() }

/// two items of state s demand different actions on the same quasi-terminal
pub open spec fn conflict_at(rules: Seq<Rule>, m: &Machine, s: StateIndex, a: StateItem, b: StateItem) -> bool {
    &&& 0 <= s.0 < m.states.seq().len()
    &&& items_of(m, s.0 as int).contains(a) && items_of(m, s.0 as int).contains(b)
    &&& demanded(rules, m, s, &a) is Some && demanded(rules, m, s, &b) is Some
    &&& demanded(rules, m, s, &a)->Some_0.0 == demanded(rules, m, s, &b)->Some_0.0
    &&& demanded(rules, m, s, &a)->Some_0.1 != demanded(rules, m, s, &b)->Some_0.1
}

/// the automaton is conflict-free: no state has two items demanding different actions on one quasi-terminal
pub open spec fn no_conflict(rules: Seq<Rule>, m: &Machine) -> bool {
    forall|s: int, k1: int, k2: int| 0 <= s < m.states.seq().len() && 0 <= k1 < items_of(m, s).len() && 0 <= k2 < items_of(m, s).len()
        ==> !(#[trigger] conflict_at(rules, m, StateIndex(s as usize), items_of(m, s)[k1], items_of(m, s)[k2]))
}

/// item k of state s comes before position (i, j) in the scan order (states by index, items in set order)
pub open spec fn processed(s: int, k: int, i: int, j: int) -> bool { 0 <= s && 0 <= k && (s < i || (s == i && k < j)) }

pub type ActMap<'a> = Map<(StateIndex, Quasiterminal<'a>), (&'a StateItem, Action)>;

/// entry `key` of the action map is justified by processed item k of its state
pub open spec fn act_witness<'a>(rules: Seq<Rule>, m: &Machine, acts: ActMap<'a>, key: (StateIndex, Quasiterminal<'a>), k: int, i: int, j: int) -> bool {
    &&& processed(key.0.0 as int, k, i, j) && key.0.0 < m.states.seq().len() && k < items_of(m, key.0.0 as int).len()
    &&& demanded(rules, m, key.0, &items_of(m, key.0.0 as int)[k]) == Some((key.1, acts[key].1))
    &&& *acts[key].0 == items_of(m, key.0.0 as int)[k]
}

/// invariant of the action map after all items before position (i, j) were scanned without conflict
pub open spec fn acts_inv<'a>(rules: Seq<Rule>, m: &Machine, acts: ActMap<'a>, i: int, j: int) -> bool {
    &&& forall|key: (StateIndex, Quasiterminal<'a>)| #[trigger] acts.contains_key(key) ==> exists|k: int| #[trigger] act_witness(rules, m, acts, key, k, i, j)
    &&& forall|s: int, k: int| #![trigger processed(s, k, i, j)] processed(s, k, i, j) && s < m.states.seq().len() && k < items_of(m, s).len() ==>
            (demanded(rules, m, StateIndex(s as usize), &items_of(m, s)[k]) matches Some(d) ==>
                acts.contains_key((StateIndex(s as usize), d.0)) && acts[(StateIndex(s as usize), d.0)].1 == d.1)
}

/// what the later stages need from the automaton so that nothing panics (C07): every item well-formed,
/// every terminal after a dot has a shift target, every table lookup is for a known symbol
pub open spec fn machine_ok(rules: Seq<Rule>, m: &Machine, terms: Seq<DollarlessTerminalName>, nts: Seq<Seq<char>>) -> bool {
    &&& m.start.0 < m.states.seq().len()
    &&& forall|s: int, k: int| 0 <= s < m.states.seq().len() && 0 <= k < items_of(m, s).len() ==> #[trigger] item_ok(rules, items_of(m, s)[k])
    &&& forall|s: int, k: int| #![trigger items_of(m, s)[k]] 0 <= s < m.states.seq().len() && 0 <= k < items_of(m, s).len() ==>
            (demanded(rules, m, StateIndex(s as usize), &items_of(m, s)[k]) matches Some(d) ==> qcol(terms, d.0) is Some)
            && (sym_after_dot(rules, items_of(m, s)[k]) matches Some(Symbol::Terminal(t)) ==>
                    shift_dest(m.transitions.seq(), StateIndex(s as usize), t, 0) matches Some(d) && d.0 < m.states.seq().len())
    &&& forall|i: int| 0 <= i < m.transitions.seq().len() ==> (#[trigger] m.transitions.seq()[i]).from.0 < m.states.seq().len()
            && m.transitions.seq()[i].to.0 < m.states.seq().len()
            && (m.transitions.seq()[i].symbol matches Symbol::Nonterminal(n) ==> nt_index(nts, n@, 0) is Some)
    // goto determinism: at most one transition per (state, nonterminal)
    &&& forall|i: int, j: int| 0 <= i < j < m.transitions.seq().len() ==>
            !((#[trigger] m.transitions.seq()[i]).from == (#[trigger] m.transitions.seq()[j]).from
              && m.transitions.seq()[i].symbol is Nonterminal && m.transitions.seq()[j].symbol is Nonterminal
              && m.transitions.seq()[i].symbol->Nonterminal_0@ == m.transitions.seq()[j].symbol->Nonterminal_0@)
    &&& m.states.seq().len() * (terms.len() + 1) <= usize::MAX && m.states.seq().len() * nts.len() <= usize::MAX && terms.len() + 1 <= usize::MAX
}

pub type GotoMap<'a> = Map<(StateIndex, &'a str), Goto>;

/// entry `key` of the goto map comes from nonterminal transition j (< i)
pub open spec fn goto_witness<'a>(m: &Machine, g: GotoMap<'a>, key: (StateIndex, &'a str), j: int, i: int) -> bool {
    let t = m.transitions.seq()[j];
    0 <= j < i && j < m.transitions.seq().len() && t.symbol is Nonterminal && key.0 == t.from && key.1@ == t.symbol->Nonterminal_0@
        && g[key] == Goto::State(t.to)
}

/// the goto map after the first i transitions
pub open spec fn gotos_inv<'a>(m: &Machine, g: GotoMap<'a>, i: int) -> bool {
    &&& forall|key: (StateIndex, &'a str)| #[trigger] g.contains_key(key) ==> exists|j: int| #[trigger] goto_witness(m, g, key, j, i)
    &&& forall|j: int| 0 <= j < i && j < m.transitions.seq().len() && (#[trigger] m.transitions.seq()[j]).symbol is Nonterminal ==>
            exists|key: (StateIndex, &'a str)| g.contains_key(key) && #[trigger] goto_witness(m, g, key, j, i)
}

pub proof fn lemma_gotos_skip<'a>(m: &Machine, g: GotoMap<'a>, i: int)
    requires gotos_inv(m, g, i), 0 <= i < m.transitions.seq().len(), !(m.transitions.seq()[i].symbol is Nonterminal)
    ensures gotos_inv(m, g, i + 1)
{
    assert forall|key: (StateIndex, &'a str)| #[trigger] g.contains_key(key) implies exists|j: int| #[trigger] goto_witness(m, g, key, j, i + 1) by {
        let j = choose|j: int| goto_witness(m, g, key, j, i);
        assert(goto_witness(m, g, key, j, i + 1));
    }
    assert forall|j: int| 0 <= j < i + 1 && j < m.transitions.seq().len() && (#[trigger] m.transitions.seq()[j]).symbol is Nonterminal implies
        exists|key: (StateIndex, &'a str)| g.contains_key(key) && #[trigger] goto_witness(m, g, key, j, i + 1) by {
        let key = choose|key: (StateIndex, &'a str)| g.contains_key(key) && goto_witness(m, g, key, j, i);
        assert(goto_witness(m, g, key, j, i + 1));
    }
}

pub proof fn lemma_gotos_step<'a>(m: &Machine, g: GotoMap<'a>, g2: GotoMap<'a>, i: int, key0: (StateIndex, &'a str))
    requires gotos_inv(m, g, i), 0 <= i < m.transitions.seq().len(), m.transitions.seq()[i].symbol is Nonterminal,
        key0.0 == m.transitions.seq()[i].from, key0.1@ == m.transitions.seq()[i].symbol->Nonterminal_0@,
        !g.contains_key(key0), g2 == g.insert(key0, Goto::State(m.transitions.seq()[i].to)),
    ensures gotos_inv(m, g2, i + 1)
{
    assert forall|key: (StateIndex, &'a str)| #[trigger] g2.contains_key(key) implies exists|j: int| #[trigger] goto_witness(m, g2, key, j, i + 1) by {
        if key == key0 { assert(goto_witness(m, g2, key, i, i + 1)); }
        else { let j = choose|j: int| goto_witness(m, g, key, j, i); assert(goto_witness(m, g2, key, j, i + 1)); }
    }
    assert forall|j: int| 0 <= j < i + 1 && j < m.transitions.seq().len() && (#[trigger] m.transitions.seq()[j]).symbol is Nonterminal implies
        exists|key: (StateIndex, &'a str)| g2.contains_key(key) && #[trigger] goto_witness(m, g2, key, j, i + 1) by {
        if j == i { assert(goto_witness(m, g2, key0, i, i + 1)); }
        else {
            let key = choose|key: (StateIndex, &'a str)| g.contains_key(key) && goto_witness(m, g, key, j, i);
            assert(key != key0);
            assert(goto_witness(m, g2, key, j, i + 1));
        }
    }
}

/// the conflict error e names a real conflict of the automaton and carries the grammar and the automaton
pub open spec fn err_is_conflict(rules: Seq<Rule>, m: &Machine, f: &File, e: KikiErr) -> bool {
    e matches KikiErr::TableConflict(b) && conflict_at(rules, m, b.state_index, b.items.0, b.items.1) && b.file == *f && b.machine == *m
}

/// a real conflict refutes conflict-freedom
pub proof fn lemma_conflict_refutes(rules: Seq<Rule>, m: &Machine, s: StateIndex, a: StateItem, b: StateItem)
    requires conflict_at(rules, m, s, a, b)
    ensures !no_conflict(rules, m)
{
    let items = items_of(m, s.0 as int);
    let k1 = choose|k: int| 0 <= k < items.len() && items[k] == a;
    let k2 = choose|k: int| 0 <= k < items.len() && items[k] == b;
    assert(StateIndex(s.0 as int as usize) == s);
    assert(conflict_at(rules, m, StateIndex(s.0 as int as usize), items_of(m, s.0 as int)[k1], items_of(m, s.0 as int)[k2]));
}

/// once every item of every state was scanned without conflict, the automaton is conflict-free
pub proof fn lemma_scanned_all<'a>(rules: Seq<Rule>, m: &Machine, acts: ActMap<'a>)
    requires acts_inv(rules, m, acts, m.states.seq().len() as int, 0)
    ensures no_conflict(rules, m)
{
    let n = m.states.seq().len() as int;
    assert forall|s: int, k1: int, k2: int| 0 <= s < n && 0 <= k1 < items_of(m, s).len() && 0 <= k2 < items_of(m, s).len()
        implies !(#[trigger] conflict_at(rules, m, StateIndex(s as usize), items_of(m, s)[k1], items_of(m, s)[k2])) by {
        assert(processed(s, k1, n, 0));
        assert(processed(s, k2, n, 0));
        if conflict_at(rules, m, StateIndex(s as usize), items_of(m, s)[k1], items_of(m, s)[k2]) {
            assert(StateIndex(s as usize).0 as int == s);
        }
    }
}

/// finishing the items of state s is the same as standing before the first item of state s + 1
pub proof fn lemma_next_state<'a>(rules: Seq<Rule>, m: &Machine, acts: ActMap<'a>, s: int)
    requires 0 <= s < m.states.seq().len(), acts_inv(rules, m, acts, s, items_of(m, s).len() as int)
    ensures acts_inv(rules, m, acts, s + 1, 0)
{
    let j = items_of(m, s).len() as int;
    assert forall|key: (StateIndex, Quasiterminal<'a>)| #[trigger] acts.contains_key(key) implies exists|k: int| #[trigger] act_witness(rules, m, acts, key, k, s + 1, 0) by {
        let k = choose|k: int| act_witness(rules, m, acts, key, k, s, j);
        assert(act_witness(rules, m, acts, key, k, s + 1, 0));
    }
    assert forall|s2: int, k: int| #![trigger processed(s2, k, s + 1, 0)] processed(s2, k, s + 1, 0) && s2 < m.states.seq().len() && k < items_of(m, s2).len() implies
        (demanded(rules, m, StateIndex(s2 as usize), &items_of(m, s2)[k]) matches Some(d) ==>
            acts.contains_key((StateIndex(s2 as usize), d.0)) && acts[(StateIndex(s2 as usize), d.0)].1 == d.1) by {
        assert(processed(s2, k, s, j));
    }
}

/// outcome of handling one item: nothing for an item that demands no action, otherwise set_action's effect
spec fn item_step<'a>(rules: Seq<Rule>, m: &Machine, old_b: TableBuilder<'a>, new_b: TableBuilder<'a>, r: Result<(), KikiErr>,
                      s: StateIndex, item: &'a StateItem) -> bool {
    match demanded(rules, m, s, item) {
        None => r is Ok && new_b.actions@ == old_b.actions@ && new_b.gotos == old_b.gotos && new_b.context == old_b.context,
        Some(d) => set_action_post(old_b, new_b, r, s, d.0, item, d.1),
    }
}

/// one step of the scan preserves the invariant, or exhibits a conflict
proof fn lemma_acts_step<'a>(rules: Seq<Rule>, m: &Machine, f: &File, old_b: TableBuilder<'a>, new_b: TableBuilder<'a>, r: Result<(), KikiErr>,
                             s: StateIndex, j: int, item: &'a StateItem)
    requires
        acts_inv(rules, m, old_b.actions@, s.0 as int, j), s.0 < m.states.seq().len(), 0 <= j < items_of(m, s.0 as int).len(),
        *item == items_of(m, s.0 as int)[j], item_step(rules, m, old_b, new_b, r, s, item),
        old_b.context.file == f, *old_b.context.machine == *m,
    ensures
        r is Ok ==> acts_inv(rules, m, new_b.actions@, s.0 as int, j + 1),
        r matches Err(e) ==> err_is_conflict(rules, m, f, e),
{
    let si = s.0 as int;
    let acts = old_b.actions@;
    let acts2 = new_b.actions@;
    assert(StateIndex(si as usize) == s);
    match demanded(rules, m, s, item) {
        None => {
            assert forall|key: (StateIndex, Quasiterminal<'a>)| #[trigger] acts2.contains_key(key) implies exists|k: int| #[trigger] act_witness(rules, m, acts2, key, k, si, j + 1) by {
                let k = choose|k: int| act_witness(rules, m, acts, key, k, si, j);
                assert(act_witness(rules, m, acts2, key, k, si, j + 1));
            }
            assert forall|s2: int, k: int| #![trigger processed(s2, k, si, j + 1)] processed(s2, k, si, j + 1) && s2 < m.states.seq().len() && k < items_of(m, s2).len() implies
                (demanded(rules, m, StateIndex(s2 as usize), &items_of(m, s2)[k]) matches Some(d) ==>
                    acts2.contains_key((StateIndex(s2 as usize), d.0)) && acts2[(StateIndex(s2 as usize), d.0)].1 == d.1) by {
                if !(s2 == si && k == j) { assert(processed(s2, k, si, j)); }
            }
        }
        Some(d) => {
            let key0 = (s, d.0);
            match r {
                Ok(_) => {
                    assert forall|key: (StateIndex, Quasiterminal<'a>)| #[trigger] acts2.contains_key(key) implies exists|k: int| #[trigger] act_witness(rules, m, acts2, key, k, si, j + 1) by {
                        if acts.contains_key(key) {
                            let k = choose|k: int| act_witness(rules, m, acts, key, k, si, j);
                            assert(act_witness(rules, m, acts2, key, k, si, j + 1));
                        } else {
                            assert(key == key0);
                            assert(act_witness(rules, m, acts2, key, j, si, j + 1));
                        }
                    }
                    assert forall|s2: int, k: int| #![trigger processed(s2, k, si, j + 1)] processed(s2, k, si, j + 1) && s2 < m.states.seq().len() && k < items_of(m, s2).len() implies
                        (demanded(rules, m, StateIndex(s2 as usize), &items_of(m, s2)[k]) matches Some(d2) ==>
                            acts2.contains_key((StateIndex(s2 as usize), d2.0)) && acts2[(StateIndex(s2 as usize), d2.0)].1 == d2.1) by {
                        if !(s2 == si && k == j) { assert(processed(s2, k, si, j)); }
                    }
                }
                Err(e) => {
                    let k0 = choose|k: int| act_witness(rules, m, acts, key0, k, si, j);
                    let a = items_of(m, si)[k0];
                    assert(items_of(m, si).contains(a));
                    assert(items_of(m, si).contains(*item));
                    assert(conflict_at(rules, m, s, a, *item));
                }
            }
        }
    }
}

impl ImmutContext<'_> {
    spec fn ok(&self) -> bool {
        machine_ok(self.rules@, self.machine, file_terms(self.file), file_nts(self.file))
    }
}

/// terminal names / nonterminal names of the validated file, in declaration order (table columns)
pub open spec fn file_terms(f: &File) -> Seq<DollarlessTerminalName> { f.terminal_enum.variants@.map_values(|v: TerminalVariant| v.dollarless_name) }
pub open spec fn file_nts(f: &File) -> Seq<Seq<char>> { f.nonterminals@.map_values(|nt: Nonterminal| nt_name(nt)) }
//@]

#[derive(Debug)]
struct ImmutContext<'a> {
    machine: &'a Machine,
    file: &'a File,
    rules: Vec<Rule<'a>>,
}

impl ImmutContext<'_> {
    //@[ T: `file.get_rules().collect()` goes through an opaque `impl Iterator` (body not verified; contract assumed)
    #[verifier::external_body]
    //@]
    fn new<'a>(machine: &'a Machine, file: &'a File) -> /*@[*/(r: /*@]*/ImmutContext<'a>/*@[*/)/*@]*/
        //@[ assumed contract: the rules are those of the file (one per struct / enum variant, in declaration order)
        ensures r.machine == machine, r.file == file, r.rules@ == file_rules(file),
        //@]
    {
        ImmutContext {
            machine,
            file,
            rules: file.get_rules().collect(),
        }
    }
}

impl ImmutContext<'_> {
    fn get_table(&self) -> /*@[*/(r: /*@]*/Result<Table, KikiErr>/*@[*/)/*@]*/
        //@[ C04 C11 C07 C17 C14 ImmutContext::get_table
        requires self.ok(),
        ensures
            r is Ok <==> no_conflict(self.rules@, self.machine),
            r matches Err(e) ==> err_is_conflict(self.rules@, self.machine, self.file, e),
            r matches Ok(t) ==> table_is(self.rules@, self.machine, file_terms(self.file), file_nts(self.file), &t),
        //@]
    {
        let mut builder = TableBuilder::new(self);
        self.add_actions_to_table(&mut builder)?;
        //@[ proof
        proof { lemma_scanned_all(self.rules@, self.machine, builder.actions@); }
        //@]
        self.add_gotos_to_table(&mut builder);
        //@[ proof
        proof {
            let n = self.machine.states.seq().len() as int;
            let (acts, gts) = (builder.actions@, builder.gotos@);
            assert forall|t: Table| #![trigger actions_are(&t, acts, n)] actions_are(&t, acts, n) && gotos_are(&t, gts, n) && t.wf() && t.nstates() == n && t.start == self.machine.start
                && t.terminals@ == file_terms(self.file) && names_view(t.nonterminals@) == file_nts(self.file)
                implies table_is(self.rules@, self.machine, file_terms(self.file), file_nts(self.file), &t) by {
                lemma_table_is(self.rules@, self.machine, file_terms(self.file), file_nts(self.file), &t, acts, gts);
            }
        }
        //@]
        Ok(self.build_as_is(builder))
    }
}

#[derive(Debug)]
struct TableBuilder<'a> {
    actions: HashMap<(StateIndex, Quasiterminal<'a>), (&'a StateItem, Action)>,
    gotos: HashMap<(StateIndex, &'a str), Goto>,

    context: &'a ImmutContext<'a>,
}

impl TableBuilder<'_> {
    fn new<'a>(context: &'a ImmutContext<'a>) -> /*@[*/(r: /*@]*/TableBuilder<'a>/*@[*/)/*@]*/
        //@[ C04 TableBuilder::new: empty maps
        ensures r.context == context, r.actions@ == Map::<(StateIndex, Quasiterminal<'a>), (&'a StateItem, Action)>::empty(),
            r.gotos@ == Map::<(StateIndex, &'a str), Goto>::empty(),
        //@]
    {
        TableBuilder {
            actions: HashMap::new(),
            gotos: HashMap::new(),

            context,
        }
    }
}

impl<'a> ImmutContext<'a> {
    fn add_actions_to_table(&self, builder: &mut TableBuilder<'a>) -> /*@[*/(r: /*@]*/Result<(), KikiErr>/*@[*/)/*@]*/
        //@[ C04 C11 C07 add_actions_to_table: ordered scan of all states; Ok iff no state has a conflict
        requires self.ok(), *old(builder).context == *self, old(builder).actions@ == Map::<(StateIndex, Quasiterminal<'a>), (&'a StateItem, Action)>::empty(),
        ensures
            final(builder).gotos == old(builder).gotos, final(builder).context == old(builder).context,
            r is Ok ==> acts_inv(self.rules@, self.machine, final(builder).actions@, self.machine.states.seq().len() as int, 0),
            r matches Err(e) ==> err_is_conflict(self.rules@, self.machine, self.file, e),
        //@]
    {
        for i in /*@[*/__vx_it: /*@]*/0..self.machine.states.len()
            //@[ C04 loop invariant: every item of the states before i was scanned without conflict
            invariant
                self.ok(), *builder.context == *self, builder.gotos == old(builder).gotos, builder.context == old(builder).context,
                acts_inv(self.rules@, self.machine, builder.actions@, i as int, 0),
            //@]
        {
            self.add_state_actions_to_table(builder, StateIndex(i))?;
            //@[ proof
            proof { lemma_next_state(self.rules@, self.machine, builder.actions@, i as int); }
            //@]
        }
        Ok(())
    }

    fn add_state_actions_to_table(
        &self,
        builder: &mut TableBuilder<'a>,
        state_index: StateIndex,
    ) -> /*@[*/(r: /*@]*/Result<(), KikiErr>/*@[*/)/*@]*/
        //@[ C04 C11 C07 add_state_actions_to_table: items of one state in set order
        requires self.ok(), *old(builder).context == *self, state_index.0 < self.machine.states.seq().len(),
            acts_inv(self.rules@, self.machine, old(builder).actions@, state_index.0 as int, 0),
        ensures
            final(builder).gotos == old(builder).gotos, final(builder).context == old(builder).context,
            r is Ok ==> acts_inv(self.rules@, self.machine, final(builder).actions@, state_index.0 as int,
                                 items_of(self.machine, state_index.0 as int).len() as int),
            r matches Err(e) ==> err_is_conflict(self.rules@, self.machine, self.file, e),
        //@]
    {
        let state = &self.machine.states[state_index.0];
        for item in /*@[*/__vx_it: /*@]*/&state.items
            //@[ C04 loop invariant: the items before the current one were scanned without conflict
            invariant
                self.ok(), *builder.context == *self, builder.gotos == old(builder).gotos, builder.context == old(builder).context,
                state_index.0 < self.machine.states.seq().len(), *state == self.machine.states.seq()[state_index.0 as int],
                __vx_it.seq() == state.items.seq().as_ref(),
                acts_inv(self.rules@, self.machine, builder.actions@, state_index.0 as int, __vx_it.index@),
            //@]
        {
            //@[ proof
            let ghost j = __vx_it.index@;
            let ghost b0 = *builder;
            proof {
                assert(*item == items_of(self.machine, state_index.0 as int)[j]);
                assert(items_of(self.machine, state_index.0 as int).contains(*item));
            }
            //@]
            /*@{ step_call*//*@- self.add_item_action_to_table(builder, state_index, item)?; *//*@|*/let __vx_r = self.add_item_action_to_table(builder, state_index, item);
            proof { lemma_acts_step(self.rules@, self.machine, self.file, b0, *builder, __vx_r, state_index, j, item); }
            __vx_r?;/*@}*/
        }
        Ok(())
    }

    fn add_item_action_to_table(
        &self,
        builder: &mut TableBuilder<'a>,
        state_index: StateIndex,
        item: &'a StateItem,
    ) -> /*@[*/(r: /*@]*/Result<(), KikiErr>/*@[*/)/*@]*/
        //@[ C04 C11 C07 C17 add_item_action_to_table: exactly the action the item demands
        requires self.ok(), *old(builder).context == *self, state_index.0 < self.machine.states.seq().len(),
            items_of(self.machine, state_index.0 as int).contains(*item),
        ensures item_step(self.rules@, self.machine, *old(builder), *final(builder), r, state_index, item),
        //@]
    {
        match item.rule_index {
            RuleIndex::Augmented => {
                self.add_augmented_item_action_to_table(builder, state_index, item)
            }
            RuleIndex::Original(rule_index) => {
                self.add_original_item_action_to_table(builder, state_index, item, rule_index)
            }
        }
    }

    fn add_augmented_item_action_to_table(
        &self,
        builder: &mut TableBuilder<'a>,
        state_index: StateIndex,
        item: &'a StateItem,
    ) -> /*@[*/(r: /*@]*/Result<(), KikiErr>/*@[*/)/*@]*/
        //@[ C04 C17 add_augmented_item_action_to_table: accept on end of input for the completed augmented item
        requires item.rule_index is Augmented, self.ok(), *old(builder).context == *self, state_index.0 < self.machine.states.seq().len(),
            items_of(self.machine, state_index.0 as int).contains(*item),
        ensures item_step(self.rules@, self.machine, *old(builder), *final(builder), r, state_index, item),
        //@]
    {
        if item.dot == 0 {
            return Ok(());
        }

        builder.set_action(state_index, Quasiterminal::Eof, item, Action::Accept)
    }

    fn add_original_item_action_to_table(
        &self,
        builder: &mut TableBuilder<'a>,
        state_index: StateIndex,
        item: &'a StateItem,
        rule_index: usize,
    ) -> /*@[*/(r: /*@]*/Result<(), KikiErr>/*@[*/)/*@]*/
        //@[ C04 C07 C17 add_original_item_action_to_table: reduce at the end of the rule, shift before a terminal, nothing before a nonterminal
        requires item.rule_index == RuleIndex::Original(rule_index), self.ok(), *old(builder).context == *self, state_index.0 < self.machine.states.seq().len(),
            items_of(self.machine, state_index.0 as int).contains(*item),
        ensures item_step(self.rules@, self.machine, *old(builder), *final(builder), r, state_index, item),
        //@]
    {
        //@[ proof
        proof {
            let k = choose|k: int| 0 <= k < items_of(self.machine, state_index.0 as int).len() && items_of(self.machine, state_index.0 as int)[k] == *item;
            assert(item_ok(self.rules@, items_of(self.machine, state_index.0 as int)[k]));
            assert(StateIndex(state_index.0 as int as usize) == state_index);
        }
        //@]
        let rule = &self.rules[rule_index];

        if item.dot == rule.fieldset.len() {
            self.add_original_reduction_to_table(builder, state_index, item, rule_index)
        } else if let IdentOrTerminalIdent::Terminal(terminal) =
            rule.fieldset.get_symbol_ident(item.dot)
        {
            self.add_original_shift_to_table(builder, state_index, item, &terminal.name)
        } else {
            Ok(())
        }
    }

    fn add_original_shift_to_table(
        &self,
        builder: &mut TableBuilder<'a>,
        state_index: StateIndex,
        item: &'a StateItem,
        terminal: &'a DollarlessTerminalName,
    ) -> /*@[*/(r: /*@]*/Result<(), KikiErr>/*@[*/)/*@]*/
        //@[ C04 C07 C17 add_original_shift_to_table: shift to the transition target (which exists)
        requires
            item.rule_index is Original, item.rule_index->Original_0 < self.rules@.len(),
            item.dot < rule_rhs(self.rules@[item.rule_index->Original_0 as int]).len(),
            fieldset_idents(*self.rules@[item.rule_index->Original_0 as int].fieldset)[item.dot as int] is Terminal,
            fieldset_idents(*self.rules@[item.rule_index->Original_0 as int].fieldset)[item.dot as int]->Terminal_0.name == *terminal,
            self.ok(), *old(builder).context == *self, state_index.0 < self.machine.states.seq().len(),
            items_of(self.machine, state_index.0 as int).contains(*item),
        ensures item_step(self.rules@, self.machine, *old(builder), *final(builder), r, state_index, item),
        //@]
    {
        //@[ proof
        proof {
            let k = choose|k: int| 0 <= k < items_of(self.machine, state_index.0 as int).len() && items_of(self.machine, state_index.0 as int)[k] == *item;
            assert(items_of(self.machine, state_index.0 as int)[k] == *item);
            assert(StateIndex(state_index.0 as int as usize) == state_index);
            assert(sym_after_dot(self.rules@, *item) == Some(Symbol::Terminal(*terminal)));
        }
        //@]
        let dest = self.machine.get_shift_dest(state_index, terminal).unwrap();
        builder.set_action(
            state_index,
            Quasiterminal::Terminal(terminal),
            item,
            Action::Shift(dest),
        )
    }

    fn add_original_reduction_to_table(
        &self,
        builder: &mut TableBuilder<'a>,
        state_index: StateIndex,
        item: &'a StateItem,
        rule_index: usize,
    ) -> /*@[*/(r: /*@]*/Result<(), KikiErr>/*@[*/)/*@]*/
        //@[ C04 C17 add_original_reduction_to_table: reduce exactly on the item's own lookahead
        requires item.rule_index == RuleIndex::Original(rule_index), rule_index < self.rules@.len(),
            item.dot == rule_rhs(self.rules@[rule_index as int]).len(), self.ok(), *old(builder).context == *self, state_index.0 < self.machine.states.seq().len(),
            items_of(self.machine, state_index.0 as int).contains(*item),
        ensures item_step(self.rules@, self.machine, *old(builder), *final(builder), r, state_index, item),
        //@]
    {
        builder.set_action(
            state_index,
            item.lookahead.as_quasiterminal(),
            item,
            Action::Reduce(rule_index),
        )
    }
}

//@[ C04 C11 effect of set_action, as a predicate (reused by the callers' contracts)
spec fn set_action_post<'a>(old_b: TableBuilder<'a>, new_b: TableBuilder<'a>, r: Result<(), KikiErr>, s: StateIndex,
                            q: Quasiterminal<'a>, item: &'a StateItem, action: Action) -> bool {
    let k = (s, q);
    &&& new_b.gotos == old_b.gotos && new_b.context == old_b.context
    &&& match r {
        Ok(_) =>
            if old_b.actions@.contains_key(k) { new_b.actions@ == old_b.actions@ && old_b.actions@[k].1 == action }
            else { new_b.actions@ == old_b.actions@.insert(k, (item, action)) },
        Err(e) => {
            &&& old_b.actions@.contains_key(k) && old_b.actions@[k].1 != action && new_b.actions@ == old_b.actions@
            &&& e matches KikiErr::TableConflict(b)
                // the two items in either order: the statement of C11 is symmetric in them
                && b.state_index == s && (b.items == (*old_b.actions@[k].0, *item) || b.items == (*item, *old_b.actions@[k].0))
                && b.file == *old_b.context.file && b.machine == *old_b.context.machine
        },
    }
}
//@]

impl<'a> TableBuilder<'a> {
    fn set_action(
        &mut self,
        state_index: StateIndex,
        quasiterminal: Quasiterminal<'a>,
        item: &'a StateItem,
        action: Action,
    ) -> /*@[*/(r: /*@]*/Result<(), KikiErr>/*@[*/)/*@]*/
        //@[ C04 C11 TableBuilder::set_action: a second, different action for one (state, quasi-terminal) is a conflict; the error carries both items
        ensures set_action_post(*old(self), *final(self), r, state_index, quasiterminal, item, action),
        //@]
    {
        if let Some((existing_item, existing_action)) =
            self.actions.get(&(state_index, quasiterminal))
        {
            // It is possible that we have two (or more)
            // items that are identical except for
            // their lookahead.
            // If those items produce a Shift action,
            // this will cause that action to get
            // added twice (or more times).
            // In that case, we simply ignore the second
            // (or later) action(s).
            //
            // Since the actions are the same,
            // there is no conflict.
            if *existing_action == action {
                return Ok(());
            }

            return Err(KikiErr::TableConflict(Box::new(TableConflictErr {
                state_index,
                items: ((*existing_item).clone(), item.clone()),
                file: self.context.file.clone(),
                machine: self.context.machine.clone(),
            })));
        }

        self.actions
            .insert((state_index, quasiterminal), (item, action));
        Ok(())
    }
}

impl<'a> ImmutContext<'a> {
    fn add_gotos_to_table(&self, builder: &mut TableBuilder<'a>)
        //@[ C07 C17 add_gotos_to_table: one goto per nonterminal transition; never two for one (state, nonterminal)
        requires self.ok(), old(builder).gotos@ == Map::<(StateIndex, &'a str), Goto>::empty(),
        ensures final(builder).actions == old(builder).actions, final(builder).context == old(builder).context,
            gotos_inv(self.machine, final(builder).gotos@, self.machine.transitions.seq().len() as int),
        //@]
    {
        for transition in /*@[*/__vx_it: /*@]*/&self.machine.transitions
            //@[ C07 C17 loop invariant: the goto map holds exactly the nonterminal transitions seen so far
            invariant
                self.ok(), builder.actions == old(builder).actions, builder.context == old(builder).context,
                __vx_it.seq() == self.machine.transitions.seq().as_ref(),
                gotos_inv(self.machine, builder.gotos@, __vx_it.index@),
            //@]
        {
            //@[ proof
            let ghost i = __vx_it.index@;
            let ghost g0 = builder.gotos@;
            proof { assert(*transition == self.machine.transitions.seq()[i]); }
            //@]
            if let Symbol::Nonterminal(nonterminal) = &transition.symbol {
                //@[ proof
                proof {
                    // goto determinism: no earlier transition has the same (state, nonterminal)
                    assert forall|x: &'a str| x@ == nonterminal@ implies !g0.contains_key((transition.from, x)) by {
                        let key = (transition.from, x);
                        if g0.contains_key(key) {
                            let j = choose|j: int| goto_witness(self.machine, g0, key, j, i);
                            assert(self.machine.transitions.seq()[j].from == self.machine.transitions.seq()[i].from);
                        }
                    }
                }
                //@]
                builder.set_goto(transition.from, nonterminal, Goto::State(transition.to));
                //@[ proof
                proof {
                    let key0 = choose|key0: (StateIndex, &'a str)| builder.gotos@ == g0.insert(key0, Goto::State(transition.to))
                        && key0.0 == transition.from && key0.1@ == nonterminal@;
                    lemma_gotos_step(self.machine, g0, builder.gotos@, i, key0);
                }
                //@]
            }
            //@[ proof
            proof { if !(transition.symbol is Nonterminal) { lemma_gotos_skip(self.machine, g0, i); } }
            //@]
        }
    }
}

impl<'a> TableBuilder<'a> {
    fn set_goto(&mut self, state_index: StateIndex, nonterminal: &'a str, goto: Goto)
        //@[ C07 C17 TableBuilder::set_goto: the `Impossible: goto conflict` panic is unreachable
        requires !old(self).gotos@.contains_key((state_index, nonterminal)),
        ensures final(self).gotos@ == old(self).gotos@.insert((state_index, nonterminal), goto),
            final(self).actions == old(self).actions, final(self).context == old(self).context,
        //@]
    {
        if let Some(old_goto) = self.gotos.get(&(state_index, nonterminal)) {
            let StateIndex(state_index) = state_index;
            panic!("Impossible: goto conflict. State index: {state_index}. Old goto: {old_goto:?}. New goto: {goto:?}");
        }

        self.gotos.insert((state_index, nonterminal), goto);
    }
}

//@[ C14 C17 layer T: the table is a function of the two maps (whatever order their entries are listed in)
/// distinct (state, quasi-terminal) keys address distinct action cells
pub proof fn lemma_action_pos_injective(t: &Table, s1: StateIndex, q1: Quasiterminal, s2: StateIndex, q2: Quasiterminal)
    requires qcol(t.terminals@, q1) is Some, qcol(t.terminals@, q2) is Some, t.action_pos(s1, q1) == t.action_pos(s2, q2)
    ensures s1 == s2, q1 == q2
{
    let ts = t.terminals@;
    if let Quasiterminal::Terminal(a) = q1 { lemma_term_index_bounds(ts, *a, 0); }
    if let Quasiterminal::Terminal(b) = q2 { lemma_term_index_bounds(ts, *b, 0); }
    lemma_cell_injective(s1.0 as int, qcol(ts, q1)->Some_0, s2.0 as int, qcol(ts, q2)->Some_0, t.ncols());
}
/// distinct (state, nonterminal name) keys address distinct goto cells
pub proof fn lemma_goto_pos_injective(t: &Table, s1: StateIndex, n1: Seq<char>, s2: StateIndex, n2: Seq<char>)
    requires nt_index(names_view(t.nonterminals@), n1, 0) is Some, nt_index(names_view(t.nonterminals@), n2, 0) is Some,
        t.goto_pos(s1, n1) == t.goto_pos(s2, n2)
    ensures s1 == s2, n1 == n2
{
    let ns = names_view(t.nonterminals@);
    lemma_nt_index_bounds(ns, n1, 0); lemma_nt_index_bounds(ns, n2, 0);
    lemma_cell_injective(s1.0 as int, nt_index(ns, n1, 0)->Some_0, s2.0 as int, nt_index(ns, n2, 0)->Some_0, ns.len() as int);
}
pub proof fn lemma_action_pos_in_range(t: &Table, s: StateIndex, q: Quasiterminal)
    requires t.wf(), s.0 < t.nstates(), qcol(t.terminals@, q) is Some
    ensures 0 <= t.action_pos(s, q) < t.actions@.len()
{
    if let Quasiterminal::Terminal(a) = q { lemma_term_index_bounds(t.terminals@, *a, 0); }
    lemma_cell_in_range(s.0 as int, t.nstates(), t.ncols(), qcol(t.terminals@, q)->Some_0);
}
pub proof fn lemma_goto_pos_in_range(t: &Table, s: StateIndex, nm: Seq<char>)
    requires t.wf(), s.0 < t.nstates(), nt_index(names_view(t.nonterminals@), nm, 0) is Some
    ensures 0 <= t.goto_pos(s, nm) < t.gotos@.len()
{
    lemma_nt_index_bounds(names_view(t.nonterminals@), nm, 0);
    lemma_cell_in_range(s.0 as int, t.nstates(), t.nonterminals@.len() as int, nt_index(names_view(t.nonterminals@), nm, 0)->Some_0);
}
pub open spec fn act_unlisted<'a>(l: Seq<((StateIndex, Quasiterminal<'a>), (&'a StateItem, Action))>, idx: int, key: (StateIndex, Quasiterminal<'a>)) -> bool {
    forall|j: int| 0 <= j < idx ==> (#[trigger] l[j]).0 != key
}
pub open spec fn goto_unlisted<'a>(l: Seq<((StateIndex, &'a str), Goto)>, idx: int, s: StateIndex, nm: Seq<char>) -> bool {
    forall|j: int| 0 <= j < idx ==> !((#[trigger] l[j]).0.0 == s && l[j].0.1@ == nm)
}
/// the action cells hold exactly the action map, and the error action elsewhere
pub open spec fn actions_are<'a>(t: &Table, acts: ActMap<'a>, n: int) -> bool {
    &&& forall|key: (StateIndex, Quasiterminal<'a>)| #[trigger] acts.contains_key(key) ==> t.actions@[t.action_pos(key.0, key.1)] == acts[key].1
    &&& forall|s: StateIndex, q: Quasiterminal<'a>| s.0 < n && qcol(t.terminals@, q) is Some && !acts.contains_key((s, q))
            ==> #[trigger] t.actions@[t.action_pos(s, q)] == Action::Err
}
/// the goto cells hold exactly the goto map, and the error goto elsewhere
pub open spec fn gotos_are<'a>(t: &Table, gts: GotoMap<'a>, n: int) -> bool {
    &&& forall|key: (StateIndex, &'a str)| #[trigger] gts.contains_key(key) ==> t.gotos@[t.goto_pos(key.0, key.1@)] == gts[key]
    &&& forall|s: StateIndex, nm: Seq<char>| s.0 < n && nt_index(names_view(t.nonterminals@), nm, 0) is Some
            && (forall|key: (StateIndex, &'a str)| gts.contains_key(key) ==> !(key.0 == s && key.1@ == nm))
            ==> #[trigger] t.gotos@[t.goto_pos(s, nm)] == Goto::Err
}
//@]

//@[ C17 C14 layer T: the table is THE table of the automaton
/// cell (s, q) holds the action demanded on q by an item of state s, and the error action if no item demands one
pub open spec fn action_cell_ok<'a>(rules: Seq<Rule>, m: &Machine, t: &Table, s: int, q: Quasiterminal<'a>) -> bool {
    let cell = t.actions@[t.action_pos(StateIndex(s as usize), q)];
    &&& forall|k: int| 0 <= k < items_of(m, s).len() && (#[trigger] demanded(rules, m, StateIndex(s as usize), &items_of(m, s)[k]) matches Some(d) && d.0 == q)
            ==> cell == demanded(rules, m, StateIndex(s as usize), &items_of(m, s)[k])->Some_0.1
    &&& (forall|k: int| 0 <= k < items_of(m, s).len() ==> !(#[trigger] demanded(rules, m, StateIndex(s as usize), &items_of(m, s)[k]) matches Some(d) && d.0 == q))
            ==> cell == Action::Err
}
/// cell (s, nm) holds the target of the transition of state s on nonterminal nm, and the error goto if there is none
pub open spec fn goto_cell_ok(m: &Machine, t: &Table, s: int, nm: Seq<char>) -> bool {
    let cell = t.gotos@[t.goto_pos(StateIndex(s as usize), nm)];
    let tr = m.transitions.seq();
    &&& forall|j: int| 0 <= j < tr.len() && (#[trigger] tr[j]).from == StateIndex(s as usize) && tr[j].symbol is Nonterminal && tr[j].symbol->Nonterminal_0@ == nm
            ==> cell == Goto::State(tr[j].to)
    &&& (forall|j: int| 0 <= j < tr.len() ==> !((#[trigger] tr[j]).from == StateIndex(s as usize) && tr[j].symbol is Nonterminal && tr[j].symbol->Nonterminal_0@ == nm))
            ==> cell == Goto::Err
}
pub open spec fn table_is(rules: Seq<Rule>, m: &Machine, terms: Seq<DollarlessTerminalName>, nts: Seq<Seq<char>>, t: &Table) -> bool {
    &&& t.wf() && t.nstates() == m.states.seq().len() && t.start == m.start && t.terminals@ == terms && names_view(t.nonterminals@) == nts
    &&& forall|s: int, q: Quasiterminal| 0 <= s < m.states.seq().len() && qcol(terms, q) is Some ==> #[trigger] action_cell_ok(rules, m, t, s, q)
    &&& forall|s: int, nm: Seq<char>| 0 <= s < m.states.seq().len() && nt_index(nts, nm, 0) is Some ==> #[trigger] goto_cell_ok(m, t, s, nm)
}
pub proof fn lemma_table_is<'a>(rules: Seq<Rule>, m: &Machine, terms: Seq<DollarlessTerminalName>, nts: Seq<Seq<char>>, t: &Table, acts: ActMap<'a>, gts: GotoMap<'a>)
    requires
        m.states.seq().len() <= usize::MAX,
        acts_inv(rules, m, acts, m.states.seq().len() as int, 0), gotos_inv(m, gts, m.transitions.seq().len() as int),
        t.wf(), t.nstates() == m.states.seq().len(), t.start == m.start, t.terminals@ == terms, names_view(t.nonterminals@) == nts,
        actions_are(t, acts, m.states.seq().len() as int), gotos_are(t, gts, m.states.seq().len() as int),
    ensures table_is(rules, m, terms, nts, t)
{
    let n = m.states.seq().len() as int;
    assert forall|s: int, q: Quasiterminal| 0 <= s < n && qcol(terms, q) is Some implies #[trigger] action_cell_ok(rules, m, t, s, q) by {
        let si = StateIndex(s as usize);
        let cell = t.actions@[t.action_pos(si, q)];
        assert forall|k: int| 0 <= k < items_of(m, s).len() && (#[trigger] demanded(rules, m, si, &items_of(m, s)[k]) matches Some(d) && d.0 == q)
            implies cell == demanded(rules, m, si, &items_of(m, s)[k])->Some_0.1 by {
            assert(processed(s, k, n, 0));
            assert(acts.contains_key((si, q)));
        }
        if forall|k: int| 0 <= k < items_of(m, s).len() ==> !(#[trigger] demanded(rules, m, si, &items_of(m, s)[k]) matches Some(d) && d.0 == q) {
            if acts.contains_key((si, q)) {
                let k = choose|k: int| act_witness(rules, m, acts, (si, q), k, n, 0);
                assert(demanded(rules, m, si, &items_of(m, s)[k]) == Some((q, acts[(si, q)].1)));
                assert(false);
            }
        }
    }
    assert forall|s: int, nm: Seq<char>| 0 <= s < n && nt_index(nts, nm, 0) is Some implies #[trigger] goto_cell_ok(m, t, s, nm) by {
        let si = StateIndex(s as usize);
        let tr = m.transitions.seq();
        let cell = t.gotos@[t.goto_pos(si, nm)];
        assert forall|j: int| 0 <= j < tr.len() && (#[trigger] tr[j]).from == si && tr[j].symbol is Nonterminal && tr[j].symbol->Nonterminal_0@ == nm
            implies cell == Goto::State(tr[j].to) by {
            let key = choose|key: (StateIndex, &'a str)| gts.contains_key(key) && goto_witness(m, gts, key, j, tr.len() as int);
            assert(t.gotos@[t.goto_pos(key.0, key.1@)] == gts[key]);
        }
        if forall|j: int| 0 <= j < tr.len() ==> !((#[trigger] tr[j]).from == si && tr[j].symbol is Nonterminal && tr[j].symbol->Nonterminal_0@ == nm) {
            assert forall|key: (StateIndex, &'a str)| gts.contains_key(key) implies !(key.0 == si && key.1@ == nm) by {
                let j = choose|j: int| goto_witness(m, gts, key, j, tr.len() as int);
                assert(tr[j].from == key.0);
            }
        }
    }
}
//@]

//@[ C14 C17 layer T, step lemmas: writing the listed entries one by one fills the table as the maps say
pub type ActList<'a> = Seq<((StateIndex, Quasiterminal<'a>), (&'a StateItem, Action))>;
pub type GotoList<'a> = Seq<((StateIndex, &'a str), Goto)>;
/// every listed key addresses a cell of the table, and no key is listed twice
pub open spec fn act_keys_ok<'a>(t: &Table, l: ActList<'a>, n: int) -> bool {
    &&& forall|j: int| 0 <= j < l.len() ==> (#[trigger] l[j]).0.0.0 < n && qcol(t.terminals@, l[j].0.1) is Some
    &&& forall|i: int, j: int| 0 <= i < j < l.len() ==> (#[trigger] l[i]).0 != (#[trigger] l[j]).0
}
pub open spec fn goto_keys_ok<'a>(t: &Table, l: GotoList<'a>, n: int) -> bool {
    &&& forall|j: int| 0 <= j < l.len() ==> (#[trigger] l[j]).0.0.0 < n && nt_index(names_view(t.nonterminals@), l[j].0.1@, 0) is Some
    &&& forall|i: int, j: int| 0 <= i < j < l.len() ==> (#[trigger] l[i]).0 != (#[trigger] l[j]).0
}
/// the first idx listed entries are in their cells; every other addressable cell still holds the error action
pub open spec fn acts_filled<'a>(t: &Table, l: ActList<'a>, idx: int, n: int) -> bool {
    &&& forall|j: int| 0 <= j < idx ==> t.actions@[t.action_pos((#[trigger] l[j]).0.0, l[j].0.1)] == l[j].1.1
    &&& forall|s: StateIndex, q: Quasiterminal<'a>| s.0 < n && qcol(t.terminals@, q) is Some && act_unlisted(l, idx, (s, q))
            ==> #[trigger] t.actions@[t.action_pos(s, q)] == Action::Err
}
pub open spec fn gotos_filled<'a>(t: &Table, l: GotoList<'a>, idx: int, n: int) -> bool {
    &&& forall|j: int| 0 <= j < idx ==> t.gotos@[t.goto_pos((#[trigger] l[j]).0.0, l[j].0.1@)] == l[j].1
    &&& forall|s: StateIndex, nm: Seq<char>| s.0 < n && nt_index(names_view(t.nonterminals@), nm, 0) is Some && goto_unlisted(l, idx, s, nm)
            ==> #[trigger] t.gotos@[t.goto_pos(s, nm)] == Goto::Err
}
pub proof fn lemma_fill_action<'a>(t0: &Table, t1: &Table, l: ActList<'a>, idx: int, n: int)
    requires t0.wf(), t0.nstates() == n, 0 <= idx < l.len(), act_keys_ok(t0, l, n), acts_filled(t0, l, idx, n),
        t1.terminals == t0.terminals, t1.actions@ == t0.actions@.update(t0.action_pos(l[idx].0.0, l[idx].0.1), l[idx].1.1),
    ensures acts_filled(t1, l, idx + 1, n)
{
    let (ks, kq) = (l[idx].0.0, l[idx].0.1);
    let p = t0.action_pos(ks, kq);
    lemma_action_pos_in_range(t0, ks, kq);
    assert forall|s: StateIndex, q: Quasiterminal<'a>| #[trigger] t1.action_pos(s, q) == t0.action_pos(s, q) by {}
    assert forall|j: int| 0 <= j < idx + 1 implies t1.actions@[t1.action_pos((#[trigger] l[j]).0.0, l[j].0.1)] == l[j].1.1 by {
        lemma_action_pos_in_range(t0, l[j].0.0, l[j].0.1);
        if j < idx && t0.action_pos(l[j].0.0, l[j].0.1) == p { lemma_action_pos_injective(t0, l[j].0.0, l[j].0.1, ks, kq); }
    }
    assert forall|s: StateIndex, q: Quasiterminal<'a>| s.0 < n && qcol(t1.terminals@, q) is Some && act_unlisted(l, idx + 1, (s, q))
        implies #[trigger] t1.actions@[t1.action_pos(s, q)] == Action::Err by {
        lemma_action_pos_in_range(t0, s, q);
        assert(l[idx].0 != (s, q));
        if t0.action_pos(s, q) == p { lemma_action_pos_injective(t0, s, q, ks, kq); }
        assert(act_unlisted(l, idx, (s, q)));
    }
}
pub proof fn lemma_fill_goto<'a>(t0: &Table, t1: &Table, l: GotoList<'a>, idx: int, n: int)
    requires t0.wf(), t0.nstates() == n, 0 <= idx < l.len(), goto_keys_ok(t0, l, n), gotos_filled(t0, l, idx, n),
        t1.nonterminals == t0.nonterminals, t1.gotos@ == t0.gotos@.update(t0.goto_pos(l[idx].0.0, l[idx].0.1@), l[idx].1),
    ensures gotos_filled(t1, l, idx + 1, n)
{
    let (ks, kn) = (l[idx].0.0, l[idx].0.1@);
    let p = t0.goto_pos(ks, kn);
    lemma_goto_pos_in_range(t0, ks, kn);
    assert forall|s: StateIndex, nm: Seq<char>| #[trigger] t1.goto_pos(s, nm) == t0.goto_pos(s, nm) by {}
    assert forall|j: int| 0 <= j < idx + 1 implies t1.gotos@[t1.goto_pos((#[trigger] l[j]).0.0, l[j].0.1@)] == l[j].1 by {
        lemma_goto_pos_in_range(t0, l[j].0.0, l[j].0.1@);
        if j < idx && t0.goto_pos(l[j].0.0, l[j].0.1@) == p {
            lemma_goto_pos_injective(t0, l[j].0.0, l[j].0.1@, ks, kn);
            axiom_str_ext(l[j].0.1, l[idx].0.1);
        }
    }
    assert forall|s: StateIndex, nm: Seq<char>| s.0 < n && nt_index(names_view(t1.nonterminals@), nm, 0) is Some && goto_unlisted(l, idx + 1, s, nm)
        implies #[trigger] t1.gotos@[t1.goto_pos(s, nm)] == Goto::Err by {
        lemma_goto_pos_in_range(t0, s, nm);
        assert(!(l[idx].0.0 == s && l[idx].0.1@ == nm));
        if t0.goto_pos(s, nm) == p { lemma_goto_pos_injective(t0, s, nm, ks, kn); }
        assert(goto_unlisted(l, idx, s, nm));
    }
}
/// once everything is listed the cells are exactly the map
pub proof fn lemma_acts_done_if<'a>(t: &Table, acts: ActMap<'a>, l: ActList<'a>, idx: int, n: int)
    requires is_map_listing(acts, l), acts_filled(t, l, idx, n)
    ensures idx == l.len() ==> actions_are(t, acts, n)
{ if idx == l.len() { lemma_acts_done(t, acts, l, n); } }
pub proof fn lemma_gotos_done_if<'a>(t: &Table, gts: GotoMap<'a>, l: GotoList<'a>, idx: int, n: int)
    requires is_map_listing(gts, l), gotos_filled(t, l, idx, n)
    ensures idx == l.len() ==> gotos_are(t, gts, n)
{ if idx == l.len() { lemma_gotos_done(t, gts, l, n); } }
pub proof fn lemma_acts_done<'a>(t: &Table, acts: ActMap<'a>, l: ActList<'a>, n: int)
    requires is_map_listing(acts, l), acts_filled(t, l, l.len() as int, n)
    ensures actions_are(t, acts, n)
{
    assert forall|key: (StateIndex, Quasiterminal<'a>)| #[trigger] acts.contains_key(key) implies t.actions@[t.action_pos(key.0, key.1)] == acts[key].1 by {
        let i = choose|i: int| 0 <= i < l.len() && (#[trigger] l[i]).0 == key;
        assert(acts[l[i].0] == l[i].1);
    }
    assert forall|s: StateIndex, q: Quasiterminal<'a>| s.0 < n && qcol(t.terminals@, q) is Some && !acts.contains_key((s, q))
        implies #[trigger] t.actions@[t.action_pos(s, q)] == Action::Err by {
        assert forall|j: int| 0 <= j < l.len() implies (#[trigger] l[j]).0 != (s, q) by { assert(acts.contains_key(l[j].0)); }
        assert(act_unlisted(l, l.len() as int, (s, q)));
    }
}
pub proof fn lemma_gotos_done<'a>(t: &Table, gts: GotoMap<'a>, l: GotoList<'a>, n: int)
    requires is_map_listing(gts, l), gotos_filled(t, l, l.len() as int, n)
    ensures gotos_are(t, gts, n)
{
    assert forall|key: (StateIndex, &'a str)| #[trigger] gts.contains_key(key) implies t.gotos@[t.goto_pos(key.0, key.1@)] == gts[key] by {
        let i = choose|i: int| 0 <= i < l.len() && (#[trigger] l[i]).0 == key;
        assert(gts[l[i].0] == l[i].1);
    }
    assert forall|s: StateIndex, nm: Seq<char>| s.0 < n && nt_index(names_view(t.nonterminals@), nm, 0) is Some
        && (forall|key: (StateIndex, &'a str)| gts.contains_key(key) ==> !(key.0 == s && key.1@ == nm))
        implies #[trigger] t.gotos@[t.goto_pos(s, nm)] == Goto::Err by {
        assert forall|j: int| 0 <= j < l.len() implies !((#[trigger] l[j]).0.0 == s && l[j].0.1@ == nm) by { assert(gts.contains_key(l[j].0)); }
        assert(goto_unlisted(l, l.len() as int, s, nm));
    }
}
/// the keys of the two maps address cells of the table (from the invariants of the maps)
pub proof fn lemma_act_keys_ok<'a>(rules: Seq<Rule>, m: &Machine, terms: Seq<DollarlessTerminalName>, nts: Seq<Seq<char>>, t: &Table, acts: ActMap<'a>, l: ActList<'a>)
    requires machine_ok(rules, m, terms, nts), acts_inv(rules, m, acts, m.states.seq().len() as int, 0), is_map_listing(acts, l), t.terminals@ == terms,
    ensures act_keys_ok(t, l, m.states.seq().len() as int)
{
    let n = m.states.seq().len() as int;
    assert forall|j: int| 0 <= j < l.len() implies (#[trigger] l[j]).0.0.0 < n && qcol(t.terminals@, l[j].0.1) is Some by {
        let key = l[j].0;
        assert(acts.contains_key(key));
        let k = choose|k: int| act_witness(rules, m, acts, key, k, n, 0);
        assert(StateIndex(key.0.0 as int as usize) == key.0);
        let it = items_of(m, key.0.0 as int)[k];
    }
}
pub proof fn lemma_goto_keys_ok<'a>(rules: Seq<Rule>, m: &Machine, terms: Seq<DollarlessTerminalName>, nts: Seq<Seq<char>>, t: &Table, gts: GotoMap<'a>, l: GotoList<'a>)
    requires machine_ok(rules, m, terms, nts), gotos_inv(m, gts, m.transitions.seq().len() as int), is_map_listing(gts, l), names_view(t.nonterminals@) == nts,
    ensures goto_keys_ok(t, l, m.states.seq().len() as int)
{
    let n = m.states.seq().len() as int;
    assert forall|j: int| 0 <= j < l.len() implies (#[trigger] l[j]).0.0.0 < n && nt_index(names_view(t.nonterminals@), l[j].0.1@, 0) is Some by {
        let key = l[j].0;
        assert(gts.contains_key(key));
        let j2 = choose|j2: int| goto_witness(m, gts, key, j2, m.transitions.seq().len() as int);
        let tr = m.transitions.seq()[j2];
    }
}
//@]

impl ImmutContext<'_> {
    fn build_as_is(&self, builder: TableBuilder) -> /*@[*/(r: /*@]*/Table/*@[*/)/*@]*/
        //@[ C07 C14 C17 build_as_is: cells are written by key, so the table is a function of the two maps: the (unspecified) listing order of the hash maps cannot influence it
        requires self.ok(),
            acts_inv(self.rules@, self.machine, builder.actions@, self.machine.states.seq().len() as int, 0),
            gotos_inv(self.machine, builder.gotos@, self.machine.transitions.seq().len() as int),
        ensures r.wf(), r.nstates() == self.machine.states.seq().len(), r.start == self.machine.start,
            r.terminals@ == file_terms(self.file), names_view(r.nonterminals@) == file_nts(self.file),
            actions_are(&r, builder.actions@, self.machine.states.seq().len() as int),
            gotos_are(&r, builder.gotos@, self.machine.states.seq().len() as int),
        //@]
    {
        let mut table = get_empty_table(self.machine, self.file);
        //@[ proof
        let ghost acts = builder.actions@;
        let ghost gts = builder.gotos@;
        let ghost n = self.machine.states.seq().len() as int;
        let ghost te = table;
        proof {
            assert forall|s: StateIndex, q: Quasiterminal| s.0 < n && qcol(table.terminals@, q) is Some implies #[trigger] table.actions@[table.action_pos(s, q)] == Action::Err by {
                lemma_action_pos_in_range(&table, s, q);
            }
        }
        //@]

        for ((state, quasiterminal), (_, action)) in /*@[*/__vx_it: /*@]*//*@{ T6_actions*//*@- builder.actions *//*@|*/__vx_hash_listing(builder.actions)/*@}*/
            //@[ C07 C14 loop invariant (actions): the entries listed so far are in their cells, all other cells hold the error action
            invariant
                self.ok(), acts_inv(self.rules@, self.machine, acts, n, 0), n == self.machine.states.seq().len(),
                is_map_listing(acts, __vx_it.seq()),
                table.wf(), table.nstates() == n, table.start == self.machine.start,
                table.terminals@ == file_terms(self.file), names_view(table.nonterminals@) == file_nts(self.file),
                table.gotos == te.gotos, table.nonterminals == te.nonterminals,
                acts_filled(&table, __vx_it.seq(), __vx_it.index@, n),
            ensures
                actions_are(&table, acts, n),
            //@]
        {
            //@[ proof
            let ghost idx = __vx_it.index@;
            let ghost lst = __vx_it.seq();
            let ghost t0 = table;
            proof {
                assert(lst[idx].0 == (state, quasiterminal) && lst[idx].1.1 == action);
                lemma_act_keys_ok(self.rules@, self.machine, file_terms(self.file), file_nts(self.file), &t0, acts, lst);
            }
            //@]
            table.set_action(state, quasiterminal, action);
            //@[ proof
            proof {
                lemma_fill_action(&t0, &table, lst, idx, n);
                lemma_acts_done_if(&table, acts, lst, idx + 1, n);
            }
            //@]
        }
        //@[ proof
        let ghost t1 = table;
        proof {
            assert forall|s: StateIndex, nm: Seq<char>| s.0 < n && nt_index(names_view(table.nonterminals@), nm, 0) is Some implies #[trigger] table.gotos@[table.goto_pos(s, nm)] == Goto::Err by {
                lemma_goto_pos_in_range(&table, s, nm);
                assert(table.gotos@ == te.gotos@);
            }
        }
        //@]

        for ((state, nonterminal), goto) in /*@[*/__vx_it2: /*@]*//*@{ T6_gotos*//*@- builder.gotos *//*@|*/__vx_hash_listing(builder.gotos)/*@}*/
            //@[ C07 C14 loop invariant (gotos)
            invariant
                self.ok(), gotos_inv(self.machine, gts, self.machine.transitions.seq().len() as int), n == self.machine.states.seq().len(),
                is_map_listing(gts, __vx_it2.seq()),
                table.wf(), table.nstates() == n, table.start == self.machine.start,
                table.terminals@ == file_terms(self.file), names_view(table.nonterminals@) == file_nts(self.file),
                table.actions == t1.actions, table.terminals == t1.terminals,
                gotos_filled(&table, __vx_it2.seq(), __vx_it2.index@, n),
            ensures
                gotos_are(&table, gts, n), table.actions == t1.actions, table.terminals == t1.terminals,
            //@]
        {
            //@[ proof
            let ghost idx = __vx_it2.index@;
            let ghost lst = __vx_it2.seq();
            let ghost t0 = table;
            proof {
                assert(lst[idx].0 == (state, nonterminal) && lst[idx].1 == goto);
                lemma_goto_keys_ok(self.rules@, self.machine, file_terms(self.file), file_nts(self.file), &t0, gts, lst);
            }
            //@]
            table.set_goto(state, nonterminal, goto);
            //@[ proof
            proof {
                lemma_fill_goto(&t0, &table, lst, idx, n);
                lemma_gotos_done_if(&table, gts, lst, idx + 1, n);
            }
            //@]
        }
        //@[ proof
        proof {
            assert forall|s: StateIndex, q: Quasiterminal| #[trigger] table.action_pos(s, q) == t1.action_pos(s, q) by {}
            assert(actions_are(&table, acts, n));
        }
        //@]

        table
    }
}

fn get_empty_table(machine: &Machine, file: &File) -> /*@[*/(r: /*@]*/Table/*@[*/)/*@]*/
    //@[ C07 C17 get_empty_table: rectangular table filled with the error action
    requires machine.states.seq().len() * (file_terms(file).len() + 1) <= usize::MAX, file_terms(file).len() + 1 <= usize::MAX,
        machine.states.seq().len() * file_nts(file).len() <= usize::MAX,
    ensures r.wf(), r.nstates() == machine.states.seq().len(), r.start == machine.start,
        r.terminals@ == file_terms(file), names_view(r.nonterminals@) == file_nts(file),
        forall|i: int| 0 <= i < r.actions@.len() ==> #[trigger] r.actions@[i] == Action::Err,
        forall|i: int| 0 <= i < r.gotos@.len() ==> #[trigger] r.gotos@[i] == Goto::Err,
    //@]
{
    //@[ proof
    proof {
        let n = machine.states.seq().len() as int; let c = file_terms(file).len() as int + 1;
        assert((n * c) / c == n) by (nonlinear_arith) requires c > 0, n >= 0;
    }
    //@]
    let terminals = get_terminals(file);
    let nonterminals = get_nonterminals(file);
    let actions = get_empty_action_table(&machine.states, &terminals);
    let gotos = get_empty_goto_table(&machine.states, &nonterminals);
    //@[ proof
    proof { assert(names_view(nonterminals@).len() == nonterminals@.len()); }
    //@]
    Table {
        start: machine.start,
        terminals,
        nonterminals,
        actions,
        gotos,
    }
}

fn get_terminals(file: &File) -> /*@[*/(r: /*@]*/Vec<DollarlessTerminalName>/*@[*/)/*@]*/
    //@[ C17 get_terminals: table columns = terminal variants in declaration order
    ensures r@ == file_terms(file),
    //@]
{
    file.terminal_enum
        .variants
        .iter()
        .map(|variant/*@[*/: &TerminalVariant/*@]*/| /*@[*/-> (o: DollarlessTerminalName) ensures o == variant.dollarless_name { /*@]*/variant.dollarless_name.clone()/*@[*/ }/*@]*/)
        .collect()
}

fn get_nonterminals(file: &File) -> /*@[*/(r: /*@]*/Vec<String>/*@[*/)/*@]*/
    //@[ C17 get_nonterminals: goto columns = nonterminals in declaration order
    ensures names_view(r@) == file_nts(file),
    //@]
{
    file.nonterminals
        .iter()
        .map(|nonterminal/*@[*/: &Nonterminal/*@]*/| /*@[*/-> (o: String) ensures o@ == nt_name(*nonterminal) { /*@]*/nonterminal.name().to_owned()/*@[*/ }/*@]*/)
        .collect()
}

fn get_empty_action_table(states: &[State], terminals: &[DollarlessTerminalName]) -> /*@[*/(r: /*@]*/Vec<Action>/*@[*/)/*@]*/
    //@[ C07 get_empty_action_table: states x (terminals + 1) error cells, no overflow
    requires states@.len() * (terminals@.len() + 1) <= usize::MAX, terminals@.len() + 1 <= usize::MAX,
    ensures r@.len() == states@.len() * (terminals@.len() + 1), forall|i: int| 0 <= i < r@.len() ==> #[trigger] r@[i] == Action::Err,
    //@]
{
    //@[ proof
    proof {
        // the product in either order (non-linear arithmetic is not tried by the solver on its own)
        vstd::arithmetic::mul::lemma_mul_is_commutative(states@.len() as int, terminals@.len() as int + 1);
        vstd::arithmetic::mul::lemma_mul_is_commutative(states@.len() as int, 1 + terminals@.len() as int);
    }
    //@]
    let size = states.len() * (terminals.len() + 1);
    vec![Action::Err; size]
}

fn get_empty_goto_table(states: &[State], nonterminals: &[String]) -> /*@[*/(r: /*@]*/Vec<Goto>/*@[*/)/*@]*/
    //@[ C07 get_empty_goto_table: states x nonterminals error cells, no overflow
    requires states@.len() * nonterminals@.len() <= usize::MAX,
    ensures r@.len() == states@.len() * nonterminals@.len(), forall|i: int| 0 <= i < r@.len() ==> #[trigger] r@[i] == Goto::Err,
    //@]
{
    //@[ proof
    proof { vstd::arithmetic::mul::lemma_mul_is_commutative(states@.len() as int, nonterminals@.len() as int); }
    //@]
    let size = states.len() * nonterminals.len();
    vec![Goto::Err; size]
}

