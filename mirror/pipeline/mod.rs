//@file kiki/src/pipeline/mod.rs mod=crate::pipeline
pub(crate) use crate::parser;
