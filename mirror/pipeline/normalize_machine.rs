//@file kiki/src/pipeline/normalize_machine.rs mod=crate::pipeline::normalize_machine
//@[ imports
use vstd::prelude::*;
use vstd::std_specs::iter::*;
use vstd::std_specs::cmp::*;
use crate::vx_gram::*;
use crate::vx_ord::*;
use crate::vx_hash::*;
use crate::vx_utf8::*;
//@]
use crate::data::{
    machine::{Machine, StateIndex, Transition},
    unnormalized_machine::UnnormalizedMachine,
    IndexUpdater, Oset,
};

use crate::pipeline::sort_and_get_index_updater::sort_and_get_index_updater;

/// The first state must be the start state.
pub fn normalize_machine(unnormalized: UnnormalizedMachine) -> Machine {
    let states = unnormalized.states;
    let transitions: Oset<Transition> = /*@{ T6_transitions*//*@- unnormalized.transitions *//*@|*/__vx_hashset_listing(unnormalized.transitions)/*@}*/.into_iter().collect();
    let (states, updater) = sort_and_get_index_updater(states);
    let transitions = update_transitions(transitions, &updater);
    let start = StateIndex(updater.update(0));
    Machine {
        start,
        states: states.into_iter().collect(),
        transitions,
    }
}

fn update_transitions(transitions: Oset<Transition>, updater: &IndexUpdater) -> Oset<Transition> {
    transitions
        .into_iter()
        .map(|transition| update_transition(transition, updater))
        .collect()
}

fn update_transition(transition: Transition, updater: &IndexUpdater) -> Transition {
    Transition {
        from: StateIndex(updater.update(transition.from.0)),
        to: StateIndex(updater.update(transition.to.0)),
        symbol: transition.symbol,
    }
}
