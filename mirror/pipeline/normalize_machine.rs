//@file kiki/src/pipeline/normalize_machine.rs mod=crate::pipeline::normalize_machine
//@[ imports
use vstd::prelude::*;
use vstd::std_specs::iter::*;
use vstd::std_specs::cmp::*;
use crate::vx_gram::*;
use crate::vx_ord::*;
use crate::vx_hash::*;
use crate::vx_utf8::*;
use crate::pipeline::sort_and_get_index_updater::{is_index_map, hit};
use crate::data::machine::State;
broadcast use {vstd::std_specs::hash::group_hash_axioms, crate::vx_hash_ax::group_key_models, crate::vx_ordax::group_lawful, crate::data::oset::axiom_yielded_oset, crate::vx_ord::axiom_yielded_vec};
//@]
use crate::data::{
    machine::{Machine, StateIndex, Transition},
    unnormalized_machine::UnnormalizedMachine,
    IndexUpdater, Oset,
};

use crate::pipeline::sort_and_get_index_updater::sort_and_get_index_updater;

/// The first state must be the start state.
//@[ C17 C14 ghost: the normalised machine is a renumbering of the unnormalised one (start state = image of state 0)
pub open spec fn is_renumbering(pi: Seq<usize>, states: Seq<State>, tr: Set<Transition>, m: Machine) -> bool {
    &&& pi.len() == states.len() && m.states.seq().len() == states.len() && m.states.wf() && m.transitions.wf()
    &&& forall|i: int| 0 <= i < pi.len() ==> (#[trigger] pi[i]) < states.len() && m.states.seq()[pi[i] as int] == states[i]
    &&& forall|i: int, j: int| 0 <= i < j < pi.len() ==> #[trigger] pi[i] != #[trigger] pi[j]
    &&& forall|a: int| 0 <= a < states.len() ==> #[trigger] crate::pipeline::sort_and_get_index_updater::hit(pi, a)
    &&& states.len() > 0 && m.start.0 == pi[0]
    &&& forall|t: Transition| #[trigger] m.transitions@.contains(t) <==>
            exists|t0: Transition| #[trigger] tr.contains(t0) && t == renumbered(pi, t0)
}
pub open spec fn renumbered(pi: Seq<usize>, t0: Transition) -> Transition {
    Transition { from: StateIndex(pi[t0.from.0 as int]), to: StateIndex(pi[t0.to.0 as int]), symbol: t0.symbol }
}
//@]

pub fn normalize_machine(unnormalized: UnnormalizedMachine) -> /*@[*/(r: /*@]*/Machine/*@[*/)/*@]*/
    //@[ C17 C14 normalize_machine: states sorted by content, transitions renumbered consistently; the result does not depend on hash order
    requires unnormalized.states@.len() > 0,
        forall|i: int, j: int| 0 <= i < j < unnormalized.states@.len() ==> #[trigger] unnormalized.states@[i] != #[trigger] unnormalized.states@[j],
        forall|t: Transition| #[trigger] unnormalized.transitions@.contains(t) ==> t.from.0 < unnormalized.states@.len() && t.to.0 < unnormalized.states@.len(),
    ensures exists|pi: Seq<usize>| #[trigger] is_renumbering(pi, unnormalized.states@, unnormalized.transitions@, r),
    //@]
{
    //@[ proof
    let ghost states0 = unnormalized.states@;
    let ghost tr0 = unnormalized.transitions@;
    //@]
    let states = unnormalized.states;
    let transitions: Oset<Transition> = /*@{ T6_transitions*//*@- unnormalized.transitions *//*@|*/__vx_hashset_listing(unnormalized.transitions)/*@}*/.into_iter().collect();
    //@[ proof
    proof {
        // the ordered set holds exactly the elements of the hash set, whatever the listing order was
        assert forall|t: Transition| transitions@.contains(t) <==> tr0.contains(t) by {
            let listing = choose|listing: Seq<Transition>| #![auto] transitions@ == listing.to_set() && is_set_listing(tr0, listing);
            if tr0.contains(t) { assert(listing.contains(t)); }
        }
        assert(transitions@ =~= tr0);
    }
    //@]
    let (states, updater) = sort_and_get_index_updater(states);
    //@[ proof
    let ghost pi = updater@;
    let ghost sorted = states@;
    proof {
        // distinct elements in non-decreasing order are strictly increasing
        lemma_lt_props::<State>();
        assert(strictly_sorted(sorted)) by {
            assert forall|a: int, b: int| 0 <= a < b < sorted.len() implies lt(#[trigger] sorted[a], #[trigger] sorted[b]) by {
                assert(hit(pi, a) && hit(pi, b));
                let i = choose|i: int| 0 <= i < pi.len() && #[trigger] pi[i] == a;
                let j = choose|j: int| 0 <= j < pi.len() && #[trigger] pi[j] == b;
                assert(sorted[a] == states0[i] && sorted[b] == states0[j]);
                if i < j { assert(states0[i] != states0[j]); } else { assert(states0[j] != states0[i]); }
            }
        }
    }
    //@]
    let transitions = update_transitions(transitions, &updater);
    let start = StateIndex(updater.update(0));
    /*@{ bind_result*//*@- Machine {
        start,
        states: states.into_iter().collect(),
        transitions,
    } *//*@|*/let __vx_m = Machine {
        start,
        states: states.into_iter().collect(),
        transitions,
    };
    proof {
        lemma_sorted_ext(__vx_m.states.seq(), sorted);
        assert(is_renumbering(pi, states0, tr0, __vx_m));
    }
    __vx_m/*@}*/
}

fn update_transitions(transitions: Oset<Transition>, updater: &IndexUpdater) -> /*@[*/(r: /*@]*/Oset<Transition>/*@[*/)/*@]*/
    //@[ C17 update_transitions: every transition with both ends renumbered
    requires transitions.wf(), forall|t: Transition| #[trigger] transitions@.contains(t) ==> t.from.0 < updater@.len() && t.to.0 < updater@.len(),
    ensures r.wf(), forall|t: Transition| #[trigger] r@.contains(t) <==> exists|t0: Transition| #[trigger] transitions@.contains(t0) && t == renumbered(updater@, t0),
    //@]
{
    //@[ proof
    let ghost src = transitions.seq();
    let ghost tset = transitions@;
    proof {
        assert forall|i: int| 0 <= i < src.len() implies (#[trigger] src[i]).from.0 < updater@.len() && src[i].to.0 < updater@.len() by { assert(tset.contains(src[i])); }
    }
    //@]
    /*@[*/let __vx_r: Oset<Transition> = /*@]*/transitions
        .into_iter()
        .map(|transition/*@[*/: Transition/*@]*/| /*@[*/-> (o: Transition)
            requires transition.from.0 < updater@.len() && transition.to.0 < updater@.len()
            ensures o == renumbered(updater@, transition)
        { /*@]*/update_transition(transition, updater)/*@[*/ }/*@]*/)
        .collect()/*@[*/;
    proof {
        // __vx_r@ is the set of the mapped sequence
        let mapped = choose|mapped: Seq<Transition>| #![auto] __vx_r@ == mapped.to_set() && mapped.len() == src.len()
            && forall|i: int| 0 <= i < src.len() ==> #[trigger] mapped[i] == renumbered(updater@, src[i]);
        assert forall|t: Transition| #[trigger] __vx_r@.contains(t) <==> exists|t0: Transition| #[trigger] tset.contains(t0) && t == renumbered(updater@, t0) by {
            if __vx_r@.contains(t) { let i = choose|i: int| 0 <= i < mapped.len() && mapped[i] == t; assert(tset.contains(src[i])); }
            if exists|t0: Transition| #[trigger] tset.contains(t0) && t == renumbered(updater@, t0) {
                let t0 = choose|t0: Transition| #[trigger] tset.contains(t0) && t == renumbered(updater@, t0);
                let i = choose|i: int| 0 <= i < src.len() && src[i] == t0;
                assert(mapped[i] == t); assert(mapped.to_set().contains(mapped[i]));
            }
        }
    }
    __vx_r/*@]*/
}

fn update_transition(transition: Transition, updater: &IndexUpdater) -> /*@[*/(r: /*@]*/Transition/*@[*/)/*@]*/
    //@[ C17 C07 update_transition: from and to renumbered (each with its own index), symbol kept
    requires transition.from.0 < updater@.len(), transition.to.0 < updater@.len(),
    ensures r == renumbered(updater@, transition),
    //@]
{
    Transition {
        from: StateIndex(updater.update(transition.from.0)),
        to: StateIndex(updater.update(transition.to.0)),
        symbol: transition.symbol,
    }
}
