//@file kiki/src/pipeline/tokenize.rs mod=crate::pipeline::tokenize
//@[ imports
use vstd::prelude::*;
use vstd::string::*;
use crate::vx_utf8::*;
use crate::vx_lex::*;
broadcast use crate::vx_utf8::group_char_eq;
//@]
use crate::{
    data::{
        token::Token,
        token::{Attribute, Ident, TerminalIdent},
        ByteIndex, KikiErr,
    },
    DollarlessTerminalName,
};

use std::num::NonZeroUsize;

pub fn tokenize(src: &str) -> /*@[*/(r: /*@]*/Result<Vec<Token>, KikiErr>/*@[*/)/*@]*/
    //@[ C08 C16 tokenize: exactly the reference lexer of the statement
    ensures
        match r {
            Ok(toks) => ref_lex(src@) == Ok::<Seq<STok>, (int, Option<char>)>(toks_view(toks@)),
            Err(e) => lex_err(src@, e),
        },
    //@]
{
    let tokenizer = Tokenizer::new(src);
    tokenizer.tokenize()
}

struct Tokenizer<'a> {
    src: &'a str,
    out: Vec<Token>,
    state: State,
}

//@[ C08 C07 C12 representation invariant: the state machine after k characters, tied to the reference lexer
pub open spec fn lex_err(s: Seq<char>, e: KikiErr) -> bool {
    match e {
        KikiErr::Lex(i, c) => ref_lex(s) == Err::<Seq<STok>, (int, Option<char>)>((i.0 as int, c)),
        _ => false,
    }
}

/// pending identifier s[j..k)
pub open spec fn ident_at(s: Seq<char>, out: Seq<STok>, j: int, k: int, a: int, b: int) -> bool {
    &&& 0 <= j < k <= s.len() && a == byte_off(s, j) && b == byte_off(s, k)
    &&& ident_start(s[j])
    &&& forall|m: int| j < m < k ==> ident_cont(#[trigger] s[m])
    &&& ref_lex(s) == cat(out, lex_from(s, j))
}

/// pending terminal identifier: `$` at j, name s[j+1..k)
pub open spec fn term_at(s: Seq<char>, out: Seq<STok>, j: int, k: int, a: int, b: int) -> bool {
    &&& 0 <= j && j + 2 <= k <= s.len() && a == byte_off(s, j) && b == byte_off(s, k)
    &&& s[j] == '$' && ident_start(s[j + 1])
    &&& forall|m: int| j + 1 < m < k ==> ident_cont(#[trigger] s[m])
    &&& ref_lex(s) == cat(out, lex_from(s, j))
}

/// pending attribute: `#[` at j, bracket depth n after s[j+1..k)
pub open spec fn attr_at(s: Seq<char>, out: Seq<STok>, j: int, k: int, a: int, n: int, b: int) -> bool {
    &&& 0 <= j && j + 2 <= k <= s.len() && a == byte_off(s, j) && b == byte_off(s, k)
    &&& s[j] == '#' && s[j + 1] == '['
    &&& 1 <= n <= k - j
    &&& attr_end(s, j + 2, 1) == attr_end(s, k, n)
    &&& ref_lex(s) == cat(out, lex_from(s, j))
}

/// `#[` at character j, extent ends (exclusive) at character e; a and b are the byte offsets of j and e
pub open spec fn attr_span(s: Seq<char>, j: int, e: int, a: int, b: int) -> bool {
    0 <= j && j + 2 < e <= s.len() && a == byte_off(s, j) && b == byte_off(s, e) && s[j] == '#' && s[j + 1] == '['
}

/// what the reference lexer says when the pending token of `st` is flushed at position k
spec fn flush_facts(src: &str, out: Seq<STok>, st: State, k: int, cur: Option<char>, idx: ByteIndex) -> bool {
    let s = src@;
    let err = |p: int, c: Option<char>| ref_lex(s) == Err::<Seq<STok>, (int, Option<char>)>((p, c));
    match st {
        State::Main => true,
        State::Slash(i) => err(i.0 as int, Some('/')),
        State::SingleLineComment => ref_lex(s) == cat(out, lex_from(s, k)),
        State::Ident(a, b) => {
            let j = kof(s, a.0 as int);
            &&& slice_ok(src, j, k, a.0 as int, b.0 as int)
            &&& ref_lex(s) == cat(out.push(word_tok(s.subrange(j, k), a.0 as int)), lex_from(s, k))
        },
        State::Dollar(i) => err(i.0 as int, Some('$')),
        State::TerminalIdent(a, b) => {
            let j = kof(s, a.0 as int);
            &&& slice_ok(src, j, k, a.0 as int, b.0 as int)
            &&& s.subrange(j, k).filter(|c: char| c != '$') == s.subrange(j + 1, k)
            &&& a.0 + 1 <= usize::MAX
            &&& is_reserved(s.subrange(j + 1, k)) ==> err(idx.0 as int, cur)
            &&& !is_reserved(s.subrange(j + 1, k)) ==> ref_lex(s) == cat(out.push(STok::TerminalIdent(s.subrange(j + 1, k), a.0 + 1)), lex_from(s, k))
        },
        State::Colon(i) => ref_lex(s) == cat(out.push(STok::Colon(i.0 as int)), lex_from(s, k)),
        State::Pound(i) => err(i.0 as int, Some('#')),
        State::OuterAttribute(a, n, b) => err(idx.0 as int, cur),
    }
}

/// the source slice [a, b) is exactly the characters j..k
spec fn slice_ok(src: &str, j: int, k: int, a: int, b: int) -> bool {
    &&& 0 <= j <= k <= src@.len() && a == byte_off(src@, j) && b == byte_off(src@, k)
    &&& 0 <= a <= b <= src.spec_bytes().len()
    &&& vstd::utf8::is_char_boundary(src.spec_bytes(), a) && vstd::utf8::is_char_boundary(src.spec_bytes(), b)
    &&& forall|t: &str| #[trigger] t.spec_bytes() == src.spec_bytes().subrange(a, b) ==> t@ == src@.subrange(j, k)
}

proof fn lemma_slice_ok(src: &str, j: int, k: int)
    requires 0 <= j <= k <= src@.len()
    ensures slice_ok(src, j, k, byte_off(src@, j), byte_off(src@, k))
{
    lemma_utf8_slice(src, j, k);
    assert forall|t: &str| #[trigger] t.spec_bytes() == src.spec_bytes().subrange(byte_off(src@, j), byte_off(src@, k)) implies t@ == src@.subrange(j, k) by {
        lemma_view_of_slice(t, src@.subrange(j, k));
    }
}

/// removing `$` from `$name` (name without `$`) leaves name
proof fn lemma_filter_dollar(t: Seq<char>, n: int)
    requires 1 <= n <= t.len(), t[0] == '$', forall|m: int| 1 <= m < n ==> #[trigger] t[m] != '$'
    ensures t.subrange(0, n).filter(|c: char| c != '$') == t.subrange(1, n)
    decreases n
{
    reveal(Seq::filter);
    let p = |c: char| c != '$';
    if n == 1 {
        assert(t.subrange(0, 1).drop_last() =~= Seq::<char>::empty());
        assert(t.subrange(0, 1).last() == '$');
        assert(t.subrange(1, 1) =~= Seq::<char>::empty());
        assert(Seq::<char>::empty().filter(p) =~= Seq::<char>::empty());
    } else {
        lemma_filter_dollar(t, n - 1);
        assert(t.subrange(0, n).drop_last() =~= t.subrange(0, n - 1));
        assert(t.subrange(0, n).last() == t[n - 1]);
        assert(t.subrange(1, n) =~= t.subrange(1, n - 1).push(t[n - 1]));
    }
}

proof fn lemma_flush_facts(src: &str, out: Seq<STok>, st: State, k: int, cur: Option<char>, idx: ByteIndex)
    requires
        exists|t: Tokenizer| #![auto] t.src == src && toks_view(t.out@) == out && t.state == st && t.flush_at(k, cur, idx),
    ensures flush_facts(src, out, st, k, cur, idx)
{
    let t = choose|t: Tokenizer| #![auto] t.src == src && toks_view(t.out@) == out && t.state == st && t.flush_at(k, cur, idx);
    let s = src@;
    match st {
        State::Main => {}
        State::Slash(i) => { lemma_lex_slash(s, out, k); }
        State::SingleLineComment => { lemma_lex_comment(s, k); }
        State::Ident(a, b) => {
            let j = choose|j: int| ident_at(s, out, j, k, a.0 as int, b.0 as int);
            lemma_kof(s, j);
            lemma_slice_ok(src, j, k);
            lemma_lex_ident(s, out, j, k);
        }
        State::Dollar(i) => { lemma_lex_dollar(s, out, k); }
        State::TerminalIdent(a, b) => {
            let j = choose|j: int| term_at(s, out, j, k, a.0 as int, b.0 as int);
            lemma_kof(s, j);
            lemma_slice_ok(src, j, k);
            lemma_lex_term(s, out, j, k);
            lemma_off_step(src, j);
            lemma_filter_dollar(s.subrange(j, k), k - j);
            assert(s.subrange(j, k).subrange(0, k - j) =~= s.subrange(j, k));
            assert(s.subrange(j, k).subrange(1, k - j) =~= s.subrange(j + 1, k));
        }
        State::Colon(i) => { lemma_lex_colon(s, out, k); }
        State::Pound(i) => { lemma_lex_pound(s, out, k); }
        State::OuterAttribute(a, n, b) => {
            let j = choose|j: int| attr_at(s, out, j, k, a.0 as int, n.0@ as int, b.0 as int);
            lemma_lex_attr(s, out, j);
            lemma_attr_eof(s, n.0@ as int);
        }
    }
}

/// consequences of the attribute invariant for the character at k (one step of the depth scan and, when
/// the extent or an error is reached, the reference lexer's verdict)
pub open spec fn attr_facts(s: Seq<char>, out: Seq<STok>, k: int, a: int, n: int, b: int) -> bool {
    let c = s[k];
    &&& n + 1 <= usize::MAX
    &&& is_open(c) ==> attr_end(s, k, n) == attr_end(s, k + 1, n + 1)
    &&& is_close(c) && n > 1 ==> attr_end(s, k, n) == attr_end(s, k + 1, n - 1)
    &&& !is_open(c) && !is_close(c) && c != '\n' ==> attr_end(s, k, n) == attr_end(s, k + 1, n)
    &&& c == '\n' ==> ref_lex(s) == Err::<Seq<STok>, (int, Option<char>)>((byte_off(s, k), Some('\n')))
    &&& is_close(c) && n == 1 ==> ({
            let j = kof(s, a);
            &&& kof(s, b + c.len_utf8()) == k + 1
            &&& attr_span(s, j, k + 1, a, b + c.len_utf8())
            &&& match kind_mismatch(s, j + 1, k + 1, Seq::empty()) {
                Some(i) => 0 <= byte_off(s, i) <= usize::MAX && ref_lex(s) == Err::<Seq<STok>, (int, Option<char>)>((byte_off(s, i), Some(s[i]))),
                None => ref_lex(s) == cat(out.push(STok::OuterAttribute(s.subrange(j, k + 1), a)), lex_from(s, k + 1)),
            }
        })
}

pub proof fn lemma_kind_mismatch_bounds(s: Seq<char>, i: int, e: int, stack: Seq<char>)
    requires 0 <= i
    ensures kind_mismatch(s, i, e, stack) is Some ==> i <= kind_mismatch(s, i, e, stack)->Some_0 < e
        && kind_mismatch(s, i, e, stack)->Some_0 < s.len()
    decreases e - i
{
    if i < e && i < s.len() {
        if is_open(s[i]) { lemma_kind_mismatch_bounds(s, i + 1, e, stack.push(s[i])); }
        else if is_close(s[i]) { if stack.len() > 0 && kinds_match(stack.last(), s[i]) { lemma_kind_mismatch_bounds(s, i + 1, e, stack.drop_last()); } }
        else { lemma_kind_mismatch_bounds(s, i + 1, e, stack); }
    }
}

pub proof fn lemma_attr_facts(src: &str, out: Seq<STok>, j: int, k: int, a: int, n: int, b: int)
    requires attr_at(src@, out, j, k, a, n, b), k < src@.len(), src.spec_bytes().len() <= usize::MAX
    ensures attr_facts(src@, out, k, a, n, b)
{
    let s = src@;
    lemma_attr_step(s, k, n);
    lemma_lex_attr(s, out, j);
    lemma_off_mono(s, 0, s.len() as int);
    lemma_off_step(src, s.len() as int);
    if is_close(s[k]) && n == 1 {
        lemma_kof(s, j);
        lemma_kof(s, k + 1);
        lemma_off_step(src, k);
        lemma_kind_mismatch_bounds(s, j + 1, k + 1, Seq::empty());
        match kind_mismatch(s, j + 1, k + 1, Seq::empty()) {
            Some(i) => { lemma_off_step(src, i); }
            None => {}
        }
    }
}

impl Tokenizer<'_> {
    /// after consuming k characters of src
    spec fn inv(&self, k: int) -> bool {
        let s = self.src@;
        let out = toks_view(self.out@);
        &&& 0 <= k <= s.len()
        &&& match self.state {
            State::Main => ref_lex(s) == cat(out, lex_from(s, k)),
            State::Slash(i) => k >= 1 && s[k - 1] == '/' && i.0 == byte_off(s, k - 1) && ref_lex(s) == cat(out, lex_from(s, k - 1)),
            State::SingleLineComment => ref_lex(s) == cat(out, lex_from(s, skip_comment(s, k))),
            State::Ident(a, b) => exists|j: int| #[trigger] ident_at(s, out, j, k, a.0 as int, b.0 as int),
            State::Dollar(i) => k >= 1 && s[k - 1] == '$' && i.0 == byte_off(s, k - 1) && ref_lex(s) == cat(out, lex_from(s, k - 1)),
            State::TerminalIdent(a, b) => exists|j: int| #[trigger] term_at(s, out, j, k, a.0 as int, b.0 as int),
            State::Colon(i) => k >= 1 && s[k - 1] == ':' && i.0 == byte_off(s, k - 1) && ref_lex(s) == cat(out, lex_from(s, k - 1)),
            State::Pound(i) => k >= 1 && s[k - 1] == '#' && i.0 == byte_off(s, k - 1) && ref_lex(s) == cat(out, lex_from(s, k - 1)),
            State::OuterAttribute(a, n, b) => exists|j: int| #[trigger] attr_at(s, out, j, k, a.0 as int, n.0@ as int, b.0 as int),
        }
    }

    /// about to consume character k, which is c
    spec fn at0(&self, k: int, c: char) -> bool {
        self.inv(k) && k < self.src@.len() && self.src@[k] == c && self.src.spec_bytes().len() <= usize::MAX
    }

    /// ... and idx is its byte offset
    spec fn at(&self, k: int, c: char, idx: ByteIndex) -> bool {
        self.at0(k, c) && idx.0 == byte_off(self.src@, k)
    }

    /// outcome of consuming character k (self is the final state)
    spec fn post(&self, r: Result<(), KikiErr>, k: int) -> bool {
        match r { Ok(_) => self.inv(k + 1), Err(e) => lex_err(self.src@, e) }
    }

    /// flushing at position k (k == len: end of input) with look-ahead character `cur`
    spec fn flush_at(&self, k: int, cur: Option<char>, idx: ByteIndex) -> bool {
        &&& self.inv(k) && idx.0 == byte_off(self.src@, k) && self.src.spec_bytes().len() <= usize::MAX
        &&& cur == (if k < self.src@.len() { Some(self.src@[k]) } else { None })
        // an identifier / terminal identifier is flushed only when it cannot be continued
        &&& (self.state is Ident || self.state is TerminalIdent) ==> (k < self.src@.len() ==> !ident_cont(self.src@[k]))
        &&& self.state is Colon ==> (k < self.src@.len() ==> self.src@[k] != ':')
        &&& self.state is Pound ==> (k < self.src@.len() ==> self.src@[k] != '[')
        &&& (self.state is Slash || self.state is Dollar || self.state is SingleLineComment || self.state is OuterAttribute)
                ==> k == self.src@.len()
    }

    /// outcome of a flush: back in Main at the same position
    spec fn flushed(&self, r: Result<(), KikiErr>, k: int) -> bool {
        match r { Ok(_) => self.state is Main && self.inv(k), Err(e) => lex_err(self.src@, e) }
    }
}
//@]

impl<'a> Tokenizer<'a> {
    fn new(src: &'a str) -> /*@[*/(r: /*@]*/Self/*@[*/)/*@]*/
        //@[ C08 new
        ensures r.src == src, r.inv(0),
        //@]
    {
        //@[ proof
        proof { lemma_lex_ends(src@, Seq::empty()); }
        //@]
        Tokenizer {
            src,
            out: vec![],
            state: State::Main,
        }
    }
}

impl Tokenizer<'_> {
    fn tokenize(/*@{ T10_mut_self*//*@- mut self *//*@|*/self/*@}*/) -> /*@[*/(r: /*@]*/Result<Vec<Token>, KikiErr>/*@[*/)/*@]*/
        //@[ C08 Tokenizer::tokenize
        requires self.inv(0),
        ensures
            match r {
                Ok(toks) => ref_lex(self.src@) == Ok::<Seq<STok>, (int, Option<char>)>(toks_view(toks@)),
                Err(e) => lex_err(self.src@, e),
            },
        //@]
    {
        //@[ T10
        let mut __vx_self = self;
        proof { axiom_str_len_fits_usize(self.src); }
        //@]
        for (c_index, c) in /*@[*/__vx_it: /*@]*//*@{ T4_char_indices*//*@- self.src.char_indices() *//*@|*/__vx_char_indices(__vx_self.src)/*@}*/
            //@[ C08 driver loop invariant
            invariant
                __vx_self.src == self.src,
                __vx_self.src.spec_bytes().len() <= usize::MAX,
                __vx_it.seq().len() == self.src@.len(),
                forall|k: int| 0 <= k < __vx_it.seq().len() ==> (#[trigger] __vx_it.seq()[k]).0 as int == byte_off(self.src@, k) && __vx_it.seq()[k].1 == self.src@[k],
                __vx_self.inv(__vx_it.index as int),
            //@]
        {
            //@[ proof
            proof {
                let k = __vx_it.index@;
                assert(__vx_it.seq()[k] == (c_index, c));
                assert(__vx_self.at(k, c, ByteIndex(c_index)));
            }
            //@]
            /*@{*//*@- self *//*@|*/__vx_self/*@}*/.handle_char(c, ByteIndex(c_index))?;
        }

        //@[ proof
        proof {
            let n = self.src@.len() as int;
            lemma_off_step(self.src, n);
            assert(__vx_self.flush_at(n, None, ByteIndex(self.src.spec_bytes().len() as usize)));
        }
        //@]
        /*@{*//*@- self *//*@|*/__vx_self/*@}*/.push_pending_token_and_reset_state(None, ByteIndex(/*@{*//*@- self *//*@|*/__vx_self/*@}*/.src.len()))?;
        //@[ proof
        proof { lemma_lex_ends(self.src@, toks_view(__vx_self.out@)); }
        //@]

        Ok(/*@{*//*@- self *//*@|*/__vx_self/*@}*/.out)
    }

    fn handle_char(&mut self, current: char, current_index: ByteIndex) -> /*@[*/(r: /*@]*/Result<(), KikiErr>/*@[*/)/*@]*/
        //@[ C08 C07 handle_char: one step of the state machine preserves the invariant or reports the reference error
        requires exists|k: int| #[trigger] old(self).at(k, current, current_index),
        ensures final(self).src == old(self).src,
            forall|k: int| #[trigger] old(self).at(k, current, current_index) ==> final(self).post(r, k),
        decreases (if old(self).state is Main { 0int } else { 2int }), 1int
        //@]
    {
        //@[ proof
        proof { assert forall|k: int| #[trigger] self.at(k, current, current_index) implies self.at0(k, current) by {} }
        //@]
        match self.state {
            State::Main => self.handle_char_given_state_is_main(current, current_index),
            State::Slash(start) => self.handle_char_given_state_is_slash(current, start),
            State::SingleLineComment => {
                self.handle_char_given_state_is_single_line_comment(current)
            }
            State::Ident(start, end) => {
                self.handle_char_given_state_is_ident(current, current_index, start, end)
            }
            State::Dollar(start) => self.handle_char_given_state_is_dollar(current, start),
            State::TerminalIdent(start, end) => {
                self.handle_char_given_state_is_terminal_ident(current, current_index, start, end)
            }
            State::Colon(start) => {
                self.handle_char_given_state_is_colon(current, current_index, start)
            }
            State::Pound(start) => {
                self.handle_char_given_state_is_pound(current, current_index, start)
            }
            State::OuterAttribute(start, left_count, end) => self
                .handle_char_given_state_is_outer_attribute(
                    current,
                    current_index,
                    start,
                    left_count,
                    end,
                ),
        }
    }

    fn handle_char_given_state_is_main(
        &mut self,
        current: char,
        current_index: ByteIndex,
    ) -> /*@[*/(r: /*@]*/Result<(), KikiErr>/*@[*/)/*@]*/
        //@[ C08 C16 handle_char_given_state_is_main
        requires old(self).state is Main, exists|k: int| #[trigger] old(self).at(k, current, current_index),
        ensures final(self).src == old(self).src,
            forall|k: int| #[trigger] old(self).at(k, current, current_index) ==> final(self).post(r, k),
        decreases 0int, 0int
        //@]
    {
        //@[ proof
        proof {
            assert forall|k: int| #[trigger] self.at(k, current, current_index) implies
                main_facts(self.src@, toks_view(self.out@), k) && byte_off(self.src@, k + 1) == current_index.0 + current.len_utf8()
                && byte_off(self.src@, k + 1) <= usize::MAX
            by {
                lemma_lex_main(self.src@, toks_view(self.out@), k);
                lemma_off_step(self.src, k);
            }
        }
        //@]
        if current.is_whitespace() {
            Ok(())
        } else if current == '/' {
            self.state = State::Slash(current_index);
            Ok(())
        } else if current.is_ascii_alphabetic() || current == '_' {
            self.state = State::Ident(
                current_index,
                ByteIndex(current_index.0 + current.len_utf8()),
            );
            //@[ proof
            proof {
                assert forall|k: int| #[trigger] old(self).at(k, current, current_index) implies self.inv(k + 1) by {
                    assert(ident_at(self.src@, toks_view(self.out@), k, k + 1, self.state->Ident_0.0 as int, self.state->Ident_1.0 as int));
                }
            }
            //@]
            Ok(())
        } else if current == '$' {
            self.state = State::Dollar(current_index);
            Ok(())
        } else if current == ':' {
            self.state = State::Colon(current_index);
            Ok(())
        } else if current == '#' {
            self.state = State::Pound(current_index);
            Ok(())
        } else if let Some(kind) = get_single_char_punctuation_kind(current) {
            self.out
                .push(get_single_char_punctuation_token(kind, current_index));
            //@[ proof
            proof { lemma_toks_view_push(old(self).out@, self.out@.last()); assert(self.out@ =~= old(self).out@.push(self.out@.last())); }
            //@]
            Ok(())
        } else {
            Err(KikiErr::Lex(current_index, Some(current)))
        }
    }

    fn handle_char_given_state_is_slash(
        &mut self,
        current: char,
        existing_slash_index: ByteIndex,
    ) -> /*@[*/(r: /*@]*/Result<(), KikiErr>/*@[*/)/*@]*/
        //@[ C08 C16 handle_char_given_state_is_slash
        requires old(self).state == State::Slash(existing_slash_index), exists|k: int| #[trigger] old(self).at0(k, current),
        ensures final(self).src == old(self).src,
            forall|k: int| #[trigger] old(self).at0(k, current) ==> final(self).post(r, k),
        decreases 2int, 0int
        //@]
    {
        //@[ proof
        proof {
            assert forall|k: int| #[trigger] self.at0(k, current) implies
                (current == '/' ==> ref_lex(self.src@) == cat(toks_view(self.out@), lex_from(self.src@, skip_comment(self.src@, k + 1))))
                && (current != '/' ==> ref_lex(self.src@) == Err::<Seq<STok>, (int, Option<char>)>((existing_slash_index.0 as int, Some('/'))))
            by { lemma_lex_slash(self.src@, toks_view(self.out@), k); }
        }
        //@]
        if current == '/' {
            self.state = State::SingleLineComment;
            Ok(())
        } else {
            Err(KikiErr::Lex(existing_slash_index, Some('/')))
        }
    }

    fn handle_char_given_state_is_single_line_comment(
        &mut self,
        current: char,
    ) -> /*@[*/(r: /*@]*/Result<(), KikiErr>/*@[*/)/*@]*/
        //@[ C08 C16 handle_char_given_state_is_single_line_comment
        requires old(self).state is SingleLineComment, exists|k: int| #[trigger] old(self).at0(k, current),
        ensures final(self).src == old(self).src,
            forall|k: int| #[trigger] old(self).at0(k, current) ==> final(self).post(r, k),
        decreases 2int, 0int
        //@]
    {
        //@[ proof
        proof {
            assert forall|k: int| #[trigger] self.at0(k, current) implies
                (current == '\n' ==> skip_comment(self.src@, k) == k + 1)
                && (current != '\n' ==> skip_comment(self.src@, k) == skip_comment(self.src@, k + 1))
            by { lemma_lex_comment(self.src@, k); }
        }
        //@]
        if current == '\n' {
            self.state = State::Main;
        }

        Ok(())
    }

    fn handle_char_given_state_is_ident(
        &mut self,
        current: char,
        current_index: ByteIndex,
        start: ByteIndex,
        end: ByteIndex,
    ) -> /*@[*/(r: /*@]*/Result<(), KikiErr>/*@[*/)/*@]*/
        //@[ C08 C07 handle_char_given_state_is_ident
        requires old(self).state == State::Ident(start, end), exists|k: int| #[trigger] old(self).at(k, current, current_index),
        ensures final(self).src == old(self).src,
            forall|k: int| #[trigger] old(self).at(k, current, current_index) ==> final(self).post(r, k),
        decreases 2int, 0int
        //@]
    {
        //@[ proof
        proof {
            assert forall|k: int| #[trigger] self.at(k, current, current_index) implies
                byte_off(self.src@, k + 1) == end.0 + current.len_utf8() && byte_off(self.src@, k + 1) <= usize::MAX
                && self.flush_at(k, Some(current), current_index) == !ident_cont(current)
            by { lemma_off_step(self.src, k); }
        }
        //@]
        if current.is_ascii_alphanumeric() || current == '_' {
            self.state = State::Ident(start, ByteIndex(end.0 + current.len_utf8()));
            //@[ proof
            proof {
                assert forall|k: int| #[trigger] old(self).at(k, current, current_index) implies self.inv(k + 1) by {
                    let j = choose|j: int| ident_at(self.src@, toks_view(self.out@), j, k, start.0 as int, end.0 as int);
                    assert(ident_at(self.src@, toks_view(self.out@), j, k + 1, self.state->Ident_0.0 as int, self.state->Ident_1.0 as int));
                }
            }
            //@]
            Ok(())
        } else {
            self.push_pending_token_and_reset_state(Some(current), current_index)?;
            //@[ proof
            proof { assert forall|k: int| #[trigger] old(self).at(k, current, current_index) implies self.at(k, current, current_index) by {} }
            //@]
            self.handle_char(current, current_index)
        }
    }

    fn handle_char_given_state_is_dollar(
        &mut self,
        current: char,
        dollar_index: ByteIndex,
    ) -> /*@[*/(r: /*@]*/Result<(), KikiErr>/*@[*/)/*@]*/
        //@[ C08 C07 handle_char_given_state_is_dollar
        requires old(self).state == State::Dollar(dollar_index), exists|k: int| #[trigger] old(self).at0(k, current),
        ensures final(self).src == old(self).src,
            forall|k: int| #[trigger] old(self).at0(k, current) ==> final(self).post(r, k),
        decreases 2int, 0int
        //@]
    {
        //@[ proof
        proof {
            assert forall|k: int| #[trigger] self.at0(k, current) implies
                byte_off(self.src@, k + 1) == dollar_index.0 + '$'.len_utf8() + current.len_utf8() && byte_off(self.src@, k + 1) <= usize::MAX
                && (!ident_start(current) ==> ref_lex(self.src@) == Err::<Seq<STok>, (int, Option<char>)>((dollar_index.0 as int, Some('$'))))
            by { lemma_off_step(self.src, k); lemma_off_step(self.src, k - 1); if !ident_start(current) { lemma_lex_dollar(self.src@, toks_view(self.out@), k); } }
        }
        //@]
        if current.is_ascii_alphabetic() || current == '_' {
            self.state = State::TerminalIdent(
                dollar_index,
                ByteIndex(dollar_index.0 + '$'.len_utf8() + current.len_utf8()),
            );
            //@[ proof
            proof {
                assert forall|k: int| #[trigger] old(self).at0(k, current) implies self.inv(k + 1) by {
                    assert(term_at(self.src@, toks_view(self.out@), k - 1, k + 1, self.state->TerminalIdent_0.0 as int, self.state->TerminalIdent_1.0 as int));
                }
            }
            //@]
            Ok(())
        } else {
            Err(KikiErr::Lex(dollar_index, Some('$')))
        }
    }

    fn handle_char_given_state_is_terminal_ident(
        &mut self,
        current: char,
        current_index: ByteIndex,
        dollar_index: ByteIndex,
        end: ByteIndex,
    ) -> /*@[*/(r: /*@]*/Result<(), KikiErr>/*@[*/)/*@]*/
        //@[ C08 C07 handle_char_given_state_is_terminal_ident
        requires old(self).state == State::TerminalIdent(dollar_index, end), exists|k: int| #[trigger] old(self).at(k, current, current_index),
        ensures final(self).src == old(self).src,
            forall|k: int| #[trigger] old(self).at(k, current, current_index) ==> final(self).post(r, k),
        decreases 2int, 0int
        //@]
    {
        //@[ proof
        proof {
            assert forall|k: int| #[trigger] self.at(k, current, current_index) implies
                byte_off(self.src@, k + 1) == end.0 + current.len_utf8() && byte_off(self.src@, k + 1) <= usize::MAX
                && self.flush_at(k, Some(current), current_index) == !ident_cont(current)
            by { lemma_off_step(self.src, k); }
        }
        //@]
        if current.is_ascii_alphanumeric() || current == '_' {
            self.state = State::TerminalIdent(dollar_index, ByteIndex(end.0 + current.len_utf8()));
            //@[ proof
            proof {
                assert forall|k: int| #[trigger] old(self).at(k, current, current_index) implies self.inv(k + 1) by {
                    let j = choose|j: int| term_at(self.src@, toks_view(self.out@), j, k, dollar_index.0 as int, end.0 as int);
                    assert(term_at(self.src@, toks_view(self.out@), j, k + 1, self.state->TerminalIdent_0.0 as int, self.state->TerminalIdent_1.0 as int));
                }
            }
            //@]
            Ok(())
        } else {
            self.push_pending_token_and_reset_state(Some(current), current_index)?;
            //@[ proof
            proof { assert forall|k: int| #[trigger] old(self).at(k, current, current_index) implies self.at(k, current, current_index) by {} }
            //@]
            self.handle_char(current, current_index)
        }
    }

    fn handle_char_given_state_is_colon(
        &mut self,
        current: char,
        current_index: ByteIndex,
        start: ByteIndex,
    ) -> /*@[*/(r: /*@]*/Result<(), KikiErr>/*@[*/)/*@]*/
        //@[ C08 handle_char_given_state_is_colon
        requires old(self).state == State::Colon(start), exists|k: int| #[trigger] old(self).at(k, current, current_index),
        ensures final(self).src == old(self).src,
            forall|k: int| #[trigger] old(self).at(k, current, current_index) ==> final(self).post(r, k),
        decreases 2int, 0int
        //@]
    {
        //@[ proof
        proof {
            assert forall|k: int| #[trigger] self.at(k, current, current_index) implies
                (current == ':' ==> ref_lex(self.src@) == cat(toks_view(self.out@).push(STok::DoubleColon(start.0 as int)), lex_from(self.src@, k + 1)))
                && self.flush_at(k, Some(current), current_index) == (current != ':')
            by { lemma_lex_colon(self.src@, toks_view(self.out@), k); }
        }
        //@]
        if current == ':' {
            self.out.push(Token::DoubleColon(start));
            self.state = State::Main;
            //@[ proof
            proof { lemma_toks_view_push(old(self).out@, Token::DoubleColon(start)); }
            //@]
            Ok(())
        } else {
            self.push_pending_token_and_reset_state(Some(current), current_index)?;
            //@[ proof
            proof { assert forall|k: int| #[trigger] old(self).at(k, current, current_index) implies self.at(k, current, current_index) by {} }
            //@]
            self.handle_char(current, current_index)
        }
    }

    fn handle_char_given_state_is_pound(
        &mut self,
        current: char,
        current_index: ByteIndex,
        start: ByteIndex,
    ) -> /*@[*/(r: /*@]*/Result<(), KikiErr>/*@[*/)/*@]*/
        //@[ C08 C07 C12 handle_char_given_state_is_pound
        requires old(self).state == State::Pound(start), exists|k: int| #[trigger] old(self).at(k, current, current_index),
        ensures final(self).src == old(self).src,
            forall|k: int| #[trigger] old(self).at(k, current, current_index) ==> final(self).post(r, k),
        decreases 2int, 0int
        //@]
    {
        //@[ proof
        proof {
            lemma_lit_len("["); reveal_strlit("["); reveal_with_fuel(byte_off, 3);
            assert forall|k: int| #[trigger] self.at(k, current, current_index) implies
                (current == '[' ==> byte_off(self.src@, k + 1) == current_index.0 + 1 && byte_off(self.src@, k + 1) <= usize::MAX)
                && self.flush_at(k, Some(current), current_index) == (current != '[')
            by { lemma_off_step(self.src, k); }
        }
        //@]
        if current == '[' {
            self.state = State::OuterAttribute(
                start,
                LeftBracketCount(NonZeroUsize::new(1).unwrap()),
                ByteIndex(current_index.0 + "[".len()),
            );
            //@[ proof
            proof {
                assert forall|k: int| #[trigger] old(self).at(k, current, current_index) implies self.inv(k + 1) by {
                    assert(attr_at(self.src@, toks_view(self.out@), k - 1, k + 1, self.state->OuterAttribute_0.0 as int,
                        self.state->OuterAttribute_1.0@ as int, self.state->OuterAttribute_2.0 as int));
                }
            }
            //@]
            Ok(())
        } else {
            self.push_pending_token_and_reset_state(Some(current), current_index)?;
            //@[ proof
            proof { assert forall|k: int| #[trigger] old(self).at(k, current, current_index) implies self.at(k, current, current_index) by {} }
            //@]
            self.handle_char(current, current_index)
        }
    }

    fn handle_char_given_state_is_outer_attribute(
        &mut self,
        current: char,
        current_index: ByteIndex,
        start: ByteIndex,
        left_count: LeftBracketCount,
        end: ByteIndex,
    ) -> /*@[*/(r: /*@]*/Result<(), KikiErr>/*@[*/)/*@]*/
        //@[ C08 C07 C12 handle_char_given_state_is_outer_attribute
        requires old(self).state == State::OuterAttribute(start, left_count, end), exists|k: int| #[trigger] old(self).at(k, current, current_index),
        ensures final(self).src == old(self).src,
            forall|k: int| #[trigger] old(self).at(k, current, current_index) ==> final(self).post(r, k),
        decreases 2int, 0int
        //@]
    {
        //@[ proof
        proof {
            assert forall|k: int| #[trigger] self.at(k, current, current_index) implies
                byte_off(self.src@, k + 1) == end.0 + current.len_utf8() && byte_off(self.src@, k + 1) <= usize::MAX
                && attr_facts(self.src@, toks_view(self.out@), k, start.0 as int, left_count.0@ as int, end.0 as int)
            by {
                lemma_off_step(self.src, k);
                let j = choose|j: int| attr_at(self.src@, toks_view(self.out@), j, k, start.0 as int, left_count.0@ as int, end.0 as int);
                lemma_attr_facts(self.src, toks_view(self.out@), j, k, start.0 as int, left_count.0@ as int, end.0 as int);
            }
        }
        //@]
        match current {
            '(' | '[' | '{' => {
                self.state = State::OuterAttribute(
                    start,
                    LeftBracketCount(left_count.0.saturating_add(1)),
                    ByteIndex(end.0 + current.len_utf8()),
                );
                //@[ proof
                proof {
                    assert forall|k: int| #[trigger] old(self).at(k, current, current_index) implies self.inv(k + 1) by {
                        let j = choose|j: int| attr_at(self.src@, toks_view(self.out@), j, k, start.0 as int, left_count.0@ as int, end.0 as int);
                        assert(attr_at(self.src@, toks_view(self.out@), j, k + 1, self.state->OuterAttribute_0.0 as int,
                            self.state->OuterAttribute_1.0@ as int, self.state->OuterAttribute_2.0 as int));
                    }
                }
                //@]
                Ok(())
            }

            ')' | ']' | '}' => {
                if left_count.0.get() == 1 {
                    let end = ByteIndex(end.0 + current.len_utf8());
                    return self.finish_outer_attribute(start, end);
                }

                self.state = State::OuterAttribute(
                    start,
                    LeftBracketCount(NonZeroUsize::new(left_count.0.get() - 1).unwrap()),
                    ByteIndex(end.0 + current.len_utf8()),
                );
                //@[ proof
                proof {
                    assert forall|k: int| #[trigger] old(self).at(k, current, current_index) implies self.inv(k + 1) by {
                        let j = choose|j: int| attr_at(self.src@, toks_view(self.out@), j, k, start.0 as int, left_count.0@ as int, end.0 as int);
                        assert(attr_at(self.src@, toks_view(self.out@), j, k + 1, self.state->OuterAttribute_0.0 as int,
                            self.state->OuterAttribute_1.0@ as int, self.state->OuterAttribute_2.0 as int));
                    }
                }
                //@]
                Ok(())
            }

            '\n' => Err(KikiErr::Lex(current_index, Some(current))),

            _ => {
                self.state = State::OuterAttribute(
                    start,
                    left_count,
                    ByteIndex(end.0 + current.len_utf8()),
                );
                //@[ proof
                proof {
                    assert forall|k: int| #[trigger] old(self).at(k, current, current_index) implies self.inv(k + 1) by {
                        let j = choose|j: int| attr_at(self.src@, toks_view(self.out@), j, k, start.0 as int, left_count.0@ as int, end.0 as int);
                        assert(attr_at(self.src@, toks_view(self.out@), j, k + 1, self.state->OuterAttribute_0.0 as int,
                            self.state->OuterAttribute_1.0@ as int, self.state->OuterAttribute_2.0 as int));
                    }
                }
                //@]
                Ok(())
            }
        }
    }

    fn finish_outer_attribute(&mut self, start: ByteIndex, end: ByteIndex) -> /*@[*/(r: /*@]*/Result<(), KikiErr>/*@[*/)/*@]*/
        //@[ C08 C07 C12 finish_outer_attribute: kind matching over the exact extent s[j..e); the token text is the exact source slice
        requires
            old(self).src.spec_bytes().len() <= usize::MAX,
            attr_span(old(self).src@, kof(old(self).src@, start.0 as int), kof(old(self).src@, end.0 as int), start.0 as int, end.0 as int),
        ensures final(self).src == old(self).src,
            ({
                let s = old(self).src@; let j = kof(s, start.0 as int); let e = kof(s, end.0 as int);
                match kind_mismatch(s, j + 1, e, Seq::empty()) {
                    Some(i) => r == Err::<(), KikiErr>(KikiErr::Lex(ByteIndex(byte_off(s, i) as usize), Some(s[i]))),
                    None => r is Ok && final(self).state is Main
                        && toks_view(final(self).out@) == toks_view(old(self).out@).push(STok::OuterAttribute(s.subrange(j, e), start.0 as int)),
                }
            }),
        //@]
    {
        //@[ proof
        let ghost s = self.src@;
        let ghost j = kof(s, start.0 as int);
        let ghost e = kof(s, end.0 as int);
        proof {
            lemma_lit_len("#"); reveal_strlit("#"); reveal_with_fuel(byte_off, 3);
            lemma_off_step(self.src, j);
            lemma_off_step(self.src, e);
            lemma_utf8_slice(self.src, j + 1, e);
            lemma_utf8_slice(self.src, j, e);
            assert forall|t: &str| #[trigger] t.spec_bytes() == vstd::utf8::encode_utf8(s.subrange(j + 1, e)) implies t@ == s.subrange(j + 1, e) by {
                lemma_view_of_slice(t, s.subrange(j + 1, e));
            }
            assert forall|t: &str| #[trigger] t.spec_bytes() == vstd::utf8::encode_utf8(s.subrange(j, e)) implies t@ == s.subrange(j, e) by {
                lemma_view_of_slice(t, s.subrange(j, e));
            }
        }
        //@]
        let mut stack = Vec::new();
        let bracket_start = ByteIndex(start.0 + "#".len());
        for (current_index, current) in /*@[*/__vx_it: /*@]*//*@{ T4_char_indices_attr*//*@- self.src[bracket_start.0..end.0].char_indices() *//*@|*/__vx_char_indices(&self.src[bracket_start.0..end.0])/*@}*/
            //@[ C08 C12 bracket-kind matching loop invariant
            invariant
                *self == *old(self),
                s == self.src@, j == kof(s, start.0 as int), e == kof(s, end.0 as int),
                attr_span(s, j, e, start.0 as int, end.0 as int),
                self.src.spec_bytes().len() <= usize::MAX,
                bracket_start.0 == byte_off(s, j + 1),
                __vx_it.seq().len() == e - (j + 1),
                forall|i: int| 0 <= i < __vx_it.seq().len() ==>
                    (#[trigger] __vx_it.seq()[i]).0 as int == byte_off(s.subrange(j + 1, e), i) && __vx_it.seq()[i].1 == s[j + 1 + i],
                kind_mismatch(s, j + 1, e, Seq::empty()) == kind_mismatch(s, j + 1 + __vx_it.index@, e, stack@),
            //@]
        {
            //@[ proof
            proof {
                let i = __vx_it.index@;
                lemma_off_subrange(s, j + 1, e, i);
                lemma_off_step(self.src, j + 1 + i);
                lemma_off_mono(s, j + 1 + i, e);
            }
            //@]
            match current {
                '(' | '[' | '{' => {
                    stack.push(current);
                }

                ')' | ']' | '}' => {
                    let Some(top) = stack.pop() else {
                        return Err(KikiErr::Lex(
                            ByteIndex(bracket_start.0 + current_index),
                            Some(current),
                        ));
                    };
                    match (top, current) {
                        ('(', ')') | ('[', ']') | ('{', '}') => {}

                        _ => {
                            return Err(KikiErr::Lex(
                                ByteIndex(bracket_start.0 + current_index),
                                Some(current),
                            ));
                        }
                    }
                }

                _ => {}
            }
        }

        self.state = State::Main;
        self.out.push(Token::OuterAttribute(Attribute {
            src: self.src[start.0..end.0].to_string(),
            position: start,
        }));
        //@[ proof
        proof { lemma_toks_view_push(old(self).out@, self.out@.last()); assert(self.out@ =~= old(self).out@.push(self.out@.last())); }
        //@]
        Ok(())
    }

    /// This function only resets the state if the pending token is valid.
    fn push_pending_token_and_reset_state(
        &mut self,
        current: Option<char>,
        current_index: ByteIndex,
    ) -> /*@[*/(r: /*@]*/Result<(), KikiErr>/*@[*/)/*@]*/
        //@[ C08 C07 push_pending_token_and_reset_state: flush of the pending token
        requires exists|k: int| #[trigger] old(self).flush_at(k, current, current_index),
        ensures final(self).src == old(self).src,
            forall|k: int| #[trigger] old(self).flush_at(k, current, current_index) ==> final(self).flushed(r, k),
        //@]
    {
        //@[ proof
        proof {
            assert forall|k: int| #[trigger] self.flush_at(k, current, current_index) implies
                flush_facts(self.src, toks_view(self.out@), self.state, k, current, current_index)
            by { lemma_flush_facts(self.src, toks_view(self.out@), self.state, k, current, current_index); }
            lemma_lit_len("$"); reveal_strlit("$"); reveal_with_fuel(byte_off, 3);
        }
        //@]
        match self.state {
            State::Main => Ok(()),

            State::Slash(slash_index) => Err(KikiErr::Lex(slash_index, Some('/'))),

            State::SingleLineComment => Ok(()),

            State::Ident(start, end) => {
                let name = &self.src[start.0..end.0];

                if let Some(kind) = get_reserved_word_kind(name) {
                    self.out.push(get_reserved_word_token(kind, start));
                } else {
                    self.out.push(Token::Ident(Ident {
                        name: name.to_string(),
                        position: start,
                    }));
                }
                //@[ proof
                proof { lemma_toks_view_push(old(self).out@, self.out@.last()); assert(self.out@ =~= old(self).out@.push(self.out@.last())); }
                //@]

                Ok(())
            }

            State::Dollar(dollar_index) => Err(KikiErr::Lex(dollar_index, Some('$'))),

            State::TerminalIdent(start, end) => {
                let name = DollarlessTerminalName::remove_dollars(&self.src[start.0..end.0]);

                if get_reserved_word_kind(name.raw()).is_some() {
                    return Err(KikiErr::Lex(current_index, current));
                }

                let dollarless_position = ByteIndex(start.0 + "$".len());
                self.out.push(Token::TerminalIdent(TerminalIdent {
                    name,
                    dollarless_position,
                }));
                //@[ proof
                proof { lemma_toks_view_push(old(self).out@, self.out@.last()); assert(self.out@ =~= old(self).out@.push(self.out@.last())); }
                //@]
                Ok(())
            }

            State::Colon(colon_index) => {
                self.out.push(Token::Colon(colon_index));
                self.state = State::Main;
                //@[ proof
                proof { lemma_toks_view_push(old(self).out@, Token::Colon(colon_index)); }
                //@]
                Ok(())
            }

            State::Pound(start) => Err(KikiErr::Lex(start, Some('#'))),

            State::OuterAttribute(..) => Err(KikiErr::Lex(current_index, current)),
        }?;

        self.state = State::Main;
        Ok(())
    }
}

#[derive(Debug, Clone)]
enum State {
    Main,
    Slash(ByteIndex),
    SingleLineComment,
    Ident(ByteIndex, ByteIndex),
    Dollar(ByteIndex),
    TerminalIdent(ByteIndex, ByteIndex),
    Colon(ByteIndex),
    Pound(ByteIndex),
    OuterAttribute(ByteIndex, LeftBracketCount, ByteIndex),
}

#[derive(Debug, Clone, Copy)]
struct LeftBracketCount(NonZeroUsize);

#[derive(Debug, Clone, Copy)]
enum ReservedWordKind {
    Underscore,
    Start,
    Struct,
    Enum,
    Terminal,
}

#[derive(Debug, Clone, Copy)]
enum SingleCharPunctuationKind {
    Colon,
    Comma,
    LParen,
    RParen,
    LCurly,
    RCurly,
    LAngle,
    RAngle,
}

fn get_reserved_word_kind(s: &str) -> /*@[*/(r: /*@]*/Option<ReservedWordKind>/*@[*/)/*@]*/
    //@[ C08 get_reserved_word_kind: the reserved words of the statement
    ensures
        r is Some <==> is_reserved(s@),
        forall|p: int| #[trigger] word_tok(s@, p) == (match r { Some(kd) => word_kind_tok(kd, p), None => STok::Ident(s@, p) }),
    //@]
{
    //@[ proof
    proof {
        axiom_str_ext(s, "_"); axiom_str_ext(s, "start"); axiom_str_ext(s, "struct"); axiom_str_ext(s, "enum"); axiom_str_ext(s, "terminal");
        reveal_strlit("_"); reveal_strlit("start"); reveal_strlit("struct"); reveal_strlit("enum"); reveal_strlit("terminal");
    }
    //@]
    match s {
        "_" => Some(ReservedWordKind::Underscore),
        "start" => Some(ReservedWordKind::Start),
        "struct" => Some(ReservedWordKind::Struct),
        "enum" => Some(ReservedWordKind::Enum),
        "terminal" => Some(ReservedWordKind::Terminal),
        _ => None,
    }
}

fn get_reserved_word_token(kind: ReservedWordKind, index: ByteIndex) -> /*@[*/(r: /*@]*/Token/*@[*/)/*@]*/
    //@[ C08 get_reserved_word_token
    ensures tok_view(r) == word_kind_tok(kind, index.0 as int),
    //@]
{
    match kind {
        ReservedWordKind::Underscore => Token::Underscore(index),
        ReservedWordKind::Start => Token::StartKw(index),
        ReservedWordKind::Struct => Token::StructKw(index),
        ReservedWordKind::Enum => Token::EnumKw(index),
        ReservedWordKind::Terminal => Token::TerminalKw(index),
    }
}

//@[ C08 punctuation table in spec form
spec fn punct_kind_tok(kd: SingleCharPunctuationKind, p: int) -> STok {
    match kd {
        SingleCharPunctuationKind::Colon => STok::Colon(p),
        SingleCharPunctuationKind::Comma => STok::Comma(p),
        SingleCharPunctuationKind::LParen => STok::LParen(p),
        SingleCharPunctuationKind::RParen => STok::RParen(p),
        SingleCharPunctuationKind::LCurly => STok::LCurly(p),
        SingleCharPunctuationKind::RCurly => STok::RCurly(p),
        SingleCharPunctuationKind::LAngle => STok::LAngle(p),
        SingleCharPunctuationKind::RAngle => STok::RAngle(p),
    }
}
spec fn word_kind_tok(kd: ReservedWordKind, p: int) -> STok {
    match kd {
        ReservedWordKind::Underscore => STok::Underscore(p),
        ReservedWordKind::Start => STok::StartKw(p),
        ReservedWordKind::Struct => STok::StructKw(p),
        ReservedWordKind::Enum => STok::EnumKw(p),
        ReservedWordKind::Terminal => STok::TerminalKw(p),
    }
}
//@]

fn get_single_char_punctuation_kind(c: char) -> /*@[*/(r: /*@]*/Option<SingleCharPunctuationKind>/*@[*/)/*@]*/
    //@[ C08 get_single_char_punctuation_kind: the punctuation of the statement
    ensures
        forall|p: int| #[trigger] punct_tok(c, p) == (match r { Some(kd) => Some(punct_kind_tok(kd, p)), None => None }),
    //@]
{
    match c {
        ':' => Some(SingleCharPunctuationKind::Colon),
        ',' => Some(SingleCharPunctuationKind::Comma),
        '(' => Some(SingleCharPunctuationKind::LParen),
        ')' => Some(SingleCharPunctuationKind::RParen),
        '{' => Some(SingleCharPunctuationKind::LCurly),
        '}' => Some(SingleCharPunctuationKind::RCurly),
        '<' => Some(SingleCharPunctuationKind::LAngle),
        '>' => Some(SingleCharPunctuationKind::RAngle),
        _ => None,
    }
}

fn get_single_char_punctuation_token(kind: SingleCharPunctuationKind, index: ByteIndex) -> /*@[*/(r: /*@]*/Token/*@[*/)/*@]*/
    //@[ C08 get_single_char_punctuation_token
    ensures tok_view(r) == punct_kind_tok(kind, index.0 as int),
    //@]
{
    match kind {
        SingleCharPunctuationKind::Colon => Token::Colon(index),
        SingleCharPunctuationKind::Comma => Token::Comma(index),
        SingleCharPunctuationKind::LParen => Token::LParen(index),
        SingleCharPunctuationKind::RParen => Token::RParen(index),
        SingleCharPunctuationKind::LCurly => Token::LCurly(index),
        SingleCharPunctuationKind::RCurly => Token::RCurly(index),
        SingleCharPunctuationKind::LAngle => Token::LAngle(index),
        SingleCharPunctuationKind::RAngle => Token::RAngle(index),
    }
}

