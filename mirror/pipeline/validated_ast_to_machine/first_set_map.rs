//@file kiki/src/pipeline/validated_ast_to_machine/first_set_map.rs mod=crate::pipeline::validated_ast_to_machine::first_set_map
//@[ imports
use vstd::prelude::*;
use vstd::std_specs::iter::*;
use vstd::std_specs::cmp::*;
use crate::vx_gram::*;
use crate::vx_ord::*;
use crate::vx_hash::*;
use crate::vx_utf8::*;
broadcast use {vstd::std_specs::hash::group_hash_axioms, crate::vx_hash_ax::group_key_models, crate::vx_ordax::group_lawful, crate::data::oset::axiom_yielded_oset, crate::vx_ord::axiom_yielded_vec, crate::vx_hash::group_string_keys};
//@]
use super::*;

//@[ C17 C07 ghost vocabulary local to the fixpoint computation
/// the set of names covers every nonterminal that has a rule or occurs in a right-hand side
spec fn has_name(s: Set<&str>, a: Seq<char>) -> bool { exists|n: &str| s.contains(n) && n@ == a }
spec fn has_lhs(s: Set<&str>, g: Seq<Rule>, ri: int) -> bool { has_name(s, rule_lhs(g[ri])) }
spec fn has_rhs(s: Set<&str>, g: Seq<Rule>, ri: int, i: int) -> bool {
    rule_rhs(g[ri])[i] is Nonterminal ==> has_name(s, sym_name(rule_rhs(g[ri])[i]))
}
spec fn names_cover(s: Set<&str>, g: Seq<Rule>) -> bool {
    &&& forall|ri: int| 0 <= ri < g.len() ==> #[trigger] has_lhs(s, g, ri)
    &&& forall|ri: int, i: int| 0 <= ri < g.len() && 0 <= i < rule_rhs(g[ri]).len() ==> #[trigger] has_rhs(s, g, ri, i)
}
proof fn lemma_has_name_mono(s0: Set<&str>, s1: Set<&str>)
    requires s0.subset_of(s1)
    ensures forall|a: Seq<char>| has_name(s0, a) ==> has_name(s1, a)
{
    assert forall|a: Seq<char>| has_name(s0, a) implies has_name(s1, a) by {
        let n = choose|n: &str| s0.contains(n) && n@ == a; assert(s1.contains(n));
    }
}

/// the assignment already contains the contribution of rule r
spec fn rule_closed(fa: FA, r: Rule) -> bool {
    &&& fa_seq_nullable(fa, rule_rhs(r)) ==> (fa.nul)(rule_lhs(r))
    &&& forall|t: DollarlessTerminalName| fa_seq_first(fa, rule_rhs(r), t) ==> #[trigger] (fa.fst)(rule_lhs(r), t)
}

proof fn lemma_collected_lhs(g: Seq<Rule>, names: Set<&str>, ri: int)
    requires 0 <= ri < g.len(),
        exists|mapped: Seq<&str>| #![auto] names == mapped.to_set() && mapped.len() == g.len() && forall|i: int| 0 <= i < g.len() ==> (#[trigger] mapped[i])@ == rule_lhs(g[i]),
    ensures has_lhs(names, g, ri)
{
    let mapped = choose|mapped: Seq<&str>| #![auto] names == mapped.to_set() && mapped.len() == g.len() && forall|i: int| 0 <= i < g.len() ==> (#[trigger] mapped[i])@ == rule_lhs(g[i]);
    assert(mapped.to_set().contains(mapped[ri]));
}

proof fn lemma_covers_dom(m0: FsMap, m1: FsMap, g: Seq<Rule>)
    requires m1.dom() == m0.dom(), fs_covers(m0, g)
    ensures fs_covers(m1, g), forall|syms: Seq<Symbol>| syms_covered(m0, syms) ==> syms_covered(m1, syms),
        forall|ri: int| 0 <= ri < g.len() ==> syms_covered(m1, rule_rhs(#[trigger] g[ri])),
{
    assert forall|a: Seq<char>| fs_has(m0, a) implies fs_has(m1, a) by {
        let k = choose|k: String| #![trigger m0.contains_key(k)] m0.contains_key(k) && k@ == a;
        assert(m1.contains_key(k));
    }
    assert forall|syms: Seq<Symbol>| syms_covered(m0, syms) implies syms_covered(m1, syms) by {
        assert forall|i: int| 0 <= i < syms.len() && (#[trigger] syms[i]) is Nonterminal implies fs_has(m1, sym_name(syms[i])) by { assert(fs_has(m0, sym_name(syms[i]))); }
    }
}

proof fn lemma_mv_eq_fa_eq(m1: FsMap, m0: FsMap)
    requires mv(m1) =~~= mv(m0)
    ensures fa_eq(fa_of(m1), fa_of(m0)), fa_eq(fa_of(m0), fa_of(m1))
{
    assert(m1.dom() =~= m0.dom()) by { assert(mv(m1).dom() == m1.dom()); assert(mv(m0).dom() == m0.dom()); }
    assert forall|k: String| #[trigger] m0.contains_key(k) implies fs_view(m1[k]) == fs_view(m0[k]) by {
        assert(mv(m1)[k] == fs_view(m1[k])); assert(mv(m0)[k] == fs_view(m0[k]));
    }
    assert forall|a: Seq<char>| #[trigger] (fa_of(m1).nul)(a) == (fa_of(m0).nul)(a) by {
        if (fa_of(m1).nul)(a) { let k = choose|k: String| #![trigger m1.contains_key(k)] m1.contains_key(k) && k@ == a && m1[k].contains_epsilon; assert(m0.contains_key(k)); }
        if (fa_of(m0).nul)(a) { let k = choose|k: String| #![trigger m0.contains_key(k)] m0.contains_key(k) && k@ == a && m0[k].contains_epsilon; assert(m1.contains_key(k)); }
    }
    assert forall|a: Seq<char>, t: DollarlessTerminalName| #[trigger] (fa_of(m1).fst)(a, t) == (fa_of(m0).fst)(a, t) by {
        if (fa_of(m1).fst)(a, t) { let k = choose|k: String| #![trigger m1.contains_key(k)] m1.contains_key(k) && k@ == a && m1[k].terminals@.contains(t); assert(m0.contains_key(k)); }
        if (fa_of(m0).fst)(a, t) { let k = choose|k: String| #![trigger m0.contains_key(k)] m0.contains_key(k) && k@ == a && m0[k].terminals@.contains(t); assert(m1.contains_key(k)); }
    }
}

proof fn lemma_fa_eq_rule_closed(x: FA, y: FA, r: Rule)
    requires fa_eq(x, y), rule_closed(x, r)
    ensures rule_closed(y, r)
{
    lemma_fa_eq_seq(x, y, rule_rhs(r));
    assert forall|t: DollarlessTerminalName| fa_seq_first(y, rule_rhs(r), t) implies #[trigger] (y.fst)(rule_lhs(r), t) by {
        assert((x.fst)(rule_lhs(r), t));
    }
    if fa_seq_nullable(y, rule_rhs(r)) { assert((x.nul)(rule_lhs(r))); }
}

proof fn lemma_fa_eq_closed(g: Seq<Rule>, x: FA, y: FA)
    requires fa_eq(x, y), fa_closed(g, x)
    ensures fa_closed(g, y)
{
    assert forall|ri: int| 0 <= ri < g.len() implies
        (fa_seq_nullable(y, rule_rhs(#[trigger] g[ri])) ==> (y.nul)(rule_lhs(g[ri])))
        && (forall|t: DollarlessTerminalName| fa_seq_first(y, rule_rhs(g[ri]), t) ==> #[trigger] (y.fst)(rule_lhs(g[ri]), t)) by {
        assert(rule_closed(x, g[ri]));
        lemma_fa_eq_rule_closed(x, y, g[ri]);
    }
}

/// no change after adding a rule's contribution: the contribution was already there
proof fn lemma_rule_step_closed(m0: FsMap, m1: FsMap, key: String, r: Rule)
    requires rule_step(m0, m1, key, rule_rhs(r)), key@ == rule_lhs(r), mv(m1) =~~= mv(m0)
    ensures rule_closed(fa_of(m0), r)
{
    assert(mv(m1)[key] == fs_view(m1[key])); assert(mv(m0)[key] == fs_view(m0[key]));
    assert(m1[key].terminals@ == m0[key].terminals@);
    assert forall|t: DollarlessTerminalName| fa_seq_first(fa_of(m0), rule_rhs(r), t) implies #[trigger] (fa_of(m0).fst)(rule_lhs(r), t) by {
        assert(m1[key].terminals@.contains(t));
        assert(m0.contains_key(key));
    }
    if fa_seq_nullable(fa_of(m0), rule_rhs(r)) { assert(m0.contains_key(key)); }
}

/// adding a rule's contribution keeps the map below the least fixpoint
proof fn lemma_rule_step_sound(g: Seq<Rule>, m0: FsMap, m1: FsMap, key: String, ri: int)
    requires 0 <= ri < g.len(), rule_step(m0, m1, key, rule_rhs(g[ri])), key@ == rule_lhs(g[ri])
    ensures fa_sound(g, fa_of(m0)) ==> fa_sound(g, fa_of(m1))
{
    if fa_sound(g, fa_of(m0)) {
        lemma_rule_contribution_sound(g, fa_of(m0), ri);
        assert forall|a: Seq<char>| #[trigger] (fa_of(m1).nul)(a) implies nullable(g, a) by {
            let k = choose|k: String| #![trigger m1.contains_key(k)] m1.contains_key(k) && k@ == a && m1[k].contains_epsilon;
            assert(m0.contains_key(k));
            if k == key { if m0[key].contains_epsilon { assert((fa_of(m0).nul)(a)); } } else { assert((fa_of(m0).nul)(a)); }
        }
        assert forall|a: Seq<char>, t: DollarlessTerminalName| #[trigger] (fa_of(m1).fst)(a, t) implies in_first(g, a, t) by {
            let k = choose|k: String| #![trigger m1.contains_key(k)] m1.contains_key(k) && k@ == a && m1[k].terminals@.contains(t);
            assert(m0.contains_key(k));
            if k == key { if m0[key].terminals@.contains(t) { assert((fa_of(m0).fst)(a, t)); } } else { assert((fa_of(m0).fst)(a, t)); }
        }
    }
}

//@]

//@[ C07 termination of the fixpoint loop: the entries only grow, inside a finite universe
type FsVal = (Set<DollarlessTerminalName>, bool);
spec fn cnt(f: FsVal) -> int { f.0.len() + (if f.1 { 1int } else { 0int }) }
spec fn fs_le(a: FsVal, b: FsVal) -> bool { a.0.subset_of(b.0) && (a.1 ==> b.1) }
proof fn lemma_le_cnt(a: FsVal, b: FsVal)
    requires fs_le(a, b)
    ensures cnt(a) <= cnt(b), !(a =~~= b) ==> cnt(a) < cnt(b)
{
    vstd::set_lib::lemma_len_subset(a.0, b.0);
    if a.0.len() == b.0.len() { vstd::set_lib::lemma_subset_equality(a.0, b.0); }
}
/// a sound entry has at most as many terminals as the grammar has right-hand-side symbols
proof fn lemma_sound_bounded(g: Seq<Rule>, m: FsMap, k: String)
    requires fa_sound(g, fa_of(m)), m.contains_key(k)
    ensures cnt(fs_view(m[k])) <= all_syms(g).len() + 1
{
    let ts = m[k].terminals@;
    let f = |t: DollarlessTerminalName| Symbol::Terminal(t);
    assert(vstd::relations::injective(f));
    vstd::set_lib::lemma_map_size(ts, ts.map(f), f);
    assert forall|x: Symbol| ts.map(f).contains(x) implies all_syms(g).to_set().contains(x) by {
        let t = choose|t: DollarlessTerminalName| ts.contains(t) && f(t) == x;
        assert((fa_of(m).fst)(k@, t));
        let n = choose|n: nat| first_n(g, n, k@, t);
        lemma_first_n_in_syms(g, n, k@, t);
    }
    vstd::set_lib::lemma_len_subset(ts.map(f), all_syms(g).to_set());
    all_syms(g).lemma_cardinality_of_set();
}
/// the measure: how much room is left, summed over the keys
spec fn msum(keys: Seq<String>, v: Map<String, FsVal>, b: int) -> int
    decreases keys.len()
{
    if keys.len() == 0 { 0 } else { msum(keys.drop_last(), v, b) + (b + 1 - cnt(v[keys.last()])) }
}
proof fn lemma_msum_nonneg(keys: Seq<String>, v: Map<String, FsVal>, b: int)
    requires forall|i: int| 0 <= i < keys.len() ==> cnt(v[#[trigger] keys[i]]) <= b + 1
    ensures msum(keys, v, b) >= 0
    decreases keys.len()
{
    if keys.len() > 0 {
        assert forall|i: int| 0 <= i < keys.drop_last().len() implies cnt(v[#[trigger] keys.drop_last()[i]]) <= b + 1 by { assert(keys.drop_last()[i] == keys[i]); }
        lemma_msum_nonneg(keys.drop_last(), v, b);
        assert(keys.last() == keys[keys.len() - 1]);
    }
}
proof fn lemma_msum_mono(keys: Seq<String>, v0: Map<String, FsVal>, v1: Map<String, FsVal>, b: int)
    requires forall|i: int| 0 <= i < keys.len() ==> cnt(v0[#[trigger] keys[i]]) <= cnt(v1[keys[i]])
    ensures msum(keys, v1, b) <= msum(keys, v0, b),
        (exists|i: int| 0 <= i < keys.len() && cnt(v0[#[trigger] keys[i]]) < cnt(v1[keys[i]])) ==> msum(keys, v1, b) < msum(keys, v0, b)
    decreases keys.len()
{
    if keys.len() > 0 {
        let pre = keys.drop_last();
        let n1 = keys.len() - 1;
        assert(keys.last() == keys[n1]);
        assert forall|i: int| 0 <= i < pre.len() implies cnt(v0[#[trigger] pre[i]]) <= cnt(v1[pre[i]]) by { assert(pre[i] == keys[i]); }
        lemma_msum_mono(pre, v0, v1, b);
        if exists|i: int| 0 <= i < keys.len() && cnt(v0[#[trigger] keys[i]]) < cnt(v1[keys[i]]) {
            let i = choose|i: int| 0 <= i < keys.len() && cnt(v0[#[trigger] keys[i]]) < cnt(v1[keys[i]]);
            if i < n1 { assert(pre[i] == keys[i]); }
        }
    }
}
/// entries only grew from m0 to m1
spec fn grew(m0: FsMap, m1: FsMap) -> bool {
    m1.dom() == m0.dom() && forall|k: String| #[trigger] m0.contains_key(k) ==> fs_le(fs_view(m0[k]), fs_view(m1[k]))
}
/// some entry is strictly bigger in m1
spec fn grew_strictly(m0: FsMap, m1: FsMap) -> bool {
    exists|k: String| #[trigger] m0.contains_key(k) && cnt(fs_view(m0[k])) < cnt(fs_view(m1[k]))
}
proof fn lemma_rule_step_grew(m0: FsMap, m1: FsMap, key: String, syms: Seq<Symbol>)
    requires rule_step(m0, m1, key, syms)
    ensures grew(m0, m1), !(mv(m1) =~~= mv(m0)) ==> cnt(fs_view(m0[key])) < cnt(fs_view(m1[key]))
{
    lemma_mv_change(m0, m1, key);
    assert(fs_le(fs_view(m0[key]), fs_view(m1[key])));
    lemma_le_cnt(fs_view(m0[key]), fs_view(m1[key]));
}
proof fn lemma_grew_trans(m0: FsMap, m1: FsMap, m2: FsMap)
    requires grew(m0, m1), grew(m1, m2)
    ensures grew(m0, m2), grew_strictly(m0, m1) ==> grew_strictly(m0, m2), grew_strictly(m1, m2) ==> grew_strictly(m0, m2)
{
    assert forall|k: String| #[trigger] m0.contains_key(k) implies fs_le(fs_view(m0[k]), fs_view(m2[k])) by { assert(m1.contains_key(k)); }
    if grew_strictly(m0, m1) {
        let k = choose|k: String| #[trigger] m0.contains_key(k) && cnt(fs_view(m0[k])) < cnt(fs_view(m1[k]));
        assert(m1.contains_key(k)); lemma_le_cnt(fs_view(m1[k]), fs_view(m2[k]));
    }
    if grew_strictly(m1, m2) {
        let k = choose|k: String| #[trigger] m1.contains_key(k) && cnt(fs_view(m1[k])) < cnt(fs_view(m2[k]));
        assert(m0.contains_key(k)); lemma_le_cnt(fs_view(m0[k]), fs_view(m1[k]));
    }
}
/// the measure of the loop in get_first_sets decreases over one changing pass
proof fn lemma_pass_decreases(g: Seq<Rule>, keys: Seq<String>, m0: FsMap, m1: FsMap)
    requires grew(m0, m1), grew_strictly(m0, m1), keys.to_set() == m0.dom(), fa_sound(g, fa_of(m1)),
    ensures 0 <= msum(keys, mv(m1), all_syms(g).len() as int) < msum(keys, mv(m0), all_syms(g).len() as int)
{
    let b = all_syms(g).len() as int;
    assert forall|i: int| 0 <= i < keys.len() implies cnt(mv(m0)[#[trigger] keys[i]]) <= cnt(mv(m1)[keys[i]]) && cnt(mv(m1)[keys[i]]) <= b + 1 by {
        assert(keys.to_set().contains(keys[i]));
        assert(m0.contains_key(keys[i]) && m1.contains_key(keys[i]));
        lemma_le_cnt(fs_view(m0[keys[i]]), fs_view(m1[keys[i]]));
        lemma_sound_bounded(g, m1, keys[i]);
    }
    let k = choose|k: String| #[trigger] m0.contains_key(k) && cnt(fs_view(m0[k])) < cnt(fs_view(m1[k]));
    assert(keys.to_set().contains(k));
    let i0 = choose|i: int| 0 <= i < keys.len() && keys[i] == k;
    assert(cnt(mv(m0)[keys[i0]]) < cnt(mv(m1)[keys[i0]]));
    lemma_msum_mono(keys, mv(m0), mv(m1), b);
    lemma_msum_nonneg(keys, mv(m1), b);
}
//@]

//@[ C17 ghost (continued)
/// abstract value of the whole map
spec fn mv(m: FsMap) -> Map<String, (Set<DollarlessTerminalName>, bool)> { m.map_values(|f: FirstSet| fs_view(f)) }

/// effect of one rule on the map: only the entry `key` changes, by the rule's contribution under the OLD map
spec fn rule_step(m0: FsMap, m1: FsMap, key: String, syms: Seq<Symbol>) -> bool {
    &&& m1.dom() == m0.dom() && m0.contains_key(key)
    &&& forall|k: String| #[trigger] m0.contains_key(k) && k != key ==> m1[k] == m0[k]
    &&& m1[key].terminals.wf()
    &&& forall|t: DollarlessTerminalName| #[trigger] m1[key].terminals@.contains(t) <==> m0[key].terminals@.contains(t) || fa_seq_first(fa_of(m0), syms, t)
    &&& m1[key].contains_epsilon == (m0[key].contains_epsilon || fa_seq_nullable(fa_of(m0), syms))
}

proof fn lemma_mv_change(m0: FsMap, m1: FsMap, key: String)
    requires m1.dom() == m0.dom(), m0.contains_key(key), forall|k: String| #[trigger] m0.contains_key(k) && k != key ==> m1[k] == m0[k]
    ensures (mv(m1) =~~= mv(m0)) == (fs_view(m1[key]) =~~= fs_view(m0[key]))
{
    if fs_view(m1[key]) =~~= fs_view(m0[key]) {
        assert forall|k: String| mv(m0).contains_key(k) implies #[trigger] mv(m1)[k] =~~= mv(m0)[k] by {}
        assert(mv(m1) =~~= mv(m0));
    } else {
        assert(mv(m1)[key] == fs_view(m1[key]));
        assert(mv(m0)[key] == fs_view(m0[key]));
    }
}

proof fn lemma_covered_key(m: FsMap, i: IdentOrTerminalIdent)
    requires sym_of(i) is Nonterminal ==> fs_has(m, sym_name(sym_of(i)))
    ensures i matches IdentOrTerminalIdent::Ident(id) ==> m.contains_key(id.name)
{
    if let IdentOrTerminalIdent::Ident(id) = i {
        let k = choose|k: String| #![trigger m.contains_key(k)] m.contains_key(k) && k@ == id.name@;
        axiom_string_ext(k, id.name);
    }
}
//@]

pub(super) fn get_first_sets(rules: &[Rule]) -> /*@[*/(r: /*@]*/HashMap<String, FirstSet>/*@[*/)/*@]*/
    //@[ C17 C04 C07 get_first_sets: exactly FIRST and nullable of the grammar (least fixpoint), one entry for every nonterminal that occurs
    ensures fs_wf(r@), fs_covers(r@, rules@), is_first_map(r@, rules@),
    //@]
{
    let builder = FirstSetMapBuilder { rules };
    builder.get_first_sets()
}

struct FirstSetMapBuilder<'a> {
    rules: &'a [Rule<'a>],
}

impl FirstSetMapBuilder<'_> {
    fn get_first_sets(self) -> /*@[*/(r: /*@]*/HashMap<String, FirstSet>/*@[*/)/*@]*/
        //@[ C17 C04 C07 FirstSetMapBuilder::get_first_sets: iterate until a whole pass changes nothing
        ensures fs_wf(r@), fs_covers(r@, self.rules@), is_first_map(r@, self.rules@),
        //@]
    {
        let mut out = self.get_a_map_of_each_nonterminal_to_the_empty_set();
        //@[ proof
        let ghost keys = out@.dom().to_seq();
        let ghost dom0 = out@.dom();
        proof { dom0.lemma_to_seq_to_set_id(); }
        //@]

        loop
            //@[ C17 C07 loop invariant: the map never claims more than the least fixpoint; the measure (room left in the entries) decreases with every changing pass
            invariant fs_wf(out@), fs_covers(out@, self.rules@), fa_sound(self.rules@, fa_of(out@)),
                out@.dom() == dom0, keys.to_set() == dom0,
            decreases msum(keys, mv(out@), all_syms(self.rules@).len() as int),
            //@]
        {
            //@[ proof
            let ghost m0 = out@;
            //@]
            let DidChange(changed) = self.expand(&mut out);
            //@[ proof
            proof { if changed { lemma_pass_decreases(self.rules@, keys, m0, out@); } }
            //@]
            if !changed {
                //@[ proof
                proof {
                    lemma_mv_eq_fa_eq(out@, m0);
                    lemma_fa_eq_closed(self.rules@, fa_of(m0), fa_of(out@));
                    lemma_closed_sound_is_lfp(self.rules@, fa_of(out@));
                }
                //@]
                return out;
            }
        }
    }

    fn get_a_map_of_each_nonterminal_to_the_empty_set(&self) -> /*@[*/(r: /*@]*/HashMap<String, FirstSet>/*@[*/)/*@]*/
        //@[ C17 C07 get_a_map_of_each_nonterminal_to_the_empty_set: bottom element, with an entry for every nonterminal that occurs
        ensures fs_wf(r@), fs_covers(r@, self.rules@), fa_sound(self.rules@, fa_of(r@)),
        //@]
    {
        let mut out = HashMap::new();
        /*@{ bind_iterated_value*//*@- for name in self.get_nonterminal_names() *//*@|*/let __vx_names = self.get_nonterminal_names();
        let ghost names_all: Set<&str> = __vx_names@;
        for name in __vx_it: __vx_names/*@}*/
            //@[ C17 loop invariant: every name listed so far is a key with the empty set
            invariant
                fs_wf(out@), forall|k: String| #[trigger] out@.contains_key(k) ==> out@[k].terminals@ =~= Set::empty() && !out@[k].contains_epsilon,
                names_cover(__vx_it.seq().to_set(), self.rules@),
                forall|i: int| 0 <= i < __vx_it.index@ ==> fs_has(out@, (#[trigger] __vx_it.seq()[i])@),
                names_all == __vx_it.seq().to_set(),
            ensures
                names_cover(names_all, self.rules@),
                forall|a: Seq<char>| has_name(names_all, a) ==> fs_has(out@, a),
            //@]
        {
            //@[ proof
            let ghost m0 = out@;
            //@]
            out.insert(
                name.to_owned(),
                FirstSet {
                    terminals: Oset::new(),
                    contains_epsilon: false,
                },
            );
            //@[ proof
            proof {
                let k0 = choose|k0: String| k0@ == name@ && out@ == m0.insert(k0, out@[k0]) && out@.contains_key(k0)
                    && out@[k0].terminals.seq() =~= Seq::empty() && !out@[k0].contains_epsilon;
                crate::data::oset::lemma_empty_oset(out@[k0].terminals);
                assert forall|i: int| 0 <= i < __vx_it.index@ + 1 implies fs_has(out@, (#[trigger] __vx_it.seq()[i])@) by {
                    if i < __vx_it.index@ {
                        let k = choose|k: String| #![trigger m0.contains_key(k)] m0.contains_key(k) && k@ == __vx_it.seq()[i]@;
                        assert(out@.contains_key(k));
                    } else { assert(out@.contains_key(k0)); }
                }
            }
            //@]
        }
        //@[ proof
        proof {
            let g = self.rules@;
            assert forall|ri: int| 0 <= ri < g.len() implies fs_has(out@, rule_lhs(#[trigger] g[ri]))
                && forall|i: int| 0 <= i < rule_rhs(g[ri]).len() && (#[trigger] rule_rhs(g[ri])[i]) is Nonterminal ==> fs_has(out@, sym_name(rule_rhs(g[ri])[i])) by {
                assert(has_lhs(names_all, g, ri));
                assert forall|i: int| 0 <= i < rule_rhs(g[ri]).len() && (#[trigger] rule_rhs(g[ri])[i]) is Nonterminal implies fs_has(out@, sym_name(rule_rhs(g[ri])[i])) by {
                    assert(has_rhs(names_all, g, ri, i));
                }
            }
            assert(fa_sound(self.rules@, fa_of(out@)));
        }
        //@]
        out
    }

    /// Returns every nonterminal that has a rule or
    /// appears in the right-hand side of a rule.
    /// The latter matters for nonterminals that have no rules
    /// (i.e., enums with zero variants).
    fn get_nonterminal_names(&self) -> /*@[*/(r: /*@]*/Oset<&str>/*@[*/)/*@]*/
        //@[ C07 C17 get_nonterminal_names: every nonterminal that has a rule or occurs in a right-hand side
        ensures r.wf(), names_cover(r@, self.rules@),
        //@]
    {
        let mut names: Oset<&str> = self
            .rules
            .iter()
            .map(|rule/*@[*/: &Rule/*@]*/| /*@[*/-> (o: &str) ensures o@ == rule_lhs(*rule) { /*@]*/rule.constructor_name.type_name()/*@[*/ }/*@]*/)
            .collect();
        //@[ proof
        proof {
            assert forall|ri: int| 0 <= ri < self.rules@.len() implies #[trigger] has_lhs(names@, self.rules@, ri) by {
                lemma_collected_lhs(self.rules@, names@, ri);
            }
        }
        //@]
        for rule in /*@[*/__vx_it: /*@]*/self.rules
            //@[ C07 loop invariant: left-hand sides, plus the right-hand sides of the rules seen so far
            invariant
                names.wf(), __vx_it.seq().len() == self.rules@.len(),
                forall|i: int| 0 <= i < self.rules@.len() ==> *(#[trigger] __vx_it.seq()[i]) == self.rules@[i],
                forall|ri: int| 0 <= ri < self.rules@.len() ==> #[trigger] has_lhs(names@, self.rules@, ri),
                forall|ri: int, i: int| 0 <= ri < __vx_it.index@ && 0 <= i < rule_rhs(self.rules@[ri]).len() ==> #[trigger] has_rhs(names@, self.rules@, ri, i),
            //@]
        {
            //@[ proof
            let ghost ri0 = __vx_it.index@;
            //@]
            for i in /*@[*/__vx_it2: /*@]*/0..rule.fieldset.len()
                //@[ C07 loop invariant (fields)
                invariant
                    names.wf(), *rule == self.rules@[ri0], 0 <= ri0 < self.rules@.len(),
                    forall|ri: int| 0 <= ri < self.rules@.len() ==> #[trigger] has_lhs(names@, self.rules@, ri),
                    forall|ri: int, i2: int| 0 <= ri < ri0 && 0 <= i2 < rule_rhs(self.rules@[ri]).len() ==> #[trigger] has_rhs(names@, self.rules@, ri, i2),
                    forall|i2: int| 0 <= i2 < i ==> #[trigger] has_rhs(names@, self.rules@, ri0, i2),
                //@]
            {
                //@[ proof
                let ghost names0 = names@;
                //@]
                if let IdentOrTerminalIdent::Ident(ident) = rule.fieldset.get_symbol_ident(i) {
                    names.insert(&ident.name);
                    //@[ proof
                    proof {
                        let n0 = choose|n0: &str| names@ == names0.insert(n0) && n0@ == ident.name@;
                        assert(names@.contains(n0));
                    }
                    //@]
                }
                //@[ proof
                proof {
                    assert(rule_rhs(self.rules@[ri0])[i as int] == sym_of(fieldset_idents(*rule.fieldset)[i as int]));
                    lemma_has_name_mono(names0, names@);
                    assert forall|ri: int| 0 <= ri < self.rules@.len() implies #[trigger] has_lhs(names@, self.rules@, ri) by { assert(has_lhs(names0, self.rules@, ri)); }
                    assert forall|ri: int, i2: int| 0 <= ri < ri0 && 0 <= i2 < rule_rhs(self.rules@[ri]).len() implies #[trigger] has_rhs(names@, self.rules@, ri, i2) by { assert(has_rhs(names0, self.rules@, ri, i2)); }
                    assert forall|i2: int| 0 <= i2 < i + 1 implies #[trigger] has_rhs(names@, self.rules@, ri0, i2) by { if i2 < i { assert(has_rhs(names0, self.rules@, ri0, i2)); } }
                }
                //@]
            }
        }
        names
    }

    fn expand(&self, out: &mut HashMap<String, FirstSet>) -> /*@[*/(r: /*@]*/DidChange/*@[*/)/*@]*/
        //@[ C17 C04 C07 expand: one pass over all rules; `no change` means the map is closed under every rule
        requires fs_wf(old(out)@), fs_covers(old(out)@, self.rules@),
        ensures fs_wf(final(out)@), fs_covers(final(out)@, self.rules@),
            fa_sound(self.rules@, fa_of(old(out)@)) ==> fa_sound(self.rules@, fa_of(final(out)@)),
            !r.0 ==> mv(final(out)@) =~~= mv(old(out)@) && fa_closed(self.rules@, fa_of(old(out)@)),
            grew(old(out)@, final(out)@), r.0 ==> grew_strictly(old(out)@, final(out)@),
        //@]
    {
        let mut changed = DidChange(false);
        //@[ proof
        let ghost g = self.rules@;
        let ghost m_init = out@;
        //@]
        for rule in /*@[*/__vx_it: /*@]*/self.rules
            //@[ C17 loop invariant: as long as nothing changed, the rules seen so far are closed under the initial map
            invariant
                g == self.rules@, __vx_it.seq().len() == g.len(),
                forall|i: int| 0 <= i < g.len() ==> *(#[trigger] __vx_it.seq()[i]) == g[i],
                fs_wf(out@), out@.dom() == m_init.dom(), fs_covers(m_init, g),
                fa_sound(g, fa_of(m_init)) ==> fa_sound(g, fa_of(out@)),
                !changed.0 ==> mv(out@) =~~= mv(m_init)
                    && forall|ri: int| 0 <= ri < __vx_it.index@ ==> #[trigger] rule_closed(fa_of(m_init), g[ri]),
                grew(m_init, out@), changed.0 ==> grew_strictly(m_init, out@),
            //@]
        {
            //@[ proof
            let ghost ri = __vx_it.index@;
            let ghost m0 = out@;
            proof { assert(*rule == g[ri]); lemma_covers_dom(m_init, m0, g); }
            //@]
            changed |= expand_rule(rule, out);
            //@[ proof
            proof {
                let key = choose|key: String| #![trigger m0.contains_key(key)] m0.contains_key(key) && key@ == rule_lhs(*rule) && rule_step(m0, out@, key, rule_rhs(*rule));
                lemma_rule_step_sound(g, m0, out@, key, ri);
                lemma_rule_step_grew(m0, out@, key, rule_rhs(*rule));
                if !(mv(out@) =~~= mv(m0)) { assert(grew_strictly(m0, out@)); }
                lemma_grew_trans(m_init, m0, out@);
                if !changed.0 {
                    lemma_rule_step_closed(m0, out@, key, g[ri]);
                    lemma_mv_eq_fa_eq(m0, m_init);
                    lemma_fa_eq_rule_closed(fa_of(m0), fa_of(m_init), g[ri]);
                }
            }
            //@]
        }
        //@[ proof
        proof {
            lemma_covers_dom(m_init, out@, g);
            if !changed.0 {
                let fa = fa_of(m_init);
                assert forall|ri: int| 0 <= ri < g.len() implies
                    (fa_seq_nullable(fa, rule_rhs(#[trigger] g[ri])) ==> (fa.nul)(rule_lhs(g[ri])))
                    && (forall|t: DollarlessTerminalName| fa_seq_first(fa, rule_rhs(g[ri]), t) ==> #[trigger] (fa.fst)(rule_lhs(g[ri]), t)) by {
                    assert(rule_closed(fa, g[ri]));
                }
            }
        }
        //@]
        changed
    }
}

fn expand_rule(rule: &Rule, out: &mut HashMap<String, FirstSet>) -> /*@[*/(r: /*@]*/DidChange/*@[*/)/*@]*/
    //@[ C17 C07 expand_rule: add FIRST(rhs) under the current map to the entry of the rule's left-hand side (which exists: no panic)
    requires fs_wf(old(out)@), fs_has(old(out)@, rule_lhs(*rule)), syms_covered(old(out)@, rule_rhs(*rule)),
    ensures fs_wf(final(out)@), final(out)@.dom() == old(out)@.dom(),
        exists|key: String| #![trigger old(out)@.contains_key(key)] old(out)@.contains_key(key) && key@ == rule_lhs(*rule)
            && rule_step(old(out)@, final(out)@, key, rule_rhs(*rule)),
        r.0 == !(mv(final(out)@) =~~= mv(old(out)@)),
    //@]
{
    //@[ proof
    let ghost m0 = out@;
    //@]
    let current_first = get_current_first_set(rule.fieldset, out);
    let first_set = out.get_mut(rule.constructor_name.type_name()).unwrap();
    //@[ proof
    let ghost old_entry = *first_set;
    let ghost key = choose|key: String| #![trigger m0.contains_key(key)] m0.contains_key(key) && key@ == rule_lhs(*rule) && m0[key] == old_entry;
    //@]
    /*@{ tail_add_all*//*@- add_all(current_first, first_set) *//*@|*/let __vx_r = add_all(current_first, first_set);
    proof {
        let m1 = out@;
        assert forall|k: String, q: &str| q@ == rule_lhs(*rule) && #[trigger] m0.contains_key(k) implies (#[trigger] key_denoted_by(k, q) <==> k == key) by {
            if k@ == key@ { axiom_string_ext(k, key); }
            let single = Map::<String, ()>::empty().insert(k, ());
            assert(single.contains_key(k));
            assert forall|k2: String| #[trigger] single.contains_key(k2) implies k2 == k by {}
        }
        assert(rule_step(m0, m1, key, rule_rhs(*rule)));
        lemma_mv_change(m0, m1, key);
    }
    __vx_r/*@}*/
}

fn get_current_first_set(fieldset: &Fieldset, map: &HashMap<String, FirstSet>) -> /*@[*/(r: /*@]*/FirstSet/*@[*/)/*@]*/
    //@[ C17 C07 get_current_first_set: FIRST and nullability of a right-hand side under the current map
    requires fs_wf(map@), syms_covered(map@, fieldset_syms(*fieldset)),
    ensures r.terminals.wf(), seq_first_result(fa_of(map@), fieldset_syms(*fieldset), r.terminals@, r.contains_epsilon),
    //@]
{
    match fieldset {
        Fieldset::Empty => get_current_first_set_for_empty_fieldset(),
        Fieldset::Named(named) => get_current_first_set_for_named_fieldset(named, map),
        Fieldset::Tuple(tuple) => get_current_first_set_for_tuple_fieldset(tuple, map),
    }
}

fn get_current_first_set_for_named_fieldset(
    named: &NamedFieldset,
    map: &HashMap<String, FirstSet>,
) -> /*@[*/(r: /*@]*/FirstSet/*@[*/)/*@]*/
    //@[ C17 C07 get_current_first_set_for_named_fieldset: FIRST and nullability of the field symbols under the current map
    requires fs_wf(map@), syms_covered(map@, fieldset_syms(Fieldset::Named(*named))),
    ensures r.terminals.wf(), seq_first_result(fa_of(map@), fieldset_syms(Fieldset::Named(*named)), r.terminals@, r.contains_epsilon),
    //@]
{
    let mut out = FirstSet {
        terminals: Oset::new(),
        contains_epsilon: true,
    };
    //@[ proof
    let ghost fa = fa_of(map@);
    let ghost syms = fieldset_syms(Fieldset::Named(*named));
    let ghost mut b: int = 0;
    let ghost mut closed = false;
    proof { assert(out.terminals@ =~= Set::empty()); }
    //@]

    for field in /*@[*/__vx_it: /*@]*/&named.fields
        //@[ C17 loop invariant: contributions of the first b symbols
        invariant_except_break
            !closed, b == __vx_it.index@,
        invariant
            fs_wf(map@), syms_covered(map@, syms), fa == fa_of(map@), syms == fieldset_syms(Fieldset::Named(*named)),
            syms.len() == named.fields@.len(), __vx_it.seq().len() == named.fields@.len(),
            forall|i: int| 0 <= i < named.fields@.len() ==> *(#[trigger] __vx_it.seq()[i]) == named.fields@[i],
            out.terminals.wf(), seq_loop_inv(fa, syms, out.terminals@, out.contains_epsilon, b, closed),
        ensures
            closed || b == syms.len(),
        //@]
    {
        //@[ proof
        proof { assert(syms[b] == sym_of(field.symbol)); assert(syms[b] is Nonterminal ==> fs_has(map@, sym_name(syms[b]))); lemma_covered_key(map@, field.symbol); }
        let ghost terms0 = out.terminals@;
        //@]
        let first = get_current_first_set_for_symbol(&field.symbol, map);
        out.terminals.extend(first.terminals);
        //@[ proof
        proof {
            lemma_seq_loop_step(fa, syms, terms0, b, first.terminals@, first.contains_epsilon);
            assert(out.terminals@ =~= terms0.union(first.terminals@));
            b = b + 1;
            closed = !first.contains_epsilon;
        }
        //@]

        if !first.contains_epsilon {
            out.contains_epsilon = false;
            break;
        }
    }
    //@[ proof
    proof { lemma_seq_loop_done(fa, syms, out.terminals@, out.contains_epsilon, b, closed); }
    //@]

    out
}

fn get_current_first_set_for_tuple_fieldset(
    tuple: &TupleFieldset,
    map: &HashMap<String, FirstSet>,
) -> /*@[*/(r: /*@]*/FirstSet/*@[*/)/*@]*/
    //@[ C17 C07 get_current_first_set_for_tuple_fieldset: FIRST and nullability of the field symbols under the current map
    requires fs_wf(map@), syms_covered(map@, fieldset_syms(Fieldset::Tuple(*tuple))),
    ensures r.terminals.wf(), seq_first_result(fa_of(map@), fieldset_syms(Fieldset::Tuple(*tuple)), r.terminals@, r.contains_epsilon),
    //@]
{
    let mut out = FirstSet {
        terminals: Oset::new(),
        contains_epsilon: true,
    };
    //@[ proof
    let ghost fa = fa_of(map@);
    let ghost syms = fieldset_syms(Fieldset::Tuple(*tuple));
    let ghost mut b: int = 0;
    let ghost mut closed = false;
    proof { assert(out.terminals@ =~= Set::empty()); }
    //@]

    for field in /*@[*/__vx_it: /*@]*/&tuple.fields
        //@[ C17 loop invariant: contributions of the first b symbols
        invariant_except_break
            !closed, b == __vx_it.index@,
        invariant
            fs_wf(map@), syms_covered(map@, syms), fa == fa_of(map@), syms == fieldset_syms(Fieldset::Tuple(*tuple)),
            syms.len() == tuple.fields@.len(), __vx_it.seq().len() == tuple.fields@.len(),
            forall|i: int| 0 <= i < tuple.fields@.len() ==> *(#[trigger] __vx_it.seq()[i]) == tuple.fields@[i],
            out.terminals.wf(), seq_loop_inv(fa, syms, out.terminals@, out.contains_epsilon, b, closed),
        ensures
            closed || b == syms.len(),
        //@]
    {
        //@[ proof
        proof { assert(syms[b] == sym_of(tuple_field_sym(*field))); assert(syms[b] is Nonterminal ==> fs_has(map@, sym_name(syms[b]))); lemma_covered_key(map@, tuple_field_sym(*field)); }
        let ghost terms0 = out.terminals@;
        //@]
        let first = get_current_first_set_for_symbol(field.symbol(), map);
        out.terminals.extend(first.terminals);
        //@[ proof
        proof {
            lemma_seq_loop_step(fa, syms, terms0, b, first.terminals@, first.contains_epsilon);
            assert(out.terminals@ =~= terms0.union(first.terminals@));
            b = b + 1;
            closed = !first.contains_epsilon;
        }
        //@]

        if !first.contains_epsilon {
            out.contains_epsilon = false;
            break;
        }
    }
    //@[ proof
    proof { lemma_seq_loop_done(fa, syms, out.terminals@, out.contains_epsilon, b, closed); }
    //@]

    out
}

fn get_current_first_set_for_symbol(
    symbol: &IdentOrTerminalIdent,
    map: &HashMap<String, FirstSet>,
) -> /*@[*/(r: /*@]*/FirstSet/*@[*/)/*@]*/
    //@[ C17 C07 get_current_first_set_for_symbol: a terminal is its own FIRST; a nonterminal's current entry (which exists: no panic)
    requires fs_wf(map@), symbol matches IdentOrTerminalIdent::Ident(id) ==> map@.contains_key(id.name),
    ensures r.terminals.wf(),
        forall|t: DollarlessTerminalName| #[trigger] r.terminals@.contains(t) <==>
            (sym_of(*symbol) == Symbol::Terminal(t) || (sym_of(*symbol) is Nonterminal && (fa_of(map@).fst)(sym_name(sym_of(*symbol)), t))),
        r.contains_epsilon == (sym_of(*symbol) is Nonterminal && (fa_of(map@).nul)(sym_name(sym_of(*symbol)))),
    //@]
{
    //@[ proof
    proof {
        if let IdentOrTerminalIdent::Ident(id) = symbol {
            assert forall|k: String| #[trigger] map@.contains_key(k) && k@ == id.name@ implies k == id.name by { axiom_string_ext(k, id.name); }
        }
    }
    //@]
    match symbol {
        IdentOrTerminalIdent::Ident(ident) => map.get(&ident.name).unwrap().clone(),
        IdentOrTerminalIdent::Terminal(terminal_ident) => FirstSet {
            terminals: /*@{ T13_singleton*//*@- [terminal_ident.name.clone()].into_iter().collect() *//*@|*/__vx_singleton(terminal_ident)/*@}*/,
            contains_epsilon: false,
        },
    }
}

fn get_current_first_set_for_empty_fieldset() -> /*@[*/(r: /*@]*/FirstSet/*@[*/)/*@]*/
    //@[ C17 get_current_first_set_for_empty_fieldset: the empty production is nullable and has no first terminal
    ensures r.terminals.wf(), r.terminals@ == Set::<DollarlessTerminalName>::empty(), r.contains_epsilon,
    //@]
{

    FirstSet {
        terminals: Oset::new(),
        contains_epsilon: true,
    }
}

fn add_all(new: FirstSet, out: &mut FirstSet) -> /*@[*/(r: /*@]*/DidChange/*@[*/)/*@]*/
    //@[ C17 C04 add_all: union into the accumulator; reports a change iff the terminal set OR the nullable flag changed
    requires old(out).terminals.wf(), new.terminals.wf(),
    ensures final(out).terminals.wf(),
        final(out).terminals@ == old(out).terminals@.union(new.terminals@),
        final(out).contains_epsilon == (old(out).contains_epsilon || new.contains_epsilon),
        r.0 == !(fs_view(*final(out)) =~~= fs_view(*old(out))),
    //@]
{
    //@[ proof
    proof { crate::data::oset::lemma_oset_len(out.terminals); }
    //@]
    let old_len = out.terminals.len();
    let did_contain_epsilon = out.contains_epsilon;

    out.terminals.extend(new.terminals);
    /*@{ T7_bool_or_assign*//*@- out.contains_epsilon |= new.contains_epsilon; *//*@|*/out.contains_epsilon = out.contains_epsilon || new.contains_epsilon;/*@}*/

    //@[ proof
    proof {
        crate::data::oset::lemma_oset_len(out.terminals);
        if out.terminals.seq().len() == old_len {
            vstd::set_lib::lemma_subset_equality(old(out).terminals@, out.terminals@);
        }
    }
    //@]
    DidChange(out.terminals.len() != old_len || out.contains_epsilon != did_contain_epsilon)
}

#[derive(Debug, Clone, Copy)]
struct DidChange(bool);

//@[ spec side of `|=` on DidChange (vstd operator specs)
impl vstd::std_specs::ops::BitOrAssignSpecImpl for DidChange {
    closed spec fn obeys_bitor_assign_spec() -> bool { true }
    closed spec fn bitor_assign_req(&self, rhs: DidChange) -> bool { true }
    closed spec fn bitor_assign_spec(&self, rhs: DidChange) -> &DidChange { &DidChange(self.0 || rhs.0) }
}
//@]

//@[ T13: outlined expression (current /repo tokens; body not verified, contract assumed)
#[verifier::external_body]
fn __vx_singleton(terminal_ident: &TerminalIdent) -> (r: Oset<DollarlessTerminalName>)
    ensures r.wf(), r@ == Set::<DollarlessTerminalName>::empty().insert(terminal_ident.name)
{ /*@orig T13_singleton*/ }
//@]

impl std::ops::BitOrAssign for DidChange {
    fn bitor_assign(&mut self, rhs: Self) {
        /*@{ T7_bool_or_assign2*//*@- self.0 |= rhs.0; *//*@|*/self.0 = self.0 || rhs.0;/*@}*/
    }
}
