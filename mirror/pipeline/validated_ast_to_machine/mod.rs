//@file kiki/src/pipeline/validated_ast_to_machine/mod.rs mod=crate::pipeline::validated_ast_to_machine
//@[ imports
use vstd::prelude::*;
use vstd::std_specs::iter::*;
use vstd::std_specs::cmp::*;
use crate::vx_gram::*;
use crate::vx_ord::*;
use crate::vx_hash::*;
use crate::vx_utf8::*;
broadcast use {vstd::std_specs::hash::group_hash_axioms, crate::vx_hash_ax::group_key_models, crate::vx_ordax::group_lawful, crate::data::oset::axiom_yielded_oset, crate::vx_ord::axiom_yielded_vec, crate::vx_hash::group_string_keys};
//@]
use crate::data::{
    machine::*, unnormalized_machine::UnnormalizedMachine, validated_file::*,
    DollarlessTerminalName, Oset, Symbol,
};

use std::collections::VecDeque;
use std::collections::{HashMap, HashSet};

use crate::pipeline::normalize_machine::normalize_machine;

/// Converts the AST to a finite state machine (FSM).
pub fn validated_ast_to_machine(file: &File) -> /*@[*/(r: /*@]*/Machine/*@[*/)/*@]*/
    //@[ C17 C04 C11 C14 validated_ast_to_machine: the LALR(1) automaton of the file's grammar, up to the renumbering done by normalisation
    ensures is_lalr_of(file, r),
    //@]
{
    let builder = UnnormalizedMachineBuilder::new(file);
    //@[ proof
    let ghost gr = builder.gr();
    //@]
    let unnormalized = builder.build();
    //@[ proof
    proof {
        let st = unnormalized.states@;
        let its = st.map_values(|s: State| s.items@);
        assert forall|i: int, j: int| 0 <= i < j < st.len() implies #[trigger] st[i] != #[trigger] st[j] by {
            if st[i] == st[j] { assert(its[i] == its[j]); lemma_same_core_refl(its[i]); assert(same_core(its[i], its[j])); }
        }
        assert(gr == file_gram(file));
    }
    //@]
    normalize_machine(unnormalized)
}

#[derive(Debug, Clone)]
struct UnnormalizedMachineBuilder<'a> {
    context: ImmutContext<'a>,
    /// The first state is the start state.
    states: Vec<State>,
    transitions: HashSet<Transition>,
    queue: VecDeque<StateIndex>,
}

#[derive(Debug, Clone)]
struct ImmutContext<'a> {
    start_nonterminal_name: String,
    rules: Vec<Rule<'a>>,
    first_sets: HashMap<String, FirstSet>,
}

//@[ T8: derived Clone kept external; structural contract assumed below
#[verifier::external_derive(Clone)]
//@]
#[derive(Debug, Clone)]
struct FirstSet {
    terminals: Oset<DollarlessTerminalName>,
    contains_epsilon: bool,
}

#[derive(Debug, Clone)]
struct AugmentedFirstSet(Oset<Lookahead>);

//@[ C17 C07 ghost vocabulary: the assignment a first-set map stands for
pub assume_specification[ <FirstSet as Clone>::clone ](x: &FirstSet) -> (r: FirstSet) ensures r == *x;

type FsMap = Map<String, FirstSet>;

/// every stored terminal set is a well-formed ordered set
spec fn fs_wf(m: FsMap) -> bool { forall|k: String| #[trigger] m.contains_key(k) ==> m[k].terminals.wf() }

/// some key of the map is called a
spec fn fs_has(m: FsMap, a: Seq<char>) -> bool { exists|k: String| #![trigger m.contains_key(k)] m.contains_key(k) && k@ == a }

/// the (FIRST, nullable) assignment the map stands for
spec fn fa_of(m: FsMap) -> FA {
    FA {
        fst: |a: Seq<char>, t: DollarlessTerminalName| exists|k: String| #![trigger m.contains_key(k)] m.contains_key(k) && k@ == a && m[k].terminals@.contains(t),
        nul: |a: Seq<char>| exists|k: String| #![trigger m.contains_key(k)] m.contains_key(k) && k@ == a && m[k].contains_epsilon,
    }
}

/// the map is exactly FIRST / nullable of the grammar
spec fn is_first_map(m: FsMap, g: Seq<Rule>) -> bool {
    &&& forall|a: Seq<char>| #[trigger] (fa_of(m).nul)(a) <==> nullable(g, a)
    &&& forall|a: Seq<char>, t: DollarlessTerminalName| #[trigger] (fa_of(m).fst)(a, t) <==> in_first(g, a, t)
}

/// every nonterminal of the sequence is a key of the map
spec fn syms_covered(m: FsMap, syms: Seq<Symbol>) -> bool {
    forall|i: int| 0 <= i < syms.len() && (#[trigger] syms[i]) is Nonterminal ==> fs_has(m, sym_name(syms[i]))
}

impl<'a> ImmutContext<'a> {
    /// the augmented grammar of this context
    spec fn gr(&self) -> Gram<'a> { Gram { g: self.rules@, start: self.start_nonterminal_name } }
    /// the first-set map is FIRST/nullable of the rules and has an entry for every nonterminal that occurs
    spec fn wf(&self) -> bool {
        fs_wf(self.first_sets@) && fs_covers(self.first_sets@, self.rules@) && is_first_map(self.first_sets@, self.rules@)
    }
}

/// the first-set map and the least fixpoint agree on every symbol sequence
proof fn lemma_first_map_seq(m: FsMap, g: Seq<Rule>, syms: Seq<Symbol>)
    requires is_first_map(m, g)
    ensures fa_seq_nullable(fa_of(m), syms) == seq_nullable(g, syms),
        forall|t: DollarlessTerminalName| fa_seq_first(fa_of(m), syms, t) == seq_in_first(g, syms, t),
{
    assert(fa_eq(fa_of(m), fa_lfp(g)));
    lemma_fa_eq_seq(fa_of(m), fa_lfp(g), syms);
}

/// the symbols of a well-formed item's rule are all known to the first-set map
proof fn lemma_rhs_covered(ctx: &ImmutContext, it: StateItem, from: int)
    requires ctx.wf(), item_wf(ctx.gr(), it), 0 <= from, it.rule_index is Augmented ==> from >= 1,
    ensures syms_covered(ctx.first_sets@, rhs_from(ctx.gr(), it, from)),
        it.rule_index is Original ==> it.rule_index->Original_0 < ctx.rules@.len(),
{
    let syms = rhs_from(ctx.gr(), it, from);
    match it.rule_index {
        RuleIndex::Original(ri) => {
            let rhs = rule_rhs(ctx.rules@[ri as int]);
            assert forall|i: int| 0 <= i < syms.len() && (#[trigger] syms[i]) is Nonterminal implies fs_has(ctx.first_sets@, sym_name(syms[i])) by {
                assert(syms[i] == rhs[from + i]);
                assert(rule_rhs(ctx.rules@[ri as int])[from + i] is Nonterminal);
            }
        }
        RuleIndex::Augmented => {
            // only the empty rest (dot advanced past `start`) is ever looked at; the start name itself need not be a key
            assert(syms =~= Seq::<Symbol>::empty());
        }
    }
}

proof fn lemma_item_rhs_len(ctx: &ImmutContext, it: StateItem)
    requires item_wf(ctx.gr(), it)
    ensures after_dot(ctx.gr(), it) is Some ==> it.dot < item_rhs(ctx.gr(), it).len() && it.dot + 1 <= usize::MAX && item_wf(ctx.gr(), advanced(it)),
        item_rhs(ctx.gr(), advanced(it)) == item_rhs(ctx.gr(), it),
        forall|k: int| rhs_from(ctx.gr(), advanced(it), k) == rhs_from(ctx.gr(), it, k),
{
    if let RuleIndex::Original(ri) = it.rule_index {
        match *ctx.rules@[ri as int].fieldset {
            Fieldset::Empty => {}
            Fieldset::Named(n) => { vstd::std_specs::vec::axiom_spec_len(&n.fields); }
            Fieldset::Tuple(t) => { vstd::std_specs::vec::axiom_spec_len(&t.fields); }
        }
    }
}

impl<'a> UnnormalizedMachineBuilder<'a> {
    spec fn gr(&self) -> Gram<'a> { self.context.gr() }
    /// the item sets of the states, by state index
    spec fn its(&self) -> Seq<Set<StateItem>> { self.states@.map_values(|st: State| st.items@) }
    /// basic well-formedness: ordered sets sorted, items refer to existing rules, queued indices exist
    spec fn bwf(&self) -> bool {
        &&& self.context.wf() && self.states@.len() >= 1
        &&& forall|s: int| 0 <= s < self.states@.len() ==> (#[trigger] self.states@[s]).items.wf()
        &&& forall|s: int, x: StateItem| 0 <= s < self.states@.len() && #[trigger] self.states@[s].items@.contains(x) ==> item_wf(self.gr(), x)
        &&& forall|i: int| 0 <= i < self.queue@.len() ==> (#[trigger] self.queue@[i]).0 < self.states@.len()
        &&& forall|t: Transition| #[trigger] self.transitions@.contains(t) ==> t.from.0 < self.states@.len() && t.to.0 < self.states@.len()
    }
}

/// the augmented grammar of a validated file
pub open spec fn file_gram(file: &File) -> Gram<'_> { Gram { g: file_rules(file), start: file.start } }

/// m is the LALR(1) automaton of the file's grammar up to a renumbering of the states: there are item sets and
/// transitions satisfying machine_is_lalr (state 0 = start state) of which m is the image under a bijection of indices
pub open spec fn is_lalr_of(file: &File, m: Machine) -> bool {
    exists|states: Seq<State>, tr: Set<Transition>, pi: Seq<usize>|
        #![trigger crate::pipeline::normalize_machine::is_renumbering(pi, states, tr, m)]
        machine_is_lalr(file_gram(file), states.map_values(|st: State| st.items@), tr)
        && (forall|s: int| 0 <= s < states.len() ==> (#[trigger] states[s]).items.wf())
        && (forall|s: int, x: StateItem| 0 <= s < states.len() && #[trigger] states[s].items@.contains(x) ==> item_wf(file_gram(file), x))
        && crate::pipeline::normalize_machine::is_renumbering(pi, states, tr, m)
}

/// the start configuration satisfies the invariant
proof fn lemma_initial_inv(gr: Gram, t: Set<StateItem>)
    requires is_closure_of(gr, Set::<StateItem>::empty().insert(start_item()), t)
    ensures inv_core(gr, seq![t], Set::<Transition>::empty())
{
    let k = Set::<StateItem>::empty().insert(start_item());
    let its = seq![t];
    let tr = Set::<Transition>::empty();
    lemma_closure_is_closed(gr, k, t);
    assert(t.contains(start_item()));
    assert forall|y: StateItem| #[trigger] k.contains(y) implies lalr_in(gr, tr, 0, y) by { assert(lalr_reach(gr, tr, 0, 0, y)); }
    assert forall|s: int, x: StateItem| 0 <= s < its.len() && #[trigger] its[s].contains(x) implies lalr_in(gr, tr, s, x) by {
        let n = choose|n: nat| closure_reach(gr, k, n, x);
        lemma_lalr_closure(gr, tr, 0, k, n, x);
    }
}

/// the finished (unnormalised) machine is the LALR(1) automaton of the grammar; well-formedness facts for later stages
spec fn um_is_lalr(gr: Gram, m: UnnormalizedMachine) -> bool {
    let its = m.states@.map_values(|st: State| st.items@);
    &&& machine_is_lalr(gr, its, m.transitions@)
    &&& forall|s: int| 0 <= s < m.states@.len() ==> (#[trigger] m.states@[s]).items.wf()
    &&& forall|s: int, x: StateItem| 0 <= s < m.states@.len() && #[trigger] m.states@[s].items@.contains(x) ==> item_wf(gr, x)
}

/// after processing state s (popped from the queue) the loop invariant holds again
proof fn lemma_build_step(b0: UnnormalizedMachineBuilder, b1: UnnormalizedMachineBuilder, s: int)
    requires pass_post(b0, b1, s, true), 0 <= s < b0.states@.len(), b1.context == b0.context,
        forall|p: int| 0 <= p < b0.states@.len() && p != s ==> queued(b0.queue@, p) || #[trigger] processed(b0.gr(), b0.its(), b0.transitions@, p),
    ensures b1.binv()
{
    let gr = b0.gr();
    assert forall|p: int| 0 <= p < b1.states@.len() implies queued(b1.queue@, p) || #[trigger] processed(gr, b1.its(), b1.transitions@, p) by {
        if p >= b0.states@.len() || b1.its()[p] != b0.its()[p] { assert(queued(b1.queue@, p)); }
        else if p == s { }
        else if queued(b0.queue@, p) { assert(queued(b1.queue@, p)); }
        else { assert(processed(gr, b0.its(), b0.transitions@, p)); }
    }
}

/// relation between the builder before (b0) and during/after (b1) one pass over the symbols of state s:
/// the queue-independent invariant holds, item sets and queue only grow, whoever grew or was created is queued,
/// untouched processed states stay processed; `done`: s itself is processed unless it grew
spec fn pass_post(b0: UnnormalizedMachineBuilder, b1: UnnormalizedMachineBuilder, s: int, done: bool) -> bool {
    let gr = b0.gr();
    let n = b0.states@.len() as int;
    &&& b1.bwf() && b1.states@.len() >= n && inv_core(gr, b1.its(), b1.transitions@)
    &&& forall|p: int| 0 <= p < n ==> b0.its()[p].subset_of(#[trigger] b1.its()[p])
    &&& forall|p: int| queued(b0.queue@, p) ==> #[trigger] queued(b1.queue@, p)
    &&& forall|p: int| 0 <= p < b1.states@.len() && (p >= n || b1.its()[p] != b0.its()[p]) ==> #[trigger] queued(b1.queue@, p)
    &&& forall|p: int| 0 <= p < n && p != s && b1.its()[p] == b0.its()[p] && processed(gr, b0.its(), b0.transitions@, p) ==> #[trigger] processed(gr, b1.its(), b1.transitions@, p)
    &&& done ==> (b1.its()[s] == b0.its()[s] ==> processed(gr, b1.its(), b1.transitions@, s))
}

proof fn lemma_pass_start(b: UnnormalizedMachineBuilder, s: int)
    requires b.bwf(), inv_core(b.gr(), b.its(), b.transitions@)
    ensures pass_post(b, b, s, false)
{
}

proof fn lemma_queued_push(q: Seq<StateIndex>, r: StateIndex)
    ensures queued(q.push(r), r.0 as int), forall|p: int| queued(q, p) ==> #[trigger] queued(q.push(r), p)
{
    assert(q.push(r)[q.len() as int] == r);
    assert forall|p: int| queued(q, p) implies #[trigger] queued(q.push(r), p) by {
        let k = choose|k: int| 0 <= k < q.len() && (#[trigger] q[k]).0 == p;
        assert(q.push(r)[k] == q[k]);
    }
}

proof fn lemma_pass_step(bs: UnnormalizedMachineBuilder, b0: UnnormalizedMachineBuilder, b1: UnnormalizedMachineBuilder,
                         si: StateIndex, x: Symbol, syms: Seq<Symbol>, kk: int)
    requires
        pass_post(bs, b0, si.0 as int, false), b0.context == bs.context, b1.context == b0.context, b1.bwf(),
        si.0 < bs.states@.len(), bs.states@.len() <= b0.states@.len(),
        ett_post(b0, b1, si, x), 0 <= kk < syms.len(), syms[kk] == x,
        exists|i: StateItem| b0.its()[si.0 as int].contains(i) && #[trigger] has_after(b0.gr(), i, x),
        forall|k: int, i: StateItem| 0 <= k < kk && bs.states@[si.0 as int].items@.contains(i) && #[trigger] has_after(bs.gr(), i, syms[k]) ==>
            exists|t: Transition| #[trigger] b0.transitions@.contains(t) && t.from.0 == si.0 && t.symbol == syms[k] && b0.its()[t.to.0 as int].contains(advanced(i)),
    ensures
        pass_post(bs, b1, si.0 as int, false),
        forall|k: int, i: StateItem| 0 <= k < kk + 1 && bs.states@[si.0 as int].items@.contains(i) && #[trigger] has_after(bs.gr(), i, syms[k]) ==>
            exists|t: Transition| #[trigger] b1.transitions@.contains(t) && t.from.0 == si.0 && t.symbol == syms[k] && b1.its()[t.to.0 as int].contains(advanced(i)),
{
    let gr = bs.gr();
    let s = si.0 as int;
    let (t, r) = choose|t: Set<StateItem>, r: StateIndex| #[trigger] ett_witness(b0, b1, si, x, t, r);
    assert(b0.its()[s] == b0.states@[s].items@);
    lemma_ett_is_step(b0, b1, si, x, t, r);
    vstd::std_specs::vec::axiom_spec_len(&b1.states);
    lemma_step_inv(gr, b0.its(), b0.transitions@, b1.its(), b1.transitions@, s, x, t, r.0 as int);
    let n = bs.states@.len() as int;
    let its0 = b0.its(); let its1 = b1.its();
    // queue growth
    lemma_queued_push(b0.queue@, r);
    assert forall|p: int| queued(b0.queue@, p) implies #[trigger] queued(b1.queue@, p) by {}
    assert forall|p: int| 0 <= p < b1.states@.len() && (p >= n || its1[p] != bs.its()[p]) implies #[trigger] queued(b1.queue@, p) by {
        if p < b0.states@.len() && its1[p] == its0[p] { assert(queued(b0.queue@, p)); }
        else { assert(p == r.0); }
    }
    assert forall|p: int| 0 <= p < n && p != s && its1[p] == bs.its()[p] && processed(gr, bs.its(), bs.transitions@, p) implies #[trigger] processed(gr, its1, b1.transitions@, p) by {
        assert(bs.its()[p].subset_of(its0[p]) && its0[p].subset_of(its1[p]));
        assert(its0[p] =~= bs.its()[p]);
        assert(processed(gr, its0, b0.transitions@, p));
    }
    assert forall|p: int| 0 <= p < n implies bs.its()[p].subset_of(#[trigger] its1[p]) by { assert(bs.its()[p].subset_of(its0[p]) && its0[p].subset_of(its1[p])); }
    // handled symbols
    assert forall|k: int, i: StateItem| 0 <= k < kk + 1 && bs.states@[s].items@.contains(i) && #[trigger] has_after(gr, i, syms[k]) implies
        exists|t2: Transition| #[trigger] b1.transitions@.contains(t2) && t2.from.0 == s && t2.symbol == syms[k] && its1[t2.to.0 as int].contains(advanced(i)) by {
        if k < kk {
            let t2 = choose|t2: Transition| #[trigger] b0.transitions@.contains(t2) && t2.from.0 == s && t2.symbol == syms[k] && its0[t2.to.0 as int].contains(advanced(i));
            assert(b1.transitions@.contains(t2));
            assert(its0[t2.to.0 as int].subset_of(its1[t2.to.0 as int]));
        } else {
            let tn = Transition { from: StateIndex(s as usize), to: StateIndex(r.0 as int as usize), symbol: x };
            assert(bs.its()[s] == bs.states@[s].items@);
            assert(its0[s].contains(i));
            assert(b1.transitions@.contains(tn) && tn.from.0 == s && tn.to.0 == r.0);
        }
    }
}

proof fn lemma_pass_done(bs: UnnormalizedMachineBuilder, b1: UnnormalizedMachineBuilder, s: int, syms: Seq<Symbol>)
    requires pass_post(bs, b1, s, false), 0 <= s < bs.states@.len(), b1.context == bs.context,
        forall|x: Symbol| #[trigger] syms.to_set().contains(x) <==> exists|i: StateItem| bs.states@[s].items@.contains(i) && #[trigger] after_dot(bs.gr(), i) == Some(x),
        forall|k: int, i: StateItem| 0 <= k < syms.len() && bs.states@[s].items@.contains(i) && #[trigger] has_after(bs.gr(), i, syms[k]) ==>
            exists|t: Transition| #[trigger] b1.transitions@.contains(t) && t.from.0 == s && t.symbol == syms[k] && b1.its()[t.to.0 as int].contains(advanced(i)),
    ensures pass_post(bs, b1, s, true)
{
    let gr = bs.gr();
    if b1.its()[s] == bs.its()[s] {
        assert forall|i: StateItem, x: Symbol| b1.its()[s].contains(i) && #[trigger] has_after(gr, i, x) implies
            exists|t: Transition| #[trigger] b1.transitions@.contains(t) && t.from.0 == s && t.symbol == x && b1.its()[t.to.0 as int].contains(advanced(i)) by {
            assert(bs.its()[s] == bs.states@[s].items@);
            assert(syms.to_set().contains(x));
            let k = choose|k: int| 0 <= k < syms.len() && syms[k] == x;
            assert(has_after(gr, i, syms[k]));
        }
    }
}

/// index p is waiting in the queue
spec fn queued(q: Seq<StateIndex>, p: int) -> bool { exists|k: int| 0 <= k < q.len() && (#[trigger] q[k]).0 == p }

impl<'a> UnnormalizedMachineBuilder<'a> {
    /// loop invariant of the construction: the queue-independent invariant, and every state is queued or goto-complete
    spec fn binv(&self) -> bool {
        &&& self.bwf()
        &&& inv_core(self.gr(), self.its(), self.transitions@)
        &&& forall|p: int| 0 <= p < self.states@.len() ==> queued(self.queue@, p) || #[trigger] processed(self.gr(), self.its(), self.transitions@, p)
    }
}

/// the concrete step is an abstract step
proof fn lemma_ett_is_step(b0: UnnormalizedMachineBuilder, b1: UnnormalizedMachineBuilder, s: StateIndex, x: Symbol, t: Set<StateItem>, r: StateIndex)
    requires ett_witness(b0, b1, s, x, t, r), s.0 < b0.states@.len(), b1.context == b0.context,
        exists|i: StateItem| b0.states@[s.0 as int].items@.contains(i) && #[trigger] has_after(b0.gr(), i, x),
    ensures step_rel(b0.gr(), b0.its(), b0.transitions@, b1.its(), b1.transitions@, s.0 as int, x, t, r.0 as int)
{
    let gr = b0.gr();
    let its0 = b0.its(); let its1 = b1.its();
    let n = its0.len() as int;
    let k_set = choose|k_set: Set<StateItem>| #![auto] (forall|k: StateItem| #[trigger] k_set.contains(k) <==> goto_kernel_has(gr, its0[s.0 as int], x, k)) && is_closure_of(gr, k_set, t);
    lemma_kernel_set(gr, its0[s.0 as int], x);
    assert(k_set =~= kernel_set(gr, its0[s.0 as int], x));
    assert(StateIndex(s.0 as int as usize) == s && StateIndex(r.0 as int as usize) == r);
    assert forall|j: int| 0 <= j < n implies its0[j] == #[trigger] b0.states@[j].items@ by {}
    if exists|j: int| 0 <= j < n && same_core(t, #[trigger] its0[j]) {
        let j = choose|j: int| 0 <= j < n && same_core(t, #[trigger] its0[j]);
        assert(same_core(t, b0.states@[j].items@));
        assert(its1 =~= its0.update(r.0 as int, its0[r.0 as int].union(t)));
    } else {
        assert forall|j: int| 0 <= j < n implies !same_core(t, #[trigger] b0.states@[j].items@) by { assert(its0[j] == b0.states@[j].items@); }
        assert(its1 =~= its0.push(t));
    }
}

/// effect of enqueue_transition_target(s, x): some target set T = goto(s, x) is merged/created as state r and (s, x, r) recorded
spec fn ett_witness(b0: UnnormalizedMachineBuilder, b1: UnnormalizedMachineBuilder, s: StateIndex, x: Symbol, t: Set<StateItem>, r: StateIndex) -> bool {
    &&& is_goto_of(b0.gr(), b0.states@[s.0 as int].items@, x, t)
    &&& enq_post(b0, b1, t, r)
    &&& b1.transitions@ == b0.transitions@.insert(Transition { from: s, to: r, symbol: x })
}
spec fn ett_post(b0: UnnormalizedMachineBuilder, b1: UnnormalizedMachineBuilder, s: StateIndex, x: Symbol) -> bool {
    exists|t: Set<StateItem>, r: StateIndex| #[trigger] ett_witness(b0, b1, s, x, t, r)
}

/// effect of enqueue_state_if_needed(t) on states and queue
spec fn enq_post(b0: UnnormalizedMachineBuilder, b1: UnnormalizedMachineBuilder, t: Set<StateItem>, r: StateIndex) -> bool {
    let n = b0.states@.len() as int;
    if exists|j: int| 0 <= j < n && same_core(t, #[trigger] b0.states@[j].items@) {
        // merged into the first state with the same core
        &&& 0 <= r.0 < n && same_core(t, b0.states@[r.0 as int].items@)
        &&& forall|j: int| 0 <= j < r.0 ==> !same_core(t, #[trigger] b0.states@[j].items@)
        &&& b1.states@.len() == n
        &&& forall|j: int| 0 <= j < n && j != r.0 ==> #[trigger] b1.states@[j] == b0.states@[j]
        &&& b1.states@[r.0 as int].items@ == b0.states@[r.0 as int].items@.union(t)
        &&& b1.queue@ == (if b1.states@[r.0 as int].items@ =~= b0.states@[r.0 as int].items@ { b0.queue@ } else { b0.queue@.push(r) })
    } else {
        &&& r.0 == n && b1.states@.len() == n + 1
        &&& forall|j: int| 0 <= j < n ==> #[trigger] b1.states@[j] == b0.states@[j]
        &&& b1.states@[n].items@ == t
        &&& b1.queue@ == b0.queue@.push(r)
    }
}

/// K is the kernel of goto(i_set, x); t is the LR(1) closure of K
spec fn is_goto_of(gr: Gram, i_set: Set<StateItem>, x: Symbol, t: Set<StateItem>) -> bool {
    exists|k_set: Set<StateItem>| #![auto] (forall|k: StateItem| #[trigger] k_set.contains(k) <==> goto_kernel_has(gr, i_set, x, k)) && is_closure_of(gr, k_set, t)
}

/// t is exactly the LR(1) closure of s, and all its items are well-formed
spec fn is_closure_of(gr: Gram, s: Set<StateItem>, t: Set<StateItem>) -> bool {
    &&& forall|x: StateItem| #[trigger] t.contains(x) <==> in_closure(gr, s, x)
    &&& forall|x: StateItem| #[trigger] t.contains(x) ==> item_wf(gr, x)
}

proof fn lemma_closure_step_wf(gr: Gram, i: StateItem, x: StateItem)
    requires closure_step(gr, i, x)
    ensures item_wf(gr, x)
{
}

/// abstract value of one first set
spec fn fs_view(f: FirstSet) -> (Set<DollarlessTerminalName>, bool) { (f.terminals@, f.contains_epsilon) }

/// every nonterminal occurring in the rules (as a left-hand side or inside a right-hand side) is a key
spec fn fs_covers(m: FsMap, g: Seq<Rule>) -> bool {
    forall|ri: int| 0 <= ri < g.len() ==> fs_has(m, rule_lhs(#[trigger] g[ri]))
        && forall|i: int| 0 <= i < rule_rhs(g[ri]).len() && (#[trigger] rule_rhs(g[ri])[i]) is Nonterminal ==> fs_has(m, sym_name(rule_rhs(g[ri])[i]))
}

/// position p of syms contributes terminal t to FIRST(syms)
spec fn contributes(fa: FA, syms: Seq<Symbol>, p: int, t: DollarlessTerminalName) -> bool {
    0 <= p < syms.len() && fa_prefix_nullable(fa, syms, p)
        && (syms[p] == Symbol::Terminal(t) || (syms[p] is Nonterminal && (fa.fst)(sym_name(syms[p]), t)))
}

/// state of the three `first of a symbol sequence` loops: the contributions of syms[0..b) are in `terms`;
/// `closed`: a non-nullable symbol (syms[b-1]) was reached
spec fn seq_loop_inv(fa: FA, syms: Seq<Symbol>, terms: Set<DollarlessTerminalName>, eps: bool, b: int, closed: bool) -> bool {
    &&& 0 <= b <= syms.len() && eps == !closed
    &&& forall|t: DollarlessTerminalName| #[trigger] terms.contains(t) <==> exists|p: int| 0 <= p < b && #[trigger] contributes(fa, syms, p, t)
    &&& if closed { b >= 1 && fa_prefix_nullable(fa, syms, b - 1) && !(syms[b - 1] is Nonterminal && (fa.nul)(sym_name(syms[b - 1]))) }
        else { fa_prefix_nullable(fa, syms, b) }
}

/// result of such a loop
spec fn seq_first_result(fa: FA, syms: Seq<Symbol>, terms: Set<DollarlessTerminalName>, eps: bool) -> bool {
    &&& eps == fa_seq_nullable(fa, syms)
    &&& forall|t: DollarlessTerminalName| #[trigger] terms.contains(t) <==> fa_seq_first(fa, syms, t)
}

proof fn lemma_seq_loop_done(fa: FA, syms: Seq<Symbol>, terms: Set<DollarlessTerminalName>, eps: bool, b: int, closed: bool)
    requires seq_loop_inv(fa, syms, terms, eps, b, closed), closed || b == syms.len()
    ensures seq_first_result(fa, syms, terms, eps)
{
    assert forall|t: DollarlessTerminalName| #[trigger] terms.contains(t) <==> fa_seq_first(fa, syms, t) by {
        if terms.contains(t) {
            let p = choose|p: int| 0 <= p < b && #[trigger] contributes(fa, syms, p, t);
            assert(syms[p] == Symbol::Terminal(t) || (syms[p] is Nonterminal && (fa.fst)(sym_name(syms[p]), t)));
        }
        if fa_seq_first(fa, syms, t) {
            let i = choose|i: int| 0 <= i < syms.len() && fa_prefix_nullable(fa, syms, i)
                && ((#[trigger] syms[i]) == Symbol::Terminal(t) || (syms[i] is Nonterminal && (fa.fst)(sym_name(syms[i]), t)));
            if closed && i >= b { assert(syms[b - 1] is Nonterminal && (fa.nul)(sym_name(syms[b - 1]))); }
            assert(contributes(fa, syms, i, t));
        }
    }
    if closed { if fa_seq_nullable(fa, syms) { assert(syms[b - 1] is Nonterminal && (fa.nul)(sym_name(syms[b - 1]))); } }
}

/// one iteration: the symbol at b adds `add` (its own FIRST under fa, or itself if it is a terminal) and closes iff it is not nullable
proof fn lemma_seq_loop_step(fa: FA, syms: Seq<Symbol>, terms: Set<DollarlessTerminalName>, b: int,
                             add: Set<DollarlessTerminalName>, sym_eps: bool)
    requires seq_loop_inv(fa, syms, terms, true, b, false), b < syms.len(),
        forall|t: DollarlessTerminalName| #[trigger] add.contains(t) <==>
            (syms[b] == Symbol::Terminal(t) || (syms[b] is Nonterminal && (fa.fst)(sym_name(syms[b]), t))),
        sym_eps == (syms[b] is Nonterminal && (fa.nul)(sym_name(syms[b]))),
    ensures seq_loop_inv(fa, syms, terms.union(add), sym_eps, b + 1, !sym_eps)
{
    let terms2 = terms.union(add);
    assert forall|t: DollarlessTerminalName| #[trigger] terms2.contains(t) <==> exists|p: int| 0 <= p < b + 1 && #[trigger] contributes(fa, syms, p, t) by {
        if terms2.contains(t) {
            if terms.contains(t) {
                let p = choose|p: int| 0 <= p < b && #[trigger] contributes(fa, syms, p, t);
                assert(contributes(fa, syms, p, t));
            } else { assert(contributes(fa, syms, b, t)); }
        }
        if exists|p: int| 0 <= p < b + 1 && #[trigger] contributes(fa, syms, p, t) {
            let p = choose|p: int| 0 <= p < b + 1 && #[trigger] contributes(fa, syms, p, t);
            if p < b { assert(terms.contains(t)); } else { assert(add.contains(t)); }
        }
    }
    if sym_eps {
        assert forall|j: int| 0 <= j < b + 1 && j < syms.len() implies (#[trigger] syms[j]) is Nonterminal && (fa.nul)(sym_name(syms[j])) by {}
    }
}
//@]

//@[ T13: outlined expressions (current /repo tokens; bodies not verified, contracts assumed)
#[verifier::external_body]
fn __vx_file_rules<'a>(file: &'a File) -> (r: Vec<Rule<'a>>)
    ensures r@ == file_rules(file)
{ /*@orig T13_file_rules*/ }

#[verifier::external_body]
fn __vx_queue_init(items: &[StateItem]) -> (r: VecDeque<StateItem>)
    ensures r@ == items@
{ /*@orig T13_queue_init*/ }

#[verifier::external_body]
fn __vx_extend_cloned(terminals: &mut Oset<DollarlessTerminalName>, nonterminal_first_set: &FirstSet)
    ensures old(terminals).wf() && nonterminal_first_set.terminals.wf() ==>
        final(terminals).wf() && final(terminals)@ == old(terminals)@.union(nonterminal_first_set.terminals@)
{ /*@orig T13_extend_cloned*/; }
//@]

impl UnnormalizedMachineBuilder<'_> {
    fn new(file: &File) -> /*@[*/(r: /*@]*/UnnormalizedMachineBuilder/*@[*/)/*@]*/
        //@[ C17 C07 UnnormalizedMachineBuilder::new: one state (the start state, index 0), queued; no transitions
        ensures r.binv(), r.context.rules@ == file_rules(file), r.context.start_nonterminal_name == file.start,
        //@]
    {
        let context = ImmutContext::new(file);
        let start_state = context.get_start_state();
        //@[ proof
        proof { lemma_initial_inv(context.gr(), start_state.items@); }
        //@]
        UnnormalizedMachineBuilder {
            context,
            states: vec![start_state],
            transitions: HashSet::new(),
            queue: VecDeque::from([StateIndex(0)]),
        }
    }
}

impl ImmutContext<'_> {
    fn new(file: &File) -> /*@[*/(r: /*@]*/ImmutContext/*@[*/)/*@]*/
        //@[ C17 C07 ImmutContext::new: the rules of the file and their FIRST/nullable map
        ensures r.wf(), r.rules@ == file_rules(file), r.start_nonterminal_name == file.start,
        //@]
    {
        //@[ proof
        proof { assert forall|a: String, b: String| a@ == b@ implies a == b by { axiom_string_ext(a, b); } }
        //@]
        let rules: Vec<Rule> = /*@{ T13_file_rules*//*@- file.get_rules().collect() *//*@|*/__vx_file_rules(file)/*@}*/;
        let first_sets = get_first_sets(&rules);
        ImmutContext {
            start_nonterminal_name: file.start.clone(),
            rules,
            first_sets,
        }
    }
}

impl UnnormalizedMachineBuilder<'_> {
    //@[ termination of the worklist loop is NOT proved (listed under C07 not_covered)
    #[verifier::exec_allows_no_decreases_clause]
    //@]
    fn build(/*@{ T10_mut_self*//*@- mut self *//*@|*/self/*@}*/) -> /*@[*/(r: /*@]*/UnnormalizedMachine/*@[*/)/*@]*/
        //@[ C17 C04 C11 C07 build: the worklist construction yields THE LALR(1) automaton (item sets by state, transitions) of the grammar
        requires self.binv(),
        ensures um_is_lalr(self.gr(), r),
        //@]
    {
        //@[ T10
        let mut __vx_self = self;
        let ghost gq = __vx_self.queue@;
        //@]
        while let Some(state_index) = /*@{*//*@- self *//*@|*/__vx_self/*@}*/.queue.pop_front()
            //@[ C17 worklist invariant: every state is queued or goto-complete
            invariant __vx_self.binv(), __vx_self.context == self.context, gq == __vx_self.queue@,
            ensures __vx_self.binv(), __vx_self.context == self.context, __vx_self.queue@.len() == 0,
            //@]
        {
            //@[ proof
            let ghost b0 = __vx_self;
            let ghost s = state_index.0 as int;
            proof {
                assert(gq.len() > 0 && gq[0] == state_index && b0.queue@ =~= gq.subrange(1, gq.len() as int));
                // b_prev: the builder before the pop differs only in the queue; popping keeps everybody else queued
                assert forall|p: int| 0 <= p < b0.states@.len() && p != s implies queued(b0.queue@, p) || #[trigger] processed(b0.gr(), b0.its(), b0.transitions@, p) by {
                    if !processed(b0.gr(), b0.its(), b0.transitions@, p) {
                        let k = choose|k: int| 0 <= k < gq.len() && (#[trigger] gq[k]).0 == p;
                        assert(k > 0); assert(b0.queue@[k - 1] == gq[k]);
                    }
                }
                assert(b0.bwf()) by { assert forall|i: int| 0 <= i < b0.queue@.len() implies (#[trigger] b0.queue@[i]).0 < b0.states@.len() by { assert(b0.queue@[i] == gq[i + 1]); } }
            }
            //@]
            /*@{*//*@- self *//*@|*/__vx_self/*@}*/.enqueue_transition_targets(state_index);
            //@[ proof
            proof { lemma_build_step(b0, __vx_self, s); gq = __vx_self.queue@; }
            //@]
        }
        //@[ proof
        proof {
            assert forall|p: int| 0 <= p < __vx_self.states@.len() implies #[trigger] processed(__vx_self.gr(), __vx_self.its(), __vx_self.transitions@, p) by {
                assert(!queued(__vx_self.queue@, p));
            }
        }
        //@]
        UnnormalizedMachine {
            states: /*@{*//*@- self *//*@|*/__vx_self/*@}*/.states,
            transitions: /*@{*//*@- self *//*@|*/__vx_self/*@}*/.transitions,
        }
    }

    fn enqueue_state_if_needed(&mut self, state: State) -> /*@[*/(r: /*@]*/StateIndex/*@[*/)/*@]*/
        //@[ C17 C04 C07 enqueue_state_if_needed: merge into THE state with the same core if there is one, else create a new state
        requires old(self).bwf(), state.items.wf(), forall|x: StateItem| #[trigger] state.items@.contains(x) ==> item_wf(old(self).gr(), x),
        ensures final(self).bwf(), final(self).context == old(self).context, final(self).transitions == old(self).transitions,
            enq_post(*old(self), *final(self), state.items@, r),
        //@]
    {
        if let Some(index) = self.get_index_of_mergable(&state) {
            self.merge(index, state.items)
        } else {
            self.enqueue_new_state(state)
        }
    }

    fn get_index_of_mergable(&self, state: &State) -> /*@[*/(r: /*@]*/Option<StateIndex>/*@[*/)/*@]*/
        //@[ C17 C04 C07 get_index_of_mergable: the first existing state with the same core (decided by are_cores_equal)
        ensures match r {
            Some(i) => i.0 < self.states@.len() && same_core(state.items@, self.states@[i.0 as int].items@)
                && forall|j: int| 0 <= j < i.0 ==> !same_core(state.items@, #[trigger] self.states@[j].items@),
            None => forall|j: int| 0 <= j < self.states@.len() ==> !same_core(state.items@, #[trigger] self.states@[j].items@),
        },
        //@]
    {
        //@[ proof
        let ghost sts = self.states@;
        let ghost g = |i: int, st: State| if same_core(state.items@, st.items@) { Some(StateIndex(i as usize)) } else { None::<StateIndex> };
        proof { vstd::std_specs::vec::axiom_spec_len(&self.states); lemma_first_same_core(sts, g, state.items@, 0); }
        //@]
        /*@{ T18_open3*//*@- self.states
            .iter()
            .enumerate()
            .find_map(|(i, existing_state)| { *//*@|*/__vx_enumerate_find_map(&self.states, |__vx_p: (usize, &State)| -> (o: Option<StateIndex>)
                ensures o == g(__vx_p.0 as int, *__vx_p.1)
            { let (i, existing_state) = __vx_p;/*@}*/
                if are_cores_equal(state, existing_state) {
                    Some(StateIndex(i))
                } else {
                    None
                }
            })
    }

    fn merge(&mut self, index: StateIndex, items: Oset<StateItem>) -> /*@[*/(r: /*@]*/StateIndex/*@[*/)/*@]*/
        //@[ C17 C04 C07 merge: lookahead propagation - a state that gained items is enqueued again
        requires old(self).bwf(), index.0 < old(self).states@.len(), items.wf(),
            forall|x: StateItem| #[trigger] items@.contains(x) ==> item_wf(old(self).gr(), x),
        ensures final(self).bwf(), r == index, final(self).context == old(self).context, final(self).transitions == old(self).transitions,
            final(self).states@.len() == old(self).states@.len(),
            forall|j: int| 0 <= j < old(self).states@.len() && j != index.0 ==> #[trigger] final(self).states@[j] == old(self).states@[j],
            final(self).states@[index.0 as int].items@ == old(self).states@[index.0 as int].items@.union(items@),
            final(self).queue@ == (if final(self).states@[index.0 as int].items@ =~= old(self).states@[index.0 as int].items@ { old(self).queue@ } else { old(self).queue@.push(index) }),
        //@]
    {
        let were_items_added = self.add_items_if_needed(index, items);

        if were_items_added {
            self.queue.push_back(index);
        }

        index
    }

    /// Returns true if items were added.
    fn add_items_if_needed(&mut self, index: StateIndex, items: Oset<StateItem>) -> /*@[*/(r: /*@]*/bool/*@[*/)/*@]*/
        //@[ C17 C04 C07 add_items_if_needed: union into the state; reports exactly whether the state grew (drives the re-enqueue)
        requires old(self).bwf(), index.0 < old(self).states@.len(), items.wf(),
            forall|x: StateItem| #[trigger] items@.contains(x) ==> item_wf(old(self).gr(), x),
        ensures final(self).bwf(), final(self).context == old(self).context, final(self).transitions == old(self).transitions,
            final(self).queue == old(self).queue, final(self).states@.len() == old(self).states@.len(),
            forall|j: int| 0 <= j < old(self).states@.len() && j != index.0 ==> #[trigger] final(self).states@[j] == old(self).states@[j],
            final(self).states@[index.0 as int].items@ == old(self).states@[index.0 as int].items@.union(items@),
            r == !(final(self).states@[index.0 as int].items@ =~= old(self).states@[index.0 as int].items@),
        //@]
    {
        //@[ proof
        let ghost gr = self.gr();
        let ghost i0 = old(self).states@[index.0 as int].items@;
        let ghost all = items.seq();
        //@]
        let state = self.state_mut(index);
        let mut was_item_added = false;

        for item in /*@[*/__vx_it: /*@]*/items
            //@[ C17 loop invariant: the items seen so far were united into the state
            invariant
                __vx_it.seq() == all, state.items.wf(),
                forall|x: StateItem| #[trigger] state.items@.contains(x) <==> i0.contains(x) || exists|k: int| 0 <= k < __vx_it.index@ && all[k] == x,
                was_item_added == !(state.items@ =~= i0),
            //@]
        {
            //@[ proof
            let ghost s_before = state.items@;
            //@]
            if !state.items.contains(&item) {
                state.items.insert(item);
                was_item_added = true;
                //@[ proof
                proof { assert(state.items@.contains(item) && !i0.contains(item)); }
                //@]
            }
            //@[ proof
            proof {
                assert forall|x: StateItem| #[trigger] state.items@.contains(x) <==> i0.contains(x) || exists|k: int| 0 <= k < __vx_it.index@ + 1 && all[k] == x by {
                    if state.items@.contains(x) && !s_before.contains(x) { assert(all[__vx_it.index@] == x); }
                    if exists|k: int| 0 <= k < __vx_it.index@ + 1 && all[k] == x {
                        let k = choose|k: int| 0 <= k < __vx_it.index@ + 1 && all[k] == x;
                        if k < __vx_it.index@ { assert(s_before.contains(x)); }
                    }
                }
                if !(s_before =~= i0) { let w = choose|w: StateItem| s_before.contains(w) != i0.contains(w); assert(state.items@.contains(w)); }
            }
            //@]
        }
        //@[ proof
        proof {
            assert(state.items@ =~= i0.union(items@)) by {
                assert forall|x: StateItem| state.items@.contains(x) <==> i0.union(items@).contains(x) by {
                    if items@.contains(x) { let k = choose|k: int| 0 <= k < all.len() && all[k] == x; }
                    if exists|k: int| 0 <= k < all.len() && all[k] == x { let k = choose|k: int| 0 <= k < all.len() && all[k] == x; assert(items@.contains(all[k])); }
                }
            }
        }
        //@]

        was_item_added
    }

    fn enqueue_new_state(&mut self, state: State) -> /*@[*/(r: /*@]*/StateIndex/*@[*/)/*@]*/
        //@[ C17 C07 enqueue_new_state: appended with the next index and queued
        requires old(self).bwf(), state.items.wf(), forall|x: StateItem| #[trigger] state.items@.contains(x) ==> item_wf(old(self).gr(), x),
        ensures final(self).bwf(), r.0 == old(self).states@.len(), final(self).context == old(self).context,
            final(self).transitions == old(self).transitions,
            final(self).states@ == old(self).states@.push(state), final(self).queue@ == old(self).queue@.push(r),
        //@]
    {
        let index = StateIndex(self.states.len());
        self.states.push(state);
        self.queue.push_back(index);
        index
    }

    fn enqueue_transition_targets(&mut self, state_index: StateIndex)
        //@[ C17 C04 C07 enqueue_transition_targets: processes every symbol right of a dot; afterwards the state is goto-complete unless it grew (then it is queued again)
        requires old(self).bwf(), state_index.0 < old(self).states@.len(),
            inv_core(old(self).gr(), old(self).its(), old(self).transitions@),
        ensures final(self).context == old(self).context, pass_post(*old(self), *final(self), state_index.0 as int, true),
        //@]
    {
        let next_symbols = self.get_symbols_right_of_dot(state_index);
        //@[ proof
        let ghost b_start = *self;
        let ghost gr = self.gr();
        let ghost s = state_index.0 as int;
        let ghost syms = next_symbols.seq();
        proof { lemma_pass_start(b_start, s); }
        //@]
        for symbol in /*@[*/__vx_it: /*@]*/&next_symbols
            //@[ C17 loop invariant: a pass over the symbols seen so far
            invariant
                self.context == b_start.context, gr == self.gr(), gr == b_start.gr(), s == state_index.0, 0 <= s < b_start.states@.len(), next_symbols.wf(), syms == next_symbols.seq(),
                __vx_it.seq() == syms.as_ref(),
                forall|x: Symbol| #[trigger] next_symbols@.contains(x) <==> exists|i: StateItem| b_start.states@[s].items@.contains(i) && #[trigger] after_dot(gr, i) == Some(x),
                pass_post(b_start, *self, s, false),
                forall|k: int, i: StateItem| 0 <= k < __vx_it.index@ && b_start.states@[s].items@.contains(i) && #[trigger] has_after(gr, i, syms[k]) ==>
                    exists|t: Transition| #[trigger] self.transitions@.contains(t) && t.from.0 == s && t.symbol == syms[k] && self.its()[t.to.0 as int].contains(advanced(i)),
            //@]
        {
            //@[ proof
            let ghost b0 = *self;
            let ghost kk = __vx_it.index@;
            proof {
                assert(*symbol == syms[kk]);
                assert(next_symbols@.contains(*symbol));
                let i = choose|i: StateItem| b_start.states@[s].items@.contains(i) && #[trigger] after_dot(gr, i) == Some(*symbol);
                assert(b_start.its()[s] == b_start.states@[s].items@);
                assert(b_start.its()[s].subset_of(b0.its()[s]));
                assert(b0.its()[s].contains(i) && has_after(gr, i, *symbol));
            }
            //@]
            self.enqueue_transition_target(state_index, symbol);
            //@[ proof
            proof { lemma_pass_step(b_start, b0, *self, state_index, *symbol, syms, kk); }
            //@]
        }
        //@[ proof
        proof {
            assert forall|x: Symbol| #[trigger] syms.to_set().contains(x) <==> next_symbols@.contains(x) by {}
            lemma_pass_done(b_start, *self, s, syms);
        }
        //@]
    }

    fn get_symbols_right_of_dot(&self, state_index: StateIndex) -> /*@[*/(r: /*@]*/Oset<Symbol>/*@[*/)/*@]*/
        //@[ C17 C04 C07 get_symbols_right_of_dot: the symbols that stand right of a dot in the state
        requires self.bwf(), state_index.0 < self.states@.len(),
        ensures r.wf(), forall|x: Symbol| #[trigger] r@.contains(x) <==>
            exists|i: StateItem| self.states@[state_index.0 as int].items@.contains(i) && #[trigger] after_dot(self.gr(), i) == Some(x),
        //@]
    {
        let state = self.state(state_index);
        //@[ proof
        let ghost gr = self.gr();
        let ghost its = state.items.seq();
        let ghost g = |item: StateItem| after_dot(gr, item);
        proof {
            assert forall|i: int| 0 <= i < its.len() implies item_wf(gr, #[trigger] its[i]) by { assert(state.items@.contains(its[i])); }
        }
        //@]
        /*@[*/let __vx_v = /*@]*//*@{ T18_open2*//*@- state
            .items
            .iter()
            .filter_map( *//*@|*/__vx_filter_map_collect(&state.items, /*@}*/|item/*@[*/: &StateItem/*@]*/| /*@[*/-> (o: Option<Symbol>)
                requires item_wf(gr, *item)
                ensures o == g(*item)
            { /*@]*/self.get_symbol_right_of_dot(item)/*@[*/ }/*@]*/)/*@[*/;
        proof {
            assert(__vx_v@ == filter_map_spec(its, g));
            assert forall|x: Symbol| #[trigger] __vx_v@.to_set().contains(x) <==>
                exists|i: StateItem| state.items@.contains(i) && #[trigger] after_dot(gr, i) == Some(x) by {
                lemma_filter_map_contains(its, g, x);
                if exists|i: StateItem| state.items@.contains(i) && #[trigger] after_dot(gr, i) == Some(x) {
                    let it = choose|i: StateItem| state.items@.contains(i) && #[trigger] after_dot(gr, i) == Some(x);
                    let i = choose|i: int| 0 <= i < its.len() && its[i] == it;
                    assert(g(its[i]) == Some(x));
                }
                if exists|i: int| 0 <= i < its.len() && g(#[trigger] its[i]) == Some(x) {
                    let i = choose|i: int| 0 <= i < its.len() && g(#[trigger] its[i]) == Some(x);
                    assert(state.items@.contains(its[i]));
                }
            }
        }
        __vx_v.into_iter()/*@]*/
            .collect()
    }

    fn get_symbol_right_of_dot(&self, item: &StateItem) -> /*@[*/(r: /*@]*/Option<Symbol>/*@[*/)/*@]*/
        //@[ C17 C07 UnnormalizedMachineBuilder::get_symbol_right_of_dot
        requires (item.rule_index matches RuleIndex::Original(ri) ==> ri < self.context.rules@.len()),
        ensures r == after_dot(self.gr(), *item),
        //@]
    {
        self.context.get_symbol_right_of_dot(item)
    }

    fn enqueue_transition_target(&mut self, state_index: StateIndex, symbol: &Symbol)
        //@[ C17 C04 C07 enqueue_transition_target: goto(state, symbol) is merged or created, and the transition recorded
        requires old(self).bwf(), state_index.0 < old(self).states@.len(),
        ensures final(self).bwf(), final(self).context == old(self).context, ett_post(*old(self), *final(self), state_index, *symbol),
        //@]
    {
        //@[ proof
        let ghost b0 = *self;
        //@]
        let target = self.get_transition_target(state_index, symbol);
        //@[ proof
        let ghost tset = target.items@;
        //@]
        let target_index = self.enqueue_state_if_needed(target);
        //@[ proof
        let ghost b_mid = *self;
        //@]
        let transition = Transition {
            from: state_index,
            to: target_index,
            symbol: symbol.clone(),
        };
        self.transitions.insert(transition);
        //@[ proof
        proof {
            assert(enq_post(b0, b_mid, tset, target_index));
            assert(self.states@ == b_mid.states@ && self.queue@ == b_mid.queue@);
            assert(enq_post(b0, *self, tset, target_index));
            assert(is_goto_of(b0.gr(), b0.states@[state_index.0 as int].items@, *symbol, tset));
            assert(self.transitions@ == b0.transitions@.insert(Transition { from: state_index, to: target_index, symbol: *symbol }));
            assert(ett_witness(b0, *self, state_index, *symbol, tset, target_index));
            assert forall|t: Transition| #[trigger] self.transitions@.contains(t) implies t.from.0 < self.states@.len() && t.to.0 < self.states@.len() by {
                if b0.transitions@.contains(t) { assert(t.from.0 < b0.states@.len()); }
            }
        }
        //@]
    }

    fn get_transition_target(&self, state_index: StateIndex, symbol: &Symbol) -> /*@[*/(r: /*@]*/State/*@[*/)/*@]*/
        //@[ C17 C07 get_transition_target: goto(state, symbol) = closure of the advanced kernel
        requires self.bwf(), state_index.0 < self.states@.len(),
        ensures r.items.wf(), is_goto_of(self.gr(), self.states@[state_index.0 as int].items@, *symbol, r.items@),
        //@]
    {
        let items = self.get_transition_items(state_index, symbol);
        //@[ proof
        proof {
            assert forall|i: int| 0 <= i < items@.len() implies item_wf(self.gr(), #[trigger] items@[i]) by {
                assert(items@.contains(items@[i]));
                let it = choose|it: StateItem| self.states@[state_index.0 as int].items@.contains(it) && #[trigger] after_dot(self.gr(), it) == Some(*symbol) && items@[i] == advanced(it);
                lemma_item_rhs_len(&self.context, it);
            }
        }
        //@]
        self.get_closure(&items)
    }

    fn get_closure(&self, items: &[StateItem]) -> /*@[*/(r: /*@]*/State/*@[*/)/*@]*/
        //@[ C17 UnnormalizedMachineBuilder::get_closure
        requires self.context.wf(), forall|i: int| 0 <= i < items@.len() ==> item_wf(self.gr(), #[trigger] items@[i]),
        ensures r.items.wf(), is_closure_of(self.gr(), items@.to_set(), r.items@),
        //@]
    {
        self.context.get_closure(items)
    }

    fn get_transition_items(&self, state_index: StateIndex, symbol: &Symbol) -> /*@[*/(r: /*@]*/Vec<StateItem>/*@[*/)/*@]*/
        //@[ C17 C04 C07 get_transition_items: the kernel of goto(state, symbol) - every item with `symbol` after the dot, advanced
        requires self.bwf(), state_index.0 < self.states@.len(),
        ensures forall|k: StateItem| #[trigger] r@.contains(k) <==> goto_kernel_has(self.gr(), self.states@[state_index.0 as int].items@, *symbol, k),
        //@]
    {
        let state = self.state(state_index);
        //@[ proof
        let ghost gr = self.gr();
        let ghost its = state.items.seq();
        let ghost g = |item: StateItem| if after_dot(gr, item) == Some(*symbol) { Some(advanced(item)) } else { None::<StateItem> };
        proof {
            assert forall|i: int| 0 <= i < its.len() implies item_wf(gr, #[trigger] its[i]) by { assert(state.items@.contains(its[i])); }
        }
        //@]
        /*@[*/let __vx_r = /*@]*//*@{ T18_open*//*@- state
            .items
            .iter()
            .filter_map( *//*@|*/__vx_filter_map_collect(&state.items, /*@}*/|item/*@[*/: &StateItem/*@]*/| /*@[*/-> (o: Option<StateItem>)
                requires item_wf(gr, *item)
                ensures o == g(*item)
            { /*@]*/self.advance(item, symbol)/*@[*/ }/*@]*//*@{ T18_close*//*@- )
            .collect() *//*@|*/)/*@}*//*@[*/;
        proof {
            assert(__vx_r@ == filter_map_spec(its, g));
            assert forall|k: StateItem| #[trigger] __vx_r@.contains(k) <==> goto_kernel_has(gr, state.items@, *symbol, k) by {
                lemma_filter_map_contains(its, g, k);
                if goto_kernel_has(gr, state.items@, *symbol, k) {
                    let it = choose|it: StateItem| state.items@.contains(it) && #[trigger] after_dot(gr, it) == Some(*symbol) && k == advanced(it);
                    let i = choose|i: int| 0 <= i < its.len() && its[i] == it;
                    assert(g(its[i]) == Some(k));
                }
                if exists|i: int| 0 <= i < its.len() && g(#[trigger] its[i]) == Some(k) {
                    let i = choose|i: int| 0 <= i < its.len() && g(#[trigger] its[i]) == Some(k);
                    assert(state.items@.contains(its[i]));
                }
            }
        }
        __vx_r/*@]*/
    }

    /// If `item` is `A -> alpha . B beta` and `symbol` is `B`,
    /// then this returns `Some(A -> alpha B . beta)`.
    fn advance(&self, item: &StateItem, symbol: &Symbol) -> /*@[*/(r: /*@]*/Option<StateItem>/*@[*/)/*@]*/
        //@[ C17 C07 advance: [A -> alpha . X beta, a] and X give [A -> alpha X . beta, a]; same rule, same lookahead
        requires self.context.wf(), item_wf(self.gr(), *item),
        ensures r == (if after_dot(self.gr(), *item) == Some(*symbol) { Some(advanced(*item)) } else { None }),
        //@]
    {
        //@[ proof
        proof { lemma_item_rhs_len(&self.context, *item); }
        //@]
        let right_of_dot = self.get_symbol_right_of_dot(item);
        if right_of_dot.as_ref() == Some(symbol) {
            Some(StateItem {
                rule_index: item.rule_index,
                lookahead: item.lookahead.clone(),
                dot: item.dot + 1,
            })
        } else {
            None
        }
    }
}

impl UnnormalizedMachineBuilder<'_> {
    fn state(&self, index: StateIndex) -> /*@[*/(r: /*@]*/&State/*@[*/)/*@]*/
        //@[ C07 UnnormalizedMachineBuilder::state: in range only (no panic)
        requires index.0 < self.states@.len(),
        ensures *r == self.states@[index.0 as int],
        //@]
    {
        &self.states[index.0]
    }

    fn state_mut(&mut self, index: StateIndex) -> /*@[*/(r: /*@]*/&mut State/*@[*/)/*@]*/
        //@[ C07 UnnormalizedMachineBuilder::state_mut: in range only; exactly that state is replaced by what is written through the reference
        requires index.0 < old(self).states@.len(),
        ensures *r == old(self).states@[index.0 as int],
            final(self).states@ == old(self).states@.update(index.0 as int, *final(r)),
            final(self).context == old(self).context, final(self).transitions == old(self).transitions, final(self).queue == old(self).queue,
        //@]
    {
        &mut self.states[index.0]
    }
}

impl ImmutContext<'_> {
    fn get_start_state(&self) -> /*@[*/(r: /*@]*/State/*@[*/)/*@]*/
        //@[ C17 get_start_state: closure of [S' -> . start, $]
        requires self.wf(),
        ensures r.items.wf(), is_closure_of(self.gr(), Set::<StateItem>::empty().insert(start_item()), r.items@),
        //@]
    {
        //@[ proof
        proof {
            assert forall|arr: [StateItem; 1]| #[trigger] arr@.len() == 1 && arr@[0] == start_item() implies arr@.to_set() =~= Set::<StateItem>::empty().insert(start_item()) by {
                assert(arr@.to_set().contains(arr@[0]));
            }
        }
        //@]
        self.get_closure(&[StateItem {
            rule_index: RuleIndex::Augmented,
            lookahead: Lookahead::Eof,
            dot: 0,
        }])
    }

    //@[ termination of the closure worklist loop is NOT proved (listed under C07 not_covered)
    #[verifier::exec_allows_no_decreases_clause]
    //@]
    fn get_closure(&self, items: &[StateItem]) -> /*@[*/(r: /*@]*/State/*@[*/)/*@]*/
        //@[ C17 C07 ImmutContext::get_closure: exactly the LR(1) closure of the given items (worklist; two-sided)
        requires self.wf(), forall|i: int| 0 <= i < items@.len() ==> item_wf(self.gr(), #[trigger] items@[i]),
        ensures r.items.wf(), is_closure_of(self.gr(), items@.to_set(), r.items@),
        //@]
    {
        //@[ proof
        let ghost gr = self.gr();
        let ghost s0 = items@.to_set();
        proof { assert forall|x: StateItem| s0.contains(x) implies item_wf(gr, x) by { let i = choose|i: int| 0 <= i < items@.len() && items@[i] == x; assert(item_wf(gr, items@[i])); } }
        //@]
        let mut queue: VecDeque<StateItem> = /*@{ T13_queue_init*//*@- items.iter().cloned().collect() *//*@|*/__vx_queue_init(items)/*@}*/;
        let mut items = Oset::new();
        //@[ proof
        let ghost mut gq = queue@;
        proof {
            crate::data::oset::lemma_empty_oset(items);
            assert forall|i: int| 0 <= i < queue@.len() implies in_closure(gr, s0, #[trigger] queue@[i]) && item_wf(gr, queue@[i]) by {
                assert(s0.contains(queue@[i]));
                lemma_closure_base(gr, s0, queue@[i]);
            }
            assert forall|x: StateItem| #[trigger] s0.contains(x) implies queue@.contains(x) by {}
        }
        //@]

        while let Some(next) = queue.pop_front()
            //@[ C17 worklist invariant: collected and queued items are in the closure; the start items and every successor of a collected item are collected or queued
            invariant
                self.wf(), gr == self.gr(), items.wf(), gq == queue@,
                forall|x: StateItem| #[trigger] items@.contains(x) ==> in_closure(gr, s0, x) && item_wf(gr, x),
                forall|i: int| 0 <= i < queue@.len() ==> in_closure(gr, s0, #[trigger] queue@[i]) && item_wf(gr, queue@[i]),
                forall|x: StateItem| #[trigger] s0.contains(x) ==> items@.contains(x) || queue@.contains(x),
                forall|i: StateItem, x: StateItem| items@.contains(i) && #[trigger] closure_step(gr, i, x) ==> items@.contains(x) || queue@.contains(x),
            ensures
                self.wf(), items.wf(), queue@.len() == 0,
                forall|x: StateItem| #[trigger] items@.contains(x) ==> in_closure(gr, s0, x) && item_wf(gr, x),
                forall|x: StateItem| #[trigger] s0.contains(x) ==> items@.contains(x),
                forall|i: StateItem, x: StateItem| items@.contains(i) && #[trigger] closure_step(gr, i, x) ==> items@.contains(x),
            //@]
        {
            //@[ proof
            let ghost q_before = gq;   // the queue before this pop
            let ghost q1 = queue@;
            let ghost items0 = items@;
            proof {
                assert(q_before.len() > 0 && q_before[0] == next && q1 =~= q_before.subrange(1, q_before.len() as int));
                assert forall|x: StateItem| q_before.contains(x) implies x == next || q1.contains(x) by {
                    let i = choose|i: int| 0 <= i < q_before.len() && q_before[i] == x;
                    if i > 0 { assert(q1[i - 1] == x); }
                }
                assert forall|i: int| 0 <= i < q1.len() implies in_closure(gr, s0, #[trigger] q1[i]) && item_wf(gr, q1[i]) by { assert(q1[i] == q_before[i + 1]); }
                assert(in_closure(gr, s0, q_before[0]) && item_wf(gr, q_before[0]));
                gq = queue@;
            }
            //@]
            if items.contains(&next) {
                continue;
            }

            self.enqueue_closure_implied_items(&mut queue, &next);
            items.insert(next);
            //@[ proof
            proof {
                let added = choose|added: Seq<StateItem>| #![auto] queue@ == q1 + added
                    && forall|x: StateItem| #[trigger] added.contains(x) <==> closure_step(gr, next, x);
                assert forall|x: StateItem| q1.contains(x) implies queue@.contains(x) by {
                    let i = choose|i: int| 0 <= i < q1.len() && q1[i] == x; assert(queue@[i] == x);
                }
                assert forall|x: StateItem| added.contains(x) implies queue@.contains(x) by {
                    let i = choose|i: int| 0 <= i < added.len() && added[i] == x; assert(queue@[q1.len() + i] == x);
                }
                assert forall|i: int| 0 <= i < queue@.len() implies in_closure(gr, s0, #[trigger] queue@[i]) && item_wf(gr, queue@[i]) by {
                    if i < q1.len() { assert(queue@[i] == q1[i]); }
                    else {
                        assert(queue@[i] == added[i - q1.len()]);
                        assert(added.contains(added[i - q1.len()]));
                        lemma_closure_step(gr, s0, next, queue@[i]);
                        lemma_closure_step_wf(gr, next, queue@[i]);
                    }
                }
                assert forall|i: StateItem, x: StateItem| items@.contains(i) && #[trigger] closure_step(gr, i, x) implies items@.contains(x) || queue@.contains(x) by {
                    if i == next { assert(added.contains(x)); }
                    else {
                        assert(items0.contains(i));
                        assert(items0.contains(x) || q_before.contains(x));
                        if !items0.contains(x) { if x != next { assert(q1.contains(x)); } }
                    }
                }
                gq = queue@;
            }
            //@]
        }
        //@[ proof
        proof {
            assert forall|x: StateItem| in_closure(gr, s0, x) implies items@.contains(x) by {
                let n = choose|n: nat| closure_reach(gr, s0, n, x);
                lemma_closure_least(gr, s0, items@, n);
            }
        }
        //@]

        State { items }
    }

    fn enqueue_closure_implied_items(
        &self,
        queue: &mut VecDeque<StateItem>,
        implicator: &StateItem,
    )
        //@[ C17 enqueue_closure_implied_items: appends exactly the closure-step successors of the implicator
        requires self.wf(), item_wf(self.gr(), *implicator),
        ensures exists|added: Seq<StateItem>| #![auto] final(queue)@ == old(queue)@ + added
            && forall|x: StateItem| #[trigger] added.contains(x) <==> closure_step(self.gr(), *implicator, x),
        //@]
    {
        //@[ proof
        let ghost q0 = queue@;
        //@]
        /*@{ bind_iterated_value2*//*@- for implied in self.get_closure_implied_items(implicator) *//*@|*/let __vx_implied = self.get_closure_implied_items(implicator);
        let ghost all = __vx_implied@;
        for implied in __vx_it: __vx_implied/*@}*/
            //@[ C17 loop invariant
            invariant __vx_it.seq() == all, queue@ == q0 + all.subrange(0, __vx_it.index@),
            //@]
        {
            queue.push_back(implied);
            //@[ proof
            proof { assert(all.subrange(0, __vx_it.index@ + 1) =~= all.subrange(0, __vx_it.index@).push(implied)); }
            //@]
        }
        //@[ proof
        proof { assert(all.subrange(0, all.len() as int) =~= all); }
        //@]
    }

    fn get_closure_implied_items(&self, item: &StateItem) -> /*@[*/(r: /*@]*/Vec<StateItem>/*@[*/)/*@]*/
        //@[ C17 C07 get_closure_implied_items: exactly the items one LR(1) closure step yields (lookaheads from the ADVANCED item)
        requires self.wf(), item_wf(self.gr(), *item),
        ensures forall|x: StateItem| #[trigger] r@.contains(x) <==> closure_step(self.gr(), *item, x),
        //@]
    {
        //@[ proof
        proof { lemma_item_rhs_len(self, *item); }
        //@]
        match self.get_symbol_right_of_dot(item) {
            Some(Symbol::Nonterminal(name)) => {
                let item_with_dot_advanced = StateItem {
                    rule_index: item.rule_index,
                    lookahead: item.lookahead.clone(),
                    dot: item.dot + 1,
                };
                let lookaheads = self.get_augmented_first_after_dot(&item_with_dot_advanced);
                self.get_closure_implied_items_for_nonterminal(name, lookaheads)
            }
            Some(Symbol::Terminal(_)) | None => {
                vec![]
            }
        }
    }

    fn get_augmented_first_after_dot(&self, item: &StateItem) -> /*@[*/(r: /*@]*/AugmentedFirstSet/*@[*/)/*@]*/
        //@[ C17 C07 get_augmented_first_after_dot: FIRST(beta a) for the rest beta of the rule from the dot on and the item's lookahead a
        requires self.wf(), item_wf(self.gr(), *item), item.rule_index is Augmented ==> item.dot >= 1,
        ensures r.0.wf(),
            forall|la: Lookahead| #[trigger] r.0@.contains(la) <==> in_first_la(self.gr(), rhs_from(self.gr(), *item, item.dot as int), item.lookahead, la),
        //@]
    {
        //@[ proof
        proof { lemma_rhs_covered(self, *item, item.dot as int); }
        //@]
        let after_dot = self.get_symbol_sequence_after_dot(item);
        let first = self.get_first_of_symbol_sequence(after_dot);
        add_lookahead_if_needed(first, &item.lookahead)
    }

    fn get_symbol_sequence_after_dot(&self, item: &StateItem) -> /*@[*/(r: /*@]*/Vec<Symbol>/*@[*/)/*@]*/
        //@[ C17 C07 get_symbol_sequence_after_dot: the rest of the rule from the dot on
        requires (item.rule_index matches RuleIndex::Original(ri) ==> ri < self.rules@.len()), item.dot <= item_rhs(self.gr(), *item).len(),
        ensures r@ == rhs_from(self.gr(), *item, item.dot as int),
        //@]
    {
        match item.rule_index {
            RuleIndex::Original(rule_index) => {
                self.get_symbol_sequence_after_dot_for_original_rule(rule_index, item.dot)
            }
            RuleIndex::Augmented => self.get_symbol_sequence_after_dot_for_augmented_rule(item.dot),
        }
    }

    fn get_symbol_sequence_after_dot_for_original_rule(
        &self,
        rule_index: usize,
        dot: usize,
    ) -> /*@[*/(r: /*@]*/Vec<Symbol>/*@[*/)/*@]*/
        //@[ C17 C07 get_symbol_sequence_after_dot_for_original_rule
        requires rule_index < self.rules@.len(), dot <= rule_rhs(self.rules@[rule_index as int]).len(),
        ensures r@ == rule_rhs(self.rules@[rule_index as int]).subrange(dot as int, rule_rhs(self.rules@[rule_index as int]).len() as int),
        //@]
    {
        let rule = &self.rules[rule_index];
        get_field_symbols_from_n_onwards(rule.fieldset, dot)
    }

    fn get_symbol_sequence_after_dot_for_augmented_rule(&self, dot: usize) -> /*@[*/(r: /*@]*/Vec<Symbol>/*@[*/)/*@]*/
        //@[ C17 get_symbol_sequence_after_dot_for_augmented_rule
        requires dot <= 1,
        ensures r@ == seq![Symbol::Nonterminal(self.start_nonterminal_name)].subrange(dot as int, 1),
        //@]
    {
        //@[ proof
        proof { assert forall|a: String, b: String| a@ == b@ implies a == b by { axiom_string_ext(a, b); } }
        //@]
        if dot == 0 {
            vec![Symbol::Nonterminal(self.start_nonterminal_name.clone())]
        } else {
            vec![]
        }
    }

    fn get_first_of_symbol_sequence(&self, symbols: impl IntoIterator<Item = Symbol>) -> /*@[*/(r: /*@]*/FirstSet/*@[*/)/*@]*/
        //@[ C17 C04 C07 get_first_of_symbol_sequence: FIRST and nullability of a sentential form (least fixpoint); every lookup hits (no panic)
        requires self.wf(), syms_covered(self.first_sets@, yielded(symbols)),
        ensures r.terminals.wf(),
            forall|t: DollarlessTerminalName| #[trigger] r.terminals@.contains(t) <==> seq_in_first(self.rules@, yielded(symbols), t),
            r.contains_epsilon == seq_nullable(self.rules@, yielded(symbols)),
        //@]
    {
        let mut terminals: Oset<DollarlessTerminalName> = Oset::new();
        let mut contains_epsilon = true;
        //@[ proof
        let ghost fa = fa_of(self.first_sets@);
        let ghost syms = yielded(symbols);
        let ghost mut b: int = 0;
        let ghost mut closed = false;
        proof { crate::data::oset::lemma_empty_oset(terminals); }
        //@]

        for symbol in /*@[*/__vx_it: /*@]*//*@{ T14_generic_iter*//*@- symbols *//*@|*/__vx_collect(symbols)/*@}*/
            //@[ C17 loop invariant: contributions of the first b symbols
            invariant_except_break
                !closed, b == __vx_it.index@,
            invariant
                self.wf(), fa == fa_of(self.first_sets@), syms == yielded(symbols), syms_covered(self.first_sets@, syms),
                __vx_it.seq() == syms,
                terminals.wf(), seq_loop_inv(fa, syms, terminals@, contains_epsilon, b, closed),
            ensures
                closed || b == syms.len(),
            //@]
        {
            //@[ proof
            let ghost terms0 = terminals@;
            proof { assert(syms[b] == symbol); }
            //@]
            match symbol {
                Symbol::Terminal(name) => {
                    terminals.insert(name);
                    contains_epsilon = false;
                    //@[ proof
                    proof {
                        lemma_seq_loop_step(fa, syms, terms0, b, Set::<DollarlessTerminalName>::empty().insert(name), false);
                        assert(terminals@ =~= terms0.union(Set::<DollarlessTerminalName>::empty().insert(name)));
                        b = b + 1; closed = true;
                    }
                    //@]
                    break;
                }
                Symbol::Nonterminal(name) => {
                    //@[ proof
                    proof {
                        let k = choose|k: String| #![trigger self.first_sets@.contains_key(k)] self.first_sets@.contains_key(k) && k@ == name@;
                        axiom_string_ext(k, name);
                        assert forall|k2: String| #[trigger] self.first_sets@.contains_key(k2) && k2@ == name@ implies k2 == name by { axiom_string_ext(k2, name); }
                    }
                    //@]
                    let nonterminal_first_set = self.first_sets.get(&name).unwrap();
                    /*@{ T13_extend_cloned*//*@- terminals.extend(nonterminal_first_set.terminals.iter().cloned()) *//*@|*/__vx_extend_cloned(&mut terminals, nonterminal_first_set)/*@}*/;

                    //@[ proof
                    proof {
                        lemma_seq_loop_step(fa, syms, terms0, b, nonterminal_first_set.terminals@, nonterminal_first_set.contains_epsilon);
                        assert(terminals@ =~= terms0.union(nonterminal_first_set.terminals@));
                        b = b + 1; closed = !nonterminal_first_set.contains_epsilon;
                    }
                    //@]
                    if !nonterminal_first_set.contains_epsilon {
                        contains_epsilon = false;
                        break;
                    }
                }
            }
        }
        //@[ proof
        proof {
            lemma_seq_loop_done(fa, syms, terminals@, contains_epsilon, b, closed);
            lemma_first_map_seq(self.first_sets@, self.rules@, syms);
        }
        //@]

        FirstSet {
            terminals,
            contains_epsilon,
        }
    }

    //@[ T: flat_map / opaque `impl Iterator` are outside the supported subset (body not verified; contract assumed)
    #[verifier::external_body]
    //@]
    fn get_closure_implied_items_for_nonterminal(
        &self,
        nonterminal_name: String,
        lookaheads: AugmentedFirstSet,
    ) -> /*@[*/(r: /*@]*/Vec<StateItem>/*@[*/)/*@]*/
        //@[ assumed contract: one fresh item [B -> . gamma, b] per rule of B and per lookahead b
        ensures forall|x: StateItem| #[trigger] r@.contains(x) <==>
            (x.rule_index is Original && x.rule_index->Original_0 < self.rules@.len()
             && rule_lhs(self.rules@[x.rule_index->Original_0 as int]) == nonterminal_name@ && x.dot == 0 && lookaheads.0@.contains(x.lookahead)),
        //@]
    {
        lookaheads
            .0
            .into_iter()
            .flat_map(|lookahead| {
                self.get_closure_implied_items_for_nonterminal_with_lookahead(
                    nonterminal_name.clone(),
                    lookahead,
                )
            })
            .collect()
    }

    //@[ T: iterator adapters outside the supported subset (body not verified; contract assumed)
    #[verifier::external_body]
    //@]
    fn get_closure_implied_items_for_nonterminal_with_lookahead(
        &self,
        nonterminal_name: String,
        lookahead: Lookahead,
    ) -> Vec<StateItem> {
        self.get_rule_indices_for_nonterminal(&nonterminal_name)
            .into_iter()
            .map(|rule_index| StateItem {
                rule_index: RuleIndex::Original(rule_index),
                lookahead: lookahead.clone(),
                dot: 0,
            })
            .collect()
    }

    //@[ T: iterator adapters outside the supported subset (body not verified; contract assumed)
    #[verifier::external_body]
    //@]
    fn get_rule_indices_for_nonterminal<'a>(
        &'a self,
        nonterminal_name: &'a str,
    ) -> impl Iterator<Item = usize> + 'a {
        self.rules
            .iter()
            .enumerate()
            .filter_map(move |(index, rule)| {
                if rule.constructor_name.type_name() == nonterminal_name {
                    Some(index)
                } else {
                    None
                }
            })
    }

    fn get_symbol_right_of_dot(&self, item: &StateItem) -> /*@[*/(r: /*@]*/Option<Symbol>/*@[*/)/*@]*/
        //@[ C17 C07 ImmutContext::get_symbol_right_of_dot
        requires (item.rule_index matches RuleIndex::Original(ri) ==> ri < self.rules@.len()),
        ensures r == after_dot(self.gr(), *item),
        //@]
    {
        match item.rule_index {
            RuleIndex::Original(rule_index) => {
                self.get_symbol_right_of_dot_for_original_rule(item.dot, rule_index)
            }
            RuleIndex::Augmented => self.get_symbol_right_of_dot_for_augmented_rule(item.dot),
        }
    }

    fn get_symbol_right_of_dot_for_augmented_rule(&self, dot: usize) -> /*@[*/(r: /*@]*/Option<Symbol>/*@[*/)/*@]*/
        //@[ C17 get_symbol_right_of_dot_for_augmented_rule: S' -> . start
        ensures r == (if dot == 0 { Some(Symbol::Nonterminal(self.start_nonterminal_name)) } else { None }),
        //@]
    {
        //@[ proof
        proof { assert forall|a: String, b: String| a@ == b@ implies a == b by { axiom_string_ext(a, b); } }
        //@]
        if dot == 0 {
            Some(Symbol::Nonterminal(self.start_nonterminal_name.clone()))
        } else {
            None
        }
    }

    fn get_symbol_right_of_dot_for_original_rule(
        &self,
        dot: usize,
        rule_index: usize,
    ) -> /*@[*/(r: /*@]*/Option<Symbol>/*@[*/)/*@]*/
        //@[ C17 C07 get_symbol_right_of_dot_for_original_rule
        requires rule_index < self.rules@.len(),
        ensures r == (if dot < rule_rhs(self.rules@[rule_index as int]).len() { Some(rule_rhs(self.rules@[rule_index as int])[dot as int]) } else { None }),
        //@]
    {
        let rule = &self.rules[rule_index];
        get_nth_field_symbol(dot, rule.fieldset)
    }
}

//@[ C17 ghost: lookahead set FIRST(beta a) as a predicate over a first set
spec fn la_of_first(first: FirstSet, a: Lookahead, la: Lookahead) -> bool {
    (la matches Lookahead::Terminal(t) && first.terminals@.contains(t)) || (first.contains_epsilon && la == a)
}
//@]

fn add_lookahead_if_needed(first: FirstSet, lookahead: &Lookahead) -> /*@[*/(r: /*@]*/AugmentedFirstSet/*@[*/)/*@]*/
    //@[ C17 add_lookahead_if_needed: FIRST(beta) as lookaheads, plus the item's own lookahead iff beta is nullable
    requires first.terminals.wf(),
    ensures r.0.wf(), forall|la: Lookahead| #[trigger] r.0@.contains(la) <==> la_of_first(first, *lookahead, la),
    //@]
{
    if first.contains_epsilon {
        augment_with_lookahead(first, lookahead)
    } else {
        convert_first_set_to_augmented_as_is(first)
    }
}

//@[ T: `.map(Lookahead::Terminal).chain(once(..))` is outside the supported subset (body not verified; contract assumed)
#[verifier::external_body]
//@]
fn augment_with_lookahead(first: FirstSet, lookahead: &Lookahead) -> /*@[*/(r: /*@]*/AugmentedFirstSet/*@[*/)/*@]*/
    //@[ assumed contract
    requires first.terminals.wf(),
    ensures r.0.wf(), forall|la: Lookahead| #[trigger] r.0@.contains(la) <==>
        ((la matches Lookahead::Terminal(t) && first.terminals@.contains(t)) || la == *lookahead),
    //@]
{
    AugmentedFirstSet(
        first
            .terminals
            .into_iter()
            .map(Lookahead::Terminal)
            .chain(std::iter::once(lookahead.clone()))
            .collect(),
    )
}

fn convert_first_set_to_augmented_as_is(first: FirstSet) -> /*@[*/(r: /*@]*/AugmentedFirstSet/*@[*/)/*@]*/
    //@[ C17 convert_first_set_to_augmented_as_is: exactly the terminals of FIRST(beta), as lookaheads
    requires first.terminals.wf(),
    ensures r.0.wf(), forall|la: Lookahead| #[trigger] r.0@.contains(la) <==> (la matches Lookahead::Terminal(t) && first.terminals@.contains(t)),
    //@]
{
    //@[ proof
    let ghost ts = first.terminals.seq();
    //@]
    /*@[*/let __vx_r = /*@]*/AugmentedFirstSet(
        first
            .terminals
            .into_iter()
            .map(/*@{ T19_ctor*//*@- Lookahead::Terminal *//*@|*/|t: DollarlessTerminalName| -> (o: Lookahead) ensures o == Lookahead::Terminal(t) { Lookahead::Terminal(t) }/*@}*/)
            .collect(),
    )/*@[*/;
    proof {
        let mapped = choose|mapped: Seq<Lookahead>| #![auto] __vx_r.0@ == mapped.to_set() && mapped.len() == ts.len()
            && forall|i: int| 0 <= i < ts.len() ==> #[trigger] mapped[i] == Lookahead::Terminal(ts[i]);
        assert forall|la: Lookahead| #[trigger] __vx_r.0@.contains(la) <==> (la matches Lookahead::Terminal(t) && first.terminals@.contains(t)) by {
            if __vx_r.0@.contains(la) { let i = choose|i: int| 0 <= i < mapped.len() && mapped[i] == la; assert(first.terminals@.contains(ts[i])); }
            if let Lookahead::Terminal(t) = la {
                if first.terminals@.contains(t) {
                    let i = choose|i: int| 0 <= i < ts.len() && ts[i] == t;
                    assert(mapped[i] == la); assert(mapped.to_set().contains(mapped[i]));
                }
            }
        }
    }
    __vx_r/*@]*/
}

//@[ C17 lemma: enumerate + find_map with this closure finds the first state with the same core
proof fn lemma_first_same_core(sts: Seq<State>, g: spec_fn(int, State) -> Option<StateIndex>, items: Set<StateItem>, i: int)
    requires sts.len() <= usize::MAX, 0 <= i,
        forall|k: int, st: State| #[trigger] g(k, st) == (if same_core(items, st.items@) { Some(StateIndex(k as usize)) } else { None::<StateIndex> }),
    ensures match enum_find_map_spec(sts, g, i) {
        Some(r) => i <= r.0 < sts.len() && same_core(items, sts[r.0 as int].items@) && forall|j: int| i <= j < r.0 ==> !same_core(items, #[trigger] sts[j].items@),
        None => forall|j: int| i <= j < sts.len() ==> !same_core(items, #[trigger] sts[j].items@),
    }
    decreases sts.len() - i
{
    if i < sts.len() { lemma_first_same_core(sts, g, items, i + 1); }
}
//@]

fn are_cores_equal(a: &State, b: &State) -> /*@[*/(r: /*@]*/bool/*@[*/)/*@]*/
    //@[ C17 C04 C11 are_cores_equal: states are merged iff their cores (rule, dot pairs) are equal - BOTH inclusions
    ensures r == same_core(a.items@, b.items@),
    //@]
{
    is_core_subset(a, b) && is_core_subset(b, a)
}

fn is_core_subset(substate: &State, superstate: &State) -> /*@[*/(r: /*@]*/bool/*@[*/)/*@]*/
    //@[ C17 is_core_subset: every (rule, dot) of the first state occurs in the second
    ensures r == core_subset(substate.items@, superstate.items@),
    //@]
{
    //@[ proof
    let ghost sub_s = substate.items.seq();
    let ghost sup_s = superstate.items.seq();
    //@]
    /*@[*/let __vx_r = /*@]*/substate.items.iter().all(|sub/*@[*/: &StateItem/*@]*/| /*@[*/-> (o: bool)
        ensures o == seq_has_core(sup_s, core_item(*sub))
    /*@]*/{
        /*@[*/let __vx_a = /*@]*/superstate
            .items
            .iter()
            .any(|super_/*@[*/: &StateItem/*@]*/| /*@[*/-> (o2: bool) ensures o2 == (core_item(*super_) == core_item(*sub)) { /*@]*/sub.rule_index == super_.rule_index && sub.dot == super_.dot/*@[*/ }/*@]*/)/*@[*/;
        proof {
            let rem = sup_s.as_ref();
            assert(rem.len() == sup_s.len());
            assert(forall|j: int| 0 <= j < rem.len() ==> *(#[trigger] rem[j]) == sup_s[j]);
            if !__vx_a {
                assert forall|j: int| 0 <= j < sup_s.len() implies core_item(#[trigger] sup_s[j]) != core_item(*sub) by { assert(*rem[j] == sup_s[j]); }
            }
        }
        __vx_a/*@]*/
    })/*@[*/;
    proof {
        let rem = sub_s.as_ref();
        assert(rem.len() == sub_s.len());
        assert(forall|i: int| 0 <= i < rem.len() ==> *(#[trigger] rem[i]) == sub_s[i]);
        if __vx_r {
            assert forall|i: int| 0 <= i < sub_s.len() implies seq_has_core(sup_s, core_item(#[trigger] sub_s[i])) by { assert(*rem[i] == sub_s[i]); }
        }
        lemma_core_subset_seq(sub_s, sup_s, __vx_r);
    }
    __vx_r/*@]*/
}

//@[ C17 lemma: the nested all/any over the item sequences decides core inclusion of the item sets
spec fn seq_has_core(s: Seq<StateItem>, c: (RuleIndex, usize)) -> bool { exists|j: int| 0 <= j < s.len() && core_item(#[trigger] s[j]) == c }

proof fn lemma_core_subset_seq(sub_s: Seq<StateItem>, sup_s: Seq<StateItem>, r: bool)
    requires r == (forall|i: int| 0 <= i < sub_s.len() ==> seq_has_core(sup_s, core_item(#[trigger] sub_s[i])))
    ensures r == core_subset(sub_s.to_set(), sup_s.to_set())
{
    if r {
        assert forall|it: StateItem| #[trigger] sub_s.to_set().contains(it) implies core_has(sup_s.to_set(), core_item(it)) by {
            let i = choose|i: int| 0 <= i < sub_s.len() && sub_s[i] == it;
            assert(seq_has_core(sup_s, core_item(sub_s[i])));
            let j = choose|j: int| 0 <= j < sup_s.len() && core_item(#[trigger] sup_s[j]) == core_item(sub_s[i]);
            assert(sup_s.to_set().contains(sup_s[j]));
        }
    }
    if core_subset(sub_s.to_set(), sup_s.to_set()) {
        assert forall|i: int| 0 <= i < sub_s.len() implies seq_has_core(sup_s, core_item(#[trigger] sub_s[i])) by {
            assert(sub_s.to_set().contains(sub_s[i]));
            let it2 = choose|it2: StateItem| sup_s.to_set().contains(it2) && #[trigger] core_item(it2) == core_item(sub_s[i]);
            let j = choose|j: int| 0 <= j < sup_s.len() && sup_s[j] == it2;
            assert(core_item(sup_s[j]) == core_item(sub_s[i]));
        }
    }
}
//@]

fn get_nth_field_symbol(n: usize, fieldset: &Fieldset) -> /*@[*/(r: /*@]*/Option<Symbol>/*@[*/)/*@]*/
    //@[ C17 get_nth_field_symbol: the n-th symbol of the right-hand side, None past the end
    ensures r == (if n < fieldset_syms(*fieldset).len() { Some(fieldset_syms(*fieldset)[n as int]) } else { None }),
    //@]
{
    match fieldset {
        Fieldset::Empty => None,
        Fieldset::Named(named) => get_nth_field_symbol_from_named(n, named),
        Fieldset::Tuple(tuple) => get_nth_field_symbol_from_tuple(n, tuple),
    }
}

fn get_nth_field_symbol_from_named(n: usize, named: &NamedFieldset) -> /*@[*/(r: /*@]*/Option<Symbol>/*@[*/)/*@]*/
    //@[ C17 get_nth_field_symbol_from_named
    ensures r == (if n < named.fields@.len() { Some(sym_of(named.fields@[n as int].symbol)) } else { None }),
    //@]
{
    named.fields.get(n).map(|field/*@[*/: &NamedField/*@]*/| /*@[*/-> (o: Symbol) ensures o == sym_of(field.symbol) { /*@]*/field.symbol.clone().into()/*@[*/ }/*@]*/)
}

fn get_nth_field_symbol_from_tuple(n: usize, tuple: &TupleFieldset) -> /*@[*/(r: /*@]*/Option<Symbol>/*@[*/)/*@]*/
    //@[ C17 get_nth_field_symbol_from_tuple
    ensures r == (if n < tuple.fields@.len() { Some(sym_of(tuple_field_sym(tuple.fields@[n as int]))) } else { None }),
    //@]
{
    tuple
        .fields
        .get(n)
        .map(|field/*@[*/: &TupleField/*@]*/| /*@[*/-> (o: Symbol) ensures o == sym_of(tuple_field_sym(*field)) { /*@]*/field.symbol().clone().into()/*@[*/ }/*@]*/)
}

fn get_field_symbols_from_n_onwards(fieldset: &Fieldset, n: usize) -> /*@[*/(r: /*@]*/Vec<Symbol>/*@[*/)/*@]*/
    //@[ C17 get_field_symbols_from_n_onwards: the symbols of the right-hand side from position n on
    requires n <= fieldset_syms(*fieldset).len(),
    ensures r@ == fieldset_syms(*fieldset).subrange(n as int, fieldset_syms(*fieldset).len() as int),
    //@]
{
    match fieldset {
        Fieldset::Empty => vec![],
        Fieldset::Named(named) => get_field_symbols_from_n_onwards_for_named(named, n),
        Fieldset::Tuple(tuple) => get_field_symbols_from_n_onwards_for_tuple(tuple, n),
    }
}

fn get_field_symbols_from_n_onwards_for_named(named: &NamedFieldset, n: usize) -> /*@[*/(r: /*@]*/Vec<Symbol>/*@[*/)/*@]*/
    //@[ C17 get_field_symbols_from_n_onwards_for_named
    requires n <= named.fields@.len(),
    ensures r@ == fieldset_syms(Fieldset::Named(*named)).subrange(n as int, named.fields@.len() as int),
    //@]
{
    named
        .fields
        .iter()
        .skip(n)
        .map(|field/*@[*/: &NamedField/*@]*/| /*@[*/-> (o: Symbol) ensures o == sym_of(field.symbol) { /*@]*/field.symbol.clone().into()/*@[*/ }/*@]*/)
        .collect()
}

fn get_field_symbols_from_n_onwards_for_tuple(tuple: &TupleFieldset, n: usize) -> /*@[*/(r: /*@]*/Vec<Symbol>/*@[*/)/*@]*/
    //@[ C17 get_field_symbols_from_n_onwards_for_tuple
    requires n <= tuple.fields@.len(),
    ensures r@ == fieldset_syms(Fieldset::Tuple(*tuple)).subrange(n as int, tuple.fields@.len() as int),
    //@]
{
    tuple
        .fields
        .iter()
        .skip(n)
        .map(|field/*@[*/: &TupleField/*@]*/| /*@[*/-> (o: Symbol) ensures o == sym_of(tuple_field_sym(*field)) { /*@]*/field.symbol().clone().into()/*@[*/ }/*@]*/)
        .collect()
}

use first_set_map::get_first_sets;

#[cfg(test)]
pub(crate) mod tests;
