//@file kiki/src/pipeline/validated_ast_to_machine/mod.rs mod=crate::pipeline::validated_ast_to_machine
//@[ imports
use vstd::prelude::*;
use vstd::std_specs::iter::*;
use vstd::std_specs::cmp::*;
use crate::vx_gram::*;
use crate::vx_ord::*;
use crate::vx_hash::*;
use crate::vx_utf8::*;
broadcast use {vstd::std_specs::hash::group_hash_axioms, crate::vx_hash_ax::group_key_models, crate::vx_ordax::group_lawful, crate::data::oset::axiom_yielded_oset, crate::vx_hash::group_string_keys};
//@]
use crate::data::{
    machine::*, unnormalized_machine::UnnormalizedMachine, validated_file::*,
    DollarlessTerminalName, Oset, Symbol,
};

use std::collections::VecDeque;
use std::collections::{HashMap, HashSet};

use crate::pipeline::normalize_machine::normalize_machine;

/// Converts the AST to a finite state machine (FSM).
pub fn validated_ast_to_machine(file: &File) -> Machine {
    let builder = UnnormalizedMachineBuilder::new(file);
    let unnormalized = builder.build();
    normalize_machine(unnormalized)
}

#[derive(Debug, Clone)]
struct UnnormalizedMachineBuilder<'a> {
    context: ImmutContext<'a>,
    /// The first state is the start state.
    states: Vec<State>,
    transitions: HashSet<Transition>,
    queue: VecDeque<StateIndex>,
}

#[derive(Debug, Clone)]
struct ImmutContext<'a> {
    start_nonterminal_name: String,
    rules: Vec<Rule<'a>>,
    first_sets: HashMap<String, FirstSet>,
}

//@[ T8: derived Clone kept external; structural contract assumed below
#[verifier::external_derive(Clone)]
//@]
#[derive(Debug, Clone)]
struct FirstSet {
    terminals: Oset<DollarlessTerminalName>,
    contains_epsilon: bool,
}

#[derive(Debug, Clone)]
struct AugmentedFirstSet(Oset<Lookahead>);

//@[ C17 C07 ghost vocabulary: the assignment a first-set map stands for
pub assume_specification[ <FirstSet as Clone>::clone ](x: &FirstSet) -> (r: FirstSet) ensures r == *x;

type FsMap = Map<String, FirstSet>;

/// every stored terminal set is a well-formed ordered set
spec fn fs_wf(m: FsMap) -> bool { forall|k: String| #[trigger] m.contains_key(k) ==> m[k].terminals.wf() }

/// some key of the map is called a
spec fn fs_has(m: FsMap, a: Seq<char>) -> bool { exists|k: String| #![trigger m.contains_key(k)] m.contains_key(k) && k@ == a }

/// the (FIRST, nullable) assignment the map stands for
spec fn fa_of(m: FsMap) -> FA {
    FA {
        fst: |a: Seq<char>, t: DollarlessTerminalName| exists|k: String| #![trigger m.contains_key(k)] m.contains_key(k) && k@ == a && m[k].terminals@.contains(t),
        nul: |a: Seq<char>| exists|k: String| #![trigger m.contains_key(k)] m.contains_key(k) && k@ == a && m[k].contains_epsilon,
    }
}

/// the map is exactly FIRST / nullable of the grammar
spec fn is_first_map(m: FsMap, g: Seq<Rule>) -> bool {
    &&& forall|a: Seq<char>| #[trigger] (fa_of(m).nul)(a) <==> nullable(g, a)
    &&& forall|a: Seq<char>, t: DollarlessTerminalName| #[trigger] (fa_of(m).fst)(a, t) <==> in_first(g, a, t)
}

/// abstract value of one first set
spec fn fs_view(f: FirstSet) -> (Set<DollarlessTerminalName>, bool) { (f.terminals@, f.contains_epsilon) }

/// every nonterminal occurring in the rules (as a left-hand side or inside a right-hand side) is a key
spec fn fs_covers(m: FsMap, g: Seq<Rule>) -> bool {
    forall|ri: int| 0 <= ri < g.len() ==> fs_has(m, rule_lhs(#[trigger] g[ri]))
        && forall|i: int| 0 <= i < rule_rhs(g[ri]).len() && (#[trigger] rule_rhs(g[ri])[i]) is Nonterminal ==> fs_has(m, sym_name(rule_rhs(g[ri])[i]))
}

/// position p of syms contributes terminal t to FIRST(syms)
spec fn contributes(fa: FA, syms: Seq<Symbol>, p: int, t: DollarlessTerminalName) -> bool {
    0 <= p < syms.len() && fa_prefix_nullable(fa, syms, p)
        && (syms[p] == Symbol::Terminal(t) || (syms[p] is Nonterminal && (fa.fst)(sym_name(syms[p]), t)))
}

/// state of the three `first of a symbol sequence` loops: the contributions of syms[0..b) are in `terms`;
/// `closed`: a non-nullable symbol (syms[b-1]) was reached
spec fn seq_loop_inv(fa: FA, syms: Seq<Symbol>, terms: Set<DollarlessTerminalName>, eps: bool, b: int, closed: bool) -> bool {
    &&& 0 <= b <= syms.len() && eps == !closed
    &&& forall|t: DollarlessTerminalName| #[trigger] terms.contains(t) <==> exists|p: int| 0 <= p < b && #[trigger] contributes(fa, syms, p, t)
    &&& if closed { b >= 1 && fa_prefix_nullable(fa, syms, b - 1) && !(syms[b - 1] is Nonterminal && (fa.nul)(sym_name(syms[b - 1]))) }
        else { fa_prefix_nullable(fa, syms, b) }
}

/// result of such a loop
spec fn seq_first_result(fa: FA, syms: Seq<Symbol>, terms: Set<DollarlessTerminalName>, eps: bool) -> bool {
    &&& eps == fa_seq_nullable(fa, syms)
    &&& forall|t: DollarlessTerminalName| #[trigger] terms.contains(t) <==> fa_seq_first(fa, syms, t)
}

proof fn lemma_seq_loop_done(fa: FA, syms: Seq<Symbol>, terms: Set<DollarlessTerminalName>, eps: bool, b: int, closed: bool)
    requires seq_loop_inv(fa, syms, terms, eps, b, closed), closed || b == syms.len()
    ensures seq_first_result(fa, syms, terms, eps)
{
    assert forall|t: DollarlessTerminalName| #[trigger] terms.contains(t) <==> fa_seq_first(fa, syms, t) by {
        if terms.contains(t) {
            let p = choose|p: int| 0 <= p < b && #[trigger] contributes(fa, syms, p, t);
            assert(syms[p] == Symbol::Terminal(t) || (syms[p] is Nonterminal && (fa.fst)(sym_name(syms[p]), t)));
        }
        if fa_seq_first(fa, syms, t) {
            let i = choose|i: int| 0 <= i < syms.len() && fa_prefix_nullable(fa, syms, i)
                && ((#[trigger] syms[i]) == Symbol::Terminal(t) || (syms[i] is Nonterminal && (fa.fst)(sym_name(syms[i]), t)));
            if closed && i >= b { assert(syms[b - 1] is Nonterminal && (fa.nul)(sym_name(syms[b - 1]))); }
            assert(contributes(fa, syms, i, t));
        }
    }
    if closed { if fa_seq_nullable(fa, syms) { assert(syms[b - 1] is Nonterminal && (fa.nul)(sym_name(syms[b - 1]))); } }
}

/// one iteration: the symbol at b adds `add` (its own FIRST under fa, or itself if it is a terminal) and closes iff it is not nullable
proof fn lemma_seq_loop_step(fa: FA, syms: Seq<Symbol>, terms: Set<DollarlessTerminalName>, b: int,
                             add: Set<DollarlessTerminalName>, sym_eps: bool)
    requires seq_loop_inv(fa, syms, terms, true, b, false), b < syms.len(),
        forall|t: DollarlessTerminalName| #[trigger] add.contains(t) <==>
            (syms[b] == Symbol::Terminal(t) || (syms[b] is Nonterminal && (fa.fst)(sym_name(syms[b]), t))),
        sym_eps == (syms[b] is Nonterminal && (fa.nul)(sym_name(syms[b]))),
    ensures seq_loop_inv(fa, syms, terms.union(add), sym_eps, b + 1, !sym_eps)
{
    let terms2 = terms.union(add);
    assert forall|t: DollarlessTerminalName| #[trigger] terms2.contains(t) <==> exists|p: int| 0 <= p < b + 1 && #[trigger] contributes(fa, syms, p, t) by {
        if terms2.contains(t) {
            if terms.contains(t) {
                let p = choose|p: int| 0 <= p < b && #[trigger] contributes(fa, syms, p, t);
                assert(contributes(fa, syms, p, t));
            } else { assert(contributes(fa, syms, b, t)); }
        }
        if exists|p: int| 0 <= p < b + 1 && #[trigger] contributes(fa, syms, p, t) {
            let p = choose|p: int| 0 <= p < b + 1 && #[trigger] contributes(fa, syms, p, t);
            if p < b { assert(terms.contains(t)); } else { assert(add.contains(t)); }
        }
    }
    if sym_eps {
        assert forall|j: int| 0 <= j < b + 1 && j < syms.len() implies (#[trigger] syms[j]) is Nonterminal && (fa.nul)(sym_name(syms[j])) by {}
    }
}
//@]

//@[ T13: outlined expressions (current /repo tokens; bodies not verified, contracts assumed)
#[verifier::external_body]
fn __vx_queue_init(items: &[StateItem]) -> (r: VecDeque<StateItem>)
    ensures r@ == items@
{ /*@orig T13_queue_init*/ }

#[verifier::external_body]
fn __vx_extend_cloned(terminals: &mut Oset<DollarlessTerminalName>, nonterminal_first_set: &FirstSet)
    ensures old(terminals).wf() && nonterminal_first_set.terminals.wf() ==>
        final(terminals).wf() && final(terminals)@ == old(terminals)@.union(nonterminal_first_set.terminals@)
{ /*@orig T13_extend_cloned*/; }
//@]

impl UnnormalizedMachineBuilder<'_> {
    fn new(file: &File) -> UnnormalizedMachineBuilder {
        let context = ImmutContext::new(file);
        let start_state = context.get_start_state();
        UnnormalizedMachineBuilder {
            context,
            states: vec![start_state],
            transitions: HashSet::new(),
            queue: VecDeque::from([StateIndex(0)]),
        }
    }
}

impl ImmutContext<'_> {
    fn new(file: &File) -> ImmutContext {
        let rules: Vec<Rule> = file.get_rules().collect();
        let first_sets = get_first_sets(&rules);
        ImmutContext {
            start_nonterminal_name: file.start.clone(),
            rules,
            first_sets,
        }
    }
}

impl UnnormalizedMachineBuilder<'_> {
    //@[ termination of the worklist loop is NOT proved (listed under C07 not_covered)
    #[verifier::exec_allows_no_decreases_clause]
    //@]
    fn build(/*@{ T10_mut_self*//*@- mut self *//*@|*/self/*@}*/) -> UnnormalizedMachine {
        //@[ T10
        let mut __vx_self = self;
        //@]
        while let Some(state_index) = /*@{*//*@- self *//*@|*/__vx_self/*@}*/.queue.pop_front() {
            /*@{*//*@- self *//*@|*/__vx_self/*@}*/.enqueue_transition_targets(state_index);
        }
        UnnormalizedMachine {
            states: /*@{*//*@- self *//*@|*/__vx_self/*@}*/.states,
            transitions: /*@{*//*@- self *//*@|*/__vx_self/*@}*/.transitions,
        }
    }

    fn enqueue_state_if_needed(&mut self, state: State) -> StateIndex {
        if let Some(index) = self.get_index_of_mergable(&state) {
            self.merge(index, state.items)
        } else {
            self.enqueue_new_state(state)
        }
    }

    //@[ T: iterator adapters outside the supported subset (body not verified; contract assumed)
    #[verifier::external_body]
    //@]
    fn get_index_of_mergable(&self, state: &State) -> Option<StateIndex> {
        self.states
            .iter()
            .enumerate()
            .find_map(|(i, existing_state)| {
                if are_cores_equal(state, existing_state) {
                    Some(StateIndex(i))
                } else {
                    None
                }
            })
    }

    fn merge(&mut self, index: StateIndex, items: Oset<StateItem>) -> StateIndex {
        let were_items_added = self.add_items_if_needed(index, items);

        if were_items_added {
            self.queue.push_back(index);
        }

        index
    }

    /// Returns true if items were added.
    fn add_items_if_needed(&mut self, index: StateIndex, items: Oset<StateItem>) -> bool {
        let state = self.state_mut(index);
        let mut was_item_added = false;

        for item in items {
            if !state.items.contains(&item) {
                state.items.insert(item);
                was_item_added = true;
            }
        }

        was_item_added
    }

    fn enqueue_new_state(&mut self, state: State) -> StateIndex {
        let index = StateIndex(self.states.len());
        self.states.push(state);
        self.queue.push_back(index);
        index
    }

    fn enqueue_transition_targets(&mut self, state_index: StateIndex) {
        let next_symbols = self.get_symbols_right_of_dot(state_index);
        for symbol in &next_symbols {
            self.enqueue_transition_target(state_index, symbol);
        }
    }

    //@[ T: iterator adapters outside the supported subset (body not verified; contract assumed)
    #[verifier::external_body]
    //@]
    fn get_symbols_right_of_dot(&self, state_index: StateIndex) -> Oset<Symbol> {
        let state = self.state(state_index);
        state
            .items
            .iter()
            .filter_map(|item| self.get_symbol_right_of_dot(item))
            .collect()
    }

    fn get_symbol_right_of_dot(&self, item: &StateItem) -> Option<Symbol> {
        self.context.get_symbol_right_of_dot(item)
    }

    fn enqueue_transition_target(&mut self, state_index: StateIndex, symbol: &Symbol) {
        let target = self.get_transition_target(state_index, symbol);
        let target_index = self.enqueue_state_if_needed(target);
        let transition = Transition {
            from: state_index,
            to: target_index,
            symbol: symbol.clone(),
        };
        self.transitions.insert(transition);
    }

    fn get_transition_target(&self, state_index: StateIndex, symbol: &Symbol) -> State {
        let items = self.get_transition_items(state_index, symbol);
        self.get_closure(&items)
    }

    fn get_closure(&self, items: &[StateItem]) -> State {
        self.context.get_closure(items)
    }

    //@[ T: iterator adapters outside the supported subset (body not verified; contract assumed)
    #[verifier::external_body]
    //@]
    fn get_transition_items(&self, state_index: StateIndex, symbol: &Symbol) -> Vec<StateItem> {
        let state = self.state(state_index);
        state
            .items
            .iter()
            .filter_map(|item| self.advance(item, symbol))
            .collect()
    }

    /// If `item` is `A -> alpha . B beta` and `symbol` is `B`,
    /// then this returns `Some(A -> alpha B . beta)`.
    fn advance(&self, item: &StateItem, symbol: &Symbol) -> Option<StateItem> {
        let right_of_dot = self.get_symbol_right_of_dot(item);
        if right_of_dot.as_ref() == Some(symbol) {
            Some(StateItem {
                rule_index: item.rule_index,
                lookahead: item.lookahead.clone(),
                dot: item.dot + 1,
            })
        } else {
            None
        }
    }
}

impl UnnormalizedMachineBuilder<'_> {
    fn state(&self, index: StateIndex) -> &State {
        &self.states[index.0]
    }

    fn state_mut(&mut self, index: StateIndex) -> &mut State {
        &mut self.states[index.0]
    }
}

impl ImmutContext<'_> {
    fn get_start_state(&self) -> State {
        self.get_closure(&[StateItem {
            rule_index: RuleIndex::Augmented,
            lookahead: Lookahead::Eof,
            dot: 0,
        }])
    }

    //@[ termination of the closure worklist loop is NOT proved (listed under C07 not_covered)
    #[verifier::exec_allows_no_decreases_clause]
    //@]
    fn get_closure(&self, items: &[StateItem]) -> State {
        let mut queue: VecDeque<StateItem> = /*@{ T13_queue_init*//*@- items.iter().cloned().collect() *//*@|*/__vx_queue_init(items)/*@}*/;
        let mut items = Oset::new();

        while let Some(next) = queue.pop_front() {
            if items.contains(&next) {
                continue;
            }

            self.enqueue_closure_implied_items(&mut queue, &next);
            items.insert(next);
        }

        State { items }
    }

    fn enqueue_closure_implied_items(
        &self,
        queue: &mut VecDeque<StateItem>,
        implicator: &StateItem,
    ) {
        for implied in self.get_closure_implied_items(implicator) {
            queue.push_back(implied);
        }
    }

    fn get_closure_implied_items(&self, item: &StateItem) -> Vec<StateItem> {
        match self.get_symbol_right_of_dot(item) {
            Some(Symbol::Nonterminal(name)) => {
                let item_with_dot_advanced = StateItem {
                    rule_index: item.rule_index,
                    lookahead: item.lookahead.clone(),
                    dot: item.dot + 1,
                };
                let lookaheads = self.get_augmented_first_after_dot(&item_with_dot_advanced);
                self.get_closure_implied_items_for_nonterminal(name, lookaheads)
            }
            Some(Symbol::Terminal(_)) | None => {
                vec![]
            }
        }
    }

    fn get_augmented_first_after_dot(&self, item: &StateItem) -> AugmentedFirstSet {
        let after_dot = self.get_symbol_sequence_after_dot(item);
        let first = self.get_first_of_symbol_sequence(after_dot);
        add_lookahead_if_needed(first, &item.lookahead)
    }

    fn get_symbol_sequence_after_dot(&self, item: &StateItem) -> Vec<Symbol> {
        match item.rule_index {
            RuleIndex::Original(rule_index) => {
                self.get_symbol_sequence_after_dot_for_original_rule(rule_index, item.dot)
            }
            RuleIndex::Augmented => self.get_symbol_sequence_after_dot_for_augmented_rule(item.dot),
        }
    }

    fn get_symbol_sequence_after_dot_for_original_rule(
        &self,
        rule_index: usize,
        dot: usize,
    ) -> Vec<Symbol> {
        let rule = &self.rules[rule_index];
        get_field_symbols_from_n_onwards(rule.fieldset, dot)
    }

    fn get_symbol_sequence_after_dot_for_augmented_rule(&self, dot: usize) -> Vec<Symbol> {
        if dot == 0 {
            vec![Symbol::Nonterminal(self.start_nonterminal_name.clone())]
        } else {
            vec![]
        }
    }

    fn get_first_of_symbol_sequence(&self, symbols: impl IntoIterator<Item = Symbol>) -> FirstSet {
        let mut terminals: Oset<DollarlessTerminalName> = Oset::new();
        let mut contains_epsilon = true;

        for symbol in /*@{ T14_generic_iter*//*@- symbols *//*@|*/__vx_collect(symbols)/*@}*/ {
            match symbol {
                Symbol::Terminal(name) => {
                    terminals.insert(name);
                    contains_epsilon = false;
                    break;
                }
                Symbol::Nonterminal(name) => {
                    let nonterminal_first_set = self.first_sets.get(&name).unwrap();
                    /*@{ T13_extend_cloned*//*@- terminals.extend(nonterminal_first_set.terminals.iter().cloned()) *//*@|*/__vx_extend_cloned(&mut terminals, nonterminal_first_set)/*@}*/;

                    if !nonterminal_first_set.contains_epsilon {
                        contains_epsilon = false;
                        break;
                    }
                }
            }
        }

        FirstSet {
            terminals,
            contains_epsilon,
        }
    }

    //@[ T: iterator adapters outside the supported subset (body not verified; contract assumed)
    #[verifier::external_body]
    //@]
    fn get_closure_implied_items_for_nonterminal(
        &self,
        nonterminal_name: String,
        lookaheads: AugmentedFirstSet,
    ) -> Vec<StateItem> {
        lookaheads
            .0
            .into_iter()
            .flat_map(|lookahead| {
                self.get_closure_implied_items_for_nonterminal_with_lookahead(
                    nonterminal_name.clone(),
                    lookahead,
                )
            })
            .collect()
    }

    //@[ T: iterator adapters outside the supported subset (body not verified; contract assumed)
    #[verifier::external_body]
    //@]
    fn get_closure_implied_items_for_nonterminal_with_lookahead(
        &self,
        nonterminal_name: String,
        lookahead: Lookahead,
    ) -> Vec<StateItem> {
        self.get_rule_indices_for_nonterminal(&nonterminal_name)
            .into_iter()
            .map(|rule_index| StateItem {
                rule_index: RuleIndex::Original(rule_index),
                lookahead: lookahead.clone(),
                dot: 0,
            })
            .collect()
    }

    //@[ T: iterator adapters outside the supported subset (body not verified; contract assumed)
    #[verifier::external_body]
    //@]
    fn get_rule_indices_for_nonterminal<'a>(
        &'a self,
        nonterminal_name: &'a str,
    ) -> impl Iterator<Item = usize> + 'a {
        self.rules
            .iter()
            .enumerate()
            .filter_map(move |(index, rule)| {
                if rule.constructor_name.type_name() == nonterminal_name {
                    Some(index)
                } else {
                    None
                }
            })
    }

    fn get_symbol_right_of_dot(&self, item: &StateItem) -> Option<Symbol> {
        match item.rule_index {
            RuleIndex::Original(rule_index) => {
                self.get_symbol_right_of_dot_for_original_rule(item.dot, rule_index)
            }
            RuleIndex::Augmented => self.get_symbol_right_of_dot_for_augmented_rule(item.dot),
        }
    }

    fn get_symbol_right_of_dot_for_augmented_rule(&self, dot: usize) -> Option<Symbol> {
        if dot == 0 {
            Some(Symbol::Nonterminal(self.start_nonterminal_name.clone()))
        } else {
            None
        }
    }

    fn get_symbol_right_of_dot_for_original_rule(
        &self,
        dot: usize,
        rule_index: usize,
    ) -> Option<Symbol> {
        let rule = &self.rules[rule_index];
        get_nth_field_symbol(dot, rule.fieldset)
    }
}

fn add_lookahead_if_needed(first: FirstSet, lookahead: &Lookahead) -> AugmentedFirstSet {
    if first.contains_epsilon {
        augment_with_lookahead(first, lookahead)
    } else {
        convert_first_set_to_augmented_as_is(first)
    }
}

//@[ T: iterator adapters outside the supported subset (body not verified; contract assumed)
#[verifier::external_body]
//@]
fn augment_with_lookahead(first: FirstSet, lookahead: &Lookahead) -> AugmentedFirstSet {
    AugmentedFirstSet(
        first
            .terminals
            .into_iter()
            .map(Lookahead::Terminal)
            .chain(std::iter::once(lookahead.clone()))
            .collect(),
    )
}

//@[ T: iterator adapters outside the supported subset (body not verified; contract assumed)
#[verifier::external_body]
//@]
fn convert_first_set_to_augmented_as_is(first: FirstSet) -> AugmentedFirstSet {
    AugmentedFirstSet(
        first
            .terminals
            .into_iter()
            .map(Lookahead::Terminal)
            .collect(),
    )
}

fn are_cores_equal(a: &State, b: &State) -> bool {
    is_core_subset(a, b) && is_core_subset(b, a)
}

fn is_core_subset(substate: &State, superstate: &State) -> bool {
    substate.items.iter().all(|sub| {
        superstate
            .items
            .iter()
            .any(|super_| sub.rule_index == super_.rule_index && sub.dot == super_.dot)
    })
}

fn get_nth_field_symbol(n: usize, fieldset: &Fieldset) -> Option<Symbol> {
    match fieldset {
        Fieldset::Empty => None,
        Fieldset::Named(named) => get_nth_field_symbol_from_named(n, named),
        Fieldset::Tuple(tuple) => get_nth_field_symbol_from_tuple(n, tuple),
    }
}

fn get_nth_field_symbol_from_named(n: usize, named: &NamedFieldset) -> Option<Symbol> {
    named.fields.get(n).map(|field| field.symbol.clone().into())
}

fn get_nth_field_symbol_from_tuple(n: usize, tuple: &TupleFieldset) -> Option<Symbol> {
    tuple
        .fields
        .get(n)
        .map(|field| field.symbol().clone().into())
}

fn get_field_symbols_from_n_onwards(fieldset: &Fieldset, n: usize) -> Vec<Symbol> {
    match fieldset {
        Fieldset::Empty => vec![],
        Fieldset::Named(named) => get_field_symbols_from_n_onwards_for_named(named, n),
        Fieldset::Tuple(tuple) => get_field_symbols_from_n_onwards_for_tuple(tuple, n),
    }
}

fn get_field_symbols_from_n_onwards_for_named(named: &NamedFieldset, n: usize) -> Vec<Symbol> {
    named
        .fields
        .iter()
        .skip(n)
        .map(|field| field.symbol.clone().into())
        .collect()
}

fn get_field_symbols_from_n_onwards_for_tuple(tuple: &TupleFieldset, n: usize) -> Vec<Symbol> {
    tuple
        .fields
        .iter()
        .skip(n)
        .map(|field| field.symbol().clone().into())
        .collect()
}

use first_set_map::get_first_sets;

#[cfg(test)]
pub(crate) mod tests;
