//@file kiki/src/pipeline/sort_and_get_index_updater.rs mod=crate::pipeline::sort_and_get_index_updater
//@[ imports
use vstd::prelude::*;
use vstd::std_specs::iter::*;
use vstd::std_specs::cmp::*;
use crate::vx_gram::*;
use crate::vx_ord::*;
use crate::vx_hash::*;
use crate::vx_utf8::*;
//@]
use crate::data::IndexUpdater;

//@[ C17 ghost: the updater is a bijection that sends every old position to the position of the same element
pub open spec fn is_index_map<T>(pi: Seq<usize>, old_s: Seq<T>, new_s: Seq<T>) -> bool {
    &&& pi.len() == old_s.len() && new_s.len() == old_s.len()
    &&& forall|i: int| 0 <= i < pi.len() ==> (#[trigger] pi[i]) < new_s.len() && new_s[pi[i] as int] == old_s[i]
    &&& forall|i: int, j: int| 0 <= i < j < pi.len() ==> #[trigger] pi[i] != #[trigger] pi[j]
    &&& forall|a: int| 0 <= a < new_s.len() ==> #[trigger] hit(pi, a)
}
pub open spec fn hit(pi: Seq<usize>, a: int) -> bool { exists|i: int| 0 <= i < pi.len() && #[trigger] pi[i] == a }
//@]

//@[ T: enumerate / sort_by / sort_by_key / tuple-pattern closures are outside the supported subset (bodies of this file not verified; contract assumed)
#[verifier::external_body]
//@]
pub fn sort_and_get_index_updater<T: Ord>(v: Vec<T>) -> /*@[*/(r: /*@]*/(Vec<T>, IndexUpdater)/*@[*/)/*@]*/
    //@[ C17 C14 assumed contract: the elements in non-decreasing order and the bijection old index -> new index
    ensures lawful::<T>() ==> sorted_le(r.0@) && is_index_map(r.1@, v@, r.0@),
    //@]
{
    let indexed = get_sorted_indexed(v);
    let updater = get_index_updater(&indexed);
    let sorted = indexed.into_iter().map(|(_, item)| item).collect();
    (sorted, updater)
}

//@[ T: iterator adapters outside the supported subset (body not verified; contract assumed)
#[verifier::external_body]
//@]
fn get_sorted_indexed<T: Ord>(v: Vec<T>) -> Vec<(usize, T)> {
    let mut indexed: Vec<(usize, T)> = v.into_iter().enumerate().collect();
    indexed.sort_by(|(_, a), (_, b)| a.cmp(b));
    indexed
}

//@[ T: iterator adapters outside the supported subset (body not verified; contract assumed)
#[verifier::external_body]
//@]
fn get_index_updater<T: Ord>(indexed: &[(usize, T)]) -> IndexUpdater {
    let mut changes = get_index_changes(indexed);
    changes.sort_by_key(|change| change.old);
    let index_map = changes.into_iter().map(|change| change.new).collect();
    IndexUpdater::from_map(index_map)
}

#[derive(Debug, Clone, Copy)]
struct IndexChange {
    old: usize,
    new: usize,
}

//@[ T: iterator adapters outside the supported subset (body not verified; contract assumed)
#[verifier::external_body]
//@]
fn get_index_changes<T: Ord>(indexed: &[(usize, T)]) -> Vec<IndexChange> {
    indexed
        .iter()
        .enumerate()
        .map(|(new_index, (old_index, _))| IndexChange {
            old: *old_index,
            new: new_index,
        })
        .collect()
}
