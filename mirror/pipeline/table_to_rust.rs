//@file kiki/src/pipeline/table_to_rust.rs mod=crate::pipeline::table_to_rust
//@[ imports
use vstd::prelude::*;
use vstd::std_specs::iter::*;
use crate::vx_ord::*;
use crate::vx_hash::*;
use crate::vx_str::*;
use crate::vx_utf8::*;
use crate::vx_fmt::*;
use crate::vx_gram::*;
broadcast use {vstd::std_specs::hash::group_hash_axioms, crate::vx_hash_ax::group_key_models, crate::vx_hash::group_string_keys, crate::vx_fmt::group_disp};
//@]
use crate::data::{table::*, validated_file::*, DollarlessTerminalName, RustSrc};
use std::collections::{HashMap, HashSet};

const STATE_VARIANT_PREFIX: &/*@[*/'static /*@]*/str = "S";
const RULE_KIND_VARIANT_PREFIX: &/*@[*/'static /*@]*/str = "R";
const ACTION_SHIFT_VARIANT_NAME: &/*@[*/'static /*@]*/str = "Shift";
const ACTION_REDUCE_VARIANT_NAME: &/*@[*/'static /*@]*/str = "Reduce";
const ACTION_ACCEPT_VARIANT_NAME: &/*@[*/'static /*@]*/str = "Accept";
const ACTION_ERR_VARIANT_NAME: &/*@[*/'static /*@]*/str = "Err";

pub fn table_to_rust(table: &Table, file: &File, grammar_src: &str) -> /*@[*/(r: /*@]*/RustSrc/*@[*/)/*@]*/
    //@[ C15 C07 C06 C12 table_to_rust: the emitted text carries the SHA-256 of exactly the grammar source it was given
    requires emit_pre(table, file),
    ensures spec_hash(r.0@) == Some(sha256_hex(grammar_src@)),
        emits_type_section(r.0@, file), emits_parse_sig(r.0@, file),
    //@]
{
    let builder = SrcBuilder::new(table, file, grammar_src);
    builder.file_src()
}

#[derive(Debug)]
struct SrcBuilder<'a> {
    grammar_src: &'a str,
    table: &'a Table,
    file: &'a File,
    start_type_name: String,
    terminal_enum_name: String,
    eof_variant_name: String,
    quasiterminal_enum_name: String,
    quasiterminal_kind_enum_name: String,
    nonterminal_kind_enum_name: String,
    state_enum_name: String,
    node_enum_name: String,
    action_enum_name: String,
    rule_kind_enum_name: String,
    reduce_fn_prefix: String,
    action_table_name: String,
    goto_table_name: String,
    parse_src_type_param_name: String,

    node_to_terminal_method_names: HashMap<DollarlessTerminalName, String>,
}

//@[ T13: outlined method-name table (current /repo tokens; body not verified, no contract)
#[verifier::external_body]
fn __vx_method_names(file: &File) -> HashMap<DollarlessTerminalName, String>
{ /*@orig T13_method_names*/ }
//@]

//@[ C05 ghost: the helper identifiers the emitter invents, and their freshness
spec fn generated_names(b: SrcBuilder) -> Seq<Seq<char>> {
    seq![b.eof_variant_name@, b.quasiterminal_enum_name@, b.quasiterminal_kind_enum_name@, b.nonterminal_kind_enum_name@,
         b.state_enum_name@, b.node_enum_name@, b.action_enum_name@, b.rule_kind_enum_name@, b.reduce_fn_prefix@,
         b.action_table_name@, b.goto_table_name@, b.parse_src_type_param_name@]
}
/// no invented identifier equals a user identifier (nonterminal, terminal variant, terminal enum) and no two are equal
spec fn names_fresh(b: SrcBuilder) -> bool {
    let g = generated_names(b);
    &&& forall|i: int| 0 <= i < g.len() ==> !defined_id(*b.file, #[trigger] g[i])
    &&& forall|i: int, j: int| 0 <= i < j < g.len() ==> #[trigger] g[i] != #[trigger] g[j]
}
/// size bound under which the emitter's counters cannot overflow (C07 quantifies over bounded inputs)
pub open spec fn emit_pre(table: &Table, file: &File) -> bool {
    file.nonterminals@.len() + file.terminal_enum.variants@.len() < 0x7ffe_0000 && table.terminals@.len() < usize::MAX
    && file_terms_known(file)
}
//@]

impl SrcBuilder<'_> {
    fn new<'a>(table: &'a Table, file: &'a File, grammar_src: &'a str) -> /*@[*/(r: /*@]*/SrcBuilder<'a>/*@[*/)/*@]*/
        //@[ C05 C07 SrcBuilder::new: every invented identifier is fresh w.r.t. the user's identifiers and w.r.t. the other invented ones
        requires emit_pre(table, file),
        ensures r.table == table, r.file == file, r.grammar_src == grammar_src, names_fresh(r),
            r.start_type_name@ == file.start@, r.terminal_enum_name@ == file.terminal_enum.name@,
        //@]
    {
        let used_identifiers = &mut file.get_defined_identifiers();
        let start_type_name = file.start.to_owned();
        let terminal_enum_name = file.terminal_enum.name.to_owned();
        let eof_variant_name = create_unique_identifier("Eof", used_identifiers);
        let quasiterminal_enum_name = create_unique_identifier("Quasiterminal", used_identifiers);
        let quasiterminal_kind_enum_name =
            create_unique_identifier("QuasiterminalKind", used_identifiers);
        let nonterminal_kind_enum_name =
            create_unique_identifier("NonterminalKind", used_identifiers);
        let state_enum_name = create_unique_identifier("State", used_identifiers);
        let node_enum_name = create_unique_identifier("Node", used_identifiers);
        let action_enum_name = create_unique_identifier("Action", used_identifiers);
        let rule_kind_enum_name = create_unique_identifier("RuleKind", used_identifiers);
        let reduce_fn_prefix = create_unique_identifier("reduce", used_identifiers);
        let action_table_name = create_unique_identifier("ACTION_TABLE", used_identifiers);
        let goto_table_name = create_unique_identifier("GOTO_TABLE", used_identifiers);
        let parse_src_type_param_name = create_unique_identifier("S", used_identifiers);

        let node_to_terminal_method_names: HashMap<DollarlessTerminalName, String> = /*@{ T13_method_names*//*@- file
            .terminal_enum
            .variants
            .iter()
            .enumerate()
            .map(|(variant_index, variant)| {
                let variant_name_snake_case = pascal_to_snake_case(variant.dollarless_name.raw());
                let variant_name_original_case = variant.dollarless_name.clone();
                let method_name = format!("try_into_{variant_name_snake_case}_{variant_index}");
                (variant_name_original_case, method_name)
            })
            .collect() *//*@|*/__vx_method_names(file)/*@}*/;

        SrcBuilder {
            grammar_src,
            table,
            file,
            start_type_name,
            terminal_enum_name,
            eof_variant_name,
            quasiterminal_enum_name,
            quasiterminal_kind_enum_name,
            nonterminal_kind_enum_name,
            state_enum_name,
            node_enum_name,
            action_enum_name,
            rule_kind_enum_name,
            reduce_fn_prefix,
            action_table_name,
            goto_table_name,
            parse_src_type_param_name,
            node_to_terminal_method_names,
        }
    }
}

//@[ C15 lemma: a text that starts with the template's header, a digest without line breaks and the template's next piece reads back as that digest
pub open spec fn hdr0() -> Seq<char> { r#"// This code was generated by Kiki.
// Kiki is an open-source minimalist parser generator for Rust.
// You can read more at https://crates.io/crates/kiki
//
// This code was generated from a grammar with the following hash:
// @sha256 "#@ }
pub open spec fn hdr1() -> Seq<char> { r#"

// Since this code is automatically generated,
// some parts may be unidiomatic.
// The linter often complains about these parts.
// However, these warnings are not useful.
// Therefore, we disable certain lints for this file.
#![allow(non_snake_case)]
#![allow(dead_code)]

"#@ }
pub open spec fn hl1() -> Seq<char> { "// This code was generated by Kiki."@ }
proof fn lemma_hl1()
    ensures comment_line(hl1())
{
    reveal_strlit("// This code was generated by Kiki."); reveal_strlit("// @sha256 "); reveal_strlit("//");
    let l = hl1();
    assert(l.subrange(0, 2) =~= "//"@);
    if l.len() >= 11 { assert(l.subrange(0, 11)[3] != "// @sha256 "@[3]); }
}
pub open spec fn hl2() -> Seq<char> { "// Kiki is an open-source minimalist parser generator for Rust."@ }
proof fn lemma_hl2()
    ensures comment_line(hl2())
{
    reveal_strlit("// Kiki is an open-source minimalist parser generator for Rust."); reveal_strlit("// @sha256 "); reveal_strlit("//");
    let l = hl2();
    assert(l.subrange(0, 2) =~= "//"@);
    if l.len() >= 11 { assert(l.subrange(0, 11)[3] != "// @sha256 "@[3]); }
}
pub open spec fn hl3() -> Seq<char> { "// You can read more at https://crates.io/crates/kiki"@ }
proof fn lemma_hl3()
    ensures comment_line(hl3())
{
    reveal_strlit("// You can read more at https://crates.io/crates/kiki"); reveal_strlit("// @sha256 "); reveal_strlit("//");
    let l = hl3();
    assert(l.subrange(0, 2) =~= "//"@);
    if l.len() >= 11 { assert(l.subrange(0, 11)[3] != "// @sha256 "@[3]); }
}
pub open spec fn hl4() -> Seq<char> { "//"@ }
proof fn lemma_hl4()
    ensures comment_line(hl4())
{
    reveal_strlit("//"); reveal_strlit("// @sha256 "); reveal_strlit("//");
    let l = hl4();
    assert(l.subrange(0, 2) =~= "//"@);
    if l.len() >= 11 { assert(l.subrange(0, 11)[3] != "// @sha256 "@[3]); }
}
pub open spec fn hl5() -> Seq<char> { "// This code was generated from a grammar with the following hash:"@ }
proof fn lemma_hl5()
    ensures comment_line(hl5())
{
    reveal_strlit("// This code was generated from a grammar with the following hash:"); reveal_strlit("// @sha256 "); reveal_strlit("//");
    let l = hl5();
    assert(l.subrange(0, 2) =~= "//"@);
    if l.len() >= 11 { assert(l.subrange(0, 11)[3] != "// @sha256 "@[3]); }
}
/// a `//` line without line break that is not the hash line
pub open spec fn comment_line(l: Seq<char>) -> bool {
    no_nl(l) && (l.len() == 0 || l.last() != '\r') && is_prefix("//"@, l) && !is_prefix("// @sha256 "@, l)
}
proof fn lemma_hdr0_lines()
    ensures hdr0() == (hl1() + nl()) + ((hl2() + nl()) + ((hl3() + nl()) + ((hl4() + nl()) + ((hl5() + nl()) + "// @sha256 "@))))
{
    reveal_strlit(r#"// This code was generated by Kiki.
// Kiki is an open-source minimalist parser generator for Rust.
// You can read more at https://crates.io/crates/kiki
//
// This code was generated from a grammar with the following hash:
// @sha256 "#);
    reveal_strlit("// @sha256 ");
    reveal_strlit("// This code was generated by Kiki.");
    reveal_strlit("// Kiki is an open-source minimalist parser generator for Rust.");
    reveal_strlit("// You can read more at https://crates.io/crates/kiki");
    reveal_strlit("//");
    reveal_strlit("// This code was generated from a grammar with the following hash:");
    assert(hdr0() =~= (hl1() + nl()) + ((hl2() + nl()) + ((hl3() + nl()) + ((hl4() + nl()) + ((hl5() + nl()) + "// @sha256 "@)))));
}
proof fn lemma_hdr1_starts_with_nl()
    ensures hdr1().len() > 0, hdr1()[0] == '\n'
{
    reveal_strlit(r#"

// Since this code is automatically generated,
// some parts may be unidiomatic.
// The linter often complains about these parts.
// However, these warnings are not useful.
// Therefore, we disable certain lints for this file.
#![allow(non_snake_case)]
#![allow(dead_code)]

"#);
}
proof fn lemma_skip_line(l: Seq<char>, tail: Seq<char>)
    requires comment_line(l)
    ensures spec_hash(l + nl() + tail) == spec_hash(tail)
{
    let text = l + nl() + tail;
    assert(text.subrange(0, l.len() as int + 1) =~= l + nl());
    assert(text.subrange(l.len() as int + 1, text.len() as int) =~= tail);
    lemma_hash_skip(text, l);
}
proof fn lemma_assoc(a: Seq<char>, b: Seq<char>, c: Seq<char>)
    ensures (a + b) + c == a + (b + c)
{ assert((a + b) + c =~= a + (b + c)); }
proof fn lemma_hit_after_header(h: Seq<char>, p1: Seq<char>, rest: Seq<char>)
    requires no_nl(h), h.len() == 0 || h.last() != '\r', p1.len() > 0, p1[0] == '\n'
    ensures spec_hash("// @sha256 "@ + (h + (p1 + rest))) == Some(h)
{
    let c = "// @sha256 "@;
    let t5 = c + (h + (p1 + rest));
    assert(t5.subrange(0, c.len() as int + h.len() as int + 1) =~= c + h + nl());
    lemma_hash_hit(t5, h);
}
proof fn lemma_header_reads_back(h: Seq<char>, rest: Seq<char>)
    requires no_nl(h), h.len() == 0 || h.last() != '\r'
    ensures spec_hash(hdr0() + (h + (hdr1() + rest))) == Some(h)
{
    lemma_hdr0_lines(); lemma_hdr1_starts_with_nl();
    lemma_hl1(); lemma_hl2(); lemma_hl3(); lemma_hl4(); lemma_hl5();
    let c = "// @sha256 "@;
    let x = h + (hdr1() + rest);
    let d4 = (hl5() + nl()) + c;
    let d3 = (hl4() + nl()) + d4;
    let d2 = (hl3() + nl()) + d3;
    let d1 = (hl2() + nl()) + d2;
    lemma_assoc(hl1() + nl(), d1, x); lemma_skip_line(hl1(), d1 + x);
    lemma_assoc(hl2() + nl(), d2, x); lemma_skip_line(hl2(), d2 + x);
    lemma_assoc(hl3() + nl(), d3, x); lemma_skip_line(hl3(), d3 + x);
    lemma_assoc(hl4() + nl(), d4, x); lemma_skip_line(hl4(), d4 + x);
    lemma_assoc(hl5() + nl(), c, x); lemma_skip_line(hl5(), c + x);
    lemma_hit_after_header(h, hdr1(), rest);
}
//@]

//@[ C12 C06 ghost: the type section of the emitted text
/// somewhere in the text: the terminal enum's attribute block immediately followed by `pub enum <name> {`, its variants,
/// the closing brace, a blank line, and then the nonterminal type definitions
pub open spec fn emits_type_section(text: Seq<char>, b: &File) -> bool {
    exists|pre: Seq<char>, post: Seq<char>| #[trigger] type_section_at(text, b, pre, indent_of_seq(terminal_variants_src(b), 1), post)
}
pub open spec fn type_section_at(text: Seq<char>, b: &File, pre: Seq<char>, vtext: Seq<char>, post: Seq<char>) -> bool {
    text == pre + (attrs_src(b.terminal_enum.attributes@) + ("pub enum "@ + (b.terminal_enum.name@ + (" {\n"@ + (vtext + ("\n}\n\n"@
        + (join_spec(b.nonterminals@.map_values(|nt: Nonterminal| typedef_src(b, nt)), "\n\n"@) + post)))))))
}
proof fn lemma_type_section(b: &File, a0: Seq<char>, a1: Seq<char>, a2: Seq<char>, y: Seq<char>, vtext: Seq<char>, post: Seq<char>)
    requires vtext == indent_of_seq(terminal_variants_src(b), 1), y == attrs_src(b.terminal_enum.attributes@) + ("pub enum "@ + (b.terminal_enum.name@ + (" {\n"@ + (vtext + ("\n}\n\n"@
        + (join_spec(b.nonterminals@.map_values(|nt: Nonterminal| typedef_src(b, nt)), "\n\n"@) + post))))))
    ensures emits_type_section(a0 + (a1 + (a2 + y)), b)
{
    assert(a0 + (a1 + (a2 + y)) =~= ((a0 + a1) + a2) + y);
    assert(type_section_at(a0 + (a1 + (a2 + y)), b, (a0 + a1) + a2, vtext, post));
}
//@]

//@[ C06 ghost: the emitted parse signature
/// `pub fn parse<P>(src: P) -> Result<Start, Option<TerminalEnum>> where P: IntoIterator<Item = TerminalEnum> {` for a type parameter name p
pub open spec fn parse_sig(fl: &File, p: Seq<char>, post: Seq<char>) -> Seq<char> {
    "pub fn parse<"@ + (p + (">(src: "@ + (p + (") -> Result<"@ + (fl.start@ + (", Option<"@ + (fl.terminal_enum.name@ + (">>\nwhere "@ + (p + (": IntoIterator<Item = "@
        + (fl.terminal_enum.name@ + ("> {"@ + post))))))))))))
}
pub open spec fn ends_with(text: Seq<char>, suffix: Seq<char>) -> bool { exists|pre: Seq<char>| text == #[trigger] (pre + suffix) }
pub open spec fn emits_parse_sig(text: Seq<char>, fl: &File) -> bool {
    exists|p: Seq<char>, post: Seq<char>| ends_with(text, #[trigger] parse_sig(fl, p, post))
}
proof fn lemma_ends_with_cons(a: Seq<char>, x: Seq<char>, s: Seq<char>)
    requires ends_with(x, s)
    ensures ends_with(a + x, s)
{
    let pre = choose|pre: Seq<char>| x == #[trigger] (pre + s);
    assert(a + x =~= (a + pre) + s);
}
pub open spec fn doc_piece() -> Seq<char> { r#"

/// If the parser encounters an unexpected token `t`, it will return `Err(Some(t))`.
/// If the parser encounters an unexpected end of input, it will return `Err(None)`.
pub fn parse<"#@ }
pub open spec fn sig_last_piece() -> Seq<char> { r#"> {
    let mut quasiterminals = src.into_iter()
        .map("#@ }
proof fn lemma_sig_pieces()
    ensures doc_piece() == r#"

/// If the parser encounters an unexpected token `t`, it will return `Err(Some(t))`.
/// If the parser encounters an unexpected end of input, it will return `Err(None)`.
"#@ + "pub fn parse<"@, sig_last_piece() == "> {"@ + r#"
    let mut quasiterminals = src.into_iter()
        .map("#@
{
    reveal_strlit(r#"

/// If the parser encounters an unexpected token `t`, it will return `Err(Some(t))`.
/// If the parser encounters an unexpected end of input, it will return `Err(None)`.
pub fn parse<"#); reveal_strlit(r#"

/// If the parser encounters an unexpected token `t`, it will return `Err(Some(t))`.
/// If the parser encounters an unexpected end of input, it will return `Err(None)`.
"#); reveal_strlit("pub fn parse<");
    reveal_strlit(r#"> {
    let mut quasiterminals = src.into_iter()
        .map("#); reveal_strlit(r#"
    let mut quasiterminals = src.into_iter()
        .map("#); reveal_strlit("> {");
    assert(doc_piece() =~= r#"

/// If the parser encounters an unexpected token `t`, it will return `Err(Some(t))`.
/// If the parser encounters an unexpected end of input, it will return `Err(None)`.
"#@ + "pub fn parse<"@);
    assert(sig_last_piece() =~= "> {"@ + r#"
    let mut quasiterminals = src.into_iter()
        .map("#@);
}
/// the signature is a suffix-prefix of the text whatever precedes the doc comment and follows the opening brace
proof fn lemma_parse_sig(fl: &File, c: Seq<Seq<char>>, p: Seq<char>, rest: Seq<char>)
    requires c.len() == 10
    ensures emits_parse_sig(
        c[0] + (c[1] + (c[2] + (c[3] + (c[4] + (c[5] + (c[6] + (c[7] + (c[8] + (c[9] + (doc_piece() + (p + (">(src: "@ + (p + (") -> Result<"@ + (fl.start@
            + (", Option<"@ + (fl.terminal_enum.name@ + (">>\nwhere "@ + (p + (": IntoIterator<Item = "@ + (fl.terminal_enum.name@ + (sig_last_piece() + rest)))))))))))))))))))))),
        fl)
{
    lemma_sig_pieces();
    let docpre = r#"

/// If the parser encounters an unexpected token `t`, it will return `Err(Some(t))`.
/// If the parser encounters an unexpected end of input, it will return `Err(None)`.
"#@;
    let post = r#"
    let mut quasiterminals = src.into_iter()
        .map("#@ + rest;
    let tail = p + (">(src: "@ + (p + (") -> Result<"@ + (fl.start@ + (", Option<"@ + (fl.terminal_enum.name@ + (">>\nwhere "@ + (p + (": IntoIterator<Item = "@
        + (fl.terminal_enum.name@ + (sig_last_piece() + rest)))))))))));
    let sig = parse_sig(fl, p, post);
    assert(doc_piece() + tail =~= docpre + sig) by {
        assert(sig_last_piece() + rest =~= "> {"@ + post);
    }
    assert(ends_with(doc_piece() + tail, sig));
    lemma_ends_with_cons(c[9], doc_piece() + tail, sig);
    lemma_ends_with_cons(c[8], c[9] + (doc_piece() + tail), sig);
    lemma_ends_with_cons(c[7], c[8] + (c[9] + (doc_piece() + tail)), sig);
    lemma_ends_with_cons(c[6], c[7] + (c[8] + (c[9] + (doc_piece() + tail))), sig);
    lemma_ends_with_cons(c[5], c[6] + (c[7] + (c[8] + (c[9] + (doc_piece() + tail)))), sig);
    lemma_ends_with_cons(c[4], c[5] + (c[6] + (c[7] + (c[8] + (c[9] + (doc_piece() + tail))))), sig);
    lemma_ends_with_cons(c[3], c[4] + (c[5] + (c[6] + (c[7] + (c[8] + (c[9] + (doc_piece() + tail)))))), sig);
    lemma_ends_with_cons(c[2], c[3] + (c[4] + (c[5] + (c[6] + (c[7] + (c[8] + (c[9] + (doc_piece() + tail))))))), sig);
    lemma_ends_with_cons(c[1], c[2] + (c[3] + (c[4] + (c[5] + (c[6] + (c[7] + (c[8] + (c[9] + (doc_piece() + tail)))))))), sig);
    lemma_ends_with_cons(c[0], c[1] + (c[2] + (c[3] + (c[4] + (c[5] + (c[6] + (c[7] + (c[8] + (c[9] + (doc_piece() + tail))))))))), sig);
}
//@]

impl SrcBuilder<'_> {
    //@[ proof: solver budget for the 93-placeholder template
    #[verifier::rlimit(80)]
    //@]
    fn file_src(&self) -> /*@[*/(r: /*@]*/RustSrc/*@[*/)/*@]*/
        //@[ C15 C07 C12 C06 file_src: get_grammar_hash reads the SHA-256 of the exact grammar source back from the emitted text
        requires self.table.terminals@.len() < usize::MAX, self.file.terminal_enum.variants@.len() < usize::MAX,
            self.terminal_enum_name@ == self.file.terminal_enum.name@, file_terms_known(self.file),
            self.start_type_name@ == self.file.start@,
        ensures spec_hash(r.0@) == Some(sha256_hex(self.grammar_src@)),
            emits_type_section(r.0@, self.file), emits_parse_sig(r.0@, self.file),
        //@]
    {
        let grammar_sha256 = /*@{ T13_sha256*//*@- sha256::digest *//*@|*/crate::vx_fmt::__vx_sha256_hex/*@}*/(self.grammar_src);

        let Self {
            table,
            file,
            start_type_name,
            terminal_enum_name,
            eof_variant_name,
            quasiterminal_enum_name,
            quasiterminal_kind_enum_name,
            nonterminal_kind_enum_name,
            state_enum_name,
            node_enum_name,
            action_enum_name,
            rule_kind_enum_name,
            reduce_fn_prefix: _,
            action_table_name,
            goto_table_name,
            parse_src_type_param_name,
            ..
        } = self;

        let StateIndex(start_state_index) = table.start;
        let terminal_enum_attributes =
            get_attributes_src_with_newline_after_each_attribute(&file.terminal_enum.attributes);
        let terminal_enum_variants_indent_1 = self.get_terminal_enum_variants_src().indent(1);
        let nonterminal_type_defs = self.get_nonterminal_type_defs_src();
        let terminal_kind_enum_variants_indent_1 =
            self.get_terminal_kind_enum_variants_src().indent(1);
        let num_of_terminal_variants = file.terminal_enum.variants.len();
        let nonterminal_kind_enum_variants_indent_1 =
            self.get_nonterminal_kind_enum_variants_src().indent(1);
        let state_enum_variants_indent_1 = self.get_state_enum_variants_src().indent(1);
        let node_enum_variants_indent_1 = self.get_node_enum_variants_src().indent(1);
        let rule_kind_enum_variants_indent_1 = self.get_rule_kind_enum_variants_src().indent(1);
        let pop_and_reduce_match_arms_indent_2 = self.get_pop_and_reduce_match_arms_src().indent(2);
        let reduce_fns = self.get_reduce_fns_src();
        let quasiterminal_kind_from_terminal_match_arms_indent_3 = self
            .get_quasiterminal_kind_from_terminal_match_arms_src()
            .indent(3);
        let node_from_terminal_match_arms_indent_3 =
            self.get_node_from_terminal_match_arms_src().indent(3);
        let action_table_rows_indent_1 = self.get_action_table_rows_src().indent(1);
        let goto_table_rows_indent_1 = self.get_goto_table_rows_src().indent(1);
        let impl_try_from_node_for_each_nonterminal =
            self.get_impl_try_from_node_for_each_nonterminal_src();
        let node_try_into_terminal_variant_name_variant_index_fns_indent_1 = self
            .get_node_try_into_terminal_variant_name_variant_index_fns_src()
            .indent(1);

        let num_of_quasiterminal_kind_variants = file.terminal_enum.variants.len() + 1;
        let num_of_nonterminal_kind_variants = file.nonterminals.len();
        let num_of_state_variants = table.state_count();

        //@[ proof
        proof {
            let h = grammar_sha256@;
            assert(no_nl(h));
            assert forall|rest: Seq<char>| spec_hash(#[trigger] (hdr0() + (h + (hdr1() + rest)))) == Some(h) by { lemma_header_reads_back(h, rest); }
            let d1 = terminal_enum_attributes@;
            let d2 = terminal_enum_name@;
            let d4 = nonterminal_type_defs@;
            let vtext = terminal_enum_variants_indent_1@;
            let pp = parse_src_type_param_name@;
            let st = start_type_name@;
            assert forall|rest: Seq<char>| emits_parse_sig(hdr0() + (h + (hdr1() + (d1 + ("pub enum "@ + (d2 + (" {\n"@ + (vtext + ("\n}\n\n"@ + (d4 + (doc_piece()
                + (pp + (">(src: "@ + (pp + (") -> Result<"@ + (st + (", Option<"@ + (d2 + (">>\nwhere "@ + (pp + (": IntoIterator<Item = "@ + (d2 + #[trigger] (sig_last_piece() + rest)))))))))))))))))))))), self.file) by {
                lemma_parse_sig(self.file, seq![hdr0(), h, hdr1(), d1, "pub enum "@, d2, " {\n"@, vtext, "\n}\n\n"@, d4], pp, rest);
            }
            assert forall|post: Seq<char>|
                emits_type_section(#[trigger] (hdr0() + (h + (hdr1() + (d1 + ("pub enum "@ + (d2 + (" {\n"@ + (vtext + ("\n}\n\n"@ + (d4 + post)))))))))), self.file) by {
                lemma_type_section(self.file, hdr0(), h, hdr1(), d1 + ("pub enum "@ + (d2 + (" {\n"@ + (vtext + ("\n}\n\n"@ + (d4 + post)))))), vtext, post);
            }
        }
        //@]
        RustSrc(/*@[*/{ let __vx_s = /*@]*/format!(
            r#"// This code was generated by Kiki.
// Kiki is an open-source minimalist parser generator for Rust.
// You can read more at https://crates.io/crates/kiki
//
// This code was generated from a grammar with the following hash:
// @sha256 {grammar_sha256}

// Since this code is automatically generated,
// some parts may be unidiomatic.
// The linter often complains about these parts.
// However, these warnings are not useful.
// Therefore, we disable certain lints for this file.
#![allow(non_snake_case)]
#![allow(dead_code)]

{terminal_enum_attributes}pub enum {terminal_enum_name} {{
{terminal_enum_variants_indent_1}
}}

{nonterminal_type_defs}

/// If the parser encounters an unexpected token `t`, it will return `Err(Some(t))`.
/// If the parser encounters an unexpected end of input, it will return `Err(None)`.
pub fn parse<{parse_src_type_param_name}>(src: {parse_src_type_param_name}) -> Result<{start_type_name}, Option<{terminal_enum_name}>>
where {parse_src_type_param_name}: IntoIterator<Item = {terminal_enum_name}> {{
    let mut quasiterminals = src.into_iter()
        .map({quasiterminal_enum_name}::Terminal)
        .chain(std::iter::once({quasiterminal_enum_name}::{eof_variant_name}))
        .peekable();
    let mut states = vec![{state_enum_name}::{STATE_VARIANT_PREFIX}{start_state_index}];
    let mut nodes: Vec<{node_enum_name}> = vec![];
    loop {{
        let top_state = *states.last().unwrap();
        let next_quasiterminal_kind = {quasiterminal_kind_enum_name}::from_quasiterminal(quasiterminals.peek().unwrap());
        match get_action(top_state, next_quasiterminal_kind) {{
            {action_enum_name}::{ACTION_SHIFT_VARIANT_NAME}(new_state) => {{
                states.push(new_state);
                nodes.push({node_enum_name}::from_terminal(quasiterminals.next().unwrap().try_into_terminal().unwrap()));
            }}

            {action_enum_name}::{ACTION_REDUCE_VARIANT_NAME}(rule_kind) => {{
                let (new_node, new_node_kind) = pop_and_reduce(&mut states, &mut nodes, rule_kind);
                nodes.push(new_node);
                let temp_top_state = *states.last().unwrap();
                let Some(new_state) = get_goto(temp_top_state, new_node_kind) else {{
                    return Err(quasiterminals.next().unwrap().try_into_terminal().ok());
                }};
                states.push(new_state);
            }}

            {action_enum_name}::{ACTION_ACCEPT_VARIANT_NAME} => {{
                return Ok({start_type_name}::try_from(nodes.pop().unwrap()).ok().unwrap());
            }}

            {action_enum_name}::{ACTION_ERR_VARIANT_NAME} => {{
                return Err(quasiterminals.next().unwrap().try_into_terminal().ok());
            }}
        }}
    }}
}}

enum {quasiterminal_enum_name} {{
    Terminal({terminal_enum_name}),
    {eof_variant_name},
}}

#[derive(Clone, Copy, Debug)]
enum {quasiterminal_kind_enum_name} {{
{terminal_kind_enum_variants_indent_1}
    {eof_variant_name} = {num_of_terminal_variants},
}}

#[derive(Clone, Copy, Debug)]
enum {nonterminal_kind_enum_name} {{
{nonterminal_kind_enum_variants_indent_1}
}}

#[derive(Clone, Copy, Debug)]
enum {state_enum_name} {{
{state_enum_variants_indent_1}
}}

enum {node_enum_name} {{
{node_enum_variants_indent_1}
}}

#[derive(Clone, Copy, Debug)]
enum {action_enum_name} {{
    {ACTION_SHIFT_VARIANT_NAME}({state_enum_name}),
    {ACTION_REDUCE_VARIANT_NAME}({rule_kind_enum_name}),
    {ACTION_ACCEPT_VARIANT_NAME},
    {ACTION_ERR_VARIANT_NAME},
}}

#[derive(Clone, Copy, Debug)]
enum {rule_kind_enum_name} {{
{rule_kind_enum_variants_indent_1}
}}

fn pop_and_reduce(states: &mut Vec<{state_enum_name}>, nodes: &mut Vec<{node_enum_name}>, rule_kind: {rule_kind_enum_name}) -> ({node_enum_name}, {nonterminal_kind_enum_name}) {{
    match rule_kind {{
{pop_and_reduce_match_arms_indent_2}
    }}
}}

{reduce_fns}

impl {quasiterminal_kind_enum_name} {{
    fn from_quasiterminal(quasiterminal: &{quasiterminal_enum_name}) -> Self {{
        match quasiterminal {{
            {quasiterminal_enum_name}::Terminal(terminal) => Self::from_terminal(terminal),
            {quasiterminal_enum_name}::{eof_variant_name} => Self::{eof_variant_name},
        }}
    }}

    fn from_terminal(terminal: &{terminal_enum_name}) -> Self {{
        match terminal {{
{quasiterminal_kind_from_terminal_match_arms_indent_3}
        }}
    }}
}}

impl {node_enum_name} {{
    fn from_terminal(terminal: {terminal_enum_name}) -> Self {{
        match terminal {{
{node_from_terminal_match_arms_indent_3}
        }}
    }}
}}

impl {quasiterminal_enum_name} {{
    fn try_into_terminal(self) -> Result<{terminal_enum_name}, ()> {{
        match self {{
            Self::Terminal(terminal) => Ok(terminal),
            Self::{eof_variant_name} => Err(()),
        }}
    }}
}}

static {action_table_name}: [[{action_enum_name}; {num_of_quasiterminal_kind_variants}]; {num_of_state_variants}] = [
{action_table_rows_indent_1}
];

fn get_action(top_state: {state_enum_name}, next_quasiterminal_kind: {quasiterminal_kind_enum_name}) -> {action_enum_name} {{
    {action_table_name}[top_state as usize][next_quasiterminal_kind as usize]
}}

static {goto_table_name}: [[Option<{state_enum_name}>; {num_of_nonterminal_kind_variants}]; {num_of_state_variants}] = [
{goto_table_rows_indent_1}
];

fn get_goto(top_state: {state_enum_name}, new_node_kind: {nonterminal_kind_enum_name}) -> Option<{state_enum_name}> {{
    {goto_table_name}[top_state as usize][new_node_kind as usize]
}}

{impl_try_from_node_for_each_nonterminal}

impl {node_enum_name} {{
{node_try_into_terminal_variant_name_variant_index_fns_indent_1}
}}
"#
        )/*@[*/; proof { lemma_sig_pieces(); /* makes the ground terms doc_piece() / sig_last_piece() known to the solver */ } __vx_s }/*@]*/)
    }

    fn get_terminal_enum_variants_src(&self) -> /*@[*/(r: /*@]*/String/*@[*/)/*@]*/
        //@[ C06 C13 get_terminal_enum_variants_src: one variant `<Name>(<declared payload type>),` per terminal, in declaration order
        ensures r@ == terminal_variants_src(self.file),
        //@]
    {
        /*@[*/let __vx_v = /*@]*/self.file
            .terminal_enum
            .variants
            .iter()
            .map(|variant/*@[*/: &TerminalVariant/*@]*/| /*@[*/-> (o: String) ensures o@ == terminal_variant_line(*variant) /*@]*/{
                let name = variant.dollarless_name.raw();
                let type_ = &variant.type_;
                format!("{name}({type_}),")
            })
            .collect::<Vec<_>>()/*@[*/;
        proof { assert(str_views(__vx_v@) =~= self.file.terminal_enum.variants@.map_values(|v: TerminalVariant| terminal_variant_line(v))); }
        __vx_join(&__vx_v, /*@]*/
            /*@{ T17_join3*//*@- .join( *//*@|*//*@}*/"\n")
    }

    fn get_nonterminal_type_defs_src(&self) -> /*@[*/(r: /*@]*/String/*@[*/)/*@]*/
        //@[ C12 C06 get_nonterminal_type_defs_src: one definition per nonterminal in declaration order, separated by blank lines; each is its attribute block immediately followed by `pub struct <name>` / `pub enum <name> {`
        requires file_terms_known(self.file),
        ensures r@ == join_spec(self.file.nonterminals@.map_values(|nt: Nonterminal| typedef_src(self.file, nt)), "\n\n"@),
        //@]
    {
        /*@[*/let __vx_defs = /*@]*/self.file
            .nonterminals
            .iter()
            .map(|nonterminal/*@[*/: &Nonterminal/*@]*/| /*@[*/-> (o: String)
                requires nt_terms_known(self.file, *nonterminal)
                ensures o@ == typedef_src(self.file, *nonterminal)
            { /*@]*/match nonterminal {
                Nonterminal::Struct(s) => {
                    let attributes =
                        get_attributes_src_with_newline_after_each_attribute(&s.attributes);
                    let nonterminal_name = &s.name.name;
                    let fieldset = self.get_fieldset_src(
                        &s.fieldset,
                        GetFieldsetSrcOptions {
                            use_semicolon_if_unnamed: true,
                            use_pub_on_named_fields: true,
                        },
                    );
                    format!("{attributes}pub struct {nonterminal_name}{fieldset}")
                }
                Nonterminal::Enum(e) => {
                    let attributes =
                        get_attributes_src_with_newline_after_each_attribute(&e.attributes);
                    let nonterminal_name = &e.name.name;
                    let variants_indent_1 = /*@[*/{ let __vx_v = /*@]*/e
                        .variants
                        .iter()
                        .map(|variant/*@[*/: &EnumVariant/*@]*/| /*@[*/-> (o2: String)
                            requires fieldset_terms_known(self.file, variant.fieldset)
                            ensures o2@ == variant_line(self.file, *variant) /*@]*/{
                            let variant_name = &variant.name.name;
                            let variant_fieldset = self.get_fieldset_src(
                                &variant.fieldset,
                                GetFieldsetSrcOptions {
                                    use_semicolon_if_unnamed: false,
                                    use_pub_on_named_fields: false,
                                },
                            );
                            format!("{variant_name}{variant_fieldset},")
                        })
                        .collect::<Vec<_>>()
                        /*@{ T17_join1*//*@- .join( *//*@|*/; proof { assert(str_views(__vx_v@) =~= e.variants@.map_values(|v: EnumVariant| variant_line(self.file, v))); } __vx_join(&__vx_v, /*@}*/"\n")/*@[*/ }/*@]*/
                        .indent(1);
                    format!("{attributes}pub enum {nonterminal_name} {{\n{variants_indent_1}\n}}")
                }
            }/*@[*/ }/*@]*/)
            .collect::<Vec<_>>()/*@[*/;
        proof {
            assert(str_views(__vx_defs@) =~= self.file.nonterminals@.map_values(|nt: Nonterminal| typedef_src(self.file, nt)));
        }
        __vx_join(&__vx_defs, /*@]*/
            /*@{ T17_join2*//*@- .join( *//*@|*//*@}*/"\n\n")
    }

    fn get_fieldset_src(&self, fieldset: &Fieldset, options: GetFieldsetSrcOptions) -> /*@[*/(r: /*@]*/String/*@[*/)/*@]*/
        //@[ C06 C07 get_fieldset_src: the emitted fields of a struct / variant
        requires fieldset_terms_known(self.file, *fieldset),
        ensures r@ == fieldset_src_of(self.file, *fieldset, options.use_semicolon_if_unnamed, options.use_pub_on_named_fields),
        //@]
    {
        //@[ proof
        proof {
            let fsv = *fieldset;
            match fsv {
                Fieldset::Named(nf) => { assert forall|i: int| 0 <= i < nf.fields@.len() implies
                    ((#[trigger] nf.fields@[i]).symbol matches IdentOrTerminalIdent::Terminal(t) ==> term_type(self.file.terminal_enum.variants@, t.name, 0) is Some) by {
                        assert(fieldset_idents(*fieldset)[i] == nf.fields@[i].symbol); } }
                Fieldset::Tuple(tf) => { assert forall|i: int| 0 <= i < tf.fields@.len() implies
                    (tuple_field_sym(#[trigger] tf.fields@[i]) matches IdentOrTerminalIdent::Terminal(t) ==> term_type(self.file.terminal_enum.variants@, t.name, 0) is Some) by {
                        assert(fieldset_idents(*fieldset)[i] == tuple_field_sym(tf.fields@[i])); } }
                Fieldset::Empty => {}
            }
        }
        //@]
        match fieldset {
            Fieldset::Empty => self.get_empty_fieldset_src(options),
            Fieldset::Named(fieldset) => self.get_named_fieldset_src(fieldset, options),
            Fieldset::Tuple(fieldset) => self.get_tuple_fieldset_src(fieldset, options),
        }
    }

    fn get_empty_fieldset_src(&self, options: GetFieldsetSrcOptions) -> /*@[*/(r: /*@]*/String/*@[*/)/*@]*/
        //@[ C06 get_empty_fieldset_src: unit-like: `;` after a struct name, nothing after a variant name
        ensures r@ == semi_src(options.use_semicolon_if_unnamed),
        //@]
    {
        if options.use_semicolon_if_unnamed {
            ";"
        } else {
            ""
        }
        .to_owned()
    }

    fn get_named_fieldset_src(
        &self,
        fieldset: &NamedFieldset,
        options: GetFieldsetSrcOptions,
    ) -> /*@[*/(r: /*@]*/String/*@[*/)/*@]*/
        //@[ C06 C13 C07 get_named_fieldset_src: `_` fields omitted (unit-like if none is used); nonterminal fields are Box<T>, terminal fields have the declared payload type; pub on struct fields
        requires forall|i: int| 0 <= i < fieldset.fields@.len() ==>
            ((#[trigger] fieldset.fields@[i]).symbol matches IdentOrTerminalIdent::Terminal(t) ==> term_type(self.file.terminal_enum.variants@, t.name, 0) is Some),
        ensures r@ == fieldset_src_of(self.file, Fieldset::Named(*fieldset), options.use_semicolon_if_unnamed, options.use_pub_on_named_fields),
        //@]
    {
        if !fieldset.has_used_field() {
            return self.get_empty_fieldset_src(options);
        }

        let pub_ = if options.use_pub_on_named_fields {
            "pub "
        } else {
            ""
        };
        //@[ proof
        let ghost up = options.use_pub_on_named_fields;
        let ghost g = |f: NamedField| named_line(self.file, up, f);
        //@]
        let fields_indent_1 = /*@[*/{ let __vx_v = /*@]*//*@{ T18_open_named*//*@- fieldset
            .fields
            .iter()
            .filter_map( *//*@|*/__vx_filter_map_collect(&fieldset.fields, /*@}*/|field/*@[*/: &NamedField/*@]*/| /*@[*/-> (o: Option<String>)
                requires field.symbol matches IdentOrTerminalIdent::Terminal(t) ==> term_type(self.file.terminal_enum.variants@, t.name, 0) is Some
                ensures opt_map(o, string_view()) == g(*field)
            { /*@]*/match (&field.name, &field.symbol) {
                (IdentOrUnderscore::Underscore(_), _) => None,
                (IdentOrUnderscore::Ident(field_name), IdentOrTerminalIdent::Ident(field_type)) => {
                    let field_name = &field_name.name;
                    let field_type_name = &field_type.name;
                    Some(format!("{pub_}{field_name}: Box<{field_type_name}>,"))
                }
                (
                    IdentOrUnderscore::Ident(field_name),
                    IdentOrTerminalIdent::Terminal(field_type),
                ) => {
                    let field_name = &field_name.name;
                    let field_type_name =
                        self.file.terminal_enum.get_type(&field_type.name).unwrap();
                    Some(format!("{pub_}{field_name}: {field_type_name},"))
                }
            }/*@[*/ }/*@]*//*@{ T18_close_named*//*@- )
            .collect::<Vec<_>>()
            .join( *//*@|*/); proof { assert(str_views(__vx_v@) == filter_map_spec(fieldset.fields@, g)); } __vx_join(&__vx_v, /*@}*/"\n")/*@[*/ }/*@]*/
            .indent(1);
        format!(" {{\n{fields_indent_1}\n}}")
    }

    fn get_tuple_fieldset_src(
        &self,
        fieldset: &TupleFieldset,
        options: GetFieldsetSrcOptions,
    ) -> /*@[*/(r: /*@]*/String/*@[*/)/*@]*/
        //@[ C06 C13 C07 get_tuple_fieldset_src: skipped fields omitted (unit-like if none is used); nonterminal fields are Box<T>, terminal fields have the declared payload type
        requires forall|i: int| 0 <= i < fieldset.fields@.len() ==>
            (tuple_field_sym(#[trigger] fieldset.fields@[i]) matches IdentOrTerminalIdent::Terminal(t) ==> term_type(self.file.terminal_enum.variants@, t.name, 0) is Some),
        ensures r@ == fieldset_src_of(self.file, Fieldset::Tuple(*fieldset), options.use_semicolon_if_unnamed, options.use_pub_on_named_fields),
        //@]
    {
        if !fieldset.has_used_field() {
            return self.get_empty_fieldset_src(options);
        }

        let pub_ = if options.use_pub_on_named_fields {
            "pub "
        } else {
            ""
        };
        //@[ proof
        let ghost up = options.use_pub_on_named_fields;
        let ghost g = |f: TupleField| tuple_line(self.file, up, f);
        //@]
        let fields_indent_1 = /*@[*/{ let __vx_v = /*@]*//*@{ T18_open_tuple*//*@- fieldset
            .fields
            .iter()
            .filter_map( *//*@|*/__vx_filter_map_collect(&fieldset.fields, /*@}*/|field/*@[*/: &TupleField/*@]*/| /*@[*/-> (o: Option<String>)
                requires tuple_field_sym(*field) matches IdentOrTerminalIdent::Terminal(t) ==> term_type(self.file.terminal_enum.variants@, t.name, 0) is Some
                ensures opt_map(o, string_view()) == g(*field)
            { /*@]*/match field {
                TupleField::Skipped(_) => None,
                TupleField::Used(IdentOrTerminalIdent::Ident(field_type)) => {
                    let field_type_name = &field_type.name;
                    Some(format!("{pub_}Box<{field_type_name}>,"))
                }
                TupleField::Used(IdentOrTerminalIdent::Terminal(field_type)) => {
                    let field_type_name =
                        self.file.terminal_enum.get_type(&field_type.name).unwrap();
                    Some(format!("{pub_}{field_type_name},"))
                }
            }/*@[*/ }/*@]*//*@{ T18_close_tuple*//*@- )
            .collect::<Vec<_>>()
            .join( *//*@|*/); proof { assert(str_views(__vx_v@) == filter_map_spec(fieldset.fields@, g)); } __vx_join(&__vx_v, /*@}*/"\n")/*@[*/ }/*@]*/
            .indent(1);
        let possible_semicolon = if options.use_semicolon_if_unnamed {
            ";"
        } else {
            ""
        };
        format!("(\n{fields_indent_1}\n){possible_semicolon}")
    }

    //@[ O: iterator adapters / string building outside the supported subset (body not verified, no contract)
    #[verifier::external_body]
    //@]
    fn get_terminal_kind_enum_variants_src(&self) -> String {
        self.file
            .terminal_enum
            .variants
            .iter()
            .enumerate()
            .map(|(variant_index, variant)| {
                let name = variant.dollarless_name.raw();
                format!("{name} = {variant_index},")
            })
            .collect::<Vec<_>>()
            .join("\n")
    }

    //@[ O: iterator adapters / string building outside the supported subset (body not verified, no contract)
    #[verifier::external_body]
    //@]
    fn get_nonterminal_kind_enum_variants_src(&self) -> String {
        self.file
            .nonterminals
            .iter()
            .enumerate()
            .map(|(nonterminal_index, nonterminal)| {
                let nonterminal_name = nonterminal.name();
                format!("{nonterminal_name} = {nonterminal_index},")
            })
            .collect::<Vec<_>>()
            .join("\n")
    }

    //@[ O: iterator adapters / string building outside the supported subset (body not verified, no contract)
    #[verifier::external_body]
    //@]
    fn get_state_enum_variants_src(&self) -> String {
        (0..self.table.state_count())
            .map(|i| format!("{STATE_VARIANT_PREFIX}{i} = {i},"))
            .collect::<Vec<_>>()
            .join("\n")
    }

    //@[ O: iterator adapters / string building outside the supported subset (body not verified, no contract)
    #[verifier::external_body]
    //@]
    fn get_node_enum_variants_src(&self) -> String {
        self.file
            .nonterminals
            .iter()
            .map(|nonterminal| format!("{name}({name}),", name = nonterminal.name()))
            .chain(self.file.terminal_enum.variants.iter().map(|variant| {
                let name = variant.dollarless_name.raw();
                let type_ = &variant.type_;
                format!("{name}({type_}),")
            }))
            .collect::<Vec<_>>()
            .join("\n")
    }

    //@[ O: iterator adapters / string building outside the supported subset (body not verified, no contract)
    #[verifier::external_body]
    //@]
    fn get_rule_kind_enum_variants_src(&self) -> String {
        (0..self.get_number_of_rule_kinds())
            .map(|i| format!("{RULE_KIND_VARIANT_PREFIX}{i} = {i},"))
            .collect::<Vec<_>>()
            .join("\n")
    }

    //@[ O: iterator adapters / string building outside the supported subset (body not verified, no contract)
    #[verifier::external_body]
    //@]
    fn get_number_of_rule_kinds(&self) -> usize {
        self.file
            .nonterminals
            .iter()
            .map(|nonterminal| match nonterminal {
                Nonterminal::Struct(_) => 1,
                Nonterminal::Enum(e) => e.variants.len(),
            })
            .sum()
    }

    //@[ O: iterator adapters / string building outside the supported subset (body not verified, no contract)
    #[verifier::external_body]
    //@]
    fn get_pop_and_reduce_match_arms_src(&self) -> String {
        let rule_kind_enum_name = &self.rule_kind_enum_name;
        self.file
            .get_rules()
            .enumerate()
            .map(|(rule_index, _)| {
                let reduce_fn_name = self.get_reduce_fn_name(rule_index);
                format!(
                    "{rule_kind_enum_name}::{RULE_KIND_VARIANT_PREFIX}{rule_index} => {reduce_fn_name}(states, nodes),"
                )
            })
            .collect::<Vec<_>>()
            .join("\n")
    }

    //@[ O: iterator adapters / string building outside the supported subset (body not verified, no contract)
    #[verifier::external_body]
    //@]
    fn get_reduce_fns_src(&self) -> String {
        self.file
            .get_rules()
            .enumerate()
            .map(
                |(
                    rule_index,
                    Rule {
                        constructor_name,
                        fieldset,
                    },
                )| {
                    self.get_reduce_fn_src(rule_index, constructor_name, fieldset)
                },
            )
            .collect::<Vec<_>>()
            .join("\n\n")
    }

    //@[ O: iterator adapters / string building outside the supported subset (body not verified, no contract)
    #[verifier::external_body]
    //@]
    fn get_reduce_fn_src(
        &self,
        rule_index: usize,
        constructor_name: ConstructorName,
        fieldset: &Fieldset,
    ) -> String {
        let reduction_code_indent_1 = match fieldset {
            Fieldset::Empty => self.get_empty_fieldset_rule_reduction_src(constructor_name),
            Fieldset::Named(NamedFieldset { fields }) => {
                self.get_named_fieldset_rule_reduction_src(constructor_name, fields)
            }
            Fieldset::Tuple(TupleFieldset { fields }) => {
                self.get_tuple_fieldset_rule_reduction_src(constructor_name, fields)
            }
        }
        .indent(1);
        let state_enum_name = &self.state_enum_name;
        let node_enum_name = &self.node_enum_name;
        let nonterminal_kind_enum_name = &self.nonterminal_kind_enum_name;
        let reduce_fn_name = self.get_reduce_fn_name(rule_index);
        let (states_param_name, nodes_param_name) = match fieldset {
            Fieldset::Empty => ("_states", "_nodes"),
            Fieldset::Named(_) | Fieldset::Tuple(_) => ("states", "nodes"),
        };

        format!(
            r#"fn {reduce_fn_name}({states_param_name}: &mut Vec<{state_enum_name}>, {nodes_param_name}: &mut Vec<{node_enum_name}>) -> ({node_enum_name}, {nonterminal_kind_enum_name}) {{
{reduction_code_indent_1}
}}"#
        )
    }

    //@[ O: iterator adapters / string building outside the supported subset (body not verified, no contract)
    #[verifier::external_body]
    //@]
    fn get_reduce_fn_name(&self, rule_index: usize) -> String {
        format!("{}_r{rule_index}", self.reduce_fn_prefix)
    }

    //@[ O: iterator adapters / string building outside the supported subset (body not verified, no contract)
    #[verifier::external_body]
    //@]
    fn get_empty_fieldset_rule_reduction_src(&self, constructor_name: ConstructorName) -> String {
        let node_enum_name = &self.node_enum_name;
        let nonterminal_kind_enum_name = &self.nonterminal_kind_enum_name;
        let parent_type_name = constructor_name.type_name();
        let constructor_name = constructor_name.to_string();

        format!(
            r#"(
    {node_enum_name}::{parent_type_name}({constructor_name}),
    {nonterminal_kind_enum_name}::{parent_type_name},
)"#
        )
    }

    //@[ O: iterator adapters / string building outside the supported subset (body not verified, no contract)
    #[verifier::external_body]
    //@]
    fn get_named_fieldset_rule_reduction_src(
        &self,
        constructor_name: ConstructorName,
        fields: &[NamedField],
    ) -> String {
        let node_enum_name = &self.node_enum_name;
        let nonterminal_kind_enum_name = &self.nonterminal_kind_enum_name;
        let parent_type_name = constructor_name.type_name();
        let constructor_name = constructor_name.to_string();
        let child_vars: String = fields
            .iter()
            .enumerate()
            .rev()
            .map(|(field_index, field)| match (&field.name, &field.symbol) {
                (IdentOrUnderscore::Underscore(_), _) => "nodes.pop().unwrap();\n".to_owned(),
                (IdentOrUnderscore::Ident(field_name), IdentOrTerminalIdent::Ident(field_type)) => {
                    let field_name = &field_name.name;
                    let field_type_name = &field_type.name;
                    format!("let {field_name}_{field_index} = Box::new({field_type_name}::try_from(nodes.pop().unwrap()).ok().unwrap());\n")
                },
                (IdentOrUnderscore::Ident(field_name), IdentOrTerminalIdent::Terminal(field_type)) => {
                    let field_name = &field_name.name;
                    let try_into_method_name = self.node_to_terminal_method_names.get(&field_type.name).unwrap();
                    format!("let {field_name}_{field_index} = nodes.pop().unwrap().{try_into_method_name}().ok().unwrap();\n")
                }
            })
            .collect();

        let num_fields = fields.len();

        let parent_fields_indent_2 = fields
            .iter()
            .enumerate()
            .filter_map(|(field_index, field)| match &field.name {
                IdentOrUnderscore::Underscore(_) => None,
                IdentOrUnderscore::Ident(field_name) => {
                    let field_name = &field_name.name;
                    Some(format!("{field_name}: {field_name}_{field_index},"))
                }
            })
            .collect::<Vec<_>>()
            .join("\n")
            .indent(2);
        let empty_str_or_curly_enclosed_fields = if fields.iter().any(NamedField::is_used) {
            format!(
                r#" {{
{parent_fields_indent_2}
    }}"#
            )
        } else {
            "".to_owned()
        };

        format!(
            r#"{child_vars}
states.truncate(states.len() - {num_fields});

(
    {node_enum_name}::{parent_type_name}({constructor_name}{empty_str_or_curly_enclosed_fields}),
    {nonterminal_kind_enum_name}::{parent_type_name},
)"#
        )
    }

    //@[ O: iterator adapters / string building outside the supported subset (body not verified, no contract)
    #[verifier::external_body]
    //@]
    fn get_tuple_fieldset_rule_reduction_src(
        &self,
        constructor_name: ConstructorName,
        fields: &[TupleField],
    ) -> String {
        const ANONYMOUS_FIELD_PREFIX: &/*@[*/'static /*@]*/str = "t";
        let node_enum_name = &self.node_enum_name;
        let nonterminal_kind_enum_name = &self.nonterminal_kind_enum_name;
        let parent_type_name = constructor_name.type_name();
        let constructor_name = constructor_name.to_string();
        let child_vars: String = fields
            .iter()
            .enumerate()
            .rev()
            .map(|(field_index, field)| match field {
                TupleField::Skipped(_) => "nodes.pop().unwrap();\n".to_owned(),
                TupleField::Used(IdentOrTerminalIdent::Ident(field_type)) => {
                    let field_type_name = &field_type.name;
                    format!("let {ANONYMOUS_FIELD_PREFIX}{field_index} = Box::new({field_type_name}::try_from(nodes.pop().unwrap()).ok().unwrap());\n")
                },
                TupleField::Used(IdentOrTerminalIdent::Terminal(field_type)) => {
                    let try_into_method_name = self.node_to_terminal_method_names.get(&field_type.name).unwrap();
                    format!("let {ANONYMOUS_FIELD_PREFIX}{field_index} = nodes.pop().unwrap().{try_into_method_name}().ok().unwrap();\n")
                },
            })
            .collect();

        let num_fields = fields.len();

        let parent_fields_indent_2 = fields
            .iter()
            .enumerate()
            .filter_map(|(field_index, field)| match field {
                TupleField::Skipped(_) => None,
                TupleField::Used(_) => Some(format!("{ANONYMOUS_FIELD_PREFIX}{field_index},")),
            })
            .collect::<Vec<_>>()
            .join("\n")
            .indent(2);
        let empty_str_or_parenthesized_fields = if fields.iter().any(TupleField::is_used) {
            format!(
                r#"(
{parent_fields_indent_2}
    )"#
            )
        } else {
            "".to_owned()
        };

        format!(
            r#"{child_vars}
states.truncate(states.len() - {num_fields});

(
    {node_enum_name}::{parent_type_name}({constructor_name}{empty_str_or_parenthesized_fields}),
    {nonterminal_kind_enum_name}::{parent_type_name},
)"#
        )
    }

    //@[ O: iterator adapters / string building outside the supported subset (body not verified, no contract)
    #[verifier::external_body]
    //@]
    fn get_quasiterminal_kind_from_terminal_match_arms_src(&self) -> String {
        let terminal_enum_name = &self.terminal_enum_name;
        self.file
            .terminal_enum
            .variants
            .iter()
            .map(|variant| {
                let name = variant.dollarless_name.raw();
                format!("{terminal_enum_name}::{name}(_) => Self::{name},")
            })
            .collect::<Vec<_>>()
            .join("\n")
    }

    //@[ O: iterator adapters / string building outside the supported subset (body not verified, no contract)
    #[verifier::external_body]
    //@]
    fn get_node_from_terminal_match_arms_src(&self) -> String {
        let terminal_enum_name = &self.terminal_enum_name;
        self.file
            .terminal_enum
            .variants
            .iter()
            .map(|variant| {
                let name = variant.dollarless_name.raw();
                format!("{terminal_enum_name}::{name}(t) => Self::{name}(t),")
            })
            .collect::<Vec<_>>()
            .join("\n")
    }

    //@[ O: iterator adapters / string building outside the supported subset (body not verified, no contract)
    #[verifier::external_body]
    //@]
    fn get_action_table_rows_src(&self) -> String {
        (0..self.table.state_count())
            .map(|i| self.get_action_table_row_src(StateIndex(i)))
            .collect::<Vec<_>>()
            .join("\n")
    }

    //@[ O: iterator adapters / string building outside the supported subset (body not verified, no contract)
    #[verifier::external_body]
    //@]
    fn get_action_table_row_src(&self, state_index: StateIndex) -> String {
        let action_enum_name = &self.action_enum_name;
        let row_items_indent_1 = self
            .table
            .terminals
            .iter()
            .map(Quasiterminal::Terminal)
            .chain(std::iter::once(Quasiterminal::Eof))
            .map(|quasiterminal| {
                let action = self.table.action(state_index, quasiterminal);
                let unqualified_variant = self.get_action_variant_unqualified_src(action);
                format!("{action_enum_name}::{unqualified_variant},")
            })
            .collect::<Vec<_>>()
            .join("\n")
            .indent(1);
        format!("[\n{row_items_indent_1}\n],")
    }

    //@[ O: iterator adapters / string building outside the supported subset (body not verified, no contract)
    #[verifier::external_body]
    //@]
    fn get_action_variant_unqualified_src(&self, action: Action) -> String {
        let state_enum_name = &self.state_enum_name;
        let rule_kind_enum_name = &self.rule_kind_enum_name;
        match action {
            Action::Shift(StateIndex(state_index)) => {
                format!("{ACTION_SHIFT_VARIANT_NAME}({state_enum_name}::{STATE_VARIANT_PREFIX}{state_index})")
            }
            Action::Reduce(rule_index) => {
                format!("{ACTION_REDUCE_VARIANT_NAME}({rule_kind_enum_name}::{RULE_KIND_VARIANT_PREFIX}{rule_index})")
            }
            Action::Accept => ACTION_ACCEPT_VARIANT_NAME.to_string(),
            Action::Err => ACTION_ERR_VARIANT_NAME.to_string(),
        }
    }

    //@[ O: iterator adapters / string building outside the supported subset (body not verified, no contract)
    #[verifier::external_body]
    //@]
    fn get_goto_table_rows_src(&self) -> String {
        (0..self.table.state_count())
            .map(|i| self.get_goto_table_row_src(StateIndex(i)))
            .collect::<Vec<_>>()
            .join("\n")
    }

    //@[ O: iterator adapters / string building outside the supported subset (body not verified, no contract)
    #[verifier::external_body]
    //@]
    fn get_goto_table_row_src(&self, state_index: StateIndex) -> String {
        let row_items_indent_1 = self
            .table
            .nonterminals
            .iter()
            .map(|nonterminal| {
                let goto = self.table.goto(state_index, nonterminal);
                let qualified_variant = self.get_goto_variant_qualified_src(goto);
                format!("{qualified_variant},")
            })
            .collect::<Vec<_>>()
            .join("\n")
            .indent(1);
        format!("[\n{row_items_indent_1}\n],")
    }

    //@[ O: iterator adapters / string building outside the supported subset (body not verified, no contract)
    #[verifier::external_body]
    //@]
    fn get_goto_variant_qualified_src(&self, goto: Goto) -> String {
        let state_enum_name = &self.state_enum_name;
        match goto {
            Goto::State(StateIndex(state_index)) => {
                format!("Some({state_enum_name}::{STATE_VARIANT_PREFIX}{state_index})")
            }
            Goto::Err => "None".to_string(),
        }
    }

    //@[ O: iterator adapters / string building outside the supported subset (body not verified, no contract)
    #[verifier::external_body]
    //@]
    fn get_impl_try_from_node_for_each_nonterminal_src(&self) -> String {
        let node_enum_name = &self.node_enum_name;
        self.file
            .nonterminals
            .iter()
            .map(|nonterminal| {
                let nonterminal_name = nonterminal.name();
                format!(
                    r#"impl TryFrom<{node_enum_name}> for {nonterminal_name} {{
    type Error = {node_enum_name};

    fn try_from(node: {node_enum_name}) -> Result<Self, Self::Error> {{
        match node {{
            {node_enum_name}::{nonterminal_name}(n) => Ok(n),
            _ => Err(node),
        }}
    }}
}}"#
                )
            })
            .collect::<Vec<_>>()
            .join("\n\n")
    }

    //@[ O: iterator adapters / string building outside the supported subset (body not verified, no contract)
    #[verifier::external_body]
    //@]
    fn get_node_try_into_terminal_variant_name_variant_index_fns_src(&self) -> String {
        self.file
            .terminal_enum
            .variants
            .iter()
            .map(|variant| {
                let variant_name_original_case = variant.dollarless_name.raw();
                let method_name = self
                    .node_to_terminal_method_names
                    .get(&variant.dollarless_name)
                    .unwrap();
                let type_ = &variant.type_;
                format!(
                    r#"fn {method_name}(self) -> Result<{type_}, Self> {{
    match self {{
        Self::{variant_name_original_case}(t) => Ok(t),
        _ => Err(self),
    }}
}}"#
                )
            })
            .collect::<Vec<_>>()
            .join("\n\n")
    }
}

#[derive(Debug, Clone, Copy)]
struct GetFieldsetSrcOptions {
    use_semicolon_if_unnamed: bool,
    use_pub_on_named_fields: bool,
}

//@[ C05 C07 ghost: the candidate names tried by create_unique_identifier
pub open spec fn ctr(i: i32) -> int { i as int }
pub open spec fn candidate(pref: Seq<char>, j: int) -> Seq<char> { pref + dec(j) }
pub open spec fn key_of(s: Set<String>, pref: Seq<char>, j: int) -> String { choose|k: String| s.contains(k) && k@ == candidate(pref, j) }
proof fn lemma_candidate_inj(pref: Seq<char>, j1: int, j2: int)
    requires 0 <= j1, 0 <= j2, candidate(pref, j1) == candidate(pref, j2)
    ensures j1 == j2
{
    let (a, b) = (candidate(pref, j1), candidate(pref, j2));
    assert(a.subrange(pref.len() as int, a.len() as int) =~= dec(j1));
    assert(b.subrange(pref.len() as int, b.len() as int) =~= dec(j2));
    lemma_dec_nat_inj(j1 as nat, j2 as nat);
}
//@]

//@[ C05 ghost: membership of a string in the set, by value or by its characters, is the same thing
proof fn lemma_view_set_member(u: Set<String>)
    ensures forall|k: String| #[trigger] u.contains(k) <==> view_set(u).contains(k@)
{
    assert forall|k: String| #[trigger] u.contains(k) <==> view_set(u).contains(k@) by {
        if view_set(u).contains(k@) && !u.contains(k) {
            let k0 = choose|k0: String| u.contains(k0) && k0@ == k@;
            axiom_string_ext(k0, k);
        }
    }
}
//@]

fn create_unique_identifier(preferred_name: &str, used: &mut HashSet<String>) -> /*@[*/(r: /*@]*/String/*@[*/)/*@]*/
    //@[ C05 C07 C14 create_unique_identifier: the result is a name not used so far, it is recorded as used, and the search terminates without overflow
    requires old(used)@.len() < 0x7fff_0000,
    ensures
        !view_set(old(used)@).contains(r@),
        view_set(final(used)@) == view_set(old(used)@).insert(r@),
        final(used)@.len() <= old(used)@.len() + 1,
        r@ == preferred_name@ || exists|j: int| j >= 0 && r@ == candidate(preferred_name@, j),
    //@]
{
    //@[ proof
    let ghost u0 = used@;
    proof {
        lemma_view_set_member(u0);
        assert forall|k: String| k@ == preferred_name@ implies view_set(#[trigger] u0.insert(k)) == view_set(u0).insert(preferred_name@) by { lemma_view_set_insert(u0, k); }
        if !view_set(u0).contains(preferred_name@) {
            assert forall|k: String| #[trigger] u0.contains(k) implies k@ != preferred_name@ by { if k@ == preferred_name@ { assert(view_set(u0).contains(k@)); } }
        }
    }
    //@]
    if !used.contains(preferred_name) {
        used.insert(preferred_name.to_string());
        return preferred_name.to_string();
    }

    let mut i = 2;
    //@[ C05 C07 ghost: the first suffix tried, whatever small number the code starts from
    let ghost lo = ctr(i);
    //@]
    loop
        //@[ C05 C07 loop invariant: every candidate from the first suffix up to i is taken, so i stays within the size of the set; the set is untouched
        invariant
            used@ =~= u0, u0 == old(used)@, u0.len() < 0x7fff_0000, 0 <= lo <= 0xffff, lo <= ctr(i),
            forall|k: String| #[trigger] u0.contains(k) <==> view_set(u0).contains(k@),
            forall|j: int| lo <= j < ctr(i) ==> view_set(u0).contains(#[trigger] candidate(preferred_name@, j)),
            ctr(i) - lo <= u0.len(),
        decreases u0.len() + lo - ctr(i),
        //@]
    {
        let name = format!("{}{}", preferred_name, i);
        //@[ proof
        proof {
            assert(name@ == candidate(preferred_name@, ctr(i)));
            assert forall|k: String| k@ == name@ implies view_set(#[trigger] u0.insert(k)) == view_set(u0).insert(name@) by { lemma_view_set_insert(u0, k); }
            if view_set(u0).contains(name@) {
                let k0 = choose|k: String| u0.contains(k) && k@ == name@;
                axiom_string_ext(k0, name);
                // i - 1 distinct candidates are members: the set has at least i - 1 elements
                let pref = preferred_name@;
                let f = |j: int| key_of(u0, pref, j);
                assert forall|j: int| lo <= j < ctr(i) + 1 implies u0.contains(#[trigger] f(j)) && f(j)@ == candidate(pref, j) by {
                    assert(view_set(u0).contains(candidate(pref, j)));
                    let k = choose|k: String| u0.contains(k) && k@ == candidate(pref, j);
                }
                assert forall|j1: int, j2: int| lo <= j1 < j2 < ctr(i) + 1 implies #[trigger] f(j1) != #[trigger] f(j2) by {
                    if f(j1) == f(j2) { lemma_candidate_inj(pref, j1, j2); }
                }
                lemma_inj_card(u0, f, lo, ctr(i) + 1);
            } else {
                assert forall|k: String| #[trigger] u0.contains(k) implies k@ != name@ by { if k@ == name@ { assert(view_set(u0).contains(k@)); } }
            }
        }
        //@]
        if !used.contains(&name) {
            used.insert(name.clone());
            return name;
        }
        i += 1;
    }
}

//@[ C12 C06 ghost: the emitted definition of one nonterminal (right-nested like the format! contracts)
/// C06: the variants of the emitted terminal enum
pub open spec fn terminal_variant_line(v: TerminalVariant) -> Seq<char> { v.dollarless_name@ + ("("@ + (v.type_@ + "),"@)) }
pub open spec fn terminal_variants_src(fl: &File) -> Seq<char> {
    join_spec(fl.terminal_enum.variants@.map_values(|v: TerminalVariant| terminal_variant_line(v)), "\n"@)
}
pub open spec fn semi_src(semi: bool) -> Seq<char> { if semi { ";"@ } else { ""@ } }
pub open spec fn pub_src(p: bool) -> Seq<char> { if p { "pub "@ } else { ""@ } }
/// the declared payload type of a terminal (C13 decides nothing about how that text was rendered)
pub open spec fn term_type_src(fl: &File, name: DollarlessTerminalName) -> Seq<char> { term_type(fl.terminal_enum.variants@, name, 0)->Some_0 }
/// one line per used named field: `[pub ]<name>: Box<Nonterminal>,` or `[pub ]<name>: <payload type>,`; `_` fields give no line
pub open spec fn named_line(fl: &File, use_pub: bool, f: NamedField) -> Option<Seq<char>> {
    match (f.name, f.symbol) {
        (IdentOrUnderscore::Underscore(_), _) => None,
        (IdentOrUnderscore::Ident(n), IdentOrTerminalIdent::Ident(t)) => Some(pub_src(use_pub) + (n.name@ + (": Box<"@ + (t.name@ + ">,"@)))),
        (IdentOrUnderscore::Ident(n), IdentOrTerminalIdent::Terminal(t)) => Some(pub_src(use_pub) + (n.name@ + (": "@ + (term_type_src(fl, t.name) + ","@)))),
    }
}
/// one line per used tuple field: `[pub ]Box<Nonterminal>,` or `[pub ]<payload type>,` (C06: the fields of a struct are public, named or not);
/// skipped fields give no line
pub open spec fn tuple_line(fl: &File, use_pub: bool, f: TupleField) -> Option<Seq<char>> {
    match f {
        TupleField::Skipped(_) => None,
        TupleField::Used(IdentOrTerminalIdent::Ident(t)) => Some(pub_src(use_pub) + ("Box<"@ + (t.name@ + ">,"@))),
        TupleField::Used(IdentOrTerminalIdent::Terminal(t)) => Some(pub_src(use_pub) + (term_type_src(fl, t.name) + ","@)),
    }
}
pub open spec fn named_has_used(nf: NamedFieldset) -> bool { exists|i: int| 0 <= i < nf.fields@.len() && (#[trigger] nf.fields@[i]).name is Ident }
pub open spec fn tuple_has_used(tf: TupleFieldset) -> bool { exists|i: int| 0 <= i < tf.fields@.len() && (#[trigger] tf.fields@[i]) is Used }
/// C06: the emitted fieldset - unit-like (`;` for a struct, nothing for a variant) when no field is used, else the used fields, one per line
pub open spec fn fieldset_src_of(fl: &File, fs: Fieldset, use_semicolon: bool, use_pub: bool) -> Seq<char> {
    match fs {
        Fieldset::Empty => semi_src(use_semicolon),
        Fieldset::Named(nf) => if !named_has_used(nf) { semi_src(use_semicolon) } else {
            " {\n"@ + (indent_of_seq(join_spec(filter_map_spec(nf.fields@, |f: NamedField| named_line(fl, use_pub, f)), "\n"@), 1) + "\n}"@)
        },
        Fieldset::Tuple(tf) => if !tuple_has_used(tf) { semi_src(use_semicolon) } else {
            "(\n"@ + (indent_of_seq(join_spec(filter_map_spec(tf.fields@, |f: TupleField| tuple_line(fl, use_pub, f)), "\n"@), 1) + ("\n)"@ + semi_src(use_semicolon)))
        },
    }
}
/// every terminal that types a field is a variant of the terminal enum (so its payload type can be looked up: no unwrap panic)
pub open spec fn fieldset_terms_known(fl: &File, fs: Fieldset) -> bool {
    forall|i: int| 0 <= i < fieldset_idents(fs).len() ==>
        ((#[trigger] fieldset_idents(fs)[i]) matches IdentOrTerminalIdent::Terminal(t) ==> term_type(fl.terminal_enum.variants@, t.name, 0) is Some)
}
pub open spec fn nt_terms_known(fl: &File, nt: Nonterminal) -> bool {
    match nt {
        Nonterminal::Struct(s) => fieldset_terms_known(fl, s.fieldset),
        Nonterminal::Enum(e) => forall|j: int| 0 <= j < e.variants@.len() ==> fieldset_terms_known(fl, (#[trigger] e.variants@[j]).fieldset),
    }
}
pub open spec fn file_terms_known(fl: &File) -> bool {
    forall|i: int| 0 <= i < fl.nonterminals@.len() ==> nt_terms_known(fl, #[trigger] fl.nonterminals@[i])
}
pub open spec fn variant_line(fl: &File, v: EnumVariant) -> Seq<char> {
    v.name.name@ + (fieldset_src_of(fl, v.fieldset, false, false) + ","@)
}
pub open spec fn variants_block(fl: &File, vs: Seq<EnumVariant>) -> Seq<char> {
    join_spec(vs.map_values(|v: EnumVariant| variant_line(fl, v)), "\n"@)
}
pub open spec fn typedef_src(fl: &File, nt: Nonterminal) -> Seq<char> {
    match nt {
        Nonterminal::Struct(s) => attrs_src(s.attributes@) + ("pub struct "@ + (s.name.name@ + fieldset_src_of(fl, s.fieldset, true, true))),
        Nonterminal::Enum(e) => attrs_src(e.attributes@) + ("pub enum "@ + (e.name.name@ + (" {\n"@ + (indent_of_seq(variants_block(fl, e.variants@), 1) + "\n}"@)))),
    }
}
//@]


trait Indent {
    fn indent(&self, indent: usize) -> /*@[*/(r: /*@]*/String/*@[*/)/*@]*/
        //@[ O contract: a function of the text and the level
        ensures r@ == indent_of(self, indent)
        //@]
    ;
}

impl Indent for str {
    //@[ O: iterator adapters / string building outside the supported subset (body not verified, no contract)
    #[verifier::external_body]
    //@]
    fn indent(&self, level: usize) -> String {
        let mut out = String::new();
        let indent = &"    ".repeat(level);
        let mut at_line_start = true;

        for c in self.chars() {
            if at_line_start && c != '\n' {
                out.push_str(indent);
            }
            out.push(c);
            at_line_start = c == '\n';
        }

        out
    }
}

//@[ O: iterator adapters / string building outside the supported subset (body not verified, no contract)
#[verifier::external_body]
//@]
fn pascal_to_snake_case(s: &str) -> String {
    let mut out = String::new();
    let mut chars = s.chars().fuse();

    if let Some(c) = chars.next() {
        out.push(c.to_ascii_lowercase());
    }

    for c in chars {
        if c.is_uppercase() {
            out.push('_');
        }
        out.push(c.to_ascii_lowercase());
    }

    out
}

//@[ C12 ghost: the attribute block printed before a type definition: every attribute's source text followed by a line break, in order
pub open spec fn attr_line(a: Attribute) -> Seq<char> { a.src@ + "\n"@ }
pub open spec fn attrs_src(attrs: Seq<Attribute>) -> Seq<char> { flatten(attrs.map_values(|a: Attribute| attr_line(a))) }
//@]

fn get_attributes_src_with_newline_after_each_attribute(attributes: &[Attribute]) -> /*@[*/(r: /*@]*/String/*@[*/)/*@]*/
    //@[ C12 get_attributes_src_with_newline_after_each_attribute: every attribute verbatim, one per line, in declaration order
    ensures r@ == attrs_src(attributes@),
    //@]
{
    /*@{ T17_open*//*@- attributes.iter().map( *//*@|*/__vx_map_concat(attributes, /*@}*/|a/*@[*/: &Attribute/*@]*/| /*@[*/-> (o: String) ensures o@ == attr_line(*a) { /*@]*/format!("{}\n", &a.src)/*@[*/ }/*@]*//*@{ T17_close*//*@- ).collect() *//*@|*/)/*@}*/
}

