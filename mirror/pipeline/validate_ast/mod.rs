//@file kiki/src/pipeline/validate_ast/mod.rs mod=crate::pipeline::validate_ast
//@[ imports
use vstd::prelude::*;
use vstd::std_specs::iter::*;
use vstd::std_specs::cmp::*;
use crate::vx_gram::*;
use crate::vx_ord::*;
use crate::vx_hash::*;
use crate::vx_utf8::*;
use crate::vx_valid::*;
broadcast use {vstd::std_specs::hash::group_hash_axioms, crate::vx_hash_ax::group_key_models, crate::vx_hash::group_string_keys, crate::vx_ord::axiom_yielded_vec};
//@]
use crate::data::{
    ast::*,
    validated_file::{self as validated},
    ByteIndex, DollarlessTerminalName, KikiErr,
};
use std::collections::{HashMap, HashSet};

pub fn validate_ast(file: File) -> Result<validated::File, KikiErr> {
    let terminal_enum = get_terminal_enum(&file)?;
    let nonterminals = get_nonterminals(&file)?;
    let start = get_start_symbol_name(&file, &nonterminals)?;
    assert_there_are_no_top_level_name_clashes(&file)?;

    Ok(validated::File {
        start,
        terminal_enum,
        nonterminals,
    })
}

use terminal_enum::*;

use nonterminals::*;

use start_symbol::*;

use defined_identifiers::*;


fn validate_ident_uppercase_start(ident: &Ident) -> /*@[*/(r: /*@]*/Result<&str, KikiErr>/*@[*/)/*@]*/
    //@[ C10 validate_ident_uppercase_start
    ensures match r {
        Ok(s) => s@ == ident.name@ && upper_ok(ident.name@),
        Err(e) => e == KikiErr::SymbolOrTerminalEnumNameFirstLetterNotUppercase(ident.position) && !upper_ok(ident.name@),
    },
    //@]
{
    validate_uppercase_start(&ident.name, ident.position)
}

fn validate_terminal_ident_uppercase_start(ident: &TerminalIdent) -> /*@[*/(r: /*@]*/Result<&str, KikiErr>/*@[*/)/*@]*/
    //@[ C10 validate_terminal_ident_uppercase_start
    ensures match r {
        Ok(s) => s@ == ident.name@ && upper_ok(ident.name@),
        Err(e) => e == KikiErr::SymbolOrTerminalEnumNameFirstLetterNotUppercase(ident.dollarless_position) && !upper_ok(ident.name@),
    },
    //@]
{
    validate_uppercase_start(ident.name.raw(), ident.dollarless_position)
}

fn validate_uppercase_start(name: &str, position: ByteIndex) -> /*@[*/(r: /*@]*/Result<&str, KikiErr>/*@[*/)/*@]*/
    //@[ C10 validate_uppercase_start: if the name contains letters, the FIRST LETTER (not the first character) must be uppercase
    ensures match r {
        Ok(s) => s@ == name@ && upper_ok(name@),
        Err(e) => e == KikiErr::SymbolOrTerminalEnumNameFirstLetterNotUppercase(position) && !upper_ok(name@),
    },
    //@]
{
    let first_letter = name.chars().find(|c/*@[*/: &char/*@]*/| /*@[*/-> (o: bool) ensures o == is_ascii_alpha(*c) { /*@]*/c.is_ascii_alphabetic()/*@[*/ }/*@]*/);
    //@[ proof
    proof { assert(is_find_result(name@, first_letter)); lemma_find_is_first_letter(name@, first_letter); }
    //@]
    match first_letter {
        None => Ok(name),
        Some(first_letter) => {
            if first_letter.is_ascii_uppercase() {
                Ok(name)
            } else {
                Err(KikiErr::SymbolOrTerminalEnumNameFirstLetterNotUppercase(
                    position,
                ))
            }
        }
    }
}
