//@file kiki/src/pipeline/validate_ast/mod.rs mod=crate::pipeline::validate_ast
//@[ imports
use vstd::prelude::*;
use vstd::std_specs::iter::*;
use vstd::std_specs::cmp::*;
use crate::vx_gram::*;
use crate::vx_ord::*;
use crate::vx_hash::*;
use crate::vx_utf8::*;
use crate::vx_valid::*;
broadcast use {vstd::std_specs::hash::group_hash_axioms, crate::vx_hash_ax::group_key_models, crate::vx_hash::group_string_keys, crate::vx_ord::axiom_yielded_vec};
//@]
use crate::data::{
    ast::*,
    validated_file::{self as validated},
    ByteIndex, DollarlessTerminalName, KikiErr,
};
use std::collections::{HashMap, HashSet};

//@[ C10 the validated file is the input file: same start name, same terminal declaration, the struct / enum declarations in order
pub open spec fn validated_view(f: File, v: validated::File) -> bool {
    let items = f.items@;
    &&& v.start@ == sel_starts(items)[0].name@
    &&& terminal_def_view(sel_terminals(items)[0], v.terminal_enum)
    &&& v.nonterminals@.len() == sel_nonterminals(items).len()
    &&& forall|j: int| 0 <= j < v.nonterminals@.len() ==> #[trigger] v.nonterminals@[j] == nt_of_item(sel_nonterminals(items)[j])
}
//@]

pub fn validate_ast(file: File) -> /*@[*/(r: /*@]*/Result<validated::File, KikiErr>/*@[*/)/*@]*/
    //@[ C10 validate_ast: Ok only for a statically well-formed file (and the validated file is that file); an error is true of the file
    ensures match r {
        Ok(v) => file_wf(file) && validated_view(file, v),
        Err(e) => err_truthful(file, e),
    },
    //@]
{
    let terminal_enum = get_terminal_enum(&file)?;
    let nonterminals = get_nonterminals(&file)?;
    //@[ proof
    proof {
        let items = file.items@;
        let sel = sel_nonterminals(items);
        let nv = nonterminals@;
        assert forall|a: Seq<char>| nts_have(nv, a) <==> nt_defined(items, a) by {
            if nts_have(nv, a) {
                let j = choose|j: int| 0 <= j < nv.len() && nt_name(#[trigger] nv[j]) == a;
                lemma_sel_nonterminals_in(items, j);
                let i = choose|i: int| 0 <= i < items.len() && item_is_nt(#[trigger] items[i]) && items[i] == sel[j];
                assert(nv[j] == nt_of_item(sel[j]));
                assert(item_name(items[i]).name@ == a);
            }
            if nt_defined(items, a) {
                let i = choose|i: int| 0 <= i < items.len() && item_is_nt(#[trigger] items[i]) && item_name(items[i]).name@ == a;
                lemma_sel_nonterminals_has(items, i);
                let j = choose|j: int| 0 <= j < sel.len() && #[trigger] sel[j] == items[i];
                assert(nv[j] == nt_of_item(sel[j]));
                assert(nt_name(nv[j]) == a);
            }
        }
    }
    //@]
    let start = get_start_symbol_name(&file, &nonterminals)?;
    assert_there_are_no_top_level_name_clashes(&file)?;

    Ok(validated::File {
        start,
        terminal_enum,
        nonterminals,
    })
}

use terminal_enum::*;

use nonterminals::*;

use start_symbol::*;

use defined_identifiers::*;


fn validate_ident_uppercase_start(ident: &Ident) -> /*@[*/(r: /*@]*/Result<&str, KikiErr>/*@[*/)/*@]*/
    //@[ C10 validate_ident_uppercase_start
    ensures match r {
        Ok(s) => s@ == ident.name@ && upper_ok(ident.name@),
        Err(e) => e == KikiErr::SymbolOrTerminalEnumNameFirstLetterNotUppercase(ident.position) && !upper_ok(ident.name@),
    },
    //@]
{
    validate_uppercase_start(&ident.name, ident.position)
}

fn validate_terminal_ident_uppercase_start(ident: &TerminalIdent) -> /*@[*/(r: /*@]*/Result<&str, KikiErr>/*@[*/)/*@]*/
    //@[ C10 validate_terminal_ident_uppercase_start
    ensures match r {
        Ok(s) => s@ == ident.name@ && upper_ok(ident.name@),
        Err(e) => e == KikiErr::SymbolOrTerminalEnumNameFirstLetterNotUppercase(ident.dollarless_position) && !upper_ok(ident.name@),
    },
    //@]
{
    validate_uppercase_start(ident.name.raw(), ident.dollarless_position)
}

fn validate_uppercase_start(name: &str, position: ByteIndex) -> /*@[*/(r: /*@]*/Result<&str, KikiErr>/*@[*/)/*@]*/
    //@[ C10 validate_uppercase_start: if the name contains letters, the FIRST LETTER (not the first character) must be uppercase
    ensures match r {
        Ok(s) => s@ == name@ && upper_ok(name@),
        Err(e) => e == KikiErr::SymbolOrTerminalEnumNameFirstLetterNotUppercase(position) && !upper_ok(name@),
    },
    //@]
{
    let first_letter = name.chars().find(|c/*@[*/: &char/*@]*/| /*@[*/-> (o: bool) ensures o == is_ascii_alpha(*c) { /*@]*/c.is_ascii_alphabetic()/*@[*/ }/*@]*/);
    //@[ proof
    proof { assert(is_find_result(name@, first_letter)); lemma_find_is_first_letter(name@, first_letter); }
    //@]
    match first_letter {
        None => Ok(name),
        Some(first_letter) => {
            if first_letter.is_ascii_uppercase() {
                Ok(name)
            } else {
                Err(KikiErr::SymbolOrTerminalEnumNameFirstLetterNotUppercase(
                    position,
                ))
            }
        }
    }
}
