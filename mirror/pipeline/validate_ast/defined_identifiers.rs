//@file kiki/src/pipeline/validate_ast/defined_identifiers.rs mod=crate::pipeline::validate_ast::defined_identifiers
//@[ imports
use vstd::prelude::*;
use vstd::std_specs::iter::*;
use vstd::std_specs::cmp::*;
use crate::vx_gram::*;
use crate::vx_ord::*;
use crate::vx_hash::*;
use crate::vx_utf8::*;
use crate::vx_valid::*;
broadcast use {vstd::std_specs::hash::group_hash_axioms, crate::vx_hash_ax::group_key_models, crate::vx_hash::group_string_keys, crate::vx_ord::axiom_yielded_vec};
//@]
use super::*;

/// This function validates that:
/// 1. There are no duplicate nonterminal names.
/// 2. There are no duplicate terminal variant names.
/// 3. The nonterminal names, terminal variant names,
///    _and the terminal enum name_ are pairwise disjoint.
///
/// Things this function does **not** validate:
/// 1. This function does **not** check for name clashes with
///    builtins, such as `Option`.
/// 2. This function does **not** check that every nonterminal enum
///    has uniquely named variants.
/// 3. This function does **not** validate capitalization.
pub fn assert_there_are_no_top_level_name_clashes(file: &File) -> Result<(), KikiErr> {
    let mut seen = get_defined_symbol_positions(file)?;

    define_terminal_enum_name(&mut seen, file)?;

    Ok(())
}

/// The defined symbols, kept apart by kind so that a name of one kind
/// cannot stand in for a name of the other kind:
/// 1. Nonterminal names
/// 2. Terminal variant names
///
/// Neither set contains the terminal enum name.
pub struct DefinedSymbols {
    pub nonterminals: HashSet<String>,
    pub terminals: HashSet<String>,
}

//@[ C10 ghost: the `seen` map stands for the list d of definitions scanned so far (pairwise distinct names)
pub type Defs = Seq<(Seq<char>, ByteIndex)>;
pub open spec fn seen_is(m: Map<String, ByteIndex>, d: Defs) -> bool {
    &&& defs_distinct(d)
    &&& forall|key: String| #[trigger] m.contains_key(key) ==> d.contains((key@, m[key]))
    &&& forall|j: int| 0 <= j < d.len() ==> seen_has(m, #[trigger] d[j])
}
pub open spec fn seen_has(m: Map<String, ByteIndex>, x: (Seq<char>, ByteIndex)) -> bool {
    exists|key: String| #[trigger] m.contains_key(key) && key@ == x.0 && m[key] == x.1
}
/// one definition step: either the name is new and recorded, or it clashes with an earlier definition (reported with both positions)
pub open spec fn define_step(m0: Map<String, ByteIndex>, m1: Map<String, ByteIndex>, r: Result<(), KikiErr>, name: Seq<char>, pos: ByteIndex) -> bool {
    forall|d: Defs| #[trigger] seen_is(m0, d) ==> match r {
        Ok(_) => seen_is(m1, d.push((name, pos))),
        Err(e) => m1 == m0 && e is NameClash && e->NameClash_0@ == name && e->NameClash_2 == pos
            && exists|j: int| 0 <= j < d.len() && #[trigger] d[j] == (name, e->NameClash_1),
    }
}
pub proof fn lemma_define_new(m0: Map<String, ByteIndex>, key: String, pos: ByteIndex)
    requires forall|k: String| #[trigger] m0.contains_key(k) ==> k@ != key@
    ensures define_step(m0, m0.insert(key, pos), Ok(()), key@, pos)
{
    let m1 = m0.insert(key, pos);
    assert forall|d: Defs| #[trigger] seen_is(m0, d) implies seen_is(m1, d.push((key@, pos))) by {
        let d1 = d.push((key@, pos));
        assert forall|i: int, j: int| 0 <= i < j < d1.len() implies (#[trigger] d1[i]).0 != (#[trigger] d1[j]).0 by {
            if j == d.len() { assert(seen_has(m0, d[i])); let k = choose|k: String| #[trigger] m0.contains_key(k) && k@ == d[i].0 && m0[k] == d[i].1; }
            else { assert(d1[i] == d[i] && d1[j] == d[j]); }
        }
        assert forall|k: String| #[trigger] m1.contains_key(k) implies d1.contains((k@, m1[k])) by {
            if k == key { assert(d1[d.len() as int] == (k@, m1[k])); }
            else { let j = choose|j: int| 0 <= j < d.len() && d[j] == (k@, m0[k]); assert(d1[j] == d[j]); }
        }
        assert forall|j: int| 0 <= j < d1.len() implies seen_has(m1, #[trigger] d1[j]) by {
            if j < d.len() { assert(seen_has(m0, d[j])); let k = choose|k: String| #[trigger] m0.contains_key(k) && k@ == d[j].0 && m0[k] == d[j].1; assert(m1.contains_key(k) && k != key); }
            else { assert(m1.contains_key(key)); }
        }
    }
}
pub proof fn lemma_define_clash(m0: Map<String, ByteIndex>, key: String, name: String, pos: ByteIndex)
    requires m0.contains_key(key), name@ == key@
    ensures define_step(m0, m0, Err(KikiErr::NameClash(name, m0[key], pos)), key@, pos)
{
    assert forall|d: Defs| #[trigger] seen_is(m0, d) implies exists|j: int| 0 <= j < d.len() && #[trigger] d[j] == (key@, m0[key]) by {
        let j = choose|j: int| 0 <= j < d.len() && d[j] == (key@, m0[key]);
    }
}
//@]

//@[ C10 ghost view of DefinedSymbols: the two name sets, kept apart by kind
pub open spec fn ds_nts(ds: DefinedSymbols) -> Set<Seq<char>> { ds.nonterminals@.map(|k: String| k@) }
pub open spec fn ds_terms(ds: DefinedSymbols) -> Set<Seq<char>> { ds.terminals@.map(|k: String| k@) }

pub proof fn lemma_name_in_set(s: Set<String>, name: String)
    ensures s.map(|k: String| k@).contains(name@) <==> s.contains(name)
{
    if s.map(|k: String| k@).contains(name@) {
        let k = choose|k: String| s.contains(k) && k@ == name@;
        axiom_string_ext(k, name);
    }
    if s.contains(name) { assert(s.map(|k: String| k@).contains(name@)); }
}
//@]

/// This function validates that:
/// 1. There are no duplicate nonterminal names.
/// 2. There are no duplicate terminal variant names.
/// 3. The nonterminal names and terminal variant names
///    are pairwise disjoint.
///
/// This function does **not** check for name clashes with
/// builtins, such as `Option`.
///
/// This function does **not** validate capitalization.
pub fn get_defined_symbols(file: &File) -> Result<DefinedSymbols, KikiErr> {
    get_defined_symbol_positions(file)?;

    let mut nonterminals = HashSet::new();
    for item in &file.items {
        match item {
            FileItem::Struct(struct_def) => {
                nonterminals.insert(struct_def.name.name.clone());
            }
            FileItem::Enum(enum_def) => {
                nonterminals.insert(enum_def.name.name.clone());
            }
            FileItem::Start(_) | FileItem::Terminal(_) => {}
        }
    }

    let mut terminals = HashSet::new();
    for variant in &get_unvalidated_terminal_enum(file)?.variants {
        terminals.insert(variant.name.name.to_string());
    }

    Ok(DefinedSymbols {
        nonterminals,
        terminals,
    })
}

fn get_defined_symbol_positions(file: &File) -> Result<HashMap<String, ByteIndex>, KikiErr> {
    let mut seen: HashMap<String, ByteIndex> = HashMap::new();

    define_nonterminals(&mut seen, file)?;

    let unvalidated_terminal_enum = get_unvalidated_terminal_enum(file)?;
    define_terminal_variants(&mut seen, unvalidated_terminal_enum)?;

    Ok(seen)
}

fn define_nonterminals(seen: &mut HashMap<String, ByteIndex>, file: &File) -> Result<(), KikiErr> {
    for item in &file.items {
        define_nonterminal_if_possible(seen, item)?;
    }
    Ok(())
}

fn define_nonterminal_if_possible(
    seen: &mut HashMap<String, ByteIndex>,
    item: &FileItem,
) -> /*@[*/(r: /*@]*/Result<(), KikiErr>/*@[*/)/*@]*/
    //@[ C10 define_nonterminal_if_possible: structs and enums define a name; start and terminal declarations do not
    ensures if item_is_nt(*item) { define_step(old(seen)@, final(seen)@, r, item_name(*item).name@, item_name(*item).position) }
            else { r is Ok && final(seen)@ == old(seen)@ },
    //@]
{
    match item {
        FileItem::Start(_) => Ok(()),
        FileItem::Struct(struct_def) => define_nonterminal(seen, &struct_def.name),
        FileItem::Enum(enum_def) => define_nonterminal(seen, &enum_def.name),
        FileItem::Terminal(_) => Ok(()),
    }
}

fn define_nonterminal(seen: &mut HashMap<String, ByteIndex>, ident: &Ident) -> /*@[*/(r: /*@]*/Result<(), KikiErr>/*@[*/)/*@]*/
    //@[ C10 define_nonterminal: a second top-level definition of a name is a clash, reported with the earlier and the later position
    ensures define_step(old(seen)@, final(seen)@, r, ident.name@, ident.position),
    //@]
{
    //@[ proof
    proof {
        let m0 = seen@;
        if m0.contains_key(ident.name) {
            assert forall|n: String| n@ == ident.name@ implies define_step(m0, m0, Err::<(), KikiErr>(KikiErr::NameClash(n, m0[ident.name], ident.position)), ident.name@, ident.position) by {
                lemma_define_clash(m0, ident.name, n, ident.position);
            }
        } else {
            assert forall|k: String| #[trigger] m0.contains_key(k) implies k@ != ident.name@ by { if k@ == ident.name@ { axiom_string_ext(k, ident.name); } }
            assert forall|k: String| k@ == ident.name@ implies define_step(m0, m0.insert(k, ident.position), Ok::<(), KikiErr>(()), ident.name@, ident.position) by {
                lemma_define_new(m0, k, ident.position);
            }
        }
    }
    //@]
    if let Some(conflicting_symbol_position) = seen.get(&ident.name) {
        return Err(KikiErr::NameClash(
            ident.name.to_owned(),
            *conflicting_symbol_position,
            ident.position,
        ));
    }

    seen.insert(ident.name.clone(), ident.position);

    Ok(())
}

fn define_terminal_variants(
    seen: &mut HashMap<String, ByteIndex>,
    terminal_enum: &TerminalEnum,
) -> Result<(), KikiErr> {
    for variant in &terminal_enum.variants {
        define_terminal_variant(seen, variant)?;
    }
    Ok(())
}

fn define_terminal_variant(
    seen: &mut HashMap<String, ByteIndex>,
    variant: &TerminalEnumVariant,
) -> /*@[*/(r: /*@]*/Result<(), KikiErr>/*@[*/)/*@]*/
    //@[ C10 define_terminal_variant: terminal variant names share the namespace of the nonterminals
    ensures define_step(old(seen)@, final(seen)@, r, variant.name.name@, variant.name.dollarless_position),
    //@]
{
    //@[ proof
    proof {
        let m0 = seen@;
        let nm = variant.name.name@;
        let pos = variant.name.dollarless_position;
        if exists|key: String| #![trigger m0.contains_key(key)] m0.contains_key(key) && key@ == nm {
            assert forall|key: String, n: String| #![trigger m0.contains_key(key), n@] m0.contains_key(key) && key@ == nm && n@ == nm
                implies define_step(m0, m0, Err::<(), KikiErr>(KikiErr::NameClash(n, m0[key], pos)), nm, pos) by {
                lemma_define_clash(m0, key, n, pos);
            }
        } else {
            assert forall|k: String| k@ == nm implies define_step(m0, m0.insert(k, pos), Ok::<(), KikiErr>(()), nm, pos) by {
                assert forall|k2: String| #[trigger] m0.contains_key(k2) implies k2@ != k@ by {}
                lemma_define_new(m0, k, pos);
            }
        }
    }
    //@]
    let dollarless_name = variant.name.name.clone();
    let dollarless_position = variant.name.dollarless_position;

    if let Some(conflicting_symbol_pos) = seen.get(dollarless_name.raw()) {
        return Err(KikiErr::NameClash(
            dollarless_name.to_string(),
            *conflicting_symbol_pos,
            dollarless_position,
        ));
    }

    seen.insert(dollarless_name.to_string(), dollarless_position);

    Ok(())
}

fn define_terminal_enum_name(
    seen: &mut HashMap<String, ByteIndex>,
    file: &File,
) -> Result<(), KikiErr> {
    let terminal_enum = get_unvalidated_terminal_enum(file)?;

    if let Some(conflicting_symbol_position) = seen.get(&terminal_enum.name.name) {
        return Err(KikiErr::NameClash(
            terminal_enum.name.name.to_owned(),
            *conflicting_symbol_position,
            terminal_enum.name.position,
        ));
    }

    seen.insert(
        terminal_enum.name.name.to_owned(),
        terminal_enum.name.position,
    );

    Ok(())
}
