//@file kiki/src/pipeline/validate_ast/defined_identifiers.rs mod=crate::pipeline::validate_ast::defined_identifiers
//@[ imports
use vstd::prelude::*;
use vstd::std_specs::iter::*;
use vstd::std_specs::cmp::*;
use crate::vx_gram::*;
use crate::vx_ord::*;
use crate::vx_hash::*;
use crate::vx_utf8::*;
use crate::vx_valid::*;
broadcast use {vstd::std_specs::hash::group_hash_axioms, crate::vx_hash_ax::group_key_models, crate::vx_hash::group_string_keys, crate::vx_ord::axiom_yielded_vec};
//@]
use super::*;

/// This function validates that:
/// 1. There are no duplicate nonterminal names.
/// 2. There are no duplicate terminal variant names.
/// 3. The nonterminal names, terminal variant names,
///    _and the terminal enum name_ are pairwise disjoint.
///
/// Things this function does **not** validate:
/// 1. This function does **not** check for name clashes with
///    builtins, such as `Option`.
/// 2. This function does **not** check that every nonterminal enum
///    has uniquely named variants.
/// 3. This function does **not** validate capitalization.
pub fn assert_there_are_no_top_level_name_clashes(file: &File) -> /*@[*/(r: /*@]*/Result<(), KikiErr>/*@[*/)/*@]*/
    //@[ C10 assert_there_are_no_top_level_name_clashes: nonterminals, terminal variants and the terminal enum name are pairwise distinct, or a real clash is reported
    ensures match r {
        Ok(_) => sel_terminals(file.items@).len() == 1 && defs_distinct(all_defs(file.items@, sel_terminals(file.items@)[0])),
        Err(e) => err_truthful(*file, e),
    },
    //@]
{
    let mut seen = get_defined_symbol_positions(file)?;
    //@[ proof
    let ghost te = sel_terminals(file.items@)[0];
    let ghost a = nt_defs(file.items@) + term_defs(te);
    proof {
        assert(a.push((te.name.name@, te.name.position)) =~= all_defs(file.items@, te));
        assert forall|e: KikiErr| #[trigger] clash_new(a, te.name.name@, te.name.position, e) implies err_truthful(*file, e) by {
            assert(is_prefix_of(a, all_defs(file.items@, te)));
            lemma_clash_new_in(a, all_defs(file.items@, te), te.name.name@, te.name.position, e);
        }
    }
    //@]

    define_terminal_enum_name(&mut seen, file)?;

    Ok(())
}

/// The defined symbols, kept apart by kind so that a name of one kind
/// cannot stand in for a name of the other kind:
/// 1. Nonterminal names
/// 2. Terminal variant names
///
/// Neither set contains the terminal enum name.
pub struct DefinedSymbols {
    pub nonterminals: HashSet<String>,
    pub terminals: HashSet<String>,
}

//@[ C10 ghost: the `seen` map stands for the list d of definitions scanned so far (pairwise distinct names)
pub type Defs = Seq<(Seq<char>, ByteIndex)>;
pub open spec fn seen_is(m: Map<String, ByteIndex>, d: Defs) -> bool {
    &&& defs_distinct(d)
    &&& forall|key: String| #[trigger] m.contains_key(key) ==> d.contains((key@, m[key]))
    &&& forall|j: int| 0 <= j < d.len() ==> seen_has(m, #[trigger] d[j])
}
pub open spec fn seen_has(m: Map<String, ByteIndex>, x: (Seq<char>, ByteIndex)) -> bool {
    exists|key: String| #[trigger] m.contains_key(key) && key@ == x.0 && m[key] == x.1
}
/// one definition step: either the name is new and recorded, or it clashes with an earlier definition (reported with both positions)
pub open spec fn define_step(m0: Map<String, ByteIndex>, m1: Map<String, ByteIndex>, r: Result<(), KikiErr>, name: Seq<char>, pos: ByteIndex) -> bool {
    forall|d: Defs| #[trigger] seen_is(m0, d) ==> match r {
        Ok(_) => seen_is(m1, d.push((name, pos))),
        Err(e) => m1 == m0 && clash_new(d, name, pos, e),
    }
}
/// the error reports the new definition (name, pos) together with the position of an earlier definition of the same name in d
pub open spec fn clash_new(d: Defs, name: Seq<char>, pos: ByteIndex, e: KikiErr) -> bool {
    e is NameClash && e->NameClash_0@ == name && e->NameClash_2 == pos
        && exists|j: int| 0 <= j < d.len() && #[trigger] d[j] == (name, e->NameClash_1)
}
/// a scan that extends the definitions by ext: all recorded, or a clash among (earlier + ext) reported
pub open spec fn defs_post(m0: Map<String, ByteIndex>, m1: Map<String, ByteIndex>, r: Result<(), KikiErr>, ext: Defs) -> bool {
    forall|d: Defs| #[trigger] seen_is(m0, d) ==> match r {
        Ok(_) => seen_is(m1, d + ext),
        Err(e) => e is NameClash && clash_in(d + ext, e->NameClash_0@, e->NameClash_1, e->NameClash_2),
    }
}
pub proof fn lemma_clash_new_in(d1: Defs, full: Defs, name: Seq<char>, pos: ByteIndex, e: KikiErr)
    requires clash_new(d1, name, pos, e), is_prefix_of(d1, full), d1.len() < full.len(), full[d1.len() as int] == (name, pos)
    ensures clash_in(full, e->NameClash_0@, e->NameClash_1, e->NameClash_2)
{
    let j = choose|j: int| 0 <= j < d1.len() && #[trigger] d1[j] == (name, e->NameClash_1);
    assert(full[j] == d1[j]);
    assert(full[d1.len() as int] == (name, pos));
}
pub proof fn lemma_clash_prefix(d1: Defs, full: Defs, n: Seq<char>, p: ByteIndex, q: ByteIndex)
    requires clash_in(d1, n, p, q), is_prefix_of(d1, full)
    ensures clash_in(full, n, p, q)
{
    let (i, j) = choose|i: int, j: int| 0 <= i < j < d1.len() && #[trigger] d1[i] == (n, p) && #[trigger] d1[j] == (n, q);
    assert(full[i] == d1[i] && full[j] == d1[j]);
}
pub proof fn lemma_define_new(m0: Map<String, ByteIndex>, key: String, pos: ByteIndex)
    requires forall|k: String| #[trigger] m0.contains_key(k) ==> k@ != key@
    ensures define_step(m0, m0.insert(key, pos), Ok(()), key@, pos)
{
    let m1 = m0.insert(key, pos);
    assert forall|d: Defs| #[trigger] seen_is(m0, d) implies seen_is(m1, d.push((key@, pos))) by {
        let d1 = d.push((key@, pos));
        assert forall|i: int, j: int| 0 <= i < j < d1.len() implies (#[trigger] d1[i]).0 != (#[trigger] d1[j]).0 by {
            if j == d.len() { assert(seen_has(m0, d[i])); let k = choose|k: String| #[trigger] m0.contains_key(k) && k@ == d[i].0 && m0[k] == d[i].1; }
            else { assert(d1[i] == d[i] && d1[j] == d[j]); }
        }
        assert forall|k: String| #[trigger] m1.contains_key(k) implies d1.contains((k@, m1[k])) by {
            if k == key { assert(d1[d.len() as int] == (k@, m1[k])); }
            else { let j = choose|j: int| 0 <= j < d.len() && d[j] == (k@, m0[k]); assert(d1[j] == d[j]); }
        }
        assert forall|j: int| 0 <= j < d1.len() implies seen_has(m1, #[trigger] d1[j]) by {
            if j < d.len() { assert(seen_has(m0, d[j])); let k = choose|k: String| #[trigger] m0.contains_key(k) && k@ == d[j].0 && m0[k] == d[j].1; assert(m1.contains_key(k) && k != key); }
            else { assert(m1.contains_key(key)); }
        }
    }
}
pub proof fn lemma_define_clash(m0: Map<String, ByteIndex>, key: String, name: String, pos: ByteIndex)
    requires m0.contains_key(key), name@ == key@
    ensures define_step(m0, m0, Err(KikiErr::NameClash(name, m0[key], pos)), key@, pos)
{
    assert forall|d: Defs| #[trigger] seen_is(m0, d) implies clash_new(d, key@, pos, KikiErr::NameClash(name, m0[key], pos)) by {
        let j = choose|j: int| 0 <= j < d.len() && d[j] == (key@, m0[key]);
    }
}
//@]

//@[ C10 ghost view of DefinedSymbols: the two name sets, kept apart by kind
pub open spec fn ds_nts(ds: DefinedSymbols) -> Set<Seq<char>> { view_set(ds.nonterminals@) }
pub open spec fn ds_terms(ds: DefinedSymbols) -> Set<Seq<char>> { view_set(ds.terminals@) }

pub proof fn lemma_name_in_set(s: Set<String>, name: String)
    ensures s.map(|k: String| k@).contains(name@) <==> s.contains(name)
{
    if s.map(|k: String| k@).contains(name@) {
        let k = choose|k: String| s.contains(k) && k@ == name@;
        axiom_string_ext(k, name);
    }
    if s.contains(name) { assert(s.map(|k: String| k@).contains(name@)); }
}
//@]

/// This function validates that:
/// 1. There are no duplicate nonterminal names.
/// 2. There are no duplicate terminal variant names.
/// 3. The nonterminal names and terminal variant names
///    are pairwise disjoint.
///
/// This function does **not** check for name clashes with
/// builtins, such as `Option`.
///
/// This function does **not** validate capitalization.
pub fn get_defined_symbols(file: &File) -> /*@[*/(r: /*@]*/Result<DefinedSymbols, KikiErr>/*@[*/)/*@]*/
    //@[ C10 get_defined_symbols: the nonterminal names and the terminal variant names, as two separate sets (a name of one kind cannot stand in for the other)
    ensures match r {
        Ok(ds) => sel_terminals(file.items@).len() == 1 && ds_nts(ds) == nt_name_set(file.items@)
                  && ds_terms(ds) == term_name_set(sel_terminals(file.items@)[0].variants@),
        Err(e) => err_truthful(*file, e),
    },
    //@]
{
    get_defined_symbol_positions(file)?;
    //@[ proof
    let ghost items = file.items@;
    //@]

    let mut nonterminals/*@[*/: HashSet<String>/*@]*/ = HashSet::new();
    //@[ proof
    proof { assert(view_set(nonterminals@) =~= nt_name_set(items.take(0))); }
    //@]
    for item in /*@[*/__vx_it: /*@]*/&file.items
        //@[ C10 loop invariant: the set holds exactly the names of the nonterminal declarations scanned so far
        invariant
            items == file.items@, __vx_it.seq().len() == items.len(),
            forall|i: int| 0 <= i < items.len() ==> *(#[trigger] __vx_it.seq()[i]) == items[i],
            view_set(nonterminals@) == nt_name_set(items.take(__vx_it.index@)),
        //@]
    {
        //@[ proof
        let ghost k = __vx_it.index@;
        let ghost s0 = nonterminals@;
        proof {
            assert(*item == items[k]);
            lemma_nt_defs_take(items, k);
            assert forall|key: String| item_is_nt(*item) && key@ == item_name(*item).name@ implies view_set(#[trigger] s0.insert(key)) == nt_name_set(items.take(k + 1)) by {
                lemma_view_set_insert(s0, key);
            }
        }
        //@]
        match item {
            FileItem::Struct(struct_def) => {
                nonterminals.insert(struct_def.name.name.clone());
            }
            FileItem::Enum(enum_def) => {
                nonterminals.insert(enum_def.name.name.clone());
            }
            FileItem::Start(_) | FileItem::Terminal(_) => {}
        }
    }
    //@[ proof
    proof { assert(items.take(items.len() as int) =~= items); }
    let ghost vs = sel_terminals(items)[0].variants@;
    //@]

    let mut terminals/*@[*/: HashSet<String>/*@]*/ = HashSet::new();
    //@[ proof
    proof { assert(view_set(terminals@) =~= term_name_set(vs.take(0))); }
    //@]
    for variant in /*@[*/__vx_it: /*@]*/&get_unvalidated_terminal_enum(file)?.variants
        //@[ C10 loop invariant: the set holds exactly the names of the terminal variants scanned so far
        invariant
            items == file.items@, sel_terminals(items).len() == 1, vs == sel_terminals(items)[0].variants@, __vx_it.seq().len() == vs.len(),
            forall|i: int| 0 <= i < vs.len() ==> *(#[trigger] __vx_it.seq()[i]) == vs[i],
            view_set(terminals@) == term_name_set(vs.take(__vx_it.index@)),
        //@]
    {
        //@[ proof
        let ghost k = __vx_it.index@;
        let ghost s0 = terminals@;
        proof {
            assert(*variant == vs[k]);
            lemma_term_name_set_take(vs, k);
            assert forall|key: String| key@ == variant.name.name@ implies view_set(#[trigger] s0.insert(key)) == term_name_set(vs.take(k + 1)) by {
                lemma_view_set_insert(s0, key);
            }
        }
        //@]
        terminals.insert(variant.name.name.to_string());
    }
    //@[ proof
    proof { assert(vs.take(vs.len() as int) =~= vs); }
    //@]

    Ok(DefinedSymbols {
        nonterminals,
        terminals,
    })
}

fn get_defined_symbol_positions(file: &File) -> /*@[*/(r: /*@]*/Result<HashMap<String, ByteIndex>, KikiErr>/*@[*/)/*@]*/
    //@[ C10 get_defined_symbol_positions: nonterminal names and terminal variant names are pairwise distinct (one namespace), or a real clash is reported
    ensures match r {
        Ok(seen) => sel_terminals(file.items@).len() == 1 && seen_is(seen@, nt_defs(file.items@) + term_defs(sel_terminals(file.items@)[0])),
        Err(e) => err_truthful(*file, e),
    },
    //@]
{
    let mut seen: HashMap<String, ByteIndex> = HashMap::new();
    //@[ proof
    let ghost nd = nt_defs(file.items@);
    proof {
        assert(seen_is(seen@, Seq::<(Seq<char>, ByteIndex)>::empty()));
        assert(Seq::<(Seq<char>, ByteIndex)>::empty() + nd =~= nd);
    }
    //@]

    define_nonterminals(&mut seen, file)?;

    let unvalidated_terminal_enum = get_unvalidated_terminal_enum(file)?;
    //@[ proof
    proof {
        let te = *unvalidated_terminal_enum;
        assert(seen_is(seen@, nd));
        assert forall|n: Seq<char>, p: ByteIndex, q: ByteIndex| #[trigger] clash_in(nd + term_defs(te), n, p, q) implies clash_in(all_defs(file.items@, te), n, p, q) by {
            assert(is_prefix_of(nd + term_defs(te), all_defs(file.items@, te)));
            lemma_clash_prefix(nd + term_defs(te), all_defs(file.items@, te), n, p, q);
        }
    }
    //@]
    define_terminal_variants(&mut seen, unvalidated_terminal_enum)?;

    Ok(seen)
}

fn define_nonterminals(seen: &mut HashMap<String, ByteIndex>, file: &File) -> /*@[*/(r: /*@]*/Result<(), KikiErr>/*@[*/)/*@]*/
    //@[ C10 define_nonterminals: every struct and enum name is recorded, or a clash between two of them (or with an earlier definition) is reported
    ensures defs_post(old(seen)@, final(seen)@, r, nt_defs(file.items@)),
    //@]
{
    //@[ proof
    let ghost m0 = seen@;
    let ghost items = file.items@;
    //@]
    for item in /*@[*/__vx_it: /*@]*/&file.items
        //@[ C10 loop invariant: the map stands for the earlier definitions followed by those of the items scanned so far
        invariant
            m0 == old(seen)@, items == file.items@, __vx_it.seq().len() == items.len(),
            forall|i: int| 0 <= i < items.len() ==> *(#[trigger] __vx_it.seq()[i]) == items[i],
            forall|d: Defs| #[trigger] seen_is(m0, d) ==> seen_is(seen@, d + nt_defs(items.take(__vx_it.index@))),
        //@]
    {
        //@[ proof
        let ghost k = __vx_it.index@;
        proof {
            assert(*item == items[k]);
            lemma_nt_defs_take(items, k); lemma_nt_defs_prefix(items, k + 1);
            if item_is_nt(*item) {
                let x = (item_name(*item).name@, item_name(*item).position);
                assert forall|d: Defs, e: KikiErr| #[trigger] clash_new(d + nt_defs(items.take(k)), x.0, x.1, e)
                    implies clash_in(d + nt_defs(items), e->NameClash_0@, e->NameClash_1, e->NameClash_2) by {
                    let d1 = d + nt_defs(items.take(k));
                    let full = d + nt_defs(items);
                    assert(nt_defs(items.take(k + 1))[nt_defs(items.take(k)).len() as int] == x);
                    assert(is_prefix_of(d1, full)) by {
                        assert forall|j: int| 0 <= j < d1.len() implies #[trigger] d1[j] == full[j] by {
                            if j >= d.len() { assert(nt_defs(items.take(k))[j - d.len()] == nt_defs(items.take(k + 1))[j - d.len()]); }
                        }
                    }
                    assert(full[d1.len() as int] == nt_defs(items.take(k + 1))[d1.len() - d.len()]);
                    lemma_clash_new_in(d1, full, x.0, x.1, e);
                }
                let mk = seen@;
                assert forall|m1: Map<String, ByteIndex>, r1: Result<(), KikiErr>| r1 is Err && #[trigger] define_step(mk, m1, r1, x.0, x.1) implies defs_post(m0, m1, r1, nt_defs(items)) by {
                }
            }
        }
        //@]
        define_nonterminal_if_possible(seen, item)?;
        //@[ proof
        proof {
            assert forall|d: Defs| #[trigger] seen_is(m0, d) implies seen_is(seen@, d + nt_defs(items.take(k + 1))) by {
                if item_is_nt(*item) {
                    assert((d + nt_defs(items.take(k))).push((item_name(*item).name@, item_name(*item).position)) =~= d + nt_defs(items.take(k + 1)));
                }
            }
        }
        //@]
    }
    //@[ proof
    proof { assert(items.take(items.len() as int) =~= items); }
    //@]
    Ok(())
}

fn define_nonterminal_if_possible(
    seen: &mut HashMap<String, ByteIndex>,
    item: &FileItem,
) -> /*@[*/(r: /*@]*/Result<(), KikiErr>/*@[*/)/*@]*/
    //@[ C10 define_nonterminal_if_possible: structs and enums define a name; start and terminal declarations do not
    ensures if item_is_nt(*item) { define_step(old(seen)@, final(seen)@, r, item_name(*item).name@, item_name(*item).position) }
            else { r is Ok && final(seen)@ == old(seen)@ },
    //@]
{
    match item {
        FileItem::Start(_) => Ok(()),
        FileItem::Struct(struct_def) => define_nonterminal(seen, &struct_def.name),
        FileItem::Enum(enum_def) => define_nonterminal(seen, &enum_def.name),
        FileItem::Terminal(_) => Ok(()),
    }
}

fn define_nonterminal(seen: &mut HashMap<String, ByteIndex>, ident: &Ident) -> /*@[*/(r: /*@]*/Result<(), KikiErr>/*@[*/)/*@]*/
    //@[ C10 define_nonterminal: a second top-level definition of a name is a clash, reported with the earlier and the later position
    ensures define_step(old(seen)@, final(seen)@, r, ident.name@, ident.position),
    //@]
{
    //@[ proof
    proof {
        let m0 = seen@;
        if m0.contains_key(ident.name) {
            assert forall|n: String| n@ == ident.name@ implies define_step(m0, m0, Err::<(), KikiErr>(KikiErr::NameClash(n, m0[ident.name], ident.position)), ident.name@, ident.position) by {
                lemma_define_clash(m0, ident.name, n, ident.position);
            }
        } else {
            assert forall|k: String| #[trigger] m0.contains_key(k) implies k@ != ident.name@ by { if k@ == ident.name@ { axiom_string_ext(k, ident.name); } }
            assert forall|k: String| k@ == ident.name@ implies define_step(m0, m0.insert(k, ident.position), Ok::<(), KikiErr>(()), ident.name@, ident.position) by {
                lemma_define_new(m0, k, ident.position);
            }
        }
    }
    //@]
    if let Some(conflicting_symbol_position) = seen.get(&ident.name) {
        return Err(KikiErr::NameClash(
            ident.name.to_owned(),
            *conflicting_symbol_position,
            ident.position,
        ));
    }

    seen.insert(ident.name.clone(), ident.position);

    Ok(())
}

fn define_terminal_variants(
    seen: &mut HashMap<String, ByteIndex>,
    terminal_enum: &TerminalEnum,
) -> /*@[*/(r: /*@]*/Result<(), KikiErr>/*@[*/)/*@]*/
    //@[ C10 define_terminal_variants: every terminal variant name is recorded, or a clash with an earlier definition (nonterminal or variant) is reported
    ensures defs_post(old(seen)@, final(seen)@, r, term_defs(*terminal_enum)),
    //@]
{
    //@[ proof
    let ghost m0 = seen@;
    let ghost vs = terminal_enum.variants@;
    let ghost td = term_defs(*terminal_enum);
    //@]
    for variant in /*@[*/__vx_it: /*@]*/&terminal_enum.variants
        //@[ C10 loop invariant: the map stands for the earlier definitions followed by those of the variants scanned so far
        invariant
            m0 == old(seen)@, vs == terminal_enum.variants@, td == term_defs(*terminal_enum), __vx_it.seq().len() == vs.len(),
            forall|i: int| 0 <= i < vs.len() ==> *(#[trigger] __vx_it.seq()[i]) == vs[i],
            forall|d: Defs| #[trigger] seen_is(m0, d) ==> seen_is(seen@, d + td.take(__vx_it.index@)),
        //@]
    {
        //@[ proof
        let ghost k = __vx_it.index@;
        proof {
            assert(*variant == vs[k]);
            let x = (variant.name.name@, variant.name.dollarless_position);
            assert(td[k] == x);
            assert forall|d: Defs, e: KikiErr| #[trigger] clash_new(d + td.take(k), x.0, x.1, e)
                implies clash_in(d + td, e->NameClash_0@, e->NameClash_1, e->NameClash_2) by {
                let d1 = d + td.take(k);
                let full = d + td;
                assert(is_prefix_of(d1, full));
                assert(full[d1.len() as int] == td[k]);
                lemma_clash_new_in(d1, full, x.0, x.1, e);
            }
            let mk = seen@;
            assert forall|m1: Map<String, ByteIndex>, r1: Result<(), KikiErr>| r1 is Err && #[trigger] define_step(mk, m1, r1, x.0, x.1) implies defs_post(m0, m1, r1, td) by {
            }
        }
        //@]
        define_terminal_variant(seen, variant)?;
        //@[ proof
        proof {
            assert forall|d: Defs| #[trigger] seen_is(m0, d) implies seen_is(seen@, d + td.take(k + 1)) by {
                assert((d + td.take(k)).push(td[k]) =~= d + td.take(k + 1));
            }
        }
        //@]
    }
    //@[ proof
    proof { assert(td.take(td.len() as int) =~= td); }
    //@]
    Ok(())
}

fn define_terminal_variant(
    seen: &mut HashMap<String, ByteIndex>,
    variant: &TerminalEnumVariant,
) -> /*@[*/(r: /*@]*/Result<(), KikiErr>/*@[*/)/*@]*/
    //@[ C10 define_terminal_variant: terminal variant names share the namespace of the nonterminals
    ensures define_step(old(seen)@, final(seen)@, r, variant.name.name@, variant.name.dollarless_position),
    //@]
{
    //@[ proof
    proof {
        let m0 = seen@;
        let nm = variant.name.name@;
        let pos = variant.name.dollarless_position;
        if exists|key: String| #![trigger m0.contains_key(key)] m0.contains_key(key) && key@ == nm {
            assert forall|key: String, n: String| #![trigger m0.contains_key(key), n@] m0.contains_key(key) && key@ == nm && n@ == nm
                implies define_step(m0, m0, Err::<(), KikiErr>(KikiErr::NameClash(n, m0[key], pos)), nm, pos) by {
                lemma_define_clash(m0, key, n, pos);
            }
        } else {
            assert forall|k: String| k@ == nm implies define_step(m0, m0.insert(k, pos), Ok::<(), KikiErr>(()), nm, pos) by {
                assert forall|k2: String| #[trigger] m0.contains_key(k2) implies k2@ != k@ by {}
                lemma_define_new(m0, k, pos);
            }
        }
    }
    //@]
    let dollarless_name = variant.name.name.clone();
    let dollarless_position = variant.name.dollarless_position;

    if let Some(conflicting_symbol_pos) = seen.get(dollarless_name.raw()) {
        return Err(KikiErr::NameClash(
            dollarless_name.to_string(),
            *conflicting_symbol_pos,
            dollarless_position,
        ));
    }

    seen.insert(dollarless_name.to_string(), dollarless_position);

    Ok(())
}

fn define_terminal_enum_name(
    seen: &mut HashMap<String, ByteIndex>,
    file: &File,
) -> /*@[*/(r: /*@]*/Result<(), KikiErr>/*@[*/)/*@]*/
    //@[ C10 define_terminal_enum_name: the terminal enum's own name shares the namespace of the nonterminals and terminal variants
    ensures
        sel_terminals(file.items@).len() != 1 ==> r is Err && err_truthful(*file, r->Err_0),
        sel_terminals(file.items@).len() == 1 ==> define_step(old(seen)@, final(seen)@, r, sel_terminals(file.items@)[0].name.name@, sel_terminals(file.items@)[0].name.position),
    //@]
{
    let terminal_enum = get_unvalidated_terminal_enum(file)?;
    //@[ proof
    proof {
        let m0 = seen@;
        let id = terminal_enum.name;
        if m0.contains_key(id.name) {
            assert forall|n: String| n@ == id.name@ implies define_step(m0, m0, Err::<(), KikiErr>(KikiErr::NameClash(n, m0[id.name], id.position)), id.name@, id.position) by {
                lemma_define_clash(m0, id.name, n, id.position);
            }
        } else {
            assert forall|k: String| #[trigger] m0.contains_key(k) implies k@ != id.name@ by { if k@ == id.name@ { axiom_string_ext(k, id.name); } }
            assert forall|k: String| k@ == id.name@ implies define_step(m0, m0.insert(k, id.position), Ok::<(), KikiErr>(()), id.name@, id.position) by {
                lemma_define_new(m0, k, id.position);
            }
        }
    }
    //@]

    if let Some(conflicting_symbol_position) = seen.get(&terminal_enum.name.name) {
        return Err(KikiErr::NameClash(
            terminal_enum.name.name.to_owned(),
            *conflicting_symbol_position,
            terminal_enum.name.position,
        ));
    }

    seen.insert(
        terminal_enum.name.name.to_owned(),
        terminal_enum.name.position,
    );

    Ok(())
}
