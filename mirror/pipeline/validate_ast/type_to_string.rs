//@file kiki/src/pipeline/validate_ast/type_to_string.rs mod=crate::pipeline::validate_ast::type_to_string
//@[ imports
use vstd::prelude::*;
use vstd::std_specs::iter::*;
use vstd::std_specs::cmp::*;
use crate::vx_gram::*;
use crate::vx_ord::*;
use crate::vx_hash::*;
use crate::vx_utf8::*;
use crate::vx_valid::*;
broadcast use {vstd::std_specs::hash::group_hash_axioms, crate::vx_hash_ax::group_key_models, crate::vx_hash::group_string_keys, crate::vx_ord::axiom_yielded_vec};
//@]
use super::*;

//@[ T: join / format! / fn-item closures are outside the supported subset (body not verified)
#[verifier::external_body]
//@]
pub fn type_to_string(type_: &Type) -> String {
    match type_ {
        Type::Unit => "()".to_string(),
        Type::Path(path) => path_to_string(path),
        Type::Complex(complex) => complex_to_string(complex),
    }
}

//@[ T: join / format! / fn-item closures are outside the supported subset (body not verified)
#[verifier::external_body]
//@]
pub fn path_to_string(path: &[Ident]) -> String {
    path.iter()
        .map(|part| -> &str { &part.name })
        .collect::<Vec<&str>>()
        .join("::")
}

//@[ T: join / format! / fn-item closures are outside the supported subset (body not verified)
#[verifier::external_body]
//@]
pub fn complex_to_string(complex: &ComplexType) -> String {
    let callee = path_to_string(&complex.callee);
    let comma_separated_args = complex
        .args
        .iter()
        .map(type_to_string)
        .collect::<Vec<String>>()
        .join(", ");
    format!("{callee}<{comma_separated_args}>")
}
