//@file kiki/src/pipeline/validate_ast/start_symbol.rs mod=crate::pipeline::validate_ast::start_symbol
//@[ imports
use vstd::prelude::*;
use vstd::std_specs::iter::*;
use vstd::std_specs::cmp::*;
use crate::vx_gram::*;
use crate::vx_ord::*;
use crate::vx_hash::*;
use crate::vx_utf8::*;
use crate::vx_valid::*;
broadcast use {vstd::std_specs::hash::group_hash_axioms, crate::vx_hash_ax::group_key_models, crate::vx_hash::group_string_keys, crate::vx_ord::axiom_yielded_vec, crate::vx_str::group_str_eq};
//@]
use super::*;

/// This function validates that:
/// 1. There is exactly one `start` statement.
/// 2. The start symbol refers to a valid nonterminal.
//@[ C10 lemma: the selection computed with filter_map is the list of start declarations
pub open spec fn g_start<'a>(it: FileItem) -> Option<&'a Ident> { match it { FileItem::Start(s) => Some(&s), _ => None } }
proof fn lemma_select_starts<'a>(items: Seq<FileItem>, g: spec_fn(FileItem) -> Option<&'a Ident>)
    requires forall|it: FileItem| #[trigger] g(it) == g_start::<'a>(it)
    ensures filter_map_spec(items, g).len() == sel_starts(items).len(),
        forall|i: int| 0 <= i < sel_starts(items).len() ==> *(#[trigger] filter_map_spec(items, g)[i]) == sel_starts(items)[i]
    decreases items.len()
{
    if items.len() > 0 { lemma_select_starts(items.drop_last(), g); }
}
//@]

pub fn get_start_symbol_name(
    file: &File,
    nonterminals: &[validated::Nonterminal],
) -> /*@[*/(r: /*@]*/Result<String, KikiErr>/*@[*/)/*@]*/
    //@[ C10 get_start_symbol_name: exactly one start declaration, naming a defined nonterminal
    requires forall|a: Seq<char>| nts_have(nonterminals@, a) <==> nt_defined(file.items@, a),
    ensures match r {
        Ok(s) => sel_starts(file.items@).len() == 1 && s@ == sel_starts(file.items@)[0].name@ && nt_defined(file.items@, s@),
        Err(e) => err_truthful(*file, e) && (e is NoStartSymbol || e is MultipleStartSymbols || e is UndefinedNonterminal),
    },
    //@]
{
    let starts: Vec<&Ident> = /*@{ T18_open*//*@- file
        .items
        .iter()
        .filter_map( *//*@|*/__vx_filter_map_collect(&file.items, /*@}*/|item/*@[*/: &FileItem/*@]*/| /*@[*/-> (o: Option<&Ident>) ensures o == g_start(*item) { /*@]*/match item {
            FileItem::Start(start) => Some(start),
            _ => None,
        }/*@[*/ }/*@]*//*@{ T18_close*//*@- )
        .collect() *//*@|*/)/*@}*/;
    //@[ proof
    proof {
        let lam = |it: FileItem| g_start(it);
        assert(starts@ == filter_map_spec(file.items@, lam));
        lemma_select_starts(file.items@, lam);
    }
    //@]

    if starts.is_empty() {
        return Err(KikiErr::NoStartSymbol);
    }

    if starts.len() > 1 {
        let positions/*@[*/: Vec<ByteIndex>/*@]*/ = starts.iter().map(|start/*@[*/: &&Ident/*@]*/| /*@[*/-> (o: ByteIndex) ensures o == start.position { /*@]*/start.position/*@[*/ }/*@]*/).collect();
        //@[ proof
        proof { assert(positions@ =~= sel_starts(file.items@).map_values(|s: Ident| s.position)); }
        //@]
        return Err(KikiErr::MultipleStartSymbols(positions));
    }

    //@[ proof
    proof { assert(nts_have(nonterminals@, starts@[0].name@) <==> nt_defined(file.items@, starts@[0].name@)); }
    //@]
    validate_start_symbol_name_is_defined(starts[0], nonterminals)
}

//@[ C10 ghost: some validated nonterminal is called a
pub open spec fn nts_have(nts: Seq<validated::Nonterminal>, a: Seq<char>) -> bool {
    exists|i: int| 0 <= i < nts.len() && nt_name(#[trigger] nts[i]) == a
}
//@]

fn validate_start_symbol_name_is_defined(
    start_symbol: &Ident,
    nonterminals: &[validated::Nonterminal],
) -> /*@[*/(r: /*@]*/Result<String, KikiErr>/*@[*/)/*@]*/
    //@[ C10 validate_start_symbol_name_is_defined: the start symbol must be one of the nonterminals (not a terminal)
    ensures match r {
        Ok(s) => s@ == start_symbol.name@ && nts_have(nonterminals@, start_symbol.name@),
        Err(e) => e is UndefinedNonterminal && e->UndefinedNonterminal_0@ == start_symbol.name@ && e->UndefinedNonterminal_1 == start_symbol.position
            && !nts_have(nonterminals@, start_symbol.name@),
    },
    //@]
{
    let is_defined = nonterminals
        .iter()
        .any(|nonterminal/*@[*/: &validated::Nonterminal/*@]*/| /*@[*/-> (o: bool) ensures o == (nt_name(*nonterminal) == start_symbol.name@) { /*@]*/nonterminal.name() == start_symbol.name/*@[*/ }/*@]*/);
    //@[ proof
    proof {
        let nts = nonterminals@;
        let rem = nts.as_ref();
        assert(rem.len() == nts.len());
        assert(forall|j: int| 0 <= j < rem.len() ==> *(#[trigger] rem[j]) == nts[j]);
        if !is_defined {
            assert forall|j: int| 0 <= j < nts.len() implies nt_name(#[trigger] nts[j]) != start_symbol.name@ by { assert(*rem[j] == nts[j]); }
        }
    }
    //@]

    if !is_defined {
        return Err(KikiErr::UndefinedNonterminal(
            start_symbol.name.to_owned(),
            start_symbol.position,
        ));
    }

    Ok(start_symbol.name.to_owned())
}
