//@file kiki/src/pipeline/validate_ast/start_symbol.rs mod=crate::pipeline::validate_ast::start_symbol
//@[ imports
use vstd::prelude::*;
use vstd::std_specs::iter::*;
use vstd::std_specs::cmp::*;
use crate::vx_gram::*;
use crate::vx_ord::*;
use crate::vx_hash::*;
use crate::vx_utf8::*;
use crate::vx_valid::*;
broadcast use {vstd::std_specs::hash::group_hash_axioms, crate::vx_hash_ax::group_key_models, crate::vx_hash::group_string_keys, crate::vx_ord::axiom_yielded_vec};
//@]
use super::*;

/// This function validates that:
/// 1. There is exactly one `start` statement.
/// 2. The start symbol refers to a valid nonterminal.
//@[ T13: outlined selection (current /repo tokens; body not verified, contract assumed)
#[verifier::external_body]
fn __vx_select_starts<'a>(file: &'a File) -> (r: Vec<&'a Ident>)
    ensures r@.len() == sel_starts(file.items@).len(), forall|i: int| 0 <= i < r@.len() ==> *(#[trigger] r@[i]) == sel_starts(file.items@)[i]
{ /*@orig T13_select_starts*/ }
//@]

pub fn get_start_symbol_name(
    file: &File,
    nonterminals: &[validated::Nonterminal],
) -> Result<String, KikiErr> {
    let starts: Vec<&Ident> = /*@{ T13_select_starts*//*@- file
        .items
        .iter()
        .filter_map(|item| match item {
            FileItem::Start(start) => Some(start),
            _ => None,
        })
        .collect() *//*@|*/__vx_select_starts(file)/*@}*/;

    if starts.is_empty() {
        return Err(KikiErr::NoStartSymbol);
    }

    if starts.len() > 1 {
        let positions = starts.iter().map(|start| start.position).collect();
        return Err(KikiErr::MultipleStartSymbols(positions));
    }

    validate_start_symbol_name_is_defined(starts[0], nonterminals)
}

fn validate_start_symbol_name_is_defined(
    start_symbol: &Ident,
    nonterminals: &[validated::Nonterminal],
) -> Result<String, KikiErr> {
    let is_defined = nonterminals
        .iter()
        .any(|nonterminal| nonterminal.name() == start_symbol.name);

    if !is_defined {
        return Err(KikiErr::UndefinedNonterminal(
            start_symbol.name.to_owned(),
            start_symbol.position,
        ));
    }

    Ok(start_symbol.name.to_owned())
}
