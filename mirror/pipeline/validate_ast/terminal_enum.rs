//@file kiki/src/pipeline/validate_ast/terminal_enum.rs mod=crate::pipeline::validate_ast::terminal_enum
//@[ imports
use vstd::prelude::*;
use vstd::std_specs::iter::*;
use vstd::std_specs::cmp::*;
use crate::vx_gram::*;
use crate::vx_ord::*;
use crate::vx_hash::*;
use crate::vx_utf8::*;
use crate::vx_valid::*;
broadcast use {vstd::std_specs::hash::group_hash_axioms, crate::vx_hash_ax::group_key_models, crate::vx_hash::group_string_keys, crate::vx_ord::axiom_yielded_vec};
//@]
use super::*;

/// This function validates that:
/// 1. There is exactly one `terminal` statement.
/// 2. The terminal enum name has proper capitalization.
/// 3. Each variant name has proper capitalization.
///
/// This function does **not** check for name clashes.
///
/// ## Capitalization rules:
/// 1. If a terminal enum name contains one or more letters,
///    the first letter must be uppercase.
/// 2. If a terminal variant name contains one or more letters,
///    the first letter must be uppercase.
pub fn get_terminal_enum(file: &File) -> Result<validated::TerminalEnum, KikiErr> {
    let unvalidated = get_unvalidated_terminal_enum(file)?;
    validate_terminal_def(unvalidated)
}

/// This function validates that:
/// 1. There is exactly one `terminal` statement.
///
/// If it finds exactly one `terminal` statement, it returns
/// **without** any further validation.
//@[ T13: outlined selection (current /repo tokens; body not verified, contract assumed)
#[verifier::external_body]
fn __vx_select_terminals<'a>(file: &'a File) -> (r: Vec<&'a TerminalEnum>)
    ensures r@.len() == sel_terminals(file.items@).len(), forall|i: int| 0 <= i < r@.len() ==> *(#[trigger] r@[i]) == sel_terminals(file.items@)[i]
{ /*@orig T13_select_terminals*/ }
//@]

pub fn get_unvalidated_terminal_enum(file: &File) -> Result<&TerminalEnum, KikiErr> {
    let terminals: Vec<&TerminalEnum> = /*@{ T13_select_terminals*//*@- file
        .items
        .iter()
        .filter_map(|item| match item {
            FileItem::Terminal(t) => Some(t),
            _ => None,
        })
        .collect() *//*@|*/__vx_select_terminals(file)/*@}*/;

    if terminals.is_empty() {
        return Err(KikiErr::NoTerminalEnum);
    }

    if terminals.len() > 1 {
        let positions = terminals.iter().map(|t| t.name.position).collect();
        return Err(KikiErr::MultipleTerminalEnums(positions));
    }

    Ok(terminals[0])
}

fn validate_terminal_def(def: &TerminalEnum) -> Result<validated::TerminalEnum, KikiErr> {
    let attributes = def.attributes.clone();
    let name = validate_ident_uppercase_start(&def.name)?.to_string();
    let variants = validate_terminal_variants(def)?;
    Ok(validated::TerminalEnum {
        attributes,
        name,
        variants,
    })
}

fn validate_terminal_variants(
    def: &TerminalEnum,
) -> Result<Vec<validated::TerminalVariant>, KikiErr> {
    let variants = def
        .variants
        .iter()
        .map(validate_variant_capitalization)
        .collect::<Result<Vec<_>, _>>()?;
    Ok(variants)
}

fn validate_variant_capitalization(
    variant: &TerminalEnumVariant,
) -> Result<validated::TerminalVariant, KikiErr> {
    let validated_name = validate_terminal_ident_uppercase_start(&variant.name)?;
    let dollarless_name = DollarlessTerminalName::remove_dollars(validated_name);
    let type_ = type_to_string::type_to_string(&variant.type_);
    Ok(validated::TerminalVariant {
        dollarless_name,
        type_,
    })
}
