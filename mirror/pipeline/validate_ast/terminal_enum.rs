//@file kiki/src/pipeline/validate_ast/terminal_enum.rs mod=crate::pipeline::validate_ast::terminal_enum
//@[ imports
use vstd::prelude::*;
use vstd::std_specs::iter::*;
use vstd::std_specs::cmp::*;
use crate::vx_gram::*;
use crate::vx_ord::*;
use crate::vx_hash::*;
use crate::vx_utf8::*;
use crate::vx_valid::*;
broadcast use {vstd::std_specs::hash::group_hash_axioms, crate::vx_hash_ax::group_key_models, crate::vx_hash::group_string_keys, crate::vx_ord::axiom_yielded_vec};
//@]
use super::*;

/// This function validates that:
/// 1. There is exactly one `terminal` statement.
/// 2. The terminal enum name has proper capitalization.
/// 3. Each variant name has proper capitalization.
///
/// This function does **not** check for name clashes.
///
/// ## Capitalization rules:
/// 1. If a terminal enum name contains one or more letters,
///    the first letter must be uppercase.
/// 2. If a terminal variant name contains one or more letters,
///    the first letter must be uppercase.
pub fn get_terminal_enum(file: &File) -> /*@[*/(r: /*@]*/Result<validated::TerminalEnum, KikiErr>/*@[*/)/*@]*/
    //@[ C10 get_terminal_enum: exactly one terminal declaration, its name and its variant names obey the capitalisation rule
    ensures match r {
        Ok(v) => sel_terminals(file.items@).len() == 1 && terminal_def_ok(sel_terminals(file.items@)[0]) && terminal_def_view(sel_terminals(file.items@)[0], v),
        Err(e) => err_truthful(*file, e),
    },
    //@]
{
    let unvalidated = get_unvalidated_terminal_enum(file)?;
    //@[ proof
    proof {
        let items = file.items@;
        // the one terminal declaration is an item of the file
        lemma_sel_terminals_in(items, 0);
        let i = choose|i: int| 0 <= i < items.len() && (#[trigger] items[i]) is Terminal && items[i]->Terminal_0 == sel_terminals(items)[0];
        assert forall|e: KikiErr| #[trigger] terminal_def_err(*unvalidated, e) implies err_truthful(*file, e) by {
            assert(items[i] is Terminal);
        }
    }
    //@]
    validate_terminal_def(unvalidated)
}

//@[ C10 ghost: capitalisation of a terminal declaration, the error that reports its violation, and the validated view
pub open spec fn terminal_def_ok(te: TerminalEnum) -> bool {
    upper_ok(te.name.name@) && forall|i: int| 0 <= i < te.variants@.len() ==> upper_ok((#[trigger] te.variants@[i]).name.name@)
}
pub open spec fn terminal_def_err(te: TerminalEnum, e: KikiErr) -> bool {
    e is SymbolOrTerminalEnumNameFirstLetterNotUppercase && ({
        let p = e->SymbolOrTerminalEnumNameFirstLetterNotUppercase_0;
        (te.name.position == p && !upper_ok(te.name.name@)) || bad_upper_in_terminal_variants(te.variants@, p)
    })
}
pub open spec fn terminal_variant_view(v: TerminalEnumVariant, o: validated::TerminalVariant) -> bool {
    o.dollarless_name@ == v.name.name@.filter(|c: char| c != '$')
}
pub open spec fn terminal_def_view(te: TerminalEnum, o: validated::TerminalEnum) -> bool {
    &&& o.name@ == te.name.name@
    &&& o.attributes@ == te.attributes@
    &&& o.variants@.len() == te.variants@.len()
    &&& forall|i: int| 0 <= i < te.variants@.len() ==> terminal_variant_view(#[trigger] te.variants@[i], o.variants@[i])
}
//@]

/// This function validates that:
/// 1. There is exactly one `terminal` statement.
///
/// If it finds exactly one `terminal` statement, it returns
/// **without** any further validation.
//@[ C10 lemma: the selection computed with filter_map is the list of terminal declarations
pub open spec fn g_terminal<'a>(it: FileItem) -> Option<&'a TerminalEnum> { match it { FileItem::Terminal(t) => Some(&t), _ => None } }
proof fn lemma_select_terminals<'a>(items: Seq<FileItem>, g: spec_fn(FileItem) -> Option<&'a TerminalEnum>)
    requires forall|it: FileItem| #[trigger] g(it) == g_terminal::<'a>(it)
    ensures filter_map_spec(items, g).len() == sel_terminals(items).len(),
        forall|i: int| 0 <= i < sel_terminals(items).len() ==> *(#[trigger] filter_map_spec(items, g)[i]) == sel_terminals(items)[i]
    decreases items.len()
{
    if items.len() > 0 { lemma_select_terminals(items.drop_last(), g); }
}
//@]

pub fn get_unvalidated_terminal_enum(file: &File) -> /*@[*/(r: /*@]*/Result<&TerminalEnum, KikiErr>/*@[*/)/*@]*/
    //@[ C10 get_unvalidated_terminal_enum: exactly one terminal declaration, else the error lists what is there
    ensures match r {
        Ok(t) => sel_terminals(file.items@).len() == 1 && *t == sel_terminals(file.items@)[0],
        Err(e) => err_truthful(*file, e) && (e is NoTerminalEnum || e is MultipleTerminalEnums),
    },
    //@]
{
    let terminals: Vec<&TerminalEnum> = /*@{ T18_open*//*@- file
        .items
        .iter()
        .filter_map( *//*@|*/__vx_filter_map_collect(&file.items, /*@}*/|item/*@[*/: &FileItem/*@]*/| /*@[*/-> (o: Option<&TerminalEnum>) ensures o == g_terminal(*item) { /*@]*/match item {
            FileItem::Terminal(t) => Some(t),
            _ => None,
        }/*@[*/ }/*@]*//*@{ T18_close*//*@- )
        .collect() *//*@|*/)/*@}*/;
    //@[ proof
    proof {
        let lam = |it: FileItem| g_terminal(it);
        assert(terminals@ == filter_map_spec(file.items@, lam));
        lemma_select_terminals(file.items@, lam);
    }
    //@]

    if terminals.is_empty() {
        return Err(KikiErr::NoTerminalEnum);
    }

    if terminals.len() > 1 {
        let positions/*@[*/: Vec<ByteIndex>/*@]*/ = terminals.iter().map(|t/*@[*/: &&TerminalEnum/*@]*/| /*@[*/-> (o: ByteIndex) ensures o == t.name.position { /*@]*/t.name.position/*@[*/ }/*@]*/).collect();
        //@[ proof
        proof { assert(positions@ =~= sel_terminals(file.items@).map_values(|t: TerminalEnum| t.name.position)); }
        //@]
        return Err(KikiErr::MultipleTerminalEnums(positions));
    }

    Ok(terminals[0])
}

fn validate_terminal_def(def: &TerminalEnum) -> /*@[*/(r: /*@]*/Result<validated::TerminalEnum, KikiErr>/*@[*/)/*@]*/
    //@[ C10 validate_terminal_def
    ensures match r {
        Ok(v) => terminal_def_ok(*def) && terminal_def_view(*def, v),
        Err(e) => terminal_def_err(*def, e),
    },
    //@]
{
    let attributes = def.attributes.clone();
    let name = validate_ident_uppercase_start(&def.name)?.to_string();
    let variants = validate_terminal_variants(def)?;
    Ok(validated::TerminalEnum {
        attributes,
        name,
        variants,
    })
}

fn validate_terminal_variants(
    def: &TerminalEnum,
) -> /*@[*/(r: /*@]*/Result<Vec<validated::TerminalVariant>, KikiErr>/*@[*/)/*@]*/
    //@[ C10 validate_terminal_variants: all variant names are properly capitalised, or the error points at one that is not
    ensures match r {
        Ok(v) => v@.len() == def.variants@.len()
            && forall|i: int| 0 <= i < def.variants@.len() ==> upper_ok((#[trigger] def.variants@[i]).name.name@) && terminal_variant_view(def.variants@[i], v@[i]),
        Err(e) => e is SymbolOrTerminalEnumNameFirstLetterNotUppercase && bad_upper_in_terminal_variants(def.variants@, e->SymbolOrTerminalEnumNameFirstLetterNotUppercase_0),
    },
    //@]
{
    let variants = /*@{ T16_open*//*@- def
        .variants
        .iter()
        .map( *//*@|*/__vx_try_map_collect(&def.variants, /*@}*/validate_variant_capitalization/*@{ T16_close*//*@- )
        .collect::<Result<Vec<_>, _>>() *//*@|*/)/*@}*/?;
    Ok(variants)
}

fn validate_variant_capitalization(
    variant: &TerminalEnumVariant,
) -> /*@[*/(r: /*@]*/Result<validated::TerminalVariant, KikiErr>/*@[*/)/*@]*/
    //@[ C10 validate_variant_capitalization
    ensures match r {
        Ok(v) => upper_ok(variant.name.name@) && terminal_variant_view(*variant, v),
        Err(e) => e == KikiErr::SymbolOrTerminalEnumNameFirstLetterNotUppercase(variant.name.dollarless_position) && !upper_ok(variant.name.name@),
    },
    //@]
{
    let validated_name = validate_terminal_ident_uppercase_start(&variant.name)?;
    let dollarless_name = DollarlessTerminalName::remove_dollars(validated_name);
    let type_ = type_to_string::type_to_string(&variant.type_);
    Ok(validated::TerminalVariant {
        dollarless_name,
        type_,
    })
}
