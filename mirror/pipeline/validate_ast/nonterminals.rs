//@file kiki/src/pipeline/validate_ast/nonterminals.rs mod=crate::pipeline::validate_ast::nonterminals
//@[ imports
use vstd::prelude::*;
use vstd::std_specs::iter::*;
use vstd::std_specs::cmp::*;
use crate::vx_gram::*;
use crate::vx_ord::*;
use crate::vx_hash::*;
use crate::vx_utf8::*;
use crate::vx_valid::*;
broadcast use {vstd::std_specs::hash::group_hash_axioms, crate::vx_hash_ax::group_key_models, crate::vx_hash::group_string_keys, crate::vx_ord::axiom_yielded_vec};
//@]
use super::*;
use crate::data::Symbol;

/// This function validates that:
/// 1. Every nonterminal name is properly capitalized.
/// 2. Every nonterminal enum variant name is properly capitalized.
/// 3. Every field name is properly capitalized.
/// 4. Every nonterminal enum's variants have unique names within that enum.
///    1. _Different_ nonterminal enums may have variants with the same name.
/// 5. Every nonterminal enum's variants have a unique sequence of field symbols.
///    1. _Different_ nonterminal enums may have variants with the same sequence of field symbols.
///
/// This function does **not** check for name clashes,
/// except for those between nonterminal enum variants.
///
/// ## Capitalization rules:
/// 1. If a nonterminal name contains one or more letters,
///    the first letter must be uppercase.
/// 2. If a nonterminal enum variant name contains one or more letters,
///    the first letter must be uppercase.
/// 3. If a field name contains one or more letters,
///    the first letter must be lowercase.
pub fn get_nonterminals(file: &File) -> /*@[*/(r: /*@]*/Result<Vec<validated::Nonterminal>, KikiErr>/*@[*/)/*@]*/
    //@[ C10 get_nonterminals: every struct / enum declaration passes all nonterminal checks against the two name sets of THIS file, or a real violation is reported
    ensures match r {
        Ok(v) => sel_terminals(file.items@).len() == 1 && ({
            let nts = nt_name_set(file.items@);
            let terms = term_name_set(sel_terminals(file.items@)[0].variants@);
            &&& forall|i: int| 0 <= i < file.items@.len() ==> nonterminal_ok(nts, terms, #[trigger] file.items@[i])
            &&& v@.len() == sel_nonterminals(file.items@).len()
            &&& forall|j: int| 0 <= j < v@.len() ==> #[trigger] v@[j] == nt_of_item(sel_nonterminals(file.items@)[j])
        }),
        Err(e) => err_truthful(*file, e),
    },
    //@]
{
    let unvalidated: Vec<UnvalidatedNonterminal> = /*@{ T18_open*//*@- file
        .items
        .iter()
        .filter_map( *//*@|*/__vx_filter_map_collect(&file.items, /*@}*/get_unvalidated_nonterminal/*@{ T18_close*//*@- )
        .collect() *//*@|*/)/*@}*/;
    //@[ proof
    proof {
        let lam = |it: FileItem| g_nonterminal(it);
        assert(unvalidated@ == filter_map_spec(file.items@, lam));
        lemma_select_nonterminals(file.items@, lam);
    }
    //@]

    let defined_symbols = get_defined_symbols(file)?;
    //@[ proof
    let ghost items = file.items@;
    let ghost nts = nt_name_set(items);
    let ghost terms = term_name_set(sel_terminals(items)[0].variants@);
    let ghost sel = sel_nonterminals(items);
    proof {
        assert forall|j: int, e: KikiErr| 0 <= j < sel.len() && #[trigger] item_err(nts, terms, sel[j], e) implies err_truthful(*file, e) by {
            lemma_sel_nonterminals_in(items, j);
            let i = choose|i: int| 0 <= i < items.len() && item_is_nt(#[trigger] items[i]) && items[i] == sel[j];
            lemma_item_err_truthful(*file, i, e);
        }
    }
    //@]
    let nonterminals = /*@{ T16_open*//*@- unvalidated
        .iter()
        .map( *//*@|*/__vx_try_map_collect(&unvalidated, /*@}*/|nonterminal/*@[*/: &UnvalidatedNonterminal/*@]*/| /*@[*/-> (o: Result<validated::Nonterminal, KikiErr>)
            ensures match o {
                Ok(v) => nonterminal_ok(ds_nts(defined_symbols), ds_terms(defined_symbols), un_view(*nonterminal)) && v == nt_of_item(un_view(*nonterminal)),
                Err(e) => item_err(ds_nts(defined_symbols), ds_terms(defined_symbols), un_view(*nonterminal), e),
            }
        { /*@]*/validate_nonterminal(*nonterminal, &defined_symbols)/*@[*/ }/*@]*//*@{ T16_close*//*@- )
        .collect::<Result<Vec<_>, _>>() *//*@|*/)/*@}*/?;
    //@[ proof
    proof {
        assert forall|i: int| 0 <= i < items.len() implies nonterminal_ok(nts, terms, #[trigger] items[i]) by {
            if item_is_nt(items[i]) {
                lemma_sel_nonterminals_has(items, i);
                let j = choose|j: int| 0 <= j < sel.len() && #[trigger] sel[j] == items[i];
                assert(un_view(unvalidated@[j]) == sel[j]);
            }
        }
        assert forall|j: int| 0 <= j < nonterminals@.len() implies #[trigger] nonterminals@[j] == nt_of_item(sel[j]) by {
            assert(un_view(unvalidated@[j]) == sel[j]);
        }
    }
    //@]
    Ok(nonterminals)
}

//@[ C10 lemma: an error that is true of one nonterminal declaration is true of the file
proof fn lemma_item_err_truthful(f: File, i: int, e: KikiErr)
    requires 0 <= i < f.items@.len(), sel_terminals(f.items@).len() == 1,
        item_err(nt_name_set(f.items@), term_name_set(sel_terminals(f.items@)[0].variants@), f.items@[i], e),
    ensures err_truthful(f, e),
{
    let items = f.items@;
    let nts = nt_name_set(items);
    let terms = term_name_set(sel_terminals(items)[0].variants@);
    let it = items[i];
    match it {
        FileItem::Struct(s) => {
            if fieldset_err(nts, terms, s.fieldset, e) { assert(item_has_fieldset(items[i], s.fieldset)); }
            else { assert(item_is_nt(items[i]) && item_name(items[i]).position == s.name.position); }
        }
        FileItem::Enum(en) => {
            if e == KikiErr::SymbolOrTerminalEnumNameFirstLetterNotUppercase(en.name.position) && !upper_ok(en.name.name@) {
                assert(item_is_nt(items[i]) && item_name(items[i]).position == en.name.position);
            } else {
                assert(variants_err(nts, terms, en.variants@, e));
                assert(items[i] is Enum);
                match e {
                    KikiErr::NonterminalEnumVariantNameClash(n, p, q) => {}
                    KikiErr::NonterminalEnumVariantSymbolSequenceClash(sq, p, q) => {}
                    KikiErr::SymbolOrTerminalEnumNameFirstLetterNotUppercase(p) => {}
                    _ => {
                        let k = choose|k: int| 0 <= k < en.variants@.len() && fieldset_err(nts, terms, (#[trigger] en.variants@[k]).fieldset, e);
                        assert(item_has_fieldset(items[i], en.variants@[k].fieldset));
                    }
                }
            }
        }
        _ => {}
    }
}
//@]

#[derive(Debug, Clone, Copy)]
enum UnvalidatedNonterminal<'a> {
    Struct(&'a Struct),
    Enum(&'a Enum),
}

//@[ C10 helper predicates for the two `seen` maps
spec fn vname(vs: Seq<EnumVariant>, j: int) -> Seq<char> { vs[j].name.name@ }
spec fn vseq(vs: Seq<EnumVariant>, j: int) -> Seq<Symbol> { variant_syms(vs[j]) }
spec fn prefix_has_name(vs: Seq<EnumVariant>, n: int, a: Seq<char>, p: ByteIndex) -> bool {
    exists|j: int| 0 <= j < n && (#[trigger] vs[j]).name.name@ == a && vs[j].name.position == p
}
spec fn prefix_has_seq(vs: Seq<EnumVariant>, n: int, a: Seq<Symbol>, p: ByteIndex) -> bool {
    exists|j: int| 0 <= j < n && variant_syms(#[trigger] vs[j]) == a && vs[j].name.position == p
}
spec fn map_has_name(m: Map<&str, ByteIndex>, a: Seq<char>) -> bool { exists|key: &str| #[trigger] m.contains_key(key) && key@ == a }
spec fn map_has_seq(m: Map<Vec<Symbol>, ByteIndex>, a: Seq<Symbol>) -> bool { exists|key: Vec<Symbol>| #[trigger] m.contains_key(key) && key@ == a }
//@]

//@[ C10 error truth at the level of one fieldset / one list of variants / one nonterminal
spec fn fieldset_err(nts: Set<Seq<char>>, terms: Set<Seq<char>>, fs: Fieldset, e: KikiErr) -> bool {
    match e {
        KikiErr::FieldFirstLetterNotLowercase(p) => bad_lower_in_fieldset(fs, p),
        KikiErr::UndefinedNonterminal(n, p) => undef_nt_in_fieldset(nts, fs, n@, p),
        KikiErr::UndefinedTerminal(n, p) => undef_term_in_fieldset(terms, fs, n@, p),
        _ => false,
    }
}
spec fn variants_ok(nts: Set<Seq<char>>, terms: Set<Seq<char>>, vs: Seq<EnumVariant>) -> bool {
    &&& forall|i: int, j: int| 0 <= i < j < vs.len() ==> (#[trigger] vs[i]).name.name@ != (#[trigger] vs[j]).name.name@
    &&& forall|i: int, j: int| 0 <= i < j < vs.len() ==> variant_syms(#[trigger] vs[i]) != variant_syms(#[trigger] vs[j])
    &&& forall|i: int| 0 <= i < vs.len() ==> upper_ok((#[trigger] vs[i]).name.name@) && fieldset_ok(nts, terms, vs[i].fieldset)
}
spec fn variants_err(nts: Set<Seq<char>>, terms: Set<Seq<char>>, vs: Seq<EnumVariant>, e: KikiErr) -> bool {
    match e {
        KikiErr::NonterminalEnumVariantNameClash(n, p, q) => variant_name_clash(vs, n@, p, q),
        KikiErr::NonterminalEnumVariantSymbolSequenceClash(s, p, q) => variant_seq_clash(vs, s@, p, q),
        KikiErr::SymbolOrTerminalEnumNameFirstLetterNotUppercase(p) => bad_upper_in_variants(vs, p),
        _ => exists|k: int| 0 <= k < vs.len() && fieldset_err(nts, terms, (#[trigger] vs[k]).fieldset, e),
    }
}
/// error truth for one nonterminal declaration
spec fn item_err(nts: Set<Seq<char>>, terms: Set<Seq<char>>, it: FileItem, e: KikiErr) -> bool {
    match it {
        FileItem::Struct(s) => (e == KikiErr::SymbolOrTerminalEnumNameFirstLetterNotUppercase(s.name.position) && !upper_ok(s.name.name@))
            || fieldset_err(nts, terms, s.fieldset, e),
        FileItem::Enum(en) => (e == KikiErr::SymbolOrTerminalEnumNameFirstLetterNotUppercase(en.name.position) && !upper_ok(en.name.name@))
            || variants_err(nts, terms, en.variants@, e),
        _ => false,
    }
}
//@]

//@[ C10 the validated form of a nonterminal declaration is the declaration itself
pub open spec fn nt_of_item(it: FileItem) -> validated::Nonterminal {
    match it { FileItem::Enum(e) => validated::Nonterminal::Enum(e), FileItem::Struct(s) => validated::Nonterminal::Struct(s), _ => arbitrary() }
}
//@]

//@[ C10 lemma: the selection computed with filter_map is the list of struct / enum declarations
spec fn un_view(u: UnvalidatedNonterminal) -> FileItem {
    match u { UnvalidatedNonterminal::Struct(s) => FileItem::Struct(*s), UnvalidatedNonterminal::Enum(e) => FileItem::Enum(*e) }
}
spec fn g_nonterminal<'a>(it: FileItem) -> Option<UnvalidatedNonterminal<'a>> {
    match it { FileItem::Struct(s) => Some(UnvalidatedNonterminal::Struct(&s)), FileItem::Enum(e) => Some(UnvalidatedNonterminal::Enum(&e)), _ => None }
}
proof fn lemma_select_nonterminals<'a>(items: Seq<FileItem>, g: spec_fn(FileItem) -> Option<UnvalidatedNonterminal<'a>>)
    requires forall|it: FileItem| #[trigger] g(it) == g_nonterminal::<'a>(it)
    ensures filter_map_spec(items, g).len() == sel_nonterminals(items).len(),
        forall|i: int| 0 <= i < sel_nonterminals(items).len() ==> un_view(#[trigger] filter_map_spec(items, g)[i]) == sel_nonterminals(items)[i]
    decreases items.len()
{
    if items.len() > 0 { lemma_select_nonterminals(items.drop_last(), g); }
}
//@]

fn get_unvalidated_nonterminal(item: &FileItem) -> /*@[*/(r: /*@]*/Option<UnvalidatedNonterminal<'_>>/*@[*/)/*@]*/
    //@[ C10 get_unvalidated_nonterminal: structs and enums are the nonterminal declarations
    ensures r == g_nonterminal(*item),
    //@]
{
    match item {
        FileItem::Struct(struct_def) => Some(UnvalidatedNonterminal::Struct(struct_def)),
        FileItem::Enum(enum_def) => Some(UnvalidatedNonterminal::Enum(enum_def)),
        _ => None,
    }
}

fn validate_nonterminal(
    nonterminal: UnvalidatedNonterminal,
    defined_symbols: &DefinedSymbols,
) -> /*@[*/(r: /*@]*/Result<validated::Nonterminal, KikiErr>/*@[*/)/*@]*/
    //@[ C10 validate_nonterminal
    ensures match r {
        Ok(v) => nonterminal_ok(ds_nts(*defined_symbols), ds_terms(*defined_symbols), un_view(nonterminal)) && v == nt_of_item(un_view(nonterminal)),
        Err(e) => item_err(ds_nts(*defined_symbols), ds_terms(*defined_symbols), un_view(nonterminal), e),
    },
    //@]
{
    match nonterminal {
        UnvalidatedNonterminal::Enum(e) => validate_enum(e, defined_symbols),
        UnvalidatedNonterminal::Struct(s) => validate_struct(s, defined_symbols),
    }
}

fn validate_enum(
    enum_def: &Enum,
    defined_symbols: &DefinedSymbols,
) -> /*@[*/(r: /*@]*/Result<validated::Nonterminal, KikiErr>/*@[*/)/*@]*/
    //@[ C10 validate_enum
    ensures match r {
        Ok(v) => enum_ok(ds_nts(*defined_symbols), ds_terms(*defined_symbols), *enum_def) && v == validated::Nonterminal::Enum(*enum_def),
        Err(e) => item_err(ds_nts(*defined_symbols), ds_terms(*defined_symbols), FileItem::Enum(*enum_def), e),
    },
    //@]
{
    validate_ident_uppercase_start(&enum_def.name)?;
    assert_variants_are_valid(&enum_def.variants, defined_symbols)?;
    Ok(validated::Nonterminal::Enum(enum_def.clone()))
}

fn assert_variants_are_valid(
    variants: &[EnumVariant],
    defined_symbols: &DefinedSymbols,
) -> /*@[*/(r: /*@]*/Result<(), KikiErr>/*@[*/)/*@]*/
    //@[ C10 assert_variants_are_valid: unique names, unique symbol sequences, uppercase-first names, valid fieldsets - all four checks
    ensures match r {
        Ok(_) => variants_ok(ds_nts(*defined_symbols), ds_terms(*defined_symbols), variants@),
        Err(e) => variants_err(ds_nts(*defined_symbols), ds_terms(*defined_symbols), variants@, e),
    },
    //@]
{
    //@[ proof
    let ghost vs = variants@;
    let ghost nts = ds_nts(*defined_symbols);
    let ghost terms = ds_terms(*defined_symbols);
    //@]
    assert_variants_have_unique_names(variants)?;
    assert_variants_have_unique_field_symbol_sequences(variants)?;

    for variant in /*@[*/__vx_it: /*@]*/variants
        //@[ C10 loop invariant: the variants before the current one are valid
        invariant
            vs == variants@, nts == ds_nts(*defined_symbols), terms == ds_terms(*defined_symbols), __vx_it.seq().len() == vs.len(),
            forall|i: int| 0 <= i < vs.len() ==> *(#[trigger] __vx_it.seq()[i]) == vs[i],
            forall|i: int| 0 <= i < __vx_it.index@ ==> upper_ok((#[trigger] vs[i]).name.name@) && fieldset_ok(nts, terms, vs[i].fieldset),
        //@]
    {
        //@[ proof
        proof {
            let k = __vx_it.index@; assert(*variant == vs[k]);
            assert forall|e: KikiErr| e == KikiErr::SymbolOrTerminalEnumNameFirstLetterNotUppercase(variant.name.position) && !upper_ok(variant.name.name@)
                implies #[trigger] variants_err(nts, terms, vs, e) by { assert(bad_upper_in_variants(vs, variant.name.position)); }
            assert forall|e: KikiErr| #[trigger] fieldset_err(nts, terms, variant.fieldset, e) implies variants_err(nts, terms, vs, e) by {
                assert(fieldset_err(nts, terms, vs[k].fieldset, e));
            }
        }
        //@]
        validate_ident_uppercase_start(&variant.name)?;
        assert_fieldset_is_valid(&variant.fieldset, defined_symbols)?;
    }

    Ok(())
}

fn assert_variants_have_unique_names(variants: &[EnumVariant]) -> /*@[*/(r: /*@]*/Result<(), KikiErr>/*@[*/)/*@]*/
    //@[ C10 assert_variants_have_unique_names: variant names of ONE enum are pairwise distinct; an error names two variants that really clash
    ensures match r {
        Ok(_) => forall|i: int, j: int| 0 <= i < j < variants@.len() ==> (#[trigger] variants@[i]).name.name@ != (#[trigger] variants@[j]).name.name@,
        Err(e) => e is NonterminalEnumVariantNameClash && variant_name_clash(variants@, e->NonterminalEnumVariantNameClash_0@,
                      e->NonterminalEnumVariantNameClash_1, e->NonterminalEnumVariantNameClash_2),
    },
    //@]
{
    let mut seen: HashMap<&str, ByteIndex> = HashMap::new();
    //@[ proof
    let ghost vs = variants@;
    //@]

    for variant in /*@[*/__vx_it: /*@]*/variants
        //@[ C10 loop invariant: the map holds exactly the names seen so far with their positions; they are pairwise distinct
        invariant
            vs == variants@, __vx_it.seq().len() == vs.len(),
            forall|i: int| 0 <= i < vs.len() ==> *(#[trigger] __vx_it.seq()[i]) == vs[i],
            forall|key: &str| #[trigger] seen@.contains_key(key) ==> prefix_has_name(vs, __vx_it.index@, key@, seen@[key]),
            forall|j: int| 0 <= j < __vx_it.index@ ==> map_has_name(seen@, #[trigger] vname(vs, j)),
            forall|i: int, j: int| 0 <= i < j < __vx_it.index@ ==> #[trigger] vname(vs, i) != #[trigger] vname(vs, j),
        //@]
    {
        //@[ proof
        let ghost k = __vx_it.index@;
        let ghost seen0 = seen@;
        proof { assert(*variant == vs[k]); }
        //@]
        let name: &str = &variant.name.name;
        let position = variant.name.position;
        if let Some(conflicting_variant_name_position) = seen.get(name) {
            //@[ proof
            proof {
                let key = choose|key: &str| #![trigger seen0.contains_key(key)] seen0.contains_key(key) && key@ == name@ && seen0[key] == *conflicting_variant_name_position;
                assert(prefix_has_name(vs, k, key@, seen0[key]));
                let j = choose|j: int| 0 <= j < k && (#[trigger] vs[j]).name.name@ == key@ && vs[j].name.position == seen0[key];
                assert(vs[j].name.name@ == name@ && vs[k].name.name@ == name@);
                assert(variant_name_clash(vs, name@, *conflicting_variant_name_position, position));
            }
            //@]
            return Err(KikiErr::NonterminalEnumVariantNameClash(
                name.to_owned(),
                *conflicting_variant_name_position,
                position,
            ));
        }
        seen.insert(name, position);
        //@[ proof
        proof {
            // no earlier variant has this name
            assert forall|j: int| 0 <= j < k implies #[trigger] vname(vs, j) != vname(vs, k) by {
                if vname(vs, j) == vname(vs, k) {
                    assert(map_has_name(seen0, vname(vs, j)));
                    let key = choose|key: &str| #[trigger] seen0.contains_key(key) && key@ == vname(vs, j);
                    assert(key@ == name@);
                }
            }
            assert forall|j: int| 0 <= j < k + 1 implies map_has_name(seen@, #[trigger] vname(vs, j)) by {
                if j < k { assert(map_has_name(seen0, vname(vs, j))); let key = choose|key: &str| #[trigger] seen0.contains_key(key) && key@ == vname(vs, j); assert(seen@.contains_key(key)); }
                else { assert(seen@.contains_key(name)); }
            }
            assert forall|key: &str| #[trigger] seen@.contains_key(key) implies prefix_has_name(vs, k + 1, key@, seen@[key]) by {
                if key == name { assert(vs[k].name.name@ == key@ && vs[k].name.position == seen@[key]); }
                else {
                    assert(seen0.contains_key(key)); assert(prefix_has_name(vs, k, key@, seen0[key]));
                    let j = choose|j: int| 0 <= j < k && (#[trigger] vs[j]).name.name@ == key@ && vs[j].name.position == seen0[key];
                    assert(vs[j].name.position == seen@[key]);
                }
            }
        }
        //@]
    }

    //@[ proof
    proof {
        assert forall|i: int, j: int| 0 <= i < j < vs.len() implies (#[trigger] vs[i]).name.name@ != (#[trigger] vs[j]).name.name@ by { assert(vname(vs, i) != vname(vs, j)); }
    }
    //@]
    Ok(())
}

fn assert_variants_have_unique_field_symbol_sequences(
    variants: &[EnumVariant],
) -> /*@[*/(r: /*@]*/Result<(), KikiErr>/*@[*/)/*@]*/
    //@[ C10 assert_variants_have_unique_field_symbol_sequences: field-symbol sequences of ONE enum are pairwise distinct; an error names two variants that really clash
    ensures match r {
        Ok(_) => forall|i: int, j: int| 0 <= i < j < variants@.len() ==> variant_syms(#[trigger] variants@[i]) != variant_syms(#[trigger] variants@[j]),
        Err(e) => e is NonterminalEnumVariantSymbolSequenceClash && variant_seq_clash(variants@, e->NonterminalEnumVariantSymbolSequenceClash_0@,
                      e->NonterminalEnumVariantSymbolSequenceClash_1, e->NonterminalEnumVariantSymbolSequenceClash_2),
    },
    //@]
{
    let mut seen: HashMap<Vec<Symbol>, ByteIndex> = HashMap::new();
    //@[ proof
    let ghost vs = variants@;
    //@]

    for variant in /*@[*/__vx_it: /*@]*/variants
        //@[ C10 loop invariant: the map holds exactly the sequences seen so far with their positions; they are pairwise distinct
        invariant
            vs == variants@, __vx_it.seq().len() == vs.len(),
            forall|i: int| 0 <= i < vs.len() ==> *(#[trigger] __vx_it.seq()[i]) == vs[i],
            forall|key: Vec<Symbol>| #[trigger] seen@.contains_key(key) ==> prefix_has_seq(vs, __vx_it.index@, key@, seen@[key]),
            forall|j: int| 0 <= j < __vx_it.index@ ==> map_has_seq(seen@, #[trigger] vseq(vs, j)),
            forall|i: int, j: int| 0 <= i < j < __vx_it.index@ ==> #[trigger] vseq(vs, i) != #[trigger] vseq(vs, j),
        //@]
    {
        //@[ proof
        let ghost k = __vx_it.index@;
        let ghost seen0 = seen@;
        proof { assert(*variant == vs[k]); }
        //@]
        let symbol_sequence = get_field_symbol_sequence(variant);
        let position = variant.name.position;
        if let Some(conflicting_variant_position) = seen.get(&symbol_sequence) {
            //@[ proof
            proof {
                assert(prefix_has_seq(vs, k, symbol_sequence@, seen0[symbol_sequence]));
                let j = choose|j: int| 0 <= j < k && variant_syms(#[trigger] vs[j]) == symbol_sequence@ && vs[j].name.position == seen0[symbol_sequence];
                assert(variant_seq_clash(vs, symbol_sequence@, *conflicting_variant_position, position));
            }
            //@]
            return Err(KikiErr::NonterminalEnumVariantSymbolSequenceClash(
                symbol_sequence,
                *conflicting_variant_position,
                position,
            ));
        }
        //@[ proof
        let ghost seq_k = symbol_sequence;
        //@]
        seen.insert(symbol_sequence, position);
        //@[ proof
        proof {
            assert forall|j: int| 0 <= j < k implies #[trigger] vseq(vs, j) != vseq(vs, k) by {
                if vseq(vs, j) == vseq(vs, k) {
                    assert(map_has_seq(seen0, vseq(vs, j)));
                    let key = choose|key: Vec<Symbol>| #[trigger] seen0.contains_key(key) && key@ == vseq(vs, j);
                    axiom_vec_symbol_ext(key, seq_k);
                }
            }
            assert forall|j: int| 0 <= j < k + 1 implies map_has_seq(seen@, #[trigger] vseq(vs, j)) by {
                if j < k { assert(map_has_seq(seen0, vseq(vs, j))); let key = choose|key: Vec<Symbol>| #[trigger] seen0.contains_key(key) && key@ == vseq(vs, j); assert(seen@.contains_key(key)); }
                else { assert(seen@.contains_key(seq_k)); }
            }
            assert forall|key: Vec<Symbol>| #[trigger] seen@.contains_key(key) implies prefix_has_seq(vs, k + 1, key@, seen@[key]) by {
                if key == seq_k { assert(variant_syms(vs[k]) == key@ && vs[k].name.position == seen@[key]); }
                else {
                    assert(seen0.contains_key(key)); assert(prefix_has_seq(vs, k, key@, seen0[key]));
                    let j = choose|j: int| 0 <= j < k && variant_syms(#[trigger] vs[j]) == key@ && vs[j].name.position == seen0[key];
                    assert(vs[j].name.position == seen@[key]);
                }
            }
        }
        //@]
    }

    //@[ proof
    proof {
        assert forall|i: int, j: int| 0 <= i < j < vs.len() implies variant_syms(#[trigger] vs[i]) != variant_syms(#[trigger] vs[j]) by { assert(vseq(vs, i) != vseq(vs, j)); }
    }
    //@]
    Ok(())
}

fn get_field_symbol_sequence(variant: &EnumVariant) -> /*@[*/(r: /*@]*/Vec<Symbol>/*@[*/)/*@]*/
    //@[ C10 get_field_symbol_sequence: the declared field symbols in order
    ensures r@ == variant_syms(*variant),
    //@]
{
    match &variant.fieldset {
        Fieldset::Empty => vec![],
        Fieldset::Named(named) => named
            .fields
            .iter()
            .map(|field/*@[*/: &NamedField/*@]*/| /*@[*/-> (o: Symbol) ensures o == sym_of(field.symbol) { /*@]*/field.symbol.clone().into()/*@[*/ }/*@]*/)
            .collect::<Vec<_>>(),
        Fieldset::Tuple(tuple) => tuple
            .fields
            .iter()
            .map(|field/*@[*/: &TupleField/*@]*/| /*@[*/-> (o: Symbol) ensures o == sym_of(tuple_field_sym(*field)) { /*@]*/field.symbol().clone().into()/*@[*/ }/*@]*/)
            .collect::<Vec<_>>(),
    }
}

fn validate_struct(
    struct_def: &Struct,
    defined_symbols: &DefinedSymbols,
) -> /*@[*/(r: /*@]*/Result<validated::Nonterminal, KikiErr>/*@[*/)/*@]*/
    //@[ C10 validate_struct
    ensures match r {
        Ok(v) => upper_ok(struct_def.name.name@) && fieldset_ok(ds_nts(*defined_symbols), ds_terms(*defined_symbols), struct_def.fieldset)
            && v == validated::Nonterminal::Struct(*struct_def),
        Err(e) => item_err(ds_nts(*defined_symbols), ds_terms(*defined_symbols), FileItem::Struct(*struct_def), e),
    },
    //@]
{
    validate_ident_uppercase_start(&struct_def.name)?;
    assert_fieldset_is_valid(&struct_def.fieldset, defined_symbols)?;
    Ok(validated::Nonterminal::Struct(struct_def.clone()))
}

fn assert_fieldset_is_valid(
    fieldset: &Fieldset,
    defined_symbols: &DefinedSymbols,
) -> /*@[*/(r: /*@]*/Result<(), KikiErr>/*@[*/)/*@]*/
    //@[ C10 assert_fieldset_is_valid: field names lowercase-first, every symbol reference resolves (also in `_` fields)
    ensures match r {
        Ok(_) => fieldset_ok(ds_nts(*defined_symbols), ds_terms(*defined_symbols), *fieldset),
        Err(e) => fieldset_err(ds_nts(*defined_symbols), ds_terms(*defined_symbols), *fieldset, e),
    },
    //@]
{
    match fieldset {
        Fieldset::Empty => Ok(()),
        Fieldset::Named(named) => assert_named_fieldset_is_valid(named, defined_symbols),
        Fieldset::Tuple(tuple) => assert_tuple_fieldset_is_valid(tuple, defined_symbols),
    }
}

fn assert_named_fieldset_is_valid(
    fieldset: &NamedFieldset,
    defined_symbols: &DefinedSymbols,
) -> /*@[*/(r: /*@]*/Result<(), KikiErr>/*@[*/)/*@]*/
    //@[ C10 assert_named_fieldset_is_valid: EVERY field is checked, `_` fields included
    ensures match r {
        Ok(_) => fieldset_ok(ds_nts(*defined_symbols), ds_terms(*defined_symbols), Fieldset::Named(*fieldset)),
        Err(e) => fieldset_err(ds_nts(*defined_symbols), ds_terms(*defined_symbols), Fieldset::Named(*fieldset), e),
    },
    //@]
{
    //@[ proof
    let ghost fs = Fieldset::Named(*fieldset);
    let ghost nts = ds_nts(*defined_symbols);
    let ghost terms = ds_terms(*defined_symbols);
    //@]
    for field in /*@[*/__vx_it: /*@]*/&fieldset.fields
        //@[ C10 loop invariant: the fields before the current one are valid
        invariant
            fs == Fieldset::Named(*fieldset), nts == ds_nts(*defined_symbols), terms == ds_terms(*defined_symbols),
            __vx_it.seq().len() == fieldset.fields@.len(),
            forall|i: int| 0 <= i < fieldset.fields@.len() ==> *(#[trigger] __vx_it.seq()[i]) == fieldset.fields@[i],
            forall|i: int| 0 <= i < __vx_it.index@ ==> ref_ok(nts, terms, #[trigger] fieldset_idents(fs)[i]),
            forall|i: int| 0 <= i < __vx_it.index@ ==> ((#[trigger] fieldset.fields@[i]).name matches IdentOrUnderscore::Ident(id) ==> lower_ok(id.name@)),
        //@]
    {
        //@[ proof
        proof {
            let k = __vx_it.index@; assert(*field == fieldset.fields@[k]); assert(fieldset_idents(fs)[k] == field.symbol);
            assert forall|e: KikiErr| field.name is Ident && e == KikiErr::FieldFirstLetterNotLowercase(field.name->Ident_0.position) && !lower_ok(field.name->Ident_0.name@)
                implies #[trigger] fieldset_err(nts, terms, fs, e) by {
                assert(fs->Named_0.fields@[k].name is Ident);
                assert(bad_lower_in_fieldset(fs, field.name->Ident_0.position));
            }
            assert forall|e: KikiErr| !ref_ok(nts, terms, field.symbol) && (match field.symbol {
                    IdentOrTerminalIdent::Ident(id) => e is UndefinedNonterminal && e->UndefinedNonterminal_0@ == id.name@ && e->UndefinedNonterminal_1 == id.position,
                    IdentOrTerminalIdent::Terminal(t) => e is UndefinedTerminal && e->UndefinedTerminal_0@ == t.name@ && e->UndefinedTerminal_1 == t.dollarless_position,
                }) implies #[trigger] fieldset_err(nts, terms, fs, e) by {
                assert(fieldset_idents(fs)[k] == field.symbol);
                match field.symbol {
                    IdentOrTerminalIdent::Ident(id) => { assert(undef_nt_in_fieldset(nts, fs, id.name@, id.position)); }
                    IdentOrTerminalIdent::Terminal(t) => { assert(undef_term_in_fieldset(terms, fs, t.name@, t.dollarless_position)); }
                }
            }
        }
        //@]
        assert_field_ident_or_underscore_name_is_valid(&field.name)?;
        assert_symbol_is_defined(&field.symbol, defined_symbols)?;
    }
    Ok(())
}

fn assert_tuple_fieldset_is_valid(
    fieldset: &TupleFieldset,
    defined_symbols: &DefinedSymbols,
) -> /*@[*/(r: /*@]*/Result<(), KikiErr>/*@[*/)/*@]*/
    //@[ C10 assert_tuple_fieldset_is_valid: every symbol reference resolves (also in skipped fields)
    ensures match r {
        Ok(_) => fieldset_ok(ds_nts(*defined_symbols), ds_terms(*defined_symbols), Fieldset::Tuple(*fieldset)),
        Err(e) => fieldset_err(ds_nts(*defined_symbols), ds_terms(*defined_symbols), Fieldset::Tuple(*fieldset), e),
    },
    //@]
{
    //@[ proof
    let ghost fs = Fieldset::Tuple(*fieldset);
    let ghost nts = ds_nts(*defined_symbols);
    let ghost terms = ds_terms(*defined_symbols);
    //@]
    for field in /*@[*/__vx_it: /*@]*/&fieldset.fields
        //@[ C10 loop invariant: the fields before the current one are valid
        invariant
            fs == Fieldset::Tuple(*fieldset), nts == ds_nts(*defined_symbols), terms == ds_terms(*defined_symbols),
            __vx_it.seq().len() == fieldset.fields@.len(),
            forall|i: int| 0 <= i < fieldset.fields@.len() ==> *(#[trigger] __vx_it.seq()[i]) == fieldset.fields@[i],
            forall|i: int| 0 <= i < __vx_it.index@ ==> ref_ok(nts, terms, #[trigger] fieldset_idents(fs)[i]),
        //@]
    {
        //@[ proof
        proof { let k = __vx_it.index@; assert(*field == fieldset.fields@[k]); assert(fieldset_idents(fs)[k] == tuple_field_sym(*field)); }
        //@]
        assert_symbol_is_defined(field.symbol(), defined_symbols)?;
    }
    Ok(())
}

fn assert_field_ident_or_underscore_name_is_valid(
    field: &IdentOrUnderscore,
) -> /*@[*/(r: /*@]*/Result<(), KikiErr>/*@[*/)/*@]*/
    //@[ C10 assert_field_ident_or_underscore_name_is_valid: `_` is always fine, a named field must be lowercase-first
    ensures match r {
        Ok(_) => field matches IdentOrUnderscore::Ident(id) ==> lower_ok(id.name@),
        Err(e) => field is Ident && e == KikiErr::FieldFirstLetterNotLowercase(field->Ident_0.position) && !lower_ok(field->Ident_0.name@),
    },
    //@]
{
    match field {
        IdentOrUnderscore::Underscore(_) => Ok(()),
        IdentOrUnderscore::Ident(ident) => assert_ident_lowercase_start(ident),
    }
}

fn assert_ident_lowercase_start(ident: &Ident) -> /*@[*/(r: /*@]*/Result<(), KikiErr>/*@[*/)/*@]*/
    //@[ C10 assert_ident_lowercase_start
    ensures match r { Ok(_) => lower_ok(ident.name@), Err(e) => e == KikiErr::FieldFirstLetterNotLowercase(ident.position) && !lower_ok(ident.name@) },
    //@]
{
    assert_lowercase_start(&ident.name, ident.position)
}

fn assert_lowercase_start(name: &str, position: ByteIndex) -> /*@[*/(r: /*@]*/Result<(), KikiErr>/*@[*/)/*@]*/
    //@[ C10 assert_lowercase_start: if the name contains letters, the first letter must be lowercase
    ensures match r { Ok(_) => lower_ok(name@), Err(e) => e == KikiErr::FieldFirstLetterNotLowercase(position) && !lower_ok(name@) },
    //@]
{
    let first_letter = name.chars().find(|c/*@[*/: &char/*@]*/| /*@[*/-> (o: bool) ensures o == is_ascii_alpha(*c) { /*@]*/c.is_ascii_alphabetic()/*@[*/ }/*@]*/);
    //@[ proof
    proof { assert(is_find_result(name@, first_letter)); lemma_find_is_first_letter(name@, first_letter); }
    //@]
    match first_letter {
        None => Ok(()),
        Some(first_letter) => {
            if first_letter.is_ascii_lowercase() {
                Ok(())
            } else {
                Err(KikiErr::FieldFirstLetterNotLowercase(position))
            }
        }
    }
}

fn assert_symbol_is_defined(
    symbol: &IdentOrTerminalIdent,
    defined_symbols: &DefinedSymbols,
) -> /*@[*/(r: /*@]*/Result<(), KikiErr>/*@[*/)/*@]*/
    //@[ C10 C07 assert_symbol_is_defined: each reference is checked against the names of its OWN kind
    ensures match r {
        Ok(_) => ref_ok(ds_nts(*defined_symbols), ds_terms(*defined_symbols), *symbol),
        Err(e) => !ref_ok(ds_nts(*defined_symbols), ds_terms(*defined_symbols), *symbol) && match *symbol {
            IdentOrTerminalIdent::Ident(id) => e is UndefinedNonterminal && e->UndefinedNonterminal_0@ == id.name@ && e->UndefinedNonterminal_1 == id.position,
            IdentOrTerminalIdent::Terminal(t) => e is UndefinedTerminal && e->UndefinedTerminal_0@ == t.name@ && e->UndefinedTerminal_1 == t.dollarless_position,
        },
    },
    //@]
{
    match symbol {
        IdentOrTerminalIdent::Ident(ident) => assert_nonterminal_is_defined(ident, defined_symbols),
        IdentOrTerminalIdent::Terminal(terminal_ident) => {
            assert_terminal_is_defined(terminal_ident, defined_symbols)
        }
    }
}

fn assert_nonterminal_is_defined(
    ident: &Ident,
    defined_symbols: &DefinedSymbols,
) -> /*@[*/(r: /*@]*/Result<(), KikiErr>/*@[*/)/*@]*/
    //@[ C10 C07 assert_nonterminal_is_defined: a nonterminal reference must name a defined NONTERMINAL
    ensures match r {
        Ok(_) => ds_nts(*defined_symbols).contains(ident.name@),
        Err(e) => !ds_nts(*defined_symbols).contains(ident.name@) && e is UndefinedNonterminal && e->UndefinedNonterminal_0@ == ident.name@ && e->UndefinedNonterminal_1 == ident.position,
    },
    //@]
{
    //@[ proof
    proof { lemma_name_in_set(defined_symbols.nonterminals@, ident.name); }
    //@]
    if defined_symbols.nonterminals.contains(&ident.name) {
        Ok(())
    } else {
        Err(KikiErr::UndefinedNonterminal(
            ident.name.clone(),
            ident.position,
        ))
    }
}

fn assert_terminal_is_defined(
    terminal_ident: &TerminalIdent,
    defined_symbols: &DefinedSymbols,
) -> /*@[*/(r: /*@]*/Result<(), KikiErr>/*@[*/)/*@]*/
    //@[ C10 C07 assert_terminal_is_defined: a terminal reference must name a defined TERMINAL
    ensures match r {
        Ok(_) => ds_terms(*defined_symbols).contains(terminal_ident.name@),
        Err(e) => !ds_terms(*defined_symbols).contains(terminal_ident.name@) && e is UndefinedTerminal && e->UndefinedTerminal_0@ == terminal_ident.name@ && e->UndefinedTerminal_1 == terminal_ident.dollarless_position,
    },
    //@]
{
    //@[ proof
    proof {
        let set = defined_symbols.terminals@;
        assert(ds_terms(*defined_symbols).contains(terminal_ident.name@) <==> exists|key: String| #![trigger set.contains(key)] set.contains(key) && key@ == terminal_ident.name@) by {
            if exists|key: String| #![trigger set.contains(key)] set.contains(key) && key@ == terminal_ident.name@ {
                let key = choose|key: String| #![trigger set.contains(key)] set.contains(key) && key@ == terminal_ident.name@;
                assert(set.map(|k: String| k@).contains(key@));
            }
        }
    }
    //@]
    if defined_symbols
        .terminals
        .contains(terminal_ident.name.raw()) {
        Ok(())
    } else {
        Err(KikiErr::UndefinedTerminal(
            terminal_ident.name.clone(),
            terminal_ident.dollarless_position,
        ))
    }
}
