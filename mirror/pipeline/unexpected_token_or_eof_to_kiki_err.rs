//@file kiki/src/pipeline/unexpected_token_or_eof_to_kiki_err.rs mod=crate::pipeline::unexpected_token_or_eof_to_kiki_err
//@[ imports
use vstd::prelude::*;
use vstd::string::*;
use crate::vx_utf8::*;
use crate::vx_lex::*;
//@]
use crate::data::{token::Token, *};

pub fn unexpected_token_or_eof_to_kiki_err(unexpected: Option<&Token>, src: &str) -> KikiErr {
    let Some(token) = unexpected else {
        return get_unexpected_eof_err(src);
    };

    let start = token.start();
    let end = ByteIndex(start.0 + token.content_len());
    let content = src[start.0..end.0].to_string();
    KikiErr::Parse(start, content, end)
}

fn get_unexpected_eof_err(src: &str) -> KikiErr {
    KikiErr::Parse(ByteIndex(src.len()), "".to_string(), ByteIndex(src.len()))
}

impl Token {
    fn start(&self) -> ByteIndex {
        match self {
            Token::Underscore(start) => *start,
            Token::Ident(ident) => ident.position,
            Token::TerminalIdent(ident) => ByteIndex(ident.dollarless_position.0 - "$".len()),
            Token::OuterAttribute(attr) => attr.position,
            Token::StartKw(start) => *start,
            Token::StructKw(start) => *start,
            Token::EnumKw(start) => *start,
            Token::TerminalKw(start) => *start,
            Token::Colon(start) => *start,
            Token::DoubleColon(start) => *start,
            Token::Comma(start) => *start,
            Token::LParen(start) => *start,
            Token::RParen(start) => *start,
            Token::LCurly(start) => *start,
            Token::RCurly(start) => *start,
            Token::LAngle(start) => *start,
            Token::RAngle(start) => *start,
        }
    }

    fn content_len(&self) -> usize {
        match self {
            Token::Underscore(_) => "_".len(),
            Token::Ident(ident) => ident.name.len(),
            Token::TerminalIdent(ident) => "$".len() + ident.name.raw().len(),
            Token::OuterAttribute(attr) => attr.src.len(),
            Token::StartKw(_) => "start".len(),
            Token::StructKw(_) => "struct".len(),
            Token::EnumKw(_) => "enum".len(),
            Token::TerminalKw(_) => "terminal".len(),
            Token::Colon(_) => ":".len(),
            Token::DoubleColon(_) => "::".len(),
            Token::Comma(_) => ",".len(),
            Token::LParen(_) => "(".len(),
            Token::RParen(_) => ")".len(),
            Token::LCurly(_) => "{".len(),
            Token::RCurly(_) => "}".len(),
            Token::LAngle(_) => "<".len(),
            Token::RAngle(_) => ">".len(),
        }
    }
}
