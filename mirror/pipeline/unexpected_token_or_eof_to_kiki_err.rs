//@file kiki/src/pipeline/unexpected_token_or_eof_to_kiki_err.rs mod=crate::pipeline::unexpected_token_or_eof_to_kiki_err
//@[ imports
use vstd::prelude::*;
use vstd::string::*;
use crate::vx_utf8::*;
use crate::vx_lex::*;
//@]
use crate::data::{token::Token, *};

pub fn unexpected_token_or_eof_to_kiki_err(unexpected: Option<&Token>, src: &str) -> /*@[*/(r: /*@]*/KikiErr/*@[*/)/*@]*/
    //@[ C09 C07 unexpected_token_or_eof_to_kiki_err: byte span and exact source text of the given token; empty span at the end for None
    requires
        unexpected matches Some(t) ==> exists|j: int| #[trigger] stok_in_src(src@, tok_view(*t), j),
    ensures
        match unexpected {
            Some(t) => r matches KikiErr::Parse(a, text, b)
                && a.0 == stok_start(tok_view(*t)) && text@ == stok_text(tok_view(*t)) && b.0 == a.0 + byte_len(stok_text(tok_view(*t)))
                && (forall|j: int| #[trigger] stok_in_src(src@, tok_view(*t), j) ==> b.0 == byte_off(src@, j + stok_text(tok_view(*t)).len())),
            None => r matches KikiErr::Parse(a, text, b) && a.0 == src.spec_bytes().len() && b.0 == a.0 && text@ == Seq::<char>::empty(),
        },
    //@]
{
    //@[ proof
    proof {
        axiom_str_len_fits_usize(src);
        if let Some(t) = unexpected {
            let tv = tok_view(*t);
            let j = choose|j: int| stok_in_src(src@, tv, j);
            let n = stok_text(tv).len() as int;
            lemma_utf8_slice(src, j, j + n);
            lemma_off_subrange(src@, j, j + n, n);
            assert(src@.subrange(j, j + n).len() == n);
            assert forall|x: &str| #[trigger] x.spec_bytes() == src.spec_bytes().subrange(byte_off(src@, j), byte_off(src@, j + n)) implies x@ == stok_text(tv) by {
                lemma_view_of_slice(x, src@.subrange(j, j + n));
            }
            assert forall|j2: int| #[trigger] stok_in_src(src@, tv, j2) implies j2 == j by { lemma_off_inj(src@, j, j2); }
        }
    }
    //@]
    let Some(token) = unexpected else {
        return get_unexpected_eof_err(src);
    };

    let start = token.start();
    let end = ByteIndex(start.0 + token.content_len());
    let content = src[start.0..end.0].to_string();
    KikiErr::Parse(start, content, end)
}

fn get_unexpected_eof_err(src: &str) -> /*@[*/(r: /*@]*/KikiErr/*@[*/)/*@]*/
    //@[ C09 get_unexpected_eof_err: the empty span at the end of the source
    ensures r matches KikiErr::Parse(a, text, b) && a.0 == src.spec_bytes().len() && b.0 == a.0 && text@ == Seq::<char>::empty(),
    //@]
{
    //@[ proof
    proof { reveal_strlit(""); assert(""@ =~= Seq::<char>::empty()); axiom_str_len_fits_usize(src); }
    //@]
    KikiErr::Parse(ByteIndex(src.len()), "".to_string(), ByteIndex(src.len()))
}

impl Token {
    fn start(&self) -> /*@[*/(r: /*@]*/ByteIndex/*@[*/)/*@]*/
        //@[ C09 C07 Token::start
        requires stok_start(tok_view(*self)) >= 0,
        ensures r.0 == stok_start(tok_view(*self)),
        //@]
    {
        //@[ proof
        proof { lemma_lit_len("$"); reveal_strlit("$"); reveal_with_fuel(byte_off, 3); }
        //@]
        match self {
            Token::Underscore(start) => *start,
            Token::Ident(ident) => ident.position,
            Token::TerminalIdent(ident) => ByteIndex(ident.dollarless_position.0 - "$".len()),
            Token::OuterAttribute(attr) => attr.position,
            Token::StartKw(start) => *start,
            Token::StructKw(start) => *start,
            Token::EnumKw(start) => *start,
            Token::TerminalKw(start) => *start,
            Token::Colon(start) => *start,
            Token::DoubleColon(start) => *start,
            Token::Comma(start) => *start,
            Token::LParen(start) => *start,
            Token::RParen(start) => *start,
            Token::LCurly(start) => *start,
            Token::RCurly(start) => *start,
            Token::LAngle(start) => *start,
            Token::RAngle(start) => *start,
        }
    }

    fn content_len(&self) -> /*@[*/(r: /*@]*/usize/*@[*/)/*@]*/
        //@[ C09 C07 Token::content_len: the UTF-8 length of the token text
        requires byte_len(stok_text(tok_view(*self))) <= usize::MAX,
        ensures r == byte_len(stok_text(tok_view(*self))),
        //@]
    {
        //@[ proof
        proof {
            assert forall|x: &str| #[trigger] x.spec_bytes().len() == byte_len(x@) by { lemma_lit_len(x); }
            if let Token::TerminalIdent(ident) = self { lemma_byte_len_concat("$"@, ident.name@); }
        }
        //@]
        match self {
            Token::Underscore(_) => "_".len(),
            Token::Ident(ident) => ident.name.len(),
            Token::TerminalIdent(ident) => "$".len() + ident.name.raw().len(),
            Token::OuterAttribute(attr) => attr.src.len(),
            Token::StartKw(_) => "start".len(),
            Token::StructKw(_) => "struct".len(),
            Token::EnumKw(_) => "enum".len(),
            Token::TerminalKw(_) => "terminal".len(),
            Token::Colon(_) => ":".len(),
            Token::DoubleColon(_) => "::".len(),
            Token::Comma(_) => ",".len(),
            Token::LParen(_) => "(".len(),
            Token::RParen(_) => ")".len(),
            Token::LCurly(_) => "{".len(),
            Token::RCurly(_) => "}".len(),
            Token::LAngle(_) => "<".len(),
            Token::RAngle(_) => ">".len(),
        }
    }
}
