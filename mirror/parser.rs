//@file kiki/src/parser.rs mod=crate::parser
//@[ imports
use vstd::prelude::*;
pub assume_specification[ <IdentOrTerminalIdent as Clone>::clone ](x: &IdentOrTerminalIdent) -> (r: IdentOrTerminalIdent) ensures r == *x;
//@]
#[derive(Debug, Clone, PartialEq, Eq)]
pub enum Token {
    Underscore(crate::data::ByteIndex),
    Ident(crate::data::token::Ident),
    TerminalIdent(crate::data::token::TerminalIdent),
    OuterAttribute(crate::data::token::Attribute),
    StartKw(crate::data::ByteIndex),
    StructKw(crate::data::ByteIndex),
    EnumKw(crate::data::ByteIndex),
    TerminalKw(crate::data::ByteIndex),
    Colon(crate::data::ByteIndex),
    DoubleColon(crate::data::ByteIndex),
    Comma(crate::data::ByteIndex),
    LParen(crate::data::ByteIndex),
    RParen(crate::data::ByteIndex),
    LCurly(crate::data::ByteIndex),
    RCurly(crate::data::ByteIndex),
    LAngle(crate::data::ByteIndex),
    RAngle(crate::data::ByteIndex),
}

#[derive(Debug, Clone, PartialEq, Eq)]
pub enum IdentOrUnderscore {
    Ident(
        crate::data::token::Ident,
    ),
    Underscore(
        crate::data::ByteIndex,
    ),
}

//@[ T8: derived Clone kept external; structural contract assumed
#[verifier::external_derive(Clone)]
//@]
#[derive(Debug, Clone, PartialEq, Eq)]
pub enum IdentOrTerminalIdent {
    Ident(
        crate::data::token::Ident,
    ),
    Terminal(
        crate::data::token::TerminalIdent,
    ),
}
