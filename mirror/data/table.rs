//@file kiki/src/data/table.rs mod=crate::data::table
use crate::data::*;

#[derive(Debug, Clone, PartialEq, Eq)]
pub struct Table {
    pub start: StateIndex,
    pub terminals: Vec<DollarlessTerminalName>,
    pub nonterminals: Vec<String>,
    pub actions: Vec<Action>,
    pub gotos: Vec<Goto>,
}

pub use machine::StateIndex;

#[derive(Debug, Clone, Copy, PartialEq, Eq, PartialOrd, Ord, Hash)]
pub enum Action {
    Shift(StateIndex),
    Reduce(usize),
    Accept,
    Err,
}

#[derive(Debug, Clone, Copy, PartialEq, Eq, PartialOrd, Ord, Hash)]
pub enum Goto {
    State(StateIndex),
    Err,
}

#[derive(Debug, Clone, Copy, PartialEq, Eq, PartialOrd, Ord, Hash)]
pub enum Quasiterminal<'a> {
    Terminal(&'a DollarlessTerminalName),
    Eof,
}

impl Table {
    pub fn state_count(&self) -> usize {
        self.actions.len() / (self.terminals.len() + 1)
    }

    /// ## Panics
    /// 1. Panics if the terminal is not in the table.
    /// 2. Panics if the state is too large.
    pub fn action(&self, state_index: StateIndex, terminal: Quasiterminal) -> Action {
        let i = self.action_index(state_index, terminal);
        self.actions[i]
    }

    /// ## Panics
    /// 1. Panics if the terminal is not in the table.
    /// 2. Panics if the state is too large.
    pub fn set_action(&mut self, state_index: StateIndex, terminal: Quasiterminal, val: Action) {
        let i = self.action_index(state_index, terminal);
        self.actions[i] = val;
    }

    /// ## Panics
    /// 1. Panics if the terminal is not in the table.
    /// 2. Panics if the state is too large.
    //@[ T: uses Iterator::position (outside the supported subset)
    #[verifier::external_body]
    //@]
    fn action_index(
        &self,
        /*@{ T11_action_index*//*@- StateIndex(state_index): StateIndex *//*@|*/__vx_p0: StateIndex/*@}*/,
        quasiterminal: Quasiterminal,
    ) -> usize {
        //@[ T11
        let StateIndex(state_index) = __vx_p0;
        //@]
        let quasiterminal_index = match quasiterminal {
            Quasiterminal::Terminal(terminal) => self
                .terminals
                .iter()
                .position(|t| t == terminal)
                .expect("Terminal not found in table"),
            Quasiterminal::Eof => self.terminals.len(),
        };

        if state_index >= self.state_count() {
            let states = self.state_count();
            panic!("State index {state_index} is too large. There are only {states} states.");
        }

        state_index * (self.terminals.len() + 1) + quasiterminal_index
    }

    /// ## Panics
    /// 1. Panics if the nonterminal is not in the table.
    /// 2. Panics if the state is too large.
    pub fn goto(&self, state_index: StateIndex, nonterminal: &str) -> Goto {
        let i = self.goto_index(state_index, nonterminal);
        self.gotos[i]
    }

    /// ## Panics
    /// 1. Panics if the nonterminal is not in the table.
    /// 2. Panics if the state is too large.
    pub fn set_goto(&mut self, state_index: StateIndex, nonterminal: &str, val: Goto) {
        let i = self.goto_index(state_index, nonterminal);
        self.gotos[i] = val;
    }

    /// ## Panics
    /// 1. Panics if the nonterminal is not in the table.
    /// 2. Panics if the state is too large.
    //@[ T: uses Iterator::position (outside the supported subset)
    #[verifier::external_body]
    //@]
    fn goto_index(&self, /*@{ T11_goto_index*//*@- StateIndex(state_index): StateIndex *//*@|*/__vx_p0: StateIndex/*@}*/, nonterminal: &str) -> usize {
        //@[ T11
        let StateIndex(state_index) = __vx_p0;
        //@]
        let nonterminal_index = self
            .nonterminals
            .iter()
            .position(|t| t == nonterminal)
            .expect("Nonterminal not found in table");

        if state_index >= self.state_count() {
            let states = self.state_count();
            panic!("State index {state_index} is too large. There are only {states} states.");
        }

        state_index * self.nonterminals.len() + nonterminal_index
    }
}
