//@file kiki/src/data/table.rs mod=crate::data::table
//@[ imports
use vstd::prelude::*;
use vstd::std_specs::cmp::*;
use crate::vx_ord::*;
broadcast use crate::vx_str::group_str_eq;
//@]
use crate::data::*;

#[derive(Debug, Clone, PartialEq, Eq)]
pub struct Table {
    pub start: StateIndex,
    pub terminals: Vec<DollarlessTerminalName>,
    pub nonterminals: Vec<String>,
    pub actions: Vec<Action>,
    pub gotos: Vec<Goto>,
}

pub use machine::StateIndex;

#[derive(Debug, Clone, Copy, PartialEq, Eq, PartialOrd, Ord, Hash)]
pub enum Action {
    Shift(StateIndex),
    Reduce(usize),
    Accept,
    Err,
}

#[derive(Debug, Clone, Copy, PartialEq, Eq, PartialOrd, Ord, Hash)]
pub enum Goto {
    State(StateIndex),
    Err,
}

#[derive(Debug, Clone, Copy, PartialEq, Eq, PartialOrd, Ord, Hash)]
pub enum Quasiterminal<'a> {
    Terminal(&'a DollarlessTerminalName),
    Eof,
}

//@[ C07 C17 ghost vocabulary: shape of the table and positions of its cells
impl PartialEqSpecImpl for Action {
    open spec fn obeys_eq_spec() -> bool { true }
    open spec fn eq_spec(&self, other: &Action) -> bool { *self == *other }
}

/// first index >= i of terminal t in ts
pub open spec fn term_index(ts: Seq<DollarlessTerminalName>, t: DollarlessTerminalName, i: int) -> Option<int>
    decreases ts.len() - i
{
    if i < 0 || i >= ts.len() { None } else if ts[i] == t { Some(i) } else { term_index(ts, t, i + 1) }
}

/// first index >= i of the nonterminal called n in ns
pub open spec fn nt_index(ns: Seq<Seq<char>>, n: Seq<char>, i: int) -> Option<int>
    decreases ns.len() - i
{
    if i < 0 || i >= ns.len() { None } else if ns[i] == n { Some(i) } else { nt_index(ns, n, i + 1) }
}

/// the names of a list of strings
pub open spec fn names_view(ns: Seq<String>) -> Seq<Seq<char>> { ns.map_values(|s: String| s@) }

/// column of a quasi-terminal: its index among the terminals, or the extra last column for end of input
pub open spec fn qcol(ts: Seq<DollarlessTerminalName>, q: Quasiterminal) -> Option<int> {
    match q { Quasiterminal::Terminal(t) => term_index(ts, *t, 0), Quasiterminal::Eof => Some(ts.len() as int) }
}

pub proof fn lemma_term_index_bounds(ts: Seq<DollarlessTerminalName>, t: DollarlessTerminalName, i: int)
    requires 0 <= i
    ensures term_index(ts, t, i) matches Some(k) ==> i <= k < ts.len() && ts[k] == t
    decreases ts.len() - i
{
    if i < ts.len() && ts[i] != t { lemma_term_index_bounds(ts, t, i + 1); }
}

pub proof fn lemma_nt_index_bounds(ns: Seq<Seq<char>>, n: Seq<char>, i: int)
    requires 0 <= i
    ensures nt_index(ns, n, i) matches Some(k) ==> i <= k < ns.len() && ns[k] == n
    decreases ns.len() - i
{
    if i < ns.len() && ns[i] != n { lemma_nt_index_bounds(ns, n, i + 1); }
}

impl Table {
    pub open spec fn ncols(&self) -> int { self.terminals@.len() as int + 1 }
    pub open spec fn nstates(&self) -> int { self.actions@.len() as int / (self.terminals@.len() as int + 1) }
    /// rectangular: |actions| = states x (terminals + 1), |gotos| = states x nonterminals
    pub open spec fn wf(&self) -> bool {
        &&& self.terminals@.len() + 1 <= usize::MAX
        &&& self.actions@.len() == self.nstates() * self.ncols()
        &&& self.gotos@.len() == self.nstates() * self.nonterminals@.len()
    }
    pub open spec fn action_pos(&self, s: StateIndex, q: Quasiterminal) -> int { s.0 * self.ncols() + qcol(self.terminals@, q)->Some_0 }
    pub open spec fn goto_pos(&self, s: StateIndex, n: Seq<char>) -> int { s.0 * self.nonterminals@.len() + nt_index(names_view(self.nonterminals@), n, 0)->Some_0 }

}

/// `position` with the equality closure is the column index
pub proof fn lemma_position_is_term_index(ts: Seq<DollarlessTerminalName>, p: spec_fn(DollarlessTerminalName) -> bool, t: DollarlessTerminalName, i: int)
    requires forall|x: DollarlessTerminalName| #[trigger] p(x) == (x == t)
    ensures position_spec(ts, p, i) == term_index(ts, t, i)
    decreases ts.len() - i
{
    if 0 <= i < ts.len() { lemma_position_is_term_index(ts, p, t, i + 1); }
}
pub proof fn lemma_position_is_nt_index(ns: Seq<String>, p: spec_fn(String) -> bool, n: Seq<char>, i: int)
    requires forall|x: String| #[trigger] p(x) == (x@ == n)
    ensures position_spec(ns, p, i) == nt_index(names_view(ns), n, i)
    decreases ns.len() - i
{
    if 0 <= i < ns.len() { lemma_position_is_nt_index(ns, p, n, i + 1); }
}

pub proof fn lemma_cell_in_range(s: int, n: int, c: int, q: int)
    requires 0 <= s < n, 0 <= q < c
    ensures 0 <= s * c + q < n * c, s * c + q <= (n - 1) * c + q
{
    assert(s * c + q < n * c) by (nonlinear_arith) requires 0 <= s < n, 0 <= q < c;
    assert(0 <= s * c) by (nonlinear_arith) requires 0 <= s, 0 <= c;
    assert(s * c <= (n - 1) * c) by (nonlinear_arith) requires 0 <= s <= n - 1, 0 <= c;
}

/// distinct (state, column) pairs address distinct cells
pub proof fn lemma_cell_injective(s1: int, q1: int, s2: int, q2: int, c: int)
    requires 0 <= q1 < c, 0 <= q2 < c, 0 <= s1, 0 <= s2, s1 * c + q1 == s2 * c + q2
    ensures s1 == s2, q1 == q2
{
    assert(s1 == s2) by (nonlinear_arith) requires 0 <= q1 < c, 0 <= q2 < c, 0 <= s1, 0 <= s2, s1 * c + q1 == s2 * c + q2;
}
//@]

impl Table {
    pub fn state_count(&self) -> /*@[*/(r: /*@]*/usize/*@[*/)/*@]*/
        //@[ C07 Table::state_count
        requires self.terminals@.len() + 1 <= usize::MAX,
        ensures r == self.nstates(),
        //@]
    {
        self.actions.len() / (self.terminals.len() + 1)
    }

    /// ## Panics
    /// 1. Panics if the terminal is not in the table.
    /// 2. Panics if the state is too large.
    pub fn action(&self, state_index: StateIndex, terminal: Quasiterminal) -> /*@[*/(r: /*@]*/Action/*@[*/)/*@]*/
        //@[ C07 C17 Table::action
        requires self.wf(), state_index.0 < self.nstates(), qcol(self.terminals@, terminal) is Some,
        ensures r == self.actions@[self.action_pos(state_index, terminal)],
        //@]
    {
        let i = self.action_index(state_index, terminal);
        self.actions[i]
    }

    /// ## Panics
    /// 1. Panics if the terminal is not in the table.
    /// 2. Panics if the state is too large.
    pub fn set_action(&mut self, state_index: StateIndex, terminal: Quasiterminal, val: Action)
        //@[ C07 C17 Table::set_action: exactly one cell changes
        requires old(self).wf(), state_index.0 < old(self).nstates(), qcol(old(self).terminals@, terminal) is Some,
        ensures
            final(self).actions@ == old(self).actions@.update(old(self).action_pos(state_index, terminal), val),
            0 <= old(self).action_pos(state_index, terminal) < old(self).actions@.len(),
            final(self).start == old(self).start, final(self).terminals == old(self).terminals,
            final(self).nonterminals == old(self).nonterminals, final(self).gotos == old(self).gotos,
        //@]
    {
        let i = self.action_index(state_index, terminal);
        self.actions[i] = val;
    }

    /// ## Panics
    /// 1. Panics if the terminal is not in the table.
    /// 2. Panics if the state is too large.
    fn action_index(
        &self,
        /*@{ T11_action_index*//*@- StateIndex(state_index): StateIndex *//*@|*/__vx_p0: StateIndex/*@}*/,
        quasiterminal: Quasiterminal,
    ) -> /*@[*/(r: /*@]*/usize/*@[*/)/*@]*/
        //@[ C07 C17 Table::action_index: row-major cell position; the terminal is known and the state in range (no panic, no overflow)
        requires self.wf(), __vx_p0.0 < self.nstates(), qcol(self.terminals@, quasiterminal) is Some,
        ensures r == self.action_pos(__vx_p0, quasiterminal), r < self.actions@.len(),
        //@]
    {
        //@[ T11
        let StateIndex(state_index) = __vx_p0;
        proof {
            if let Quasiterminal::Terminal(t) = quasiterminal { lemma_term_index_bounds(self.terminals@, *t, 0); }
            lemma_cell_in_range(state_index as int, self.nstates(), self.ncols(), qcol(self.terminals@, quasiterminal)->Some_0);
            vstd::std_specs::vec::axiom_spec_len(&self.actions);
            assert(0 <= state_index * self.ncols()) by (nonlinear_arith) requires state_index >= 0, self.ncols() >= 0;
        }
        //@]
        let quasiterminal_index = match quasiterminal {
            Quasiterminal::Terminal(terminal) => /*@[*/{ let ghost p = |x: DollarlessTerminalName| x == *terminal;
                proof { lemma_position_is_term_index(self.terminals@, p, *terminal, 0); } /*@]*//*@{ T18_open*//*@- self
                .terminals
                .iter()
                .position( *//*@|*/__vx_position(&self.terminals, /*@}*/|t/*@[*/: &DollarlessTerminalName/*@]*/| /*@[*/-> (o: bool) ensures o == p(*t) { /*@]*/t == terminal/*@[*/ }/*@]*/)/*@[*/ }/*@]*/
                .expect("Terminal not found in table"),
            Quasiterminal::Eof => self.terminals.len(),
        };

        if state_index >= self.state_count() {
            let states = self.state_count();
            panic!("State index {state_index} is too large. There are only {states} states.");
        }

        state_index * (self.terminals.len() + 1) + quasiterminal_index
    }

    /// ## Panics
    /// 1. Panics if the nonterminal is not in the table.
    /// 2. Panics if the state is too large.
    pub fn goto(&self, state_index: StateIndex, nonterminal: &str) -> /*@[*/(r: /*@]*/Goto/*@[*/)/*@]*/
        //@[ C07 C17 Table::goto
        requires self.wf(), state_index.0 < self.nstates(), nt_index(names_view(self.nonterminals@), nonterminal@, 0) is Some,
        ensures r == self.gotos@[self.goto_pos(state_index, nonterminal@)],
        //@]
    {
        let i = self.goto_index(state_index, nonterminal);
        self.gotos[i]
    }

    /// ## Panics
    /// 1. Panics if the nonterminal is not in the table.
    /// 2. Panics if the state is too large.
    pub fn set_goto(&mut self, state_index: StateIndex, nonterminal: &str, val: Goto)
        //@[ C07 C17 Table::set_goto: exactly one cell changes
        requires old(self).wf(), state_index.0 < old(self).nstates(), nt_index(names_view(old(self).nonterminals@), nonterminal@, 0) is Some,
        ensures
            final(self).gotos@ == old(self).gotos@.update(old(self).goto_pos(state_index, nonterminal@), val),
            0 <= old(self).goto_pos(state_index, nonterminal@) < old(self).gotos@.len(),
            final(self).start == old(self).start, final(self).terminals == old(self).terminals,
            final(self).nonterminals == old(self).nonterminals, final(self).actions == old(self).actions,
        //@]
    {
        let i = self.goto_index(state_index, nonterminal);
        self.gotos[i] = val;
    }

    /// ## Panics
    /// 1. Panics if the nonterminal is not in the table.
    /// 2. Panics if the state is too large.
    fn goto_index(&self, /*@{ T11_goto_index*//*@- StateIndex(state_index): StateIndex *//*@|*/__vx_p0: StateIndex/*@}*/, nonterminal: &str) -> /*@[*/(r: /*@]*/usize/*@[*/)/*@]*/
        //@[ C07 C17 Table::goto_index: row-major cell position; the nonterminal is known and the state in range (no panic, no overflow)
        requires self.wf(), __vx_p0.0 < self.nstates(), nt_index(names_view(self.nonterminals@), nonterminal@, 0) is Some,
        ensures r == self.goto_pos(__vx_p0, nonterminal@), r < self.gotos@.len(),
        //@]
    {
        //@[ T11
        let StateIndex(state_index) = __vx_p0;
        proof {
            lemma_nt_index_bounds(names_view(self.nonterminals@), nonterminal@, 0);
            lemma_cell_in_range(state_index as int, self.nstates(), self.nonterminals@.len() as int, nt_index(names_view(self.nonterminals@), nonterminal@, 0)->Some_0);
            vstd::std_specs::vec::axiom_spec_len(&self.gotos);
            assert(0 <= state_index * self.nonterminals@.len()) by (nonlinear_arith) requires state_index >= 0, self.nonterminals@.len() >= 0;
        }
        //@]
        //@[ proof
        let ghost p = |x: String| x@ == nonterminal@;
        proof { lemma_position_is_nt_index(self.nonterminals@, p, nonterminal@, 0); }
        //@]
        let nonterminal_index = /*@{ T18_open2*//*@- self
            .nonterminals
            .iter()
            .position( *//*@|*/__vx_position(&self.nonterminals, /*@}*/|t/*@[*/: &String/*@]*/| /*@[*/-> (o: bool) ensures o == p(*t) { /*@]*/t == nonterminal/*@[*/ }/*@]*/)
            .expect("Nonterminal not found in table");

        if state_index >= self.state_count() {
            let states = self.state_count();
            panic!("State index {state_index} is too large. There are only {states} states.");
        }

        state_index * self.nonterminals.len() + nonterminal_index
    }
}
