//@file kiki/src/data/machine.rs mod=crate::data::machine
use crate::data::{table::Quasiterminal, *};

#[derive(Debug, Clone, PartialEq, Eq, PartialOrd, Ord, Hash)]
pub struct Machine {
    pub start: StateIndex,
    pub states: Oset<State>,
    pub transitions: Oset<Transition>,
}

impl Machine {
    //@[ T: iterator adapters / formatting outside the supported subset (body not verified)
    #[verifier::external_body]
    //@]
    pub fn get_shift_dest(
        &self,
        start: StateIndex,
        terminal: &DollarlessTerminalName,
    ) -> Option<StateIndex> {
        self.transitions.iter().find_map(|t| {
            if t.from == start && t.symbol == *terminal {
                Some(t.to)
            } else {
                None
            }
        })
    }
}

impl PartialEq<DollarlessTerminalName> for Symbol {
    fn eq(&self, other: &DollarlessTerminalName) -> bool {
        match self {
            Symbol::Terminal(t) => t == other,
            Symbol::Nonterminal(_) => false,
        }
    }
}

#[derive(Debug, Clone, PartialEq, Eq, PartialOrd, Ord, Hash)]
pub struct State {
    pub items: Oset<StateItem>,
}

#[derive(Debug, Clone, PartialEq, Eq, PartialOrd, Ord, Hash)]
pub struct StateItem {
    pub rule_index: RuleIndex,
    pub lookahead: Lookahead,
    /// The `dot` is the index of the symbol to the right of the dot.
    /// If the dot is at the end of the RHS, then `dot == right.len()`.
    pub dot: usize,
}

#[derive(Debug, Clone, Copy, PartialEq, Eq, PartialOrd, Ord, Hash)]
pub enum RuleIndex {
    Original(usize),
    Augmented,
}

#[derive(Debug, Clone, PartialEq, Eq, PartialOrd, Ord, Hash)]
pub enum Lookahead {
    Terminal(DollarlessTerminalName),
    Eof,
}

impl Lookahead {
    pub fn as_quasiterminal(&self) -> Quasiterminal {
        match self {
            Lookahead::Terminal(t) => Quasiterminal::Terminal(t),
            Lookahead::Eof => Quasiterminal::Eof,
        }
    }
}

#[derive(Debug, Clone, PartialEq, Eq, PartialOrd, Ord, Hash)]
pub struct Transition {
    pub from: StateIndex,
    pub to: StateIndex,
    pub symbol: Symbol,
}

#[derive(Debug, Clone, Copy, PartialEq, Eq, PartialOrd, Ord, Hash)]
pub struct StateIndex(pub usize);
