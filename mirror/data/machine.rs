//@file kiki/src/data/machine.rs mod=crate::data::machine
//@[ imports
use vstd::prelude::*;
use vstd::std_specs::cmp::*;
use crate::vx_ord::*;
//@]
use crate::data::{table::Quasiterminal, *};

//@[ T8: derived Clone kept external; its structural contract is assumed below
#[verifier::external_derive(Clone)]
//@]
#[derive(Debug, Clone, PartialEq, Eq, PartialOrd, Ord, Hash)]
pub struct Machine {
    pub start: StateIndex,
    pub states: Oset<State>,
    pub transitions: Oset<Transition>,
}

impl Machine {
    pub fn get_shift_dest(
        &self,
        start: StateIndex,
        terminal: &DollarlessTerminalName,
    ) -> /*@[*/(r: /*@]*/Option<StateIndex>/*@[*/)/*@]*/
        //@[ C17 C07 get_shift_dest: target of the first transition (in set order) from `start` on `terminal`
        ensures r == shift_dest(self.transitions.seq(), start, *terminal, 0),
        //@]
    {
        //@[ proof
        let ghost g = |t: Transition| if t.from == start && t.symbol == Symbol::Terminal(*terminal) { Some(t.to) } else { None::<StateIndex> };
        proof { lemma_find_is_shift_dest(self.transitions.seq(), g, start, *terminal, 0); }
        //@]
        /*@{ T18_open*//*@- self.transitions.iter().find_map( *//*@|*/__vx_find_map(&self.transitions, /*@}*/|t/*@[*/: &Transition/*@]*/| /*@[*/-> (o: Option<StateIndex>) ensures o == g(*t) /*@]*/{
            if t.from == start && t.symbol == *terminal {
                Some(t.to)
            } else {
                None
            }
        })
    }
}

//@[ C17 lemma: find_map with this closure is shift_dest
pub proof fn lemma_find_is_shift_dest(ts: Seq<Transition>, g: spec_fn(Transition) -> Option<StateIndex>, start: StateIndex, t: DollarlessTerminalName, i: int)
    requires forall|x: Transition| #[trigger] g(x) == (if x.from == start && x.symbol == Symbol::Terminal(t) { Some(x.to) } else { None::<StateIndex> })
    ensures find_map_spec(ts, g, i) == shift_dest(ts, start, t, i)
    decreases ts.len() - i
{
    if 0 <= i < ts.len() { lemma_find_is_shift_dest(ts, g, start, t, i + 1); }
}
//@]

//@[ spec side of the mixed comparison Symbol == DollarlessTerminalName
impl PartialEqSpecImpl<DollarlessTerminalName> for Symbol {
    open spec fn obeys_eq_spec() -> bool { true }
    open spec fn eq_spec(&self, other: &DollarlessTerminalName) -> bool { *self == Symbol::Terminal(*other) }
}
//@]

impl PartialEq<DollarlessTerminalName> for Symbol {
    fn eq(&self, other: &DollarlessTerminalName) -> bool {
        match self {
            Symbol::Terminal(t) => t == other,
            Symbol::Nonterminal(_) => false,
        }
    }
}

//@[ T8: derived Clone kept external; its structural contract is assumed below
#[verifier::external_derive(Clone)]
//@]
#[derive(Debug, Clone, PartialEq, Eq, PartialOrd, Ord, Hash)]
pub struct State {
    pub items: Oset<StateItem>,
}

//@[ T8: derived Clone kept external; its structural contract is assumed below
#[verifier::external_derive(Clone)]
//@]
#[derive(Debug, Clone, PartialEq, Eq, PartialOrd, Ord, Hash)]
pub struct StateItem {
    pub rule_index: RuleIndex,
    pub lookahead: Lookahead,
    /// The `dot` is the index of the symbol to the right of the dot.
    /// If the dot is at the end of the RHS, then `dot == right.len()`.
    pub dot: usize,
}

#[derive(Debug, Clone, Copy, PartialEq, Eq, PartialOrd, Ord, Hash)]
pub enum RuleIndex {
    Original(usize),
    Augmented,
}

//@[ T8: derived Clone kept external; its structural contract is assumed below
#[verifier::external_derive(Clone)]
//@]
#[derive(Debug, Clone, PartialEq, Eq, PartialOrd, Ord, Hash)]
pub enum Lookahead {
    Terminal(DollarlessTerminalName),
    Eof,
}

impl Lookahead {
    pub fn as_quasiterminal(&self) -> /*@[*/(r: /*@]*/Quasiterminal/*@[*/)/*@]*/
        //@[ C04 C17 Lookahead::as_quasiterminal
        ensures r == la_quasi(self),
        //@]
    {
        match self {
            Lookahead::Terminal(t) => Quasiterminal::Terminal(t),
            Lookahead::Eof => Quasiterminal::Eof,
        }
    }
}

//@[ T8: derived Clone kept external; its structural contract is assumed below
#[verifier::external_derive(Clone)]
//@]
#[derive(Debug, Clone, PartialEq, Eq, PartialOrd, Ord, Hash)]
pub struct Transition {
    pub from: StateIndex,
    pub to: StateIndex,
    pub symbol: Symbol,
}

#[derive(Debug, Clone, Copy, PartialEq, Eq, PartialOrd, Ord, Hash)]
pub struct StateIndex(pub usize);

//@[ ghost vocabulary for lookaheads
pub open spec fn la_quasi<'a>(la: &'a Lookahead) -> Quasiterminal<'a> {
    match la { Lookahead::Terminal(t) => Quasiterminal::Terminal(t), Lookahead::Eof => Quasiterminal::Eof }
}
//@]

//@[ ghost vocabulary for transitions
/// target of the first transition at index >= i from `start` on terminal `t`
pub open spec fn shift_dest(ts: Seq<Transition>, start: StateIndex, t: DollarlessTerminalName, i: int) -> Option<StateIndex>
    decreases ts.len() - i
{
    if i < 0 || i >= ts.len() { None }
    else if ts[i].from == start && ts[i].symbol == Symbol::Terminal(t) { Some(ts[i].to) }
    else { shift_dest(ts, start, t, i + 1) }
}

// T8: derived PartialEq / Clone are structural (trusted)
impl PartialEqSpecImpl for StateIndex {
    open spec fn obeys_eq_spec() -> bool { true }
    open spec fn eq_spec(&self, other: &StateIndex) -> bool { *self == *other }
}
impl PartialEqSpecImpl for RuleIndex {
    open spec fn obeys_eq_spec() -> bool { true }
    open spec fn eq_spec(&self, other: &RuleIndex) -> bool { *self == *other }
}
pub assume_specification[ <StateItem as Clone>::clone ](x: &StateItem) -> (r: StateItem) ensures r == *x;
pub assume_specification[ <Lookahead as Clone>::clone ](x: &Lookahead) -> (r: Lookahead) ensures r == *x;
pub assume_specification[ <Machine as Clone>::clone ](x: &Machine) -> (r: Machine) ensures r == *x;
pub assume_specification[ <State as Clone>::clone ](x: &State) -> (r: State) ensures r == *x;
pub assume_specification[ <Transition as Clone>::clone ](x: &Transition) -> (r: Transition) ensures r == *x;
//@]
