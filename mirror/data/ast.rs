//@file kiki/src/data/ast.rs mod=crate::data::ast
//@[ imports
use vstd::prelude::*;
use crate::vx_gram::*;
pub assume_specification[ <Struct as Clone>::clone ](x: &Struct) -> (r: Struct) ensures r == *x;
pub assume_specification[ <Enum as Clone>::clone ](x: &Enum) -> (r: Enum) ensures r == *x;
//@]
#[derive(Clone, Debug)]
pub struct File {
    pub items: Vec<FileItem>,
}

#[derive(Clone, Debug)]
pub enum FileItem {
    Start(Ident),
    Struct(Struct),
    Enum(Enum),
    Terminal(TerminalEnum),
}

//@[ T8: derived Clone kept external; structural contract assumed
#[verifier::external_derive(Clone)]
//@]
#[derive(Clone, Debug)]
pub struct Struct {
    pub attributes: Vec<Attribute>,
    pub name: Ident,
    pub fieldset: Fieldset,
}

//@[ T8: derived Clone kept external; structural contract assumed
#[verifier::external_derive(Clone)]
//@]
#[derive(Clone, Debug)]
pub struct Enum {
    pub attributes: Vec<Attribute>,
    pub name: Ident,
    pub variants: Vec<EnumVariant>,
}

#[derive(Clone, Debug)]
pub struct TerminalEnum {
    pub attributes: Vec<Attribute>,
    pub name: Ident,
    pub variants: Vec<TerminalEnumVariant>,
}

pub use crate::data::token::Attribute;

#[derive(Clone, Debug)]
pub enum Fieldset {
    Empty,
    Named(NamedFieldset),
    Tuple(TupleFieldset),
}

impl Fieldset {
    pub fn len(&self) -> /*@[*/(r: /*@]*/usize/*@[*/)/*@]*/
        //@[ C07 C17 Fieldset::len: length of the right-hand side
        ensures r == fieldset_idents(*self).len(), r == fieldset_syms(*self).len(),
        //@]
    {
        match self {
            Fieldset::Empty => 0,
            Fieldset::Named(named) => named.fields.len(),
            Fieldset::Tuple(tuple) => tuple.fields.len(),
        }
    }

    pub fn is_empty(&self) -> /*@[*/(r: /*@]*/bool/*@[*/)/*@]*/
        //@[ C07 Fieldset::is_empty
        ensures r == (fieldset_idents(*self).len() == 0),
        //@]
    {
        self.len() == 0
    }

    pub fn get_symbol_ident(&self, i: usize) -> /*@[*/(r: /*@]*/&IdentOrTerminalIdent/*@[*/)/*@]*/
        //@[ C07 C17 Fieldset::get_symbol_ident: the i-th declared field symbol; in range only (no panic)
        requires i < fieldset_idents(*self).len(),
        ensures *r == fieldset_idents(*self)[i as int],
        //@]
    {
        match self {
            Fieldset::Empty => panic!("Called Fieldset::get_symbol_ident on Fieldset::Empty"),
            Fieldset::Named(named) => &named.fields[i].symbol,
            Fieldset::Tuple(tuple) => tuple.fields[i].symbol(),
        }
    }
}

#[derive(Clone, Debug)]
pub struct NamedFieldset {
    pub fields: Vec<NamedField>,
}

impl NamedFieldset {
    pub fn has_used_field(&self) -> /*@[*/(r: /*@]*/bool/*@[*/)/*@]*/
        //@[ C06 NamedFieldset::has_used_field: some field is not `_`
        ensures r == exists|i: int| 0 <= i < self.fields@.len() && (#[trigger] self.fields@[i]).name is Ident,
        //@]
    {
        /*@[*/let __vx_r = /*@]*/self.fields.iter().any(NamedField::is_used)/*@[*/;
        proof {
            let fs = self.fields@;
            let rem = fs.as_ref();
            assert(rem.len() == fs.len());
            assert(forall|j: int| 0 <= j < rem.len() ==> *(#[trigger] rem[j]) == fs[j]);
            if !__vx_r { assert forall|j: int| 0 <= j < fs.len() implies !((#[trigger] fs[j]).name is Ident) by { assert(*rem[j] == fs[j]); } }
        }
        __vx_r/*@]*/
    }
}
#[derive(Clone, Debug)]
pub struct NamedField {
    pub name: IdentOrUnderscore,
    pub symbol: IdentOrTerminalIdent,
}

impl NamedField {
    pub fn is_used(&self) -> /*@[*/(r: /*@]*/bool/*@[*/)/*@]*/
        //@[ C06 NamedField::is_used
        ensures r == (self.name is Ident),
        //@]
    {
        match self.name {
            IdentOrUnderscore::Ident(_) => true,
            IdentOrUnderscore::Underscore(_) => false,
        }
    }
}

#[derive(Clone, Debug)]
pub struct TupleFieldset {
    pub fields: Vec<TupleField>,
}

impl TupleFieldset {
    pub fn has_used_field(&self) -> /*@[*/(r: /*@]*/bool/*@[*/)/*@]*/
        //@[ C06 TupleFieldset::has_used_field: some field is not skipped
        ensures r == exists|i: int| 0 <= i < self.fields@.len() && (#[trigger] self.fields@[i]) is Used,
        //@]
    {
        /*@[*/let __vx_r = /*@]*/self.fields.iter().any(TupleField::is_used)/*@[*/;
        proof {
            let fs = self.fields@;
            let rem = fs.as_ref();
            assert(rem.len() == fs.len());
            assert(forall|j: int| 0 <= j < rem.len() ==> *(#[trigger] rem[j]) == fs[j]);
            if !__vx_r { assert forall|j: int| 0 <= j < fs.len() implies !((#[trigger] fs[j]) is Used) by { assert(*rem[j] == fs[j]); } }
        }
        __vx_r/*@]*/
    }
}

#[derive(Clone, Debug)]
pub enum TupleField {
    Used(IdentOrTerminalIdent),
    Skipped(IdentOrTerminalIdent),
}

impl TupleField {
    pub fn is_used(&self) -> /*@[*/(r: /*@]*/bool/*@[*/)/*@]*/
        //@[ C06 TupleField::is_used
        ensures r == (*self is Used),
        //@]
    {
        match self {
            TupleField::Used(_) => true,
            TupleField::Skipped(_) => false,
        }
    }
}

impl TupleField {
    pub fn symbol(&self) -> /*@[*/(r: /*@]*/&IdentOrTerminalIdent/*@[*/)/*@]*/
        //@[ C17 TupleField::symbol
        ensures *r == tuple_field_sym(*self),
        //@]
    {
        match self {
            TupleField::Used(symbol) => symbol,
            TupleField::Skipped(symbol) => symbol,
        }
    }
}

#[derive(Clone, Debug)]
pub struct EnumVariant {
    pub name: Ident,
    pub fieldset: Fieldset,
}

#[derive(Clone, Debug)]
pub struct TerminalEnumVariant {
    pub name: TerminalIdent,
    pub type_: Type,
}

//@[ derived Clone on the mutually recursive Type/ComplexType is a cyclic definition for Verus: derives kept external
#[verifier::external_derive]
//@]
#[derive(Clone, Debug)]
pub enum Type {
    Unit,
    Path(Vec<Ident>),
    Complex(Box<ComplexType>),
}

//@[ derived Clone on the mutually recursive Type/ComplexType is a cyclic definition for Verus: derives kept external
#[verifier::external_derive]
//@]
#[derive(Clone, Debug)]
pub struct ComplexType {
    pub callee: Vec<Ident>,
    pub args: Vec<Type>,
}

pub use crate::data::cst::{Ident, IdentOrTerminalIdent, IdentOrUnderscore, TerminalIdent, Token};
