//@file kiki/src/data/index_updater.rs mod=crate::data::index_updater
#[derive(Debug)]
pub struct IndexUpdater {
    index_map: Vec<usize>,
}

impl IndexUpdater {
    pub fn from_map(index_map: Vec<usize>) -> Self {
        Self { index_map }
    }
}

impl IndexUpdater {
    pub fn update(&self, i: usize) -> usize {
        self.index_map[i]
    }
}
