//@file kiki/src/data/index_updater.rs mod=crate::data::index_updater
//@[ imports
use vstd::prelude::*;
//@]
#[derive(Debug)]
pub struct IndexUpdater {
    index_map: Vec<usize>,
}

//@[ ghost view of IndexUpdater: the map old index -> new index
impl View for IndexUpdater {
    type V = Seq<usize>;
    closed spec fn view(&self) -> Seq<usize> { self.index_map@ }
}
//@]

impl IndexUpdater {
    pub fn from_map(index_map: Vec<usize>) -> /*@[*/(r: /*@]*/Self/*@[*/)/*@]*/
        //@[ C17 IndexUpdater::from_map
        ensures r@ == index_map@,
        //@]
    {
        Self { index_map }
    }
}

impl IndexUpdater {
    pub fn update(&self, i: usize) -> /*@[*/(r: /*@]*/usize/*@[*/)/*@]*/
        //@[ C07 C17 IndexUpdater::update: in range only (no panic)
        requires i < self@.len(),
        ensures r == self@[i as int],
        //@]
    {
        self.index_map[i]
    }
}
