//@file kiki/src/data/token.rs mod=crate::data::token
pub use crate::data::*;

pub use crate::pipeline::parser::Token;
//@[ T8: assumed structural contract of the derived Clone
use vstd::prelude::*;
pub assume_specification[ <Attribute as Clone>::clone ](x: &Attribute) -> (r: Attribute) ensures r == *x;
//@]

#[derive(Clone, Debug, PartialEq, Eq, Hash)]
pub struct Ident {
    pub name: String,
    pub position: ByteIndex,
}

#[derive(Clone, Debug, PartialEq, Eq, Hash)]
pub struct TerminalIdent {
    pub name: DollarlessTerminalName,
    pub dollarless_position: ByteIndex,
}

//@[ T8: derived Clone kept external; structural contract assumed
#[verifier::external_derive(Clone)]
//@]
#[derive(Clone, Debug, PartialEq, Eq, Hash)]
pub struct Attribute {
    pub src: String,
    pub position: ByteIndex,
}
