//@file kiki/src/data/token.rs mod=crate::data::token
pub use crate::data::*;

pub use crate::pipeline::parser::Token;

#[derive(Clone, Debug, PartialEq, Eq, Hash)]
pub struct Ident {
    pub name: String,
    pub position: ByteIndex,
}

#[derive(Clone, Debug, PartialEq, Eq, Hash)]
pub struct TerminalIdent {
    pub name: DollarlessTerminalName,
    pub dollarless_position: ByteIndex,
}

#[derive(Clone, Debug, PartialEq, Eq, Hash)]
pub struct Attribute {
    pub src: String,
    pub position: ByteIndex,
}
