//@file kiki/src/data/mod.rs mod=crate::data
#[derive(Clone, Debug, PartialEq, Eq, PartialOrd, Ord, Hash, Default)]
pub struct RustSrcRef<'a>(pub &'a str);
