//@file kiki/src/data/mod.rs mod=crate::data
//@[ imports
use vstd::prelude::*;
use vstd::std_specs::cmp::*;
//@]

pub use index_updater::*;
pub use oset::*;

#[derive(Debug)]
pub enum KikiErr {
    Lex(
        ByteIndex,
        /// If the lexer encounters an unexpected character `c`,
        /// this is `Some(c)`.
        /// If the lexer encounters an unexpected end of input,
        /// this is `None`.
        Option<char>,
    ),
    Parse(ByteIndex, String, ByteIndex),
    NoStartSymbol,
    MultipleStartSymbols(Vec<ByteIndex>),
    NoTerminalEnum,
    MultipleTerminalEnums(Vec<ByteIndex>),
    SymbolOrTerminalEnumNameFirstLetterNotUppercase(ByteIndex),
    FieldFirstLetterNotLowercase(ByteIndex),
    NameClash(String, ByteIndex, ByteIndex),
    NonterminalEnumVariantNameClash(String, ByteIndex, ByteIndex),
    NonterminalEnumVariantSymbolSequenceClash(Vec<Symbol>, ByteIndex, ByteIndex),
    UndefinedNonterminal(String, ByteIndex),
    UndefinedTerminal(DollarlessTerminalName, ByteIndex),
    TableConflict(Box<TableConflictErr>),
}

#[derive(Debug)]
pub struct TableConflictErr {
    pub state_index: machine::StateIndex,
    pub items: (machine::StateItem, machine::StateItem),
    pub file: validated_file::File,
    pub machine: machine::Machine,
}

#[derive(Clone, Debug, PartialEq, Eq, PartialOrd, Ord, Hash, Default)]
pub struct RustSrc(pub String);

impl RustSrc {
    pub fn as_ref(&self) -> RustSrcRef {
        RustSrcRef(&self.0)
    }
}

#[derive(Clone, Debug, PartialEq, Eq, PartialOrd, Ord, Hash, Default)]
pub struct RustSrcRef<'a>(pub &'a str);

#[derive(Clone, Copy, Debug, PartialEq, Eq, PartialOrd, Ord, Hash)]
pub struct ByteIndex(pub usize);

//@[ T8
#[verifier::external_derive(Clone)]
//@]
#[derive(Debug, Clone, PartialEq, Eq, Hash, PartialOrd, Ord)]
pub struct DollarlessTerminalName(String);

//@[ T8: derived PartialEq / Clone are structural (trusted)
impl PartialEqSpecImpl for DollarlessTerminalName {
    open spec fn obeys_eq_spec() -> bool { true }
    open spec fn eq_spec(&self, other: &DollarlessTerminalName) -> bool { *self == *other }
}
impl PartialEqSpecImpl for Symbol {
    open spec fn obeys_eq_spec() -> bool { true }
    open spec fn eq_spec(&self, other: &Symbol) -> bool { *self == *other }
}
pub assume_specification[ <DollarlessTerminalName as Clone>::clone ](x: &DollarlessTerminalName) -> (r: DollarlessTerminalName) ensures r == *x;
pub assume_specification[ <Symbol as Clone>::clone ](x: &Symbol) -> (r: Symbol) ensures r == *x;
//@]

//@[ ghost view of DollarlessTerminalName: the name without `$`
impl View for DollarlessTerminalName {
    type V = Seq<char>;
    closed spec fn view(&self) -> Seq<char> { self.0@ }
}
//@]

impl DollarlessTerminalName {
    //@[ T: chars().filter().collect() is outside Verus' supported subset (body not verified; contract assumed)
    #[verifier::external_body]
    //@]
    pub fn remove_dollars(name: &str) -> /*@[*/(r: /*@]*/Self/*@[*/)/*@]*/
        //@[ assumed contract
        ensures r@ == name@.filter(|c: char| c != '$'),
        //@]
    {
        Self(name.chars().filter(|c| *c != '$').collect())
    }

    pub fn raw(&self) -> /*@[*/(r: /*@]*/&str/*@[*/)/*@]*/
        //@[ contract
        ensures r@ == self@,
        //@]
    {
        &self.0
    }
}

impl ToString for DollarlessTerminalName {
    fn to_string(&self) -> /*@[*/(r: /*@]*/String/*@[*/)/*@]*/
        //@[ contract
        ensures r@ == self@,
        //@]
    {
        self.raw().to_string()
    }
}

//@[ T8
#[verifier::external_derive(Clone)]
//@]
#[derive(Debug, Clone, PartialEq, Eq, PartialOrd, Ord, Hash)]
pub enum Symbol {
    Terminal(DollarlessTerminalName),
    Nonterminal(String),
}

impl From<cst::IdentOrTerminalIdent> for Symbol {
    fn from(ident: cst::IdentOrTerminalIdent) -> /*@[*/(r: /*@]*/Self/*@[*/)/*@]*/
        //@[ C17 Symbol::from: the grammar symbol a field refers to
        ensures r == crate::vx_gram::sym_of(ident),
        //@]
    {
        match ident {
            cst::IdentOrTerminalIdent::Ident(ident) => Symbol::Nonterminal(ident.name),
            cst::IdentOrTerminalIdent::Terminal(ident) => Symbol::Terminal(ident.name),
        }
    }
}
