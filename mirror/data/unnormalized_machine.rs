//@file kiki/src/data/unnormalized_machine.rs mod=crate::data::unnormalized_machine
use crate::data::machine::{State, Transition};

use std::collections::HashSet;

#[derive(Debug, Clone)]
pub struct UnnormalizedMachine {
    /// The first state must be the start state.
    pub states: Vec<State>,
    pub transitions: HashSet<Transition>,
}
