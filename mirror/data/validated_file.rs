//@file kiki/src/data/validated_file.rs mod=crate::data::validated_file
//@[ imports
use vstd::prelude::*;
use crate::vx_gram::*;
pub assume_specification[ <File as Clone>::clone ](x: &File) -> (r: File) ensures r == *x;
//@]
use crate::data::*;

use std::collections::HashSet;
use std::fmt::{self, Display, Formatter};

//@[ T8: derived Clone kept external; structural contract assumed
#[verifier::external_derive(Clone)]
//@]
#[derive(Debug, Clone)]
pub struct File {
    pub start: String,
    pub terminal_enum: TerminalEnum,
    pub nonterminals: Vec<Nonterminal>,
}

impl File {
    //@[ T: iterator adapters / formatting outside the supported subset (body not verified)
    #[verifier::external_body]
    //@]
    pub fn get_rules(&self) -> impl Iterator<Item = Rule> /*@[ assumed contract (T leaf): the listed rules are file_rules(self); vx_gram::axiom_file_rules_fieldsets states what is assumed of them*//*@]*/{
        self.nonterminals
            .iter()
            .flat_map(|nonterminal| match nonterminal {
                Nonterminal::Struct(s) => {
                    vec![Rule {
                        constructor_name: ConstructorName::Struct(&s.name.name),
                        fieldset: &s.fieldset,
                    }]
                }
                Nonterminal::Enum(e) => e
                    .variants
                    .iter()
                    .map(|v| {
                        let enum_name = &e.name.name;
                        let variant_name = &v.name.name;
                        Rule {
                            constructor_name: ConstructorName::EnumVariant {
                                enum_name,
                                variant_name,
                            },
                            fieldset: &v.fieldset,
                        }
                    })
                    .collect(),
            })
    }
}

#[derive(Debug, Clone, Copy)]
pub struct Rule<'a> {
    pub constructor_name: ConstructorName<'a>,
    pub fieldset: &'a Fieldset,
}

#[derive(Debug, Clone, Copy)]
pub enum ConstructorName<'a> {
    Struct(&'a str),
    EnumVariant {
        enum_name: &'a str,
        variant_name: &'a str,
    },
}

impl Display for ConstructorName<'_> {
    //@[ T: iterator adapters / formatting outside the supported subset (body not verified)
    #[verifier::external_body]
    //@]
    fn fmt(&self, f: &mut Formatter<'_>) -> fmt::Result {
        match self {
            ConstructorName::Struct(name) => write!(f, "{}", name),
            ConstructorName::EnumVariant {
                enum_name,
                variant_name,
            } => write!(f, "{}::{}", enum_name, variant_name),
        }
    }
}

impl ConstructorName<'_> {
    pub fn type_name(&self) -> /*@[*/(r: /*@]*/&str/*@[*/)/*@]*/
        //@[ C17 ConstructorName::type_name: the nonterminal a rule belongs to
        ensures r@ == cn_type_name(*self),
        //@]
    {
        match self {
            ConstructorName::Struct(name) => name,
            ConstructorName::EnumVariant { enum_name, .. } => enum_name,
        }
    }
}

//@[ C05 ghost: the identifiers a validated file defines at the top level of the emitted module
pub open spec fn defined_id(f: File, a: Seq<char>) -> bool {
    ||| exists|i: int| 0 <= i < f.nonterminals@.len() && nt_name(#[trigger] f.nonterminals@[i]) == a
    ||| exists|i: int| 0 <= i < f.terminal_enum.variants@.len() && (#[trigger] f.terminal_enum.variants@[i]).dollarless_name@ == a
    ||| a == f.terminal_enum.name@
}
//@]

impl File {
    //@[ T: iterator adapters / formatting outside the supported subset (body not verified)
    #[verifier::external_body]
    //@]
    pub fn get_defined_identifiers(&self) -> /*@[*/(r: /*@]*/HashSet<String>/*@[*/)/*@]*/
        //@[ assumed contract (T leaf): exactly the nonterminal names, the terminal variant names and the terminal enum name
        ensures
            forall|a: Seq<char>| crate::vx_hash::view_set(r@).contains(a) <==> defined_id(*self, a),
            r@.len() <= self.nonterminals@.len() + self.terminal_enum.variants@.len() + 1,
        //@]
    {
        self.get_nonterminal_names()
            .chain(self.get_terminal_enum_variant_names())
            .chain(std::iter::once(self.terminal_enum.name.clone()))
            .collect()
    }

    //@[ T: iterator adapters / formatting outside the supported subset (body not verified)
    #[verifier::external_body]
    //@]
    fn get_nonterminal_names(&self) -> impl Iterator<Item = String> + '_ {
        self.nonterminals
            .iter()
            .map(|nonterminal| match nonterminal {
                Nonterminal::Struct(s) => &s.name.name,
                Nonterminal::Enum(e) => &e.name.name,
            })
            .cloned()
    }

    //@[ T: iterator adapters / formatting outside the supported subset (body not verified)
    #[verifier::external_body]
    //@]
    fn get_terminal_enum_variant_names(&self) -> impl Iterator<Item = String> + '_ {
        self.terminal_enum
            .variants
            .iter()
            .map(|variant| variant.dollarless_name.to_string())
    }
}

#[derive(Debug, Clone)]
pub struct TerminalEnum {
    pub attributes: Vec<Attribute>,
    pub name: String,
    pub variants: Vec<TerminalVariant>,
}

//@[ C06 C13 ghost: the declared payload type of a terminal = the type text of the first variant with that name
pub open spec fn term_type(vs: Seq<TerminalVariant>, name: DollarlessTerminalName, i: int) -> Option<Seq<char>>
    decreases vs.len() - i
{
    if i < 0 || i >= vs.len() { None } else if vs[i].dollarless_name == name { Some(vs[i].type_@) } else { term_type(vs, name, i + 1) }
}
pub proof fn lemma_term_type_none(vs: Seq<TerminalVariant>, name: DollarlessTerminalName, i: int)
    requires 0 <= i, forall|j: int| i <= j < vs.len() ==> (#[trigger] vs[j]).dollarless_name != name
    ensures term_type(vs, name, i) is None
    decreases vs.len() - i
{ if i < vs.len() { lemma_term_type_none(vs, name, i + 1); } }
pub proof fn lemma_term_type_first(vs: Seq<TerminalVariant>, name: DollarlessTerminalName, i: int, k: int)
    requires 0 <= i <= k < vs.len(), vs[k].dollarless_name == name, forall|j: int| i <= j < k ==> (#[trigger] vs[j]).dollarless_name != name
    ensures term_type(vs, name, i) == Some(vs[k].type_@)
    decreases k - i
{ if i < k { lemma_term_type_first(vs, name, i + 1, k); } }
//@]

impl TerminalEnum {
    pub fn get_type(&self, variant_name: &DollarlessTerminalName) -> /*@[*/(r: /*@]*/Option<&str>/*@[*/)/*@]*/
        //@[ C06 C13 TerminalEnum::get_type: the declared payload type of the terminal, looked up by name
        ensures (match r { Some(t) => Some(t@), None => None }) == term_type(self.variants@, *variant_name, 0),
        //@]
    {
        /*@[*/let __vx_f = /*@]*/self.variants
            .iter()
            .find(|variant/*@[*/: &&TerminalVariant/*@]*/| /*@[*/-> (o: bool) ensures o == (variant.dollarless_name == *variant_name) { /*@]*/variant.dollarless_name == *variant_name/*@[*/ }/*@]*/)/*@[*/;
        proof {
            let vs = self.variants@;
            let rem = vs.as_ref();
            assert(rem.len() == vs.len());
            assert(forall|j: int| 0 <= j < rem.len() ==> *(#[trigger] rem[j]) == vs[j]);
            match __vx_f {
                None => {
                    assert forall|j: int| 0 <= j < vs.len() implies (#[trigger] vs[j]).dollarless_name != *variant_name by { assert(*rem[j] == vs[j]); }
                    lemma_term_type_none(vs, *variant_name, 0);
                }
                Some(v) => {
                    let k = choose|k: int| 0 <= k < rem.len() && rem[k] == v && rem[k].dollarless_name == *variant_name
                        && forall|j: int| 0 <= j < k ==> (#[trigger] rem[j]).dollarless_name != *variant_name;
                    assert forall|j: int| 0 <= j < k implies (#[trigger] vs[j]).dollarless_name != *variant_name by { assert(*rem[j] == vs[j]); }
                    assert(*rem[k] == vs[k]);
                    lemma_term_type_first(vs, *variant_name, 0, k);
                }
            }
        }
        __vx_f/*@]*/
            .map(|variant/*@[*/: &TerminalVariant/*@]*/| -> /*@[*/(o: /*@]*/&str/*@[*/) ensures o@ == variant.type_@/*@]*/ { &variant.type_ })
    }
}

#[derive(Debug, Clone)]
pub struct TerminalVariant {
    pub dollarless_name: DollarlessTerminalName,
    pub type_: String,
}

#[derive(Debug, Clone)]
pub enum Nonterminal {
    Struct(Struct),
    Enum(Enum),
}

impl Nonterminal {
    pub fn name(&self) -> /*@[*/(r: /*@]*/&str/*@[*/)/*@]*/
        //@[ C10 C17 Nonterminal::name
        ensures r@ == nt_name(*self),
        //@]
    {
        match self {
            Nonterminal::Struct(s) => &s.name.name,
            Nonterminal::Enum(e) => &e.name.name,
        }
    }
}

pub use crate::data::ast::{
    Attribute, ComplexType, Enum, EnumVariant, Fieldset, NamedField, NamedFieldset, Struct,
    TupleField, TupleFieldset, Type,
};
pub use crate::data::ast::{Ident, IdentOrTerminalIdent, IdentOrUnderscore, TerminalIdent, Token};
