//@file kiki/src/data/oset.rs mod=crate::data::oset
//@[ imports
use vstd::std_specs::cmp::*;
use vstd::std_specs::iter::*;
use crate::vx_ord::*;
//@]
use std::ops::Deref;

/// An ordered set.
#[derive(Debug, Clone, PartialEq, Eq, PartialOrd, Ord, Hash)]
pub struct Oset<T> {
    raw: Vec<T>,
}

//@[ ghost view of Oset
impl<T> Oset<T> {
    /// the elements in iteration order
    pub closed spec fn seq(&self) -> Seq<T> { self.raw@ }
}
impl<T: Ord> Oset<T> {
    /// representation invariant: strictly increasing w.r.t. Ord
    pub open spec fn wf(&self) -> bool { strictly_sorted(self.seq()) }
    /// abstract value: the set of elements
    pub open spec fn view(&self) -> Set<T> { self.seq().to_set() }
}
//@]

impl<T> Oset<T> {
    pub fn new() -> /*@[*/(r: /*@]*/Self/*@[*/)/*@]*/
        //@[ C18 new
        ensures r.seq() =~= Seq::<T>::empty(),
        //@]
    {
        Self { raw: Vec::new() }
    }
}

impl<T> Default for Oset<T> {
    fn default() -> Self {
        Self::new()
    }
}

impl<T> Oset<T>
where
    T: Ord,
{
    pub fn insert(&mut self, item: T)
        //@[ C18 insert
        requires old(self).wf(), lawful::<T>(),
        ensures final(self).wf(),
            final(self)@ == old(self)@.insert(item),
        //@]
    {
        //@[ proof
        proof { lemma_lt_props::<T>(); broadcast use vstd::seq_lib::group_seq_properties; }
        //@]
        match self.raw.binary_search(&item) {
            Ok(_) => {
                //@[ proof
                proof { assert(old(self).seq().to_set().insert(item) =~= old(self).seq().to_set()); }
                //@]
            }
            Err(i) => /*@[*/{/*@]*/self.raw.insert(i, item)/*@[*/;
                proof {
                    let o = old(self).seq(); let n = self.seq();
                    assert(n == o.insert(i as int, item));
                    assert(n.to_set() =~= o.to_set().insert(item)) by {
                        assert forall|x: T| n.to_set().contains(x) <==> o.to_set().insert(item).contains(x) by {
                            if n.to_set().contains(x) {
                                let k = choose|k: int| 0 <= k < n.len() && n[k] == x;
                                if k < i { assert(o[k] == x); } else if k > i { assert(o[k - 1] == x); }
                            }
                            if o.to_set().contains(x) {
                                let k = choose|k: int| 0 <= k < o.len() && o[k] == x;
                                if k < i { assert(n[k] == x); } else { assert(n[k + 1] == x); }
                            }
                            if x == item { assert(n[i as int] == x); }
                        }
                    }
                    assert(strictly_sorted(n)) by {
                        assert forall|a: int, b: int| 0 <= a < b < n.len() implies lt(#[trigger] n[a], #[trigger] n[b]) by {
                            if b < i { assert(n[a] == o[a] && n[b] == o[b]); }
                            else if a > i { assert(n[a] == o[a - 1] && n[b] == o[b - 1]); }
                            else if a == i { assert(n[b] == o[b - 1]); }
                            else if b == i { assert(n[a] == o[a]); }
                            else { assert(n[a] == o[a] && n[b] == o[b - 1]); }
                        }
                    }
                }
            }/*@]*/,
        }
    }

    pub fn contains(&self, item: &T) -> /*@[*/(b: /*@]*/bool/*@[*/)/*@]*/
        //@[ C18 contains
        requires self.wf(), lawful::<T>(),
        ensures b == self@.contains(*item),
        //@]
    {
        //@[ proof
        proof { lemma_lt_props::<T>(); }
        //@]
        self.raw.binary_search(item).is_ok()
    }
}

//@[ C18 from_iter: trait-level contract of collect::<Oset<T>>() (vstd's FromIterator spec hook)
impl<T: Ord> FromIteratorSpecImpl<T> for Oset<T> {
    open spec fn from_iter_ensures(remaining: Seq<T>, s: Self) -> bool {
        lawful::<T>() ==> s.wf() && s@ == remaining.to_set()
    }
}

// T15 body relocation: the body of FromIterator::from_iter (current /repo tokens) is verified here
// against the full contract; the trait method forwards to it.
impl<T: Ord> Oset<T> {
    pub fn __vx_from_iter<I>(iter: I) -> (r: Self)
        where I: IntoIterator<Item = T>,
        ensures lawful::<T>() ==> r.wf() && r@ == yielded::<T, I>(iter).to_set(),
    /*@orig from_iter_body*/
}
//@]

impl<T> FromIterator<T> for Oset<T>
where
    T: Ord,
{
    //@[ T15: forward is trusted (Verus instantiates the inherited postcondition with a captured type parameter, DESIGN A.10)
    #[verifier::external_body]
    //@]
    fn from_iter<I>(iter: I) -> Self
    where
        I: IntoIterator<Item = T>,
    //@{ from_iter_body live
    {
        let mut raw: Vec<T> = /*@{ T13_collect*//*@- iter.into_iter().collect() *//*@|*/__vx_collect(iter)/*@}*/;
        //@[ proof
        let ghost r0 = raw@;
        //@]
        raw.sort();
        //@[ proof
        let ghost r1 = raw@;
        //@]
        raw.dedup();
        //@[ proof
        proof {
            if lawful::<T>() {
                lemma_multiset_eq_set_eq(r1, r0);
                let f = choose|f: Seq<int>| subseq_via(raw@, r1, f);
                lemma_sorted_le_dedup_strict(r1, raw@, f);
                assert(strictly_sorted(raw@));
                assert(raw@.to_set() == yielded::<T, I>(iter).to_set());
            }
        }
        //@]
        Self { raw }
    }
    //@|
    { Self::__vx_from_iter(iter) }
    //@}
}

impl<T> IntoIterator for Oset<T> {
    type Item = T;
    type IntoIter = std::vec::IntoIter<T>;

    fn into_iter(self) -> /*@[*/(r: /*@]*/Self::IntoIter/*@[*/)/*@]*/
        //@[ C18 into_iter (by value): yields exactly seq()
        ensures IteratorSpec::remaining(&r) == self.seq(), IteratorSpec::decrease(&r) is Some,
        //@]
    {
        self.raw.into_iter()
    }
}

impl<'a, T> IntoIterator for &'a Oset<T> {
    type Item = &'a T;
    type IntoIter = std::slice::Iter<'a, T>;

    fn into_iter(self) -> /*@[*/(r: /*@]*/Self::IntoIter/*@[*/)/*@]*/
        //@[ C18 into_iter (by reference): yields exactly seq()
        ensures IteratorSpec::remaining(&r) == self.seq().as_ref(), IteratorSpec::decrease(&r) is Some,
        //@]
    {
        self.raw.iter()
    }
}

impl<T> Deref for Oset<T> {
    type Target = [T];

    fn deref(&self) -> /*@[*/(r: /*@]*/&Self::Target/*@[*/)/*@]*/
        //@[ C18 deref
        ensures r@ == self.seq(),
        //@]
    {
        &self.raw
    }
}

impl<T> Extend<T> for Oset<T>
where
    T: Ord,
{
    fn extend<I>(&mut self, iter: I)
    where
        I: IntoIterator<Item = T>,
        //@[ C18 extend
        ensures lawful::<T>() && old(self).wf() ==> final(self).wf() && final(self)@ == old(self)@.union(yielded::<T, I>(iter).to_set()),
        //@]
    {
        /*@{ T13_extend*//*@- self.raw.extend(iter) *//*@|*/__vx_extend(&mut self.raw, iter)/*@}*/;
        //@[ proof
        let ghost r0 = self.raw@;
        //@]
        self.raw.sort_unstable();
        //@[ proof
        let ghost r1 = self.raw@;
        //@]
        self.raw.dedup();
        //@[ proof
        proof {
            if lawful::<T>() && old(self).wf() {
                lemma_multiset_eq_set_eq(r1, r0);
                let f = choose|f: Seq<int>| subseq_via(self.raw@, r1, f);
                lemma_sorted_le_dedup_strict(r1, self.raw@, f);
                broadcast use vstd::seq_lib::group_seq_properties;
                assert(r0.to_set() =~= old(self).seq().to_set().union(yielded::<T, I>(iter).to_set())) by {
                    vstd::seq_lib::seq_to_set_distributes_over_add(old(self).seq(), yielded::<T, I>(iter));
                }
            }
        }
        //@]
    }
}

//@[ meaning of vstd's (uninterpreted) `into_iter_remaining` for an Oset passed by value: the sequence its
// verified IntoIterator impl yields (trusted bridge between `yielded` and the into_iter contract above)
#[verifier::external_body]
pub broadcast proof fn axiom_yielded_oset<T>(o: Oset<T>)
    ensures #[trigger] yielded::<T, Oset<T>>(o) == o.seq()
{}

/// number of elements = cardinality of the set
pub proof fn lemma_oset_len<T: Ord>(o: Oset<T>)
    requires lawful::<T>(), o.wf()
    ensures o.seq().len() == o@.len(), o@.finite()
{
    lemma_strictly_sorted_no_dup(o.seq());
    o.seq().unique_seq_to_set();
}

pub proof fn lemma_empty_oset<T: Ord>(o: Oset<T>)
    requires o.seq() =~= Seq::<T>::empty()
    ensures o.wf(), o@ =~= Set::<T>::empty()
{}
//@]

//@[ C18 property lemmas over the contracts
// equality and ordering of two well-formed sets depend only on their element sets:
// equal views force equal representations, and derived ==/cmp/hash are functions of the representation.
pub proof fn lemma_oset_ext<T: Ord>(a: Oset<T>, b: Oset<T>)
    requires lawful::<T>(), a.wf(), b.wf(), a@ == b@
    ensures a.seq() == b.seq()
{
    lemma_sorted_ext(a.seq(), b.seq());
}

// iteration yields each element exactly once, in strictly increasing order
pub proof fn lemma_oset_iteration<T: Ord>(a: Oset<T>)
    requires lawful::<T>(), a.wf()
    ensures a.seq().no_duplicates(), strictly_sorted(a.seq()),
        forall|x: T| a@.contains(x) <==> #[trigger] a.seq().contains(x),
{
    lemma_strictly_sorted_no_dup(a.seq());
}
//@]
