//@file kiki/src/data/cst.rs mod=crate::data::cst
pub use crate::data::token::{Ident, TerminalIdent};
pub use crate::pipeline::parser::*;
