//@file kiki/src/lib.rs mod=crate
//@[ imports
use crate::vx_str::*;
broadcast use crate::vx_pat::axiom_pat_view_str;
//@]
pub use data::*;

pub fn get_grammar_hash(src: RustSrcRef) -> /*@[*/(r: /*@]*/Option<&str>/*@[*/)/*@]*/
    //@[ C15 get_grammar_hash: the statement's header scan
    ensures
        (match r { Some(h) => Some(h@), None => None }) == spec_hash(src.0@),
    //@]
{
    const HASH_PREFIX: &/*@[*/'static /*@]*/str = "// @sha256 ";
    //@[ proof
    proof { reveal_strlit("// @sha256 "); reveal_strlit("//"); lemma_hash_prefix_is_comment(); }
    //@]
    for line in /*@[*/it: /*@]*//*@{ T5_lines*//*@- src.0.lines() *//*@|*/__vx_lines(src.0)/*@}*/
        //@[ C15 loop invariant: no earlier line decided the scan
        invariant
            spec_hash(src.0@) == spec_hash_from(spec_lines(src.0@), it.index as int),
            it.seq().len() == spec_lines(src.0@).len(),
            forall|i: int| 0 <= i < it.seq().len() ==> (#[trigger] it.seq()[i])@ == spec_lines(src.0@)[i],
            HASH_PREFIX@ == "// @sha256 "@,
            "// @sha256 "@.len() == 11,
            forall|l: Seq<char>| #[trigger] is_prefix("// @sha256 "@, l) ==> is_prefix("//"@, l),
        //@]
    {
        if !line.starts_with("//") {
            return None;
        }

        if let Some(hash) = line.strip_prefix(HASH_PREFIX) {
            return Some(hash);
        }
    }
    None
}
