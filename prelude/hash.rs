// Hash collections: key-model axioms (trusted) and the T6 `hash listing` helper - the only assumed contract
// whose result is not a function of the views of its arguments (listing ORDER is unspecified): C14 hinges on it.
pub mod vx_hash_ax {
    use vstd::prelude::*;
    use crate::data::machine::StateIndex;
    use crate::data::table::Quasiterminal;
    use crate::data::Symbol;
    verus! {
    #[verifier::external_body]
    pub broadcast proof fn axiom_key_model_string()
        ensures #[trigger] vstd::std_specs::hash::obeys_key_model::<String>(),
    {}
    #[verifier::external_body]
    pub broadcast proof fn axiom_key_model_action_key<'a>()
        ensures #[trigger] vstd::std_specs::hash::obeys_key_model::<(StateIndex, Quasiterminal<'a>)>(),
    {}
    #[verifier::external_body]
    pub broadcast proof fn axiom_key_model_goto_key<'a>()
        ensures #[trigger] vstd::std_specs::hash::obeys_key_model::<(StateIndex, &'a str)>(),
    {}
    #[verifier::external_body]
    pub broadcast proof fn axiom_key_model_str<'a>()
        ensures #[trigger] vstd::std_specs::hash::obeys_key_model::<&'a str>(),
    {}
    #[verifier::external_body]
    pub broadcast proof fn axiom_key_model_symbols()
        ensures #[trigger] vstd::std_specs::hash::obeys_key_model::<Vec<Symbol>>(),
    {}
    pub broadcast group group_key_models {
        axiom_key_model_string, axiom_key_model_action_key, axiom_key_model_goto_key, axiom_key_model_str, axiom_key_model_symbols,
    }
    }
}

pub mod vx_hash {
use vstd::prelude::*;
use std::collections::{HashMap, HashSet};
verus! {
broadcast use {vstd::std_specs::hash::group_hash_axioms, crate::vx_hash_ax::group_key_models};

/// r lists exactly the entries of m, each once, in an UNSPECIFIED order
pub open spec fn is_map_listing<K, V>(m: Map<K, V>, r: Seq<(K, V)>) -> bool {
    &&& forall|i: int, j: int| 0 <= i < j < r.len() ==> (#[trigger] r[i]).0 != (#[trigger] r[j]).0
    &&& forall|i: int| 0 <= i < r.len() ==> m.contains_key((#[trigger] r[i]).0) && m[r[i].0] == r[i].1
    &&& forall|k: K| m.contains_key(k) ==> exists|i: int| 0 <= i < r.len() && (#[trigger] r[i]).0 == k
}

/// T6: consuming iteration over a HashMap
#[verifier::external_body]
pub fn __vx_hash_listing<K, V>(m: HashMap<K, V>) -> (r: Vec<(K, V)>)
    ensures vstd::std_specs::hash::obeys_key_model::<K>() ==> is_map_listing(m@, r@)
{ m.into_iter().collect() }

pub open spec fn is_set_listing<K>(m: Set<K>, r: Seq<K>) -> bool {
    &&& r.no_duplicates()
    &&& forall|i: int| 0 <= i < r.len() ==> m.contains(#[trigger] r[i])
    &&& forall|k: K| m.contains(k) ==> r.contains(k)
}

/// T6: consuming iteration over a HashSet
#[verifier::external_body]
pub fn __vx_hashset_listing<K>(m: HashSet<K>) -> (r: Vec<K>)
    ensures vstd::std_specs::hash::obeys_key_model::<K>() ==> is_set_listing(m@, r@)
{ m.into_iter().collect() }

} // verus!
} // mod vx_hash
