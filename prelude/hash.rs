// Hash collections: key-model axioms (trusted) and the T6 `hash listing` helper - the only assumed contract
// whose result is not a function of the views of its arguments (listing ORDER is unspecified): C14 hinges on it.
pub mod vx_hash_ax {
    use vstd::prelude::*;
    use crate::data::machine::StateIndex;
    use crate::data::table::Quasiterminal;
    use crate::data::Symbol;
    verus! {
    #[verifier::external_body]
    pub broadcast proof fn axiom_key_model_string()
        ensures #[trigger] vstd::std_specs::hash::obeys_key_model::<String>(),
    {}
    #[verifier::external_body]
    pub broadcast proof fn axiom_key_model_action_key<'a>()
        ensures #[trigger] vstd::std_specs::hash::obeys_key_model::<(StateIndex, Quasiterminal<'a>)>(),
    {}
    #[verifier::external_body]
    pub broadcast proof fn axiom_key_model_goto_key<'a>()
        ensures #[trigger] vstd::std_specs::hash::obeys_key_model::<(StateIndex, &'a str)>(),
    {}
    #[verifier::external_body]
    pub broadcast proof fn axiom_key_model_str<'a>()
        ensures #[trigger] vstd::std_specs::hash::obeys_key_model::<&'a str>(),
    {}
    #[verifier::external_body]
    pub broadcast proof fn axiom_key_model_symbols()
        ensures #[trigger] vstd::std_specs::hash::obeys_key_model::<Vec<Symbol>>(),
    {}
    #[verifier::external_body]
    pub broadcast proof fn axiom_key_model_transition()
        ensures #[trigger] vstd::std_specs::hash::obeys_key_model::<crate::data::machine::Transition>(),
    {}
    pub broadcast group group_key_models {
        axiom_key_model_transition, axiom_key_model_string, axiom_key_model_action_key, axiom_key_model_goto_key, axiom_key_model_str, axiom_key_model_symbols,
    }
    }
}

pub mod vx_hash {
use vstd::prelude::*;
use std::collections::{HashMap, HashSet};
verus! {
broadcast use {vstd::std_specs::hash::group_hash_axioms, crate::vx_hash_ax::group_key_models};

/// the borrowed form k denotes the key `key` (phrased with vstd's own predicate on a singleton map)
pub open spec fn key_denoted_by<K, Q: ?Sized>(key: K, k: &Q) -> bool {
    vstd::std_specs::hash::contains_borrowed_key(Map::<K, ()>::empty().insert(key, ()), k)
}

/// String keys looked up through &str: the key with the same characters (trusted: Borrow<str> for String, and
/// Hash/Eq of String and str agree - the contract std documents for Borrow)
#[verifier::external_body]
pub broadcast proof fn axiom_contains_str_key<V>(m: Map<String, V>, k: &str)
    ensures #[trigger] vstd::std_specs::hash::contains_borrowed_key::<String, V, str>(m, k)
        <==> exists|key: String| #![trigger m.contains_key(key)] m.contains_key(key) && key@ == k@
{}

#[verifier::external_body]
pub broadcast proof fn axiom_maps_str_key_to_value<V>(m: Map<String, V>, k: &str, v: V)
    ensures #[trigger] vstd::std_specs::hash::maps_borrowed_key_to_value::<String, V, str>(m, k, v)
        <==> exists|key: String| #![trigger m.contains_key(key)] m.contains_key(key) && key@ == k@ && m[key] == v
{}

/// a String is determined by its characters (trusted; the String counterpart of axiom_str_ext)
#[verifier::external_body]
pub broadcast proof fn axiom_string_ext(a: String, b: String)
    ensures (#[trigger] a@ == #[trigger] b@) <==> (a == b)
{}

#[verifier::external_body]
pub broadcast proof fn axiom_set_contains_str_key(m: Set<String>, k: &str)
    ensures #[trigger] vstd::std_specs::hash::set_contains_borrowed_key::<String, str>(m, k)
        <==> exists|key: String| #![trigger m.contains(key)] m.contains(key) && key@ == k@
{}

/// &str keys looked up through &str (Borrow<str> for &str is the identity)
#[verifier::external_body]
pub broadcast proof fn axiom_contains_strref_key<'a, V>(m: Map<&'a str, V>, k: &str)
    ensures #[trigger] vstd::std_specs::hash::contains_borrowed_key::<&'a str, V, str>(m, k)
        <==> exists|key: &'a str| #![trigger m.contains_key(key)] m.contains_key(key) && key@ == k@
{}
#[verifier::external_body]
pub broadcast proof fn axiom_maps_strref_key_to_value<'a, V>(m: Map<&'a str, V>, k: &str, v: V)
    ensures #[trigger] vstd::std_specs::hash::maps_borrowed_key_to_value::<&'a str, V, str>(m, k, v)
        <==> exists|key: &'a str| #![trigger m.contains_key(key)] m.contains_key(key) && key@ == k@ && m[key] == v
{}

/// a Vec<Symbol> is determined by its elements (trusted; used for HashMap<Vec<Symbol>, _> keys)
#[verifier::external_body]
pub proof fn axiom_vec_symbol_ext(a: Vec<crate::data::Symbol>, b: Vec<crate::data::Symbol>)
    ensures (a@ == b@) <==> (a == b)
{}

/// the names in a set of Strings, as character sequences
pub open spec fn view_set(s: Set<String>) -> Set<Seq<char>> { s.map(|k: String| k@) }
pub proof fn lemma_view_set_insert(s: Set<String>, key: String)
    ensures view_set(s.insert(key)) == view_set(s).insert(key@)
{
    assert forall|a: Seq<char>| view_set(s.insert(key)).contains(a) <==> view_set(s).insert(key@).contains(a) by {
        if view_set(s.insert(key)).contains(a) {
            let k = choose|k: String| s.insert(key).contains(k) && k@ == a;
            if k != key { assert(s.contains(k)); assert(view_set(s).contains(a)); }
        }
        if view_set(s).insert(key@).contains(a) {
            if a == key@ { assert(s.insert(key).contains(key)); assert(view_set(s.insert(key)).contains(a)); }
            else { let k = choose|k: String| s.contains(k) && k@ == a; assert(s.insert(key).contains(k)); assert(view_set(s.insert(key)).contains(a)); }
        }
    }
    assert(view_set(s.insert(key)) =~= view_set(s).insert(key@));
}
/// an injective family of members bounds the size of a finite set from below
pub proof fn lemma_inj_card<A>(s: Set<A>, f: spec_fn(int) -> A, lo: int, hi: int)
    requires s.finite(), lo <= hi,
        forall|j: int| lo <= j < hi ==> s.contains(#[trigger] f(j)),
        forall|j1: int, j2: int| lo <= j1 < j2 < hi ==> #[trigger] f(j1) != #[trigger] f(j2),
    ensures s.len() >= hi - lo
    decreases hi - lo
{
    if lo < hi {
        let x = f(hi - 1);
        let s1 = s.remove(x);
        assert forall|j: int| lo <= j < hi - 1 implies s1.contains(#[trigger] f(j)) by {}
        lemma_inj_card(s1, f, lo, hi - 1);
    }
}

pub broadcast group group_string_keys { axiom_contains_str_key, axiom_maps_str_key_to_value, axiom_set_contains_str_key, axiom_contains_strref_key, axiom_maps_strref_key_to_value }

pub assume_specification<'a, K, V, S, A, Q>[ HashMap::<K, V, S, A>::get_mut::<Q> ](m: &'a mut HashMap<K, V, S, A>, k: &Q) -> (r: Option<&'a mut V>)
    where
        A: std::alloc::Allocator,
        K: std::cmp::Eq + std::hash::Hash + std::borrow::Borrow<Q>,
        Q: std::marker::MetaSized + std::hash::Hash + std::cmp::Eq + ?Sized,
        S: std::hash::BuildHasher,
    ensures
        vstd::std_specs::hash::obeys_key_model::<K>() && vstd::std_specs::hash::builds_valid_hashers::<S>() ==> match r {
            Some(v) => vstd::std_specs::hash::contains_borrowed_key(old(m)@, k)
                && vstd::std_specs::hash::maps_borrowed_key_to_value(old(m)@, k, *v)
                && final(m)@.dom() == old(m)@.dom()
                // exactly the entry that k denotes is replaced by the final value written through the reference
                && (forall|key: K| #[trigger] old(m)@.contains_key(key) ==> final(m)@[key] ==
                        (if key_denoted_by(key, k) { *final(v) } else { old(m)@[key] })),
            None => !vstd::std_specs::hash::contains_borrowed_key(old(m)@, k) && final(m)@ == old(m)@,
        };

/// r lists exactly the entries of m, each once, in an UNSPECIFIED order
pub open spec fn is_map_listing<K, V>(m: Map<K, V>, r: Seq<(K, V)>) -> bool {
    &&& forall|i: int, j: int| 0 <= i < j < r.len() ==> (#[trigger] r[i]).0 != (#[trigger] r[j]).0
    &&& forall|i: int| 0 <= i < r.len() ==> m.contains_key((#[trigger] r[i]).0) && m[r[i].0] == r[i].1
    &&& forall|k: K| m.contains_key(k) ==> exists|i: int| 0 <= i < r.len() && (#[trigger] r[i]).0 == k
}

/// T6: consuming iteration over a HashMap
#[verifier::external_body]
pub fn __vx_hash_listing<K, V>(m: HashMap<K, V>) -> (r: Vec<(K, V)>)
    ensures vstd::std_specs::hash::obeys_key_model::<K>() ==> is_map_listing(m@, r@)
{ m.into_iter().collect() }

pub open spec fn is_set_listing<K>(m: Set<K>, r: Seq<K>) -> bool {
    &&& r.no_duplicates()
    &&& forall|i: int| 0 <= i < r.len() ==> m.contains(#[trigger] r[i])
    &&& forall|k: K| m.contains(k) ==> r.contains(k)
}

/// T6: consuming iteration over a HashSet
#[verifier::external_body]
pub fn __vx_hashset_listing<K>(m: HashSet<K>) -> (r: Vec<K>)
    ensures vstd::std_specs::hash::obeys_key_model::<K>() ==> is_set_listing(m@, r@)
{ m.into_iter().collect() }

} // verus!
} // mod vx_hash
