// Reference lexer for the Kiki language, written from the property statement C08 (direct maximal-munch style,
// not a state machine), over sequences of characters; positions are UTF-8 byte offsets.
pub mod vx_lex {
use vstd::prelude::*;
use vstd::string::*;
use crate::vx_utf8::*;
use crate::data::*;
use crate::data::token::*;
use crate::parser::Token;
verus! {

// ---------- spec-level tokens ----------
pub enum STok {
    Underscore(int), Ident(Seq<char>, int), TerminalIdent(Seq<char>, int), OuterAttribute(Seq<char>, int),
    StartKw(int), StructKw(int), EnumKw(int), TerminalKw(int), Colon(int), DoubleColon(int), Comma(int),
    LParen(int), RParen(int), LCurly(int), RCurly(int), LAngle(int), RAngle(int),
}

pub open spec fn tok_view(t: Token) -> STok {
    match t {
        Token::Underscore(p) => STok::Underscore(p.0 as int),
        Token::Ident(i) => STok::Ident(i.name@, i.position.0 as int),
        Token::TerminalIdent(i) => STok::TerminalIdent(i.name@, i.dollarless_position.0 as int),
        Token::OuterAttribute(a) => STok::OuterAttribute(a.src@, a.position.0 as int),
        Token::StartKw(p) => STok::StartKw(p.0 as int),
        Token::StructKw(p) => STok::StructKw(p.0 as int),
        Token::EnumKw(p) => STok::EnumKw(p.0 as int),
        Token::TerminalKw(p) => STok::TerminalKw(p.0 as int),
        Token::Colon(p) => STok::Colon(p.0 as int),
        Token::DoubleColon(p) => STok::DoubleColon(p.0 as int),
        Token::Comma(p) => STok::Comma(p.0 as int),
        Token::LParen(p) => STok::LParen(p.0 as int),
        Token::RParen(p) => STok::RParen(p.0 as int),
        Token::LCurly(p) => STok::LCurly(p.0 as int),
        Token::RCurly(p) => STok::RCurly(p.0 as int),
        Token::LAngle(p) => STok::LAngle(p.0 as int),
        Token::RAngle(p) => STok::RAngle(p.0 as int),
    }
}

#[verifier::opaque]
pub open spec fn toks_view(v: Seq<Token>) -> Seq<STok> { v.map_values(|t: Token| tok_view(t)) }

pub type LexRes = Result<Seq<STok>, (int, Option<char>)>;

pub open spec fn prepend(t: STok, r: LexRes) -> LexRes {
    match r { Ok(ts) => Ok(seq![t] + ts), Err(e) => Err(e) }
}

/// tokens already produced followed by the result for the rest
pub open spec fn cat(out: Seq<STok>, r: LexRes) -> LexRes {
    match r { Ok(ts) => Ok(out + ts), Err(e) => Err(e) }
}

// ---------- character classes of the statement ----------
pub open spec fn is_ws(c: char) -> bool { vstd::std_specs::char::is_white_space(c) }
pub open spec fn ident_start(c: char) -> bool { is_ascii_alpha(c) || c == '_' }
pub open spec fn ident_cont(c: char) -> bool { is_ascii_alnum(c) || c == '_' }
pub open spec fn is_open(c: char) -> bool { c == '(' || c == '[' || c == '{' }
pub open spec fn is_close(c: char) -> bool { c == ')' || c == ']' || c == '}' }
pub open spec fn kinds_match(o: char, c: char) -> bool {
    (o == '(' && c == ')') || (o == '[' && c == ']') || (o == '{' && c == '}')
}

// ---------- scanning functions ----------
/// first index >= k whose character cannot continue an identifier (or the length)
pub open spec fn ident_end(s: Seq<char>, k: int) -> int
    decreases s.len() - k
{
    if k < 0 || k >= s.len() { s.len() as int } else if ident_cont(s[k]) { ident_end(s, k + 1) } else { k }
}

/// index just after the first '\n' at or after k (or the length): where a `//` comment stops
pub open spec fn skip_comment(s: Seq<char>, k: int) -> int
    decreases s.len() - k
{
    if k < 0 || k >= s.len() { s.len() as int } else if s[k] == '\n' { k + 1 } else { skip_comment(s, k + 1) }
}

/// extent of an attribute by bracket counting: scanning from m at depth n >= 1.
/// Ok(e): e is one past the closer that brings the depth to 0.  Err: a newline inside, or end of input.
pub open spec fn attr_end(s: Seq<char>, m: int, n: int) -> Result<int, (int, Option<char>)>
    decreases s.len() - m
{
    if m < 0 || m >= s.len() { Err((byte_off(s, s.len() as int), None)) }
    else if is_open(s[m]) { attr_end(s, m + 1, n + 1) }
    else if is_close(s[m]) { if n <= 1 { Ok(m + 1) } else { attr_end(s, m + 1, n - 1) } }
    else if s[m] == '\n' { Err((byte_off(s, m), Some('\n'))) }
    else { attr_end(s, m + 1, n) }
}

/// bracket-kind matching over s[i..e) with the stack of currently open brackets:
/// index of the first closer that does not match the innermost open bracket
pub open spec fn kind_mismatch(s: Seq<char>, i: int, e: int, stack: Seq<char>) -> Option<int>
    decreases e - i
{
    if i < 0 || i >= e || i >= s.len() { None }
    else if is_open(s[i]) { kind_mismatch(s, i + 1, e, stack.push(s[i])) }
    else if is_close(s[i]) {
        if stack.len() == 0 { Some(i) }
        else if kinds_match(stack.last(), s[i]) { kind_mismatch(s, i + 1, e, stack.drop_last()) }
        else { Some(i) }
    }
    else { kind_mismatch(s, i + 1, e, stack) }
}

pub open spec fn is_reserved(name: Seq<char>) -> bool {
    name == "_"@ || name == "start"@ || name == "struct"@ || name == "enum"@ || name == "terminal"@
}

pub open spec fn word_tok(name: Seq<char>, p: int) -> STok {
    if name == "_"@ { STok::Underscore(p) }
    else if name == "start"@ { STok::StartKw(p) }
    else if name == "struct"@ { STok::StructKw(p) }
    else if name == "enum"@ { STok::EnumKw(p) }
    else if name == "terminal"@ { STok::TerminalKw(p) }
    else { STok::Ident(name, p) }
}

pub open spec fn punct_tok(c: char, p: int) -> Option<STok> {
    if c == ':' { Some(STok::Colon(p)) }
    else if c == ',' { Some(STok::Comma(p)) }
    else if c == '(' { Some(STok::LParen(p)) }
    else if c == ')' { Some(STok::RParen(p)) }
    else if c == '{' { Some(STok::LCurly(p)) }
    else if c == '}' { Some(STok::RCurly(p)) }
    else if c == '<' { Some(STok::LAngle(p)) }
    else if c == '>' { Some(STok::RAngle(p)) }
    else { None }
}

/// clamp a scan result into (k, len] so that the recursion below is evidently well-founded
/// (lemma_scan_bounds shows the clamp is the identity)
pub open spec fn fwd(s: Seq<char>, k: int, e: int) -> int {
    if e <= k { k + 1 } else if e > s.len() { s.len() as int } else { e }
}

/// The reference lexer: tokens of s from character index k on, or the first lexical error.
#[verifier::opaque]
pub open spec fn lex_from(s: Seq<char>, k: int) -> LexRes
    decreases s.len() - k
{
    if k < 0 || k >= s.len() { Ok(Seq::empty()) }
    else {
        let c = s[k];
        let p = byte_off(s, k);
        if is_ws(c) { lex_from(s, k + 1) }
        else if c == '/' {
            if k + 1 < s.len() && s[k + 1] == '/' { lex_from(s, fwd(s, k, skip_comment(s, k + 2))) }
            else { Err((p, Some('/'))) }
        }
        else if ident_start(c) {
            let e = fwd(s, k, ident_end(s, k + 1));
            prepend(word_tok(s.subrange(k, e), p), lex_from(s, e))
        }
        else if c == '$' {
            if k + 1 < s.len() && ident_start(s[k + 1]) {
                let e = fwd(s, k, ident_end(s, k + 2));
                let name = s.subrange(k + 1, e);
                if is_reserved(name) { Err((byte_off(s, e), if e < s.len() { Some(s[e]) } else { None })) }
                else { prepend(STok::TerminalIdent(name, p + 1), lex_from(s, e)) }
            } else { Err((p, Some('$'))) }
        }
        else if c == ':' {
            if k + 1 < s.len() && s[k + 1] == ':' { prepend(STok::DoubleColon(p), lex_from(s, k + 2)) }
            else { prepend(STok::Colon(p), lex_from(s, k + 1)) }
        }
        else if c == '#' {
            if k + 1 < s.len() && s[k + 1] == '[' {
                match attr_end(s, k + 2, 1) {
                    Err(e) => Err(e),
                    Ok(e0) => {
                        let e = fwd(s, k, e0);
                        match kind_mismatch(s, k + 1, e, Seq::empty()) {
                            Some(i) => Err((byte_off(s, i), Some(s[i]))),
                            None => prepend(STok::OuterAttribute(s.subrange(k, e), p), lex_from(s, e)),
                        }
                    }
                }
            } else { Err((p, Some('#'))) }
        }
        else {
            match punct_tok(c, p) {
                Some(t) => prepend(t, lex_from(s, k + 1)),
                None => Err((p, Some(c))),
            }
        }
    }
}

pub open spec fn ref_lex(s: Seq<char>) -> LexRes { lex_from(s, 0) }

// ---------- token text and position (C09: parse errors quote the offending token exactly) ----------
pub open spec fn stok_text(t: STok) -> Seq<char> {
    match t {
        STok::Underscore(_) => "_"@,
        STok::Ident(n, _) => n,
        STok::TerminalIdent(n, _) => "$"@ + n,
        STok::OuterAttribute(a, _) => a,
        STok::StartKw(_) => "start"@,
        STok::StructKw(_) => "struct"@,
        STok::EnumKw(_) => "enum"@,
        STok::TerminalKw(_) => "terminal"@,
        STok::Colon(_) => ":"@,
        STok::DoubleColon(_) => "::"@,
        STok::Comma(_) => ","@,
        STok::LParen(_) => "("@,
        STok::RParen(_) => ")"@,
        STok::LCurly(_) => "{"@,
        STok::RCurly(_) => "}"@,
        STok::LAngle(_) => "<"@,
        STok::RAngle(_) => ">"@,
    }
}

/// byte offset of the first character of the token
pub open spec fn stok_start(t: STok) -> int {
    match t {
        STok::Underscore(p) => p, STok::Ident(_, p) => p, STok::TerminalIdent(_, p) => p - 1, STok::OuterAttribute(_, p) => p,
        STok::StartKw(p) => p, STok::StructKw(p) => p, STok::EnumKw(p) => p, STok::TerminalKw(p) => p, STok::Colon(p) => p,
        STok::DoubleColon(p) => p, STok::Comma(p) => p, STok::LParen(p) => p, STok::RParen(p) => p, STok::LCurly(p) => p,
        STok::RCurly(p) => p, STok::LAngle(p) => p, STok::RAngle(p) => p,
    }
}

/// the token t occurs in s: its text is s[j..j+|text|) and its position is the byte offset of j
pub open spec fn stok_in_src(s: Seq<char>, t: STok, j: int) -> bool {
    &&& 0 <= j && j + stok_text(t).len() <= s.len()
    &&& stok_start(t) == byte_off(s, j)
    &&& s.subrange(j, j + stok_text(t).len()) == stok_text(t)
}

/// byte lengths of the fixed token texts (all ASCII)
pub proof fn lemma_content_len_literals()
    ensures
        "_".spec_bytes().len() == byte_len("_"@) == 1, "$".spec_bytes().len() == byte_len("$"@) == 1,
        "start".spec_bytes().len() == byte_len("start"@) == 5, "struct".spec_bytes().len() == byte_len("struct"@) == 6,
        "enum".spec_bytes().len() == byte_len("enum"@) == 4, "terminal".spec_bytes().len() == byte_len("terminal"@) == 8,
        ":".spec_bytes().len() == byte_len(":"@) == 1, "::".spec_bytes().len() == byte_len("::"@) == 2,
        ",".spec_bytes().len() == byte_len(","@) == 1, "(".spec_bytes().len() == byte_len("("@) == 1,
        ")".spec_bytes().len() == byte_len(")"@) == 1, "{".spec_bytes().len() == byte_len("{"@) == 1,
        "}".spec_bytes().len() == byte_len("}"@) == 1, "<".spec_bytes().len() == byte_len("<"@) == 1,
        ">".spec_bytes().len() == byte_len(">"@) == 1,
{
    reveal_strlit("_"); reveal_strlit("$"); reveal_strlit("start"); reveal_strlit("struct"); reveal_strlit("enum");
    reveal_strlit("terminal"); reveal_strlit(":"); reveal_strlit("::"); reveal_strlit(","); reveal_strlit("("); reveal_strlit(")");
    reveal_strlit("{"); reveal_strlit("}"); reveal_strlit("<"); reveal_strlit(">");
    lemma_lit_len("_"); lemma_lit_len("$"); lemma_lit_len("start"); lemma_lit_len("struct"); lemma_lit_len("enum");
    lemma_lit_len("terminal"); lemma_lit_len(":"); lemma_lit_len("::"); lemma_lit_len(","); lemma_lit_len("("); lemma_lit_len(")");
    lemma_lit_len("{"); lemma_lit_len("}"); lemma_lit_len("<"); lemma_lit_len(">");
    lemma_ascii_byte_len("_"@, 1); lemma_ascii_byte_len("$"@, 1); lemma_ascii_byte_len("start"@, 5); lemma_ascii_byte_len("struct"@, 6);
    lemma_ascii_byte_len("enum"@, 4); lemma_ascii_byte_len("terminal"@, 8); lemma_ascii_byte_len(":"@, 1); lemma_ascii_byte_len("::"@, 2);
    lemma_ascii_byte_len(","@, 1); lemma_ascii_byte_len("("@, 1); lemma_ascii_byte_len(")"@, 1); lemma_ascii_byte_len("{"@, 1);
    lemma_ascii_byte_len("}"@, 1); lemma_ascii_byte_len("<"@, 1); lemma_ascii_byte_len(">"@, 1);
}

// ---------- scan lemmas ----------
pub proof fn lemma_ident_end_bounds(s: Seq<char>, k: int)
    requires 0 <= k <= s.len()
    ensures k <= ident_end(s, k) <= s.len(),
        forall|m: int| k <= m < ident_end(s, k) ==> ident_cont(#[trigger] s[m]),
        ident_end(s, k) < s.len() ==> !ident_cont(s[ident_end(s, k)]),
    decreases s.len() - k
{
    if k < s.len() && ident_cont(s[k]) { lemma_ident_end_bounds(s, k + 1); }
}

/// if all of s[k..e) continue an identifier and s[e] does not (or e is the end), the scan stops at e
pub proof fn lemma_ident_end_is(s: Seq<char>, k: int, e: int)
    requires 0 <= k <= e <= s.len(),
        forall|m: int| k <= m < e ==> ident_cont(#[trigger] s[m]),
        e < s.len() ==> !ident_cont(s[e]),
    ensures ident_end(s, k) == e
    decreases e - k
{
    if k < e { lemma_ident_end_is(s, k + 1, e); }
}

pub proof fn lemma_skip_comment_bounds(s: Seq<char>, k: int)
    requires 0 <= k <= s.len()
    ensures k <= skip_comment(s, k) <= s.len(), k < s.len() ==> k < skip_comment(s, k)
    decreases s.len() - k
{
    if k < s.len() && s[k] != '\n' { lemma_skip_comment_bounds(s, k + 1); }
}

pub proof fn lemma_attr_end_bounds(s: Seq<char>, m: int, n: int)
    requires 0 <= m <= s.len()
    ensures attr_end(s, m, n) is Ok ==> m < attr_end(s, m, n)->Ok_0 <= s.len()
    decreases s.len() - m
{
    if m < s.len() {
        if is_open(s[m]) { lemma_attr_end_bounds(s, m + 1, n + 1); }
        else if is_close(s[m]) { if n > 1 { lemma_attr_end_bounds(s, m + 1, n - 1); } }
        else if s[m] != '\n' { lemma_attr_end_bounds(s, m + 1, n); }
    }
}

pub proof fn lemma_cat_prepend(out: Seq<STok>, t: STok, r: LexRes)
    ensures cat(out.push(t), r) == cat(out, prepend(t, r))
{
    match r {
        Ok(ts) => { assert(out.push(t) + ts =~= out + (seq![t] + ts)); }
        Err(e) => {}
    }
}

pub proof fn lemma_toks_view_push(v: Seq<Token>, t: Token)
    ensures toks_view(v.push(t)) == toks_view(v).push(tok_view(t))
{
    reveal(toks_view);
    assert(toks_view(v.push(t)) =~= toks_view(v).push(tok_view(t)));
}


// ---------- one-token unfoldings of the reference lexer (used by the state-machine proof) ----------

/// whatever the tokenizer needs to know when it looks at character k in the Main state
pub open spec fn main_facts(s: Seq<char>, out: Seq<STok>, k: int) -> bool {
    let c = s[k];
    let p = byte_off(s, k);
    &&& is_ws(c) ==> ref_lex(s) == cat(out, lex_from(s, k + 1))
    &&& (!is_ws(c) && c != '/' && !ident_start(c) && c != '$' && c != ':' && c != '#') ==>
            match punct_tok(c, p) {
                Some(t) => ref_lex(s) == cat(out.push(t), lex_from(s, k + 1)),
                None => ref_lex(s) == Err::<Seq<STok>, (int, Option<char>)>((p, Some(c))),
            }
}

pub proof fn lemma_lex_main(s: Seq<char>, out: Seq<STok>, k: int)
    requires 0 <= k < s.len(), ref_lex(s) == cat(out, lex_from(s, k))
    ensures main_facts(s, out, k)
{
    reveal(lex_from);
    let c = s[k];
    let p = byte_off(s, k);
    if !is_ws(c) && c != '/' && !ident_start(c) && c != '$' && c != ':' && c != '#' {
        match punct_tok(c, p) {
            Some(t) => { lemma_cat_prepend(out, t, lex_from(s, k + 1)); }
            None => {}
        }
    }
}

pub proof fn lemma_lex_slash(s: Seq<char>, out: Seq<STok>, k: int)
    requires 1 <= k <= s.len(), s[k - 1] == '/', ref_lex(s) == cat(out, lex_from(s, k - 1))
    ensures
        (k < s.len() && s[k] == '/') ==> ref_lex(s) == cat(out, lex_from(s, skip_comment(s, k + 1))),
        (k == s.len() || s[k] != '/') ==> ref_lex(s) == Err::<Seq<STok>, (int, Option<char>)>((byte_off(s, k - 1), Some('/'))),
{
    reveal(lex_from);
    if k < s.len() && s[k] == '/' { lemma_skip_comment_bounds(s, k + 1); }
}

pub proof fn lemma_lex_comment(s: Seq<char>, k: int)
    requires 0 <= k <= s.len()
    ensures
        k < s.len() && s[k] == '\n' ==> skip_comment(s, k) == k + 1,
        k < s.len() && s[k] != '\n' ==> skip_comment(s, k) == skip_comment(s, k + 1),
        k == s.len() ==> skip_comment(s, k) == k,
{
}

pub proof fn lemma_lex_ident(s: Seq<char>, out: Seq<STok>, j: int, k: int)
    requires 0 <= j < k <= s.len(), ident_start(s[j]),
        forall|m: int| j < m < k ==> ident_cont(#[trigger] s[m]),
        k < s.len() ==> !ident_cont(s[k]),
        ref_lex(s) == cat(out, lex_from(s, j)),
    ensures ref_lex(s) == cat(out.push(word_tok(s.subrange(j, k), byte_off(s, j))), lex_from(s, k))
{
    reveal(lex_from);
    lemma_ident_end_is(s, j + 1, k);
    lemma_cat_prepend(out, word_tok(s.subrange(j, k), byte_off(s, j)), lex_from(s, k));
}

pub proof fn lemma_lex_dollar(s: Seq<char>, out: Seq<STok>, k: int)
    requires 1 <= k <= s.len(), s[k - 1] == '$', ref_lex(s) == cat(out, lex_from(s, k - 1)),
        k == s.len() || !ident_start(s[k]),
    ensures ref_lex(s) == Err::<Seq<STok>, (int, Option<char>)>((byte_off(s, k - 1), Some('$')))
{
    reveal(lex_from);
}

pub proof fn lemma_lex_term(s: Seq<char>, out: Seq<STok>, j: int, k: int)
    requires 0 <= j, j + 2 <= k <= s.len(), s[j] == '$', ident_start(s[j + 1]),
        forall|m: int| j + 1 < m < k ==> ident_cont(#[trigger] s[m]),
        k < s.len() ==> !ident_cont(s[k]),
        ref_lex(s) == cat(out, lex_from(s, j)),
    ensures
        is_reserved(s.subrange(j + 1, k)) ==> ref_lex(s) == Err::<Seq<STok>, (int, Option<char>)>(
            (byte_off(s, k), if k < s.len() { Some(s[k]) } else { None })),
        !is_reserved(s.subrange(j + 1, k)) ==> ref_lex(s) == cat(
            out.push(STok::TerminalIdent(s.subrange(j + 1, k), byte_off(s, j) + 1)), lex_from(s, k)),
{
    reveal(lex_from);
    lemma_ident_end_is(s, j + 2, k);
    lemma_cat_prepend(out, STok::TerminalIdent(s.subrange(j + 1, k), byte_off(s, j) + 1), lex_from(s, k));
}

pub proof fn lemma_lex_colon(s: Seq<char>, out: Seq<STok>, k: int)
    requires 1 <= k <= s.len(), s[k - 1] == ':', ref_lex(s) == cat(out, lex_from(s, k - 1))
    ensures
        (k < s.len() && s[k] == ':') ==> ref_lex(s) == cat(out.push(STok::DoubleColon(byte_off(s, k - 1))), lex_from(s, k + 1)),
        (k == s.len() || s[k] != ':') ==> ref_lex(s) == cat(out.push(STok::Colon(byte_off(s, k - 1))), lex_from(s, k)),
{
    reveal(lex_from);
    lemma_cat_prepend(out, STok::DoubleColon(byte_off(s, k - 1)), lex_from(s, k + 1));
    lemma_cat_prepend(out, STok::Colon(byte_off(s, k - 1)), lex_from(s, k));
}

pub proof fn lemma_lex_pound(s: Seq<char>, out: Seq<STok>, k: int)
    requires 1 <= k <= s.len(), s[k - 1] == '#', ref_lex(s) == cat(out, lex_from(s, k - 1)),
        k == s.len() || s[k] != '[',
    ensures ref_lex(s) == Err::<Seq<STok>, (int, Option<char>)>((byte_off(s, k - 1), Some('#')))
{
    reveal(lex_from);
}

/// the attribute that starts at j: what the reference lexer does once its extent is known
pub proof fn lemma_lex_attr(s: Seq<char>, out: Seq<STok>, j: int)
    requires 0 <= j, j + 2 <= s.len(), s[j] == '#', s[j + 1] == '[', ref_lex(s) == cat(out, lex_from(s, j))
    ensures
        match attr_end(s, j + 2, 1) {
            Err(x) => ref_lex(s) == Err::<Seq<STok>, (int, Option<char>)>(x),
            Ok(e) => j + 2 < e <= s.len() && match kind_mismatch(s, j + 1, e, Seq::empty()) {
                Some(i) => ref_lex(s) == Err::<Seq<STok>, (int, Option<char>)>((byte_off(s, i), Some(s[i]))),
                None => ref_lex(s) == cat(out.push(STok::OuterAttribute(s.subrange(j, e), byte_off(s, j))), lex_from(s, e)),
            },
        }
{
    reveal(lex_from);
    lemma_attr_end_bounds(s, j + 2, 1);
    match attr_end(s, j + 2, 1) {
        Err(x) => {}
        Ok(e) => {
            lemma_cat_prepend(out, STok::OuterAttribute(s.subrange(j, e), byte_off(s, j)), lex_from(s, e));
        }
    }
}

/// one step of the bracket-depth scan
pub proof fn lemma_attr_step(s: Seq<char>, k: int, n: int)
    requires 0 <= k < s.len(), n >= 1
    ensures
        is_open(s[k]) ==> attr_end(s, k, n) == attr_end(s, k + 1, n + 1),
        is_close(s[k]) && n == 1 ==> attr_end(s, k, n) == Ok::<int, (int, Option<char>)>(k + 1),
        is_close(s[k]) && n > 1 ==> attr_end(s, k, n) == attr_end(s, k + 1, n - 1),
        s[k] == '\n' ==> attr_end(s, k, n) == Err::<int, (int, Option<char>)>((byte_off(s, k), Some('\n'))),
        !is_open(s[k]) && !is_close(s[k]) && s[k] != '\n' ==> attr_end(s, k, n) == attr_end(s, k + 1, n),
{
}

pub proof fn lemma_attr_eof(s: Seq<char>, n: int)
    ensures attr_end(s, s.len() as int, n) == Err::<int, (int, Option<char>)>((byte_off(s, s.len() as int), None))
{
}

pub proof fn lemma_toks_view_len(v: Seq<Token>)
    ensures toks_view(v).len() == v.len(), forall|i: int| 0 <= i < v.len() ==> #[trigger] toks_view(v)[i] == tok_view(v[i])
{
    reveal(toks_view);
}

/// start and end of lexing
pub proof fn lemma_lex_ends(s: Seq<char>, out: Seq<STok>)
    ensures
        toks_view(Seq::<Token>::empty()) == Seq::<STok>::empty(),
        ref_lex(s) == cat(Seq::<STok>::empty(), lex_from(s, 0)),
        cat(out, lex_from(s, s.len() as int)) == Ok::<Seq<STok>, (int, Option<char>)>(out),
{
    reveal(toks_view); reveal(lex_from);
    assert(toks_view(Seq::<Token>::empty()) =~= Seq::<STok>::empty());
    match lex_from(s, 0) { Ok(ts) => { assert(Seq::<STok>::empty() + ts =~= ts); } Err(e) => {} }
    assert(out + Seq::<STok>::empty() =~= out);
}

/// byte offsets of consecutive characters, and the bound that keeps them inside usize
pub proof fn lemma_off_step(src: &str, k: int)
    requires 0 <= k <= src@.len()
    ensures 0 <= byte_off(src@, k) <= src.spec_bytes().len(),
        byte_off(src@, src@.len() as int) == src.spec_bytes().len(),
        k < src@.len() ==> byte_off(src@, k + 1) == byte_off(src@, k) + src@[k].len_utf8()
            && byte_off(src@, k + 1) <= src.spec_bytes().len() && 1 <= src@[k].len_utf8() <= 4,
{
    lemma_utf8_slice(src, 0, k);
    if k < src@.len() { lemma_utf8_slice(src, k, k + 1); lemma_scalar_len(src@[k]); }
}

} // verus!
} // mod vx_lex
