// C07 / C10 composition: what validation establishes about the syntax tree carries over to the validated file
pub mod vx_link {
use vstd::prelude::*;
use crate::vx_gram::*;
use crate::vx_valid::*;
use crate::vx_chain::*;
use crate::data::*;
use crate::data::ast::{FileItem, Fieldset, IdentOrTerminalIdent, TerminalEnumVariant};
use crate::data::table::*;
use crate::data::validated_file::{Nonterminal, TerminalVariant, term_type};
use crate::pipeline::machine_to_table::{file_terms, file_nts};
use crate::pipeline::validate_ast::validated_view;
use crate::pipeline::validate_ast::terminal_enum::{terminal_def_view, terminal_variant_view};
use crate::pipeline::validate_ast::nonterminals::nt_of_item;
use crate::pipeline::table_to_rust::{file_terms_known, fieldset_terms_known, nt_terms_known};
verus! {

/// the front end hands over terminal names as the lexer made them: without `$` (the lexer's remove_dollars guarantees it for
/// its tokens; parser.rs and cst_to_ast, which only move the names, are not verified)
pub open spec fn dollar_free(ast: crate::data::ast::File) -> bool {
    sel_terminals(ast.items@).len() == 1 ==>
        forall|k: int| 0 <= k < sel_terminals(ast.items@)[0].variants@.len() ==> !(#[trigger] sel_terminals(ast.items@)[0].variants@[k]).name.name@.contains('$')
}

// props: C07 C10
proof fn lemma_filter_id(s: Seq<char>)
    requires !s.contains('$')
    ensures s.filter(|c: char| c != '$') == s
    decreases s.len()
{
    reveal(Seq::filter);
    if s.len() > 0 {
        assert(s.drop_last().len() < s.len());
        assert forall|i: int| 0 <= i < s.drop_last().len() implies s.drop_last()[i] != '$' by { assert(s.drop_last()[i] == s[i]); assert(s.contains(s[i])); }
        assert(!s.drop_last().contains('$')) by {
            if s.drop_last().contains('$') { let i = choose|i: int| 0 <= i < s.drop_last().len() && s.drop_last()[i] == '$'; assert(s[i] == '$'); assert(s.contains('$')); }
        }
        lemma_filter_id(s.drop_last());
        assert(s.last() != '$') by { assert(s.contains(s.last())) by { assert(s[s.len() - 1] == s.last()); } }
        assert(s.drop_last().push(s.last()) =~= s);
    }
}

// props: C07 C10
proof fn lemma_nt_index_some(ns: Seq<Seq<char>>, n: Seq<char>, i: int, k: int)
    requires 0 <= i <= k < ns.len(), ns[k] == n
    ensures nt_index(ns, n, i) is Some
    decreases k - i
{ if ns[i] != n { lemma_nt_index_some(ns, n, i + 1, k); } }

// props: C07 C10
proof fn lemma_term_index_some(ts: Seq<DollarlessTerminalName>, t: DollarlessTerminalName, i: int, k: int)
    requires 0 <= i <= k < ts.len(), ts[k] == t
    ensures term_index(ts, t, i) is Some
    decreases k - i
{ if ts[i] != t { lemma_term_index_some(ts, t, i + 1, k); } }

// props: C07 C10
proof fn lemma_term_type_some(vs: Seq<TerminalVariant>, t: DollarlessTerminalName, i: int, k: int)
    requires 0 <= i <= k < vs.len(), vs[k].dollarless_name == t
    ensures term_type(vs, t, i) is Some
    decreases k - i
{ if vs[i].dollarless_name != t { lemma_term_type_some(vs, t, i + 1, k); } }

/// a reference that validation resolved is a column of the table / a variant of the validated terminal enum
// props: C07 C10
proof fn lemma_ref_known(ast: crate::data::ast::File, v: crate::data::validated_file::File, r: IdentOrTerminalIdent)
    requires file_wf(ast), validated_view(ast, v), dollar_free(ast),
        ref_ok(nt_name_set(ast.items@), term_name_set(sel_terminals(ast.items@)[0].variants@), r)
    ensures sym_known(&v, sym_of(r)),
        r matches IdentOrTerminalIdent::Terminal(t) ==> term_type(v.terminal_enum.variants@, t.name, 0) is Some
{
    let items = ast.items@;
    let te = sel_terminals(items)[0];
    match r {
        IdentOrTerminalIdent::Ident(id) => {
            lemma_nt_name_set(items);
            assert(nt_defined(items, id.name@));
            let i = choose|i: int| 0 <= i < items.len() && item_is_nt(#[trigger] items[i]) && item_name(items[i]).name@ == id.name@;
            lemma_sel_nonterminals_has(items, i);
            let j = choose|j: int| 0 <= j < sel_nonterminals(items).len() && #[trigger] sel_nonterminals(items)[j] == items[i];
            assert(v.nonterminals@[j] == nt_of_item(sel_nonterminals(items)[j]));
            assert(file_nts(&v)[j] == id.name@);
            lemma_nt_index_some(file_nts(&v), id.name@, 0, j);
        }
        IdentOrTerminalIdent::Terminal(t) => {
            lemma_term_name_set(te.variants@);
            assert(vs_has(te.variants@, t.name@));
            let k = choose|k: int| 0 <= k < te.variants@.len() && (#[trigger] te.variants@[k]).name.name@ == t.name@;
            assert(terminal_variant_view(te.variants@[k], v.terminal_enum.variants@[k]));
            lemma_filter_id(te.variants@[k].name.name@);
            assert(v.terminal_enum.variants@[k].dollarless_name@ == t.name@);
            axiom_dtn_ext(v.terminal_enum.variants@[k].dollarless_name, t.name);
            assert(file_terms(&v)[k] == t.name);
            lemma_term_index_some(file_terms(&v), t.name, 0, k);
            lemma_term_type_some(v.terminal_enum.variants@, t.name, 0, k);
        }
    }
}

/// trusted: a DollarlessTerminalName is determined by its characters (it wraps a String; String extensionality)
pub axiom fn axiom_dtn_ext(a: DollarlessTerminalName, b: DollarlessTerminalName)
    requires a@ == b@
    ensures a == b;

/// every fieldset of a validated nonterminal resolves
// props: C07 C10
proof fn lemma_fieldset_known(ast: crate::data::ast::File, v: crate::data::validated_file::File, j: int, fs: Fieldset)
    requires file_wf(ast), validated_view(ast, v), dollar_free(ast), 0 <= j < v.nonterminals@.len(), nt_has_fieldset(v.nonterminals@[j], fs)
    ensures forall|i: int| 0 <= i < fieldset_idents(fs).len() ==> sym_known(&v, sym_of(#[trigger] fieldset_idents(fs)[i])),
        fieldset_terms_known(&v, fs)
{
    let items = ast.items@;
    let nts = nt_name_set(items);
    let terms = term_name_set(sel_terminals(items)[0].variants@);
    lemma_sel_nonterminals_in(items, j);
    let i0 = choose|i: int| 0 <= i < items.len() && item_is_nt(#[trigger] items[i]) && items[i] == sel_nonterminals(items)[j];
    assert(v.nonterminals@[j] == nt_of_item(sel_nonterminals(items)[j]));
    assert(nonterminal_ok(nts, terms, items[i0]));
    assert(fieldset_ok(nts, terms, fs)) by {
        match items[i0] {
            FileItem::Struct(s) => {}
            FileItem::Enum(e) => { let k = choose|k: int| 0 <= k < e.variants@.len() && (#[trigger] e.variants@[k]).fieldset == fs; }
            _ => {}
        }
    }
    assert forall|i: int| 0 <= i < fieldset_idents(fs).len() implies sym_known(&v, sym_of(#[trigger] fieldset_idents(fs)[i]))
        && (fieldset_idents(fs)[i] matches IdentOrTerminalIdent::Terminal(t) ==> term_type(v.terminal_enum.variants@, t.name, 0) is Some) by {
        lemma_ref_known(ast, v, fieldset_idents(fs)[i]);
    }
}

/// THE link: a validated form of a well-formed, dollar-free tree has all its symbols as table columns and all field terminals declared
// props: C07 C10
pub proof fn lemma_validated_syms_known(ast: crate::data::ast::File, v: crate::data::validated_file::File)
    requires file_wf(ast), validated_view(ast, v), dollar_free(ast)
    ensures syms_known(&v), file_terms_known(&v)
{
    let items = ast.items@;
    let g = file_rules(&v);
    axiom_file_rules_fieldsets(&v);
    // the start symbol
    assert(nt_defined(items, v.start@));
    let i = choose|i: int| 0 <= i < items.len() && item_is_nt(#[trigger] items[i]) && item_name(items[i]).name@ == v.start@;
    lemma_sel_nonterminals_has(items, i);
    let j = choose|j: int| 0 <= j < sel_nonterminals(items).len() && #[trigger] sel_nonterminals(items)[j] == items[i];
    assert(v.nonterminals@[j] == nt_of_item(sel_nonterminals(items)[j]));
    assert(file_nts(&v)[j] == v.start@);
    lemma_nt_index_some(file_nts(&v), v.start@, 0, j);
    // the rules
    assert forall|ri: int, p: int| 0 <= ri < g.len() && 0 <= p < rule_rhs(g[ri]).len() implies sym_known(&v, #[trigger] rule_rhs(g[ri])[p]) by {
        let jj = choose|jj: int| 0 <= jj < v.nonterminals@.len() && nt_has_fieldset(#[trigger] v.nonterminals@[jj], *g[ri].fieldset);
        lemma_fieldset_known(ast, v, jj, *g[ri].fieldset);
        assert(rule_rhs(g[ri])[p] == sym_of(fieldset_idents(*g[ri].fieldset)[p]));
    }
    // the fields
    assert forall|jj: int| 0 <= jj < v.nonterminals@.len() implies nt_terms_known(&v, #[trigger] v.nonterminals@[jj]) by {
        match v.nonterminals@[jj] {
            Nonterminal::Struct(s) => { lemma_fieldset_known(ast, v, jj, s.fieldset); }
            Nonterminal::Enum(e) => {
                assert forall|k: int| 0 <= k < e.variants@.len() implies fieldset_terms_known(&v, (#[trigger] e.variants@[k]).fieldset) by {
                    lemma_fieldset_known(ast, v, jj, e.variants@[k].fieldset);
                }
            }
        }
    }
}

} // verus!
} // mod vx_link
