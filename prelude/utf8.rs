// UTF-8 byte offsets of character positions, derived from vstd::utf8 (no axiom), and assumed char/str contracts.
pub mod vx_utf8 {
use vstd::prelude::*;
use vstd::utf8::*;
use vstd::string::*;
verus! {

/// byte offset of the k-th character of s
pub open spec fn byte_off(s: Seq<char>, k: int) -> int
    decreases k
{
    if k <= 0 { 0 } else { byte_off(s, k - 1) + s[k - 1].len_utf8() as int }
}

pub proof fn lemma_scalar_len(c: char)
    ensures encode_scalar(c as u32).len() == c.len_utf8(), 1 <= c.len_utf8() <= 4
{
}

pub proof fn lemma_off_is_prefix_len(s: Seq<char>, k: int)
    requires 0 <= k <= s.len()
    ensures byte_off(s, k) == encode_utf8(s.subrange(0, k)).len()
    decreases k
{
    if k > 0 {
        lemma_off_is_prefix_len(s, k - 1);
        lemma_scalar_len(s[k - 1]);
        encode_utf8_push(s.subrange(0, k - 1), s[k - 1]);
        assert(s.subrange(0, k) =~= s.subrange(0, k - 1).push(s[k - 1]));
    } else {
        assert(s.subrange(0, 0) =~= Seq::<char>::empty());
    }
}

pub proof fn lemma_boundary_concat(a: Seq<char>, b: Seq<char>)
    ensures is_char_boundary(encode_utf8(a + b), encode_utf8(a).len() as int)
    decreases a.len()
{
    encode_utf8_concat(a, b);
    encode_utf8_valid_utf8(a + b);
    if a.len() == 0 {
        assert(encode_utf8(a).len() == 0);
    } else {
        let s = a + b;
        let a1 = a.drop_first();
        assert(s.drop_first() =~= a1 + b);
        lemma_boundary_concat(a1, b);
        encode_utf8_first_scalar(s);
        lemma_scalar_len(a[0]);
        assert(s[0] == a[0]);
        let l = encode_scalar(a[0] as u32).len() as int;
        assert(encode_utf8(a).len() == l + encode_utf8(a1).len());
        encode_utf8_concat(a1, b);
        assert(encode_utf8(s) =~= encode_scalar(a[0] as u32) + encode_utf8(a1 + b));
        assert(length_of_first_scalar(encode_utf8(s)) == l);
        assert(pop_first_scalar(encode_utf8(s)) =~= encode_utf8(a1 + b));
        encode_utf8_valid_utf8(s);
        encode_utf8_valid_utf8(a1 + b);
        let idx = encode_utf8(a).len() as int;
        assert(idx == l + encode_utf8(a1).len());
        assert(idx >= 1);
        assert(idx <= encode_utf8(s).len());
        assert(is_char_boundary(encode_utf8(a1 + b), encode_utf8(a1).len() as int));
        assert(is_char_boundary(encode_utf8(s), idx) == is_char_boundary(pop_first_scalar(encode_utf8(s)), idx - length_of_first_scalar(encode_utf8(s))));
    }
}

/// everything the three source slices of the lexer need
pub proof fn lemma_utf8_slice(s: &str, i: int, j: int)
    requires 0 <= i <= j <= s@.len()
    ensures
        0 <= byte_off(s@, i) <= byte_off(s@, j) <= s.spec_bytes().len(),
        is_char_boundary(s.spec_bytes(), byte_off(s@, i)),
        is_char_boundary(s.spec_bytes(), byte_off(s@, j)),
        s.spec_bytes().subrange(byte_off(s@, i), byte_off(s@, j)) == encode_utf8(s@.subrange(i, j)),
        byte_off(s@, s@.len() as int) == s.spec_bytes().len(),
{
    let c = s@;
    let a = c.subrange(0, i); let m = c.subrange(i, j); let z = c.subrange(j, c.len() as int);
    assert(c =~= a + (m + z));
    assert(c =~= (a + m) + z);
    assert(c.subrange(0, j) =~= a + m);
    lemma_off_is_prefix_len(c, i);
    lemma_off_is_prefix_len(c, j);
    lemma_off_is_prefix_len(c, c.len() as int);
    assert(c.subrange(0, c.len() as int) =~= c);
    encode_utf8_concat(a, m + z);
    encode_utf8_concat(a + m, z);
    encode_utf8_concat(a, m);
    encode_utf8_concat(m, z);
    lemma_boundary_concat(a, m + z);
    lemma_boundary_concat(a + m, z);
    assert(s.spec_bytes() == encode_utf8(c));
    assert(encode_utf8(c).subrange(encode_utf8(a).len() as int, encode_utf8(a + m).len() as int) =~= encode_utf8(m));
}

pub proof fn lemma_view_of_slice(r: &str, t: Seq<char>)
    requires r.spec_bytes() == encode_utf8(t)
    ensures r@ == t
{
    encode_utf8_decode_utf8(t);
    encode_utf8_decode_utf8(r@);
}

/// offsets are strictly increasing (every character occupies at least one byte)
pub proof fn lemma_off_mono(s: Seq<char>, i: int, j: int)
    requires 0 <= i <= j
    ensures byte_off(s, i) + (j - i) <= byte_off(s, j), 0 <= byte_off(s, i)
    decreases j
{
    if i < j { lemma_off_mono(s, i, j - 1); lemma_scalar_len(s[j - 1]); }
    else if i > 0 { lemma_off_mono(s, 0, i - 1); lemma_off_mono(s, i - 1, i - 1); lemma_scalar_len(s[i - 1]); }
}

pub proof fn lemma_off_inj(s: Seq<char>, i: int, j: int)
    requires 0 <= i, 0 <= j, byte_off(s, i) == byte_off(s, j)
    ensures i == j
{
    if i < j { lemma_off_mono(s, i, j); } else if j < i { lemma_off_mono(s, j, i); }
}

/// the character index whose byte offset is b (inverse of byte_off on character boundaries)
pub open spec fn kof(s: Seq<char>, b: int) -> int {
    choose|k: int| 0 <= k <= s.len() && byte_off(s, k) == b
}

pub proof fn lemma_kof(s: Seq<char>, k: int)
    requires 0 <= k <= s.len()
    ensures kof(s, byte_off(s, k)) == k
{
    let k2 = kof(s, byte_off(s, k));
    lemma_off_inj(s, k, k2);
}

/// offsets inside a subrange are relative offsets
pub proof fn lemma_off_subrange(s: Seq<char>, a: int, b: int, i: int)
    requires 0 <= a <= b <= s.len(), 0 <= i <= b - a
    ensures byte_off(s.subrange(a, b), i) == byte_off(s, a + i) - byte_off(s, a)
    decreases i
{
    if i > 0 { lemma_off_subrange(s, a, b, i - 1); assert(s.subrange(a, b)[i - 1] == s[a + i - 1]); }
}

/// number of UTF-8 bytes of a character sequence
pub open spec fn byte_len(t: Seq<char>) -> int { byte_off(t, t.len() as int) }

pub proof fn lemma_byte_len_is_encode_len(t: Seq<char>)
    ensures byte_len(t) == encode_utf8(t).len()
{
    lemma_off_is_prefix_len(t, t.len() as int);
    assert(t.subrange(0, t.len() as int) =~= t);
}

/// byte length of a string slice in terms of its characters (used for literals such as "[".len())
pub proof fn lemma_lit_len(l: &str)
    ensures l.spec_bytes().len() == byte_len(l@)
{
    lemma_utf8_slice(l, 0, l@.len() as int);
}

pub proof fn lemma_byte_len_concat(a: Seq<char>, b: Seq<char>)
    ensures byte_len(a + b) == byte_len(a) + byte_len(b)
{
    lemma_byte_len_is_encode_len(a + b); lemma_byte_len_is_encode_len(a); lemma_byte_len_is_encode_len(b);
    encode_utf8_concat(a, b);
}

/// an all-ASCII sequence occupies one byte per character
pub proof fn lemma_ascii_byte_len(t: Seq<char>, n: int)
    requires 0 <= n <= t.len(), forall|i: int| 0 <= i < n ==> (#[trigger] t[i] as u32) < 128
    ensures byte_off(t, n) == n
    decreases n
{
    if n > 0 { lemma_ascii_byte_len(t, n - 1); assert((t[n - 1] as u32) < 128); }
}

// ---------- char classes ----------
pub open spec fn is_ascii_alpha(c: char) -> bool { ('a' <= c && c <= 'z') || ('A' <= c && c <= 'Z') }
pub open spec fn is_ascii_digit(c: char) -> bool { '0' <= c && c <= '9' }
pub open spec fn is_ascii_alnum(c: char) -> bool { is_ascii_alpha(c) || is_ascii_digit(c) }
pub open spec fn is_ascii_upper(c: char) -> bool { 'A' <= c && c <= 'Z' }
pub open spec fn is_ascii_lower(c: char) -> bool { 'a' <= c && c <= 'z' }

// ---------- assumed std contracts (trusted) ----------
pub assume_specification[ char::is_ascii_alphabetic ](c: &char) -> (b: bool)
    ensures b == is_ascii_alpha(*c);
pub assume_specification[ char::is_ascii_alphanumeric ](c: &char) -> (b: bool)
    ensures b == is_ascii_alnum(*c);
pub assume_specification[ char::is_ascii_uppercase ](c: &char) -> (b: bool)
    ensures b == is_ascii_upper(*c);
pub assume_specification[ char::is_ascii_lowercase ](c: &char) -> (b: bool)
    ensures b == is_ascii_lower(*c);

// contracts of neighbouring char predicates, so that an edit that swaps one in is decided rather than unsupported
pub open spec fn is_ascii_ws(c: char) -> bool { c == ' ' || c == '\t' || c == '\n' || c == '\x0C' || c == '\r' }
pub uninterp spec fn unicode_alphabetic(c: char) -> bool;
pub uninterp spec fn unicode_numeric(c: char) -> bool;
pub uninterp spec fn unicode_uppercase(c: char) -> bool;
pub uninterp spec fn unicode_lowercase(c: char) -> bool;
pub assume_specification[ char::is_ascii_whitespace ](c: &char) -> (b: bool)
    ensures b == is_ascii_ws(*c);
pub assume_specification[ char::is_ascii_digit ](c: &char) -> (b: bool)
    ensures b == is_ascii_digit(*c);
pub assume_specification[ char::is_alphabetic ](c: char) -> (b: bool)
    ensures b == unicode_alphabetic(c), (c as u32) < 128 ==> b == is_ascii_alpha(c);
pub assume_specification[ char::is_alphanumeric ](c: char) -> (b: bool)
    ensures b == (unicode_alphabetic(c) || unicode_numeric(c)), (c as u32) < 128 ==> b == is_ascii_alnum(c);
pub assume_specification[ char::is_numeric ](c: char) -> (b: bool)
    ensures b == unicode_numeric(c), (c as u32) < 128 ==> b == is_ascii_digit(c);
pub assume_specification[ char::is_uppercase ](c: char) -> (b: bool)
    ensures b == unicode_uppercase(c), (c as u32) < 128 ==> b == is_ascii_upper(c);
pub assume_specification[ char::is_lowercase ](c: char) -> (b: bool)
    ensures b == unicode_lowercase(c), (c as u32) < 128 ==> b == is_ascii_lower(c);

/// assumed std contract: counting the characters of a string
pub assume_specification<'a>[ <std::str::Chars<'a> as Iterator>::count ](it: std::str::Chars<'a>) -> (r: usize)
    ensures r == vstd::std_specs::iter::IteratorSpec::remaining(&it).len();
pub assume_specification[ String::len ](s: &String) -> (r: usize)
    ensures r as int == byte_len(s@);

pub assume_specification[ std::num::NonZero::<usize>::saturating_add ](n: std::num::NonZero<usize>, k: usize) -> (r: std::num::NonZero<usize>)
    ensures r@ as int == (if n@ as int + k as int > usize::MAX as int { usize::MAX as int } else { n@ as int + k as int });

/// every Rust string slice is at most isize::MAX bytes long (language guarantee; trusted)
#[verifier::external_body]
pub proof fn axiom_str_len_fits_usize(s: &str)
    ensures s.spec_bytes().len() <= usize::MAX
{}

/// a string slice is determined by its characters (trusted: spec equality on &str, which Verus uses for
/// string-literal patterns in `match`, coincides with equality of the character sequences)
#[verifier::external_body]
pub proof fn axiom_str_ext(a: &str, b: &str)
    ensures (a@ == b@) <==> (a == b)
{}

/// `&s[range]` on str: vstd specifies `SliceIndex<str>::index` for ranges and the precondition of `Index::index`,
/// but gives `<str as Index<I>>::index` no postcondition; it forwards to SliceIndex::index (as std implements it).
pub assume_specification<I: core::slice::SliceIndex<str>>[ <str as core::ops::Index<I>>::index ](s: &str, index: I) -> (output: &<I as core::slice::SliceIndex<str>>::Output)
    ensures call_ensures(core::slice::SliceIndex::<str>::index, (index, s), output);

/// a slice has at most usize::MAX elements (language guarantee; trusted)
#[verifier::external_body]
pub proof fn axiom_slice_len_fits<T>(s: &[T])
    ensures s@.len() <= usize::MAX
{}

/// T4: `str::char_indices` as a vector of (byte offset, char)
#[verifier::external_body]
pub fn __vx_char_indices(s: &str) -> (r: Vec<(usize, char)>)
    ensures r@.len() == s@.len(),
        forall|k: int| 0 <= k < r@.len() ==> (#[trigger] r@[k]).0 as int == byte_off(s@, k) && r@[k].1 == s@[k],
{ s.char_indices().collect() }

/// trusted: `a.eq(&b)` on characters is `a == b` (std: impl PartialEq for char; vstd leaves the method form open)
pub broadcast axiom fn axiom_char_eq_obeys()
    ensures #[trigger] <char as vstd::std_specs::cmp::PartialEqSpec<char>>::obeys_eq_spec();
pub broadcast axiom fn axiom_char_eq(a: &char, b: &char)
    ensures #[trigger] <char as vstd::std_specs::cmp::PartialEqSpec<char>>::eq_spec(a, b) == (*a == *b);
pub broadcast group group_char_eq { axiom_char_eq_obeys, axiom_char_eq }
} // verus!
} // mod vx_utf8
