// C07 / C04 composition: the automaton C17 delivers satisfies what machine_to_table needs (spec-level chain lemma)
pub mod vx_chain {
use vstd::prelude::*;
use crate::vx_gram::*;
use crate::vx_ord::*;
use crate::data::*;
use crate::data::machine::*;
use crate::data::table::*;
use crate::data::validated_file::*;
use crate::pipeline::machine_to_table::*;
use crate::pipeline::validated_ast_to_machine::{is_lalr_of, file_gram};
use crate::pipeline::normalize_machine::{is_renumbering, renumbered};
use crate::pipeline::sort_and_get_index_updater::hit;
verus! {

broadcast use crate::vx_ordax::group_lawful;

/// every symbol of every right-hand side, and the start symbol, is a column of the table
/// (for a validated file this is what C10's file_wf gives: referenced names are defined; not mechanised across get_rules)
pub open spec fn syms_known(file: &File) -> bool {
    let g = file_rules(file);
    &&& nt_index(file_nts(file), file.start@, 0) is Some
    &&& forall|ri: int, i: int| 0 <= ri < g.len() && 0 <= i < rule_rhs(g[ri]).len() ==> sym_known(file, #[trigger] rule_rhs(g[ri])[i])
}
pub open spec fn sym_known(file: &File, x: Symbol) -> bool {
    match x {
        Symbol::Terminal(t) => term_index(file_terms(file), t, 0) is Some,
        Symbol::Nonterminal(n) => nt_index(file_nts(file), n@, 0) is Some,
    }
}
/// the table dimensions fit the machine word (C07's quantifier bounds the input; the bound itself cannot be derived from a text)
pub open spec fn sizes_fit(file: &File, m: Machine) -> bool {
    m.states.seq().len() * (file_terms(file).len() + 1) <= usize::MAX && m.states.seq().len() * file_nts(file).len() <= usize::MAX
        && file_terms(file).len() + 1 <= usize::MAX
}

pub open spec fn origin_of(pi: Seq<usize>, ms: Seq<State>, states: Seq<State>, j: int) -> bool {
    exists|s: int| 0 <= s < states.len() && #[trigger] pi[s] == j && ms[j] == states[s]
}
pub open spec fn image_of(pi: Seq<usize>, tr: Set<Transition>, t: Transition) -> bool {
    exists|t0: Transition| #[trigger] tr.contains(t0) && t == renumbered(pi, t0)
}
pub open spec fn la_ok(g: Seq<Rule>, la: Lookahead) -> bool {
    la matches Lookahead::Terminal(t) ==> all_syms(g).contains(Symbol::Terminal(t))
}

/// a terminal of FIRST(suffix of a right-hand side) occurs in a right-hand side
// props: C07 C04 C11 C17
proof fn lemma_seq_first_known(gr: Gram, it: StateItem, t: DollarlessTerminalName)
    requires after_dot(gr, it) is Some, seq_in_first(gr.g, rhs_from(gr, it, it.dot + 1), t)
    ensures all_syms(gr.g).contains(Symbol::Terminal(t))
{
    let g = gr.g;
    let rest = rhs_from(gr, it, it.dot + 1);
    let fa = fa_lfp(g);
    let p = choose|p: int| 0 <= p < rest.len() && fa_prefix_nullable(fa, rest, p)
        && ((#[trigger] rest[p]) == Symbol::Terminal(t) || (rest[p] is Nonterminal && (fa.fst)(sym_name(rest[p]), t)));
    match it.rule_index {
        RuleIndex::Original(ri) => {
            let r = rule_rhs(g[ri as int]);
            assert(rest[p] == r[it.dot + 1 + p]);
            if rest[p] == Symbol::Terminal(t) { lemma_all_syms_has(g, ri as int, it.dot + 1 + p); }
            else {
                assert(in_first(g, sym_name(rest[p]), t));
                let n = choose|n: nat| first_n(g, n, sym_name(rest[p]), t);
                lemma_first_n_in_syms(g, n, sym_name(rest[p]), t);
            }
        }
        RuleIndex::Augmented => { assert(rest.len() == 0); }
    }
}

/// every justified item carries a lookahead that is the end of input or a terminal of the grammar
// props: C07 C04 C11 C17
proof fn lemma_lookahead_known(gr: Gram, tr: Set<Transition>, n: nat, s: int, x: StateItem)
    requires lalr_reach(gr, tr, n, s, x)
    ensures la_ok(gr.g, x.lookahead)
    decreases n
{
    if n > 0 {
        let m = (n - 1) as nat;
        if lalr_reach(gr, tr, m, s, x) { lemma_lookahead_known(gr, tr, m, s, x); }
        else if exists|i: StateItem| lalr_reach(gr, tr, m, s, i) && #[trigger] closure_step(gr, i, x) {
            let i = choose|i: StateItem| lalr_reach(gr, tr, m, s, i) && #[trigger] closure_step(gr, i, x);
            lemma_lookahead_known(gr, tr, m, s, i);
            if let Lookahead::Terminal(t) = x.lookahead {
                if seq_in_first(gr.g, rhs_from(gr, i, i.dot + 1), t) { lemma_seq_first_known(gr, i, t); }
            }
        } else {
            let (t, i) = choose|t: Transition, i: StateItem| #![trigger tr.contains(t), advanced(i)] tr.contains(t) && t.to.0 == s
                && lalr_reach(gr, tr, m, t.from.0 as int, i) && after_dot(gr, i) == Some(t.symbol) && x == advanced(i);
            lemma_lookahead_known(gr, tr, m, t.from.0 as int, i);
        }
    }
}

/// shift_dest finds a transition when one exists, and its result is the target of a listed transition
// props: C07 C04 C11 C17
proof fn lemma_shift_dest_some(ts: Seq<Transition>, start: StateIndex, t: DollarlessTerminalName, i: int, k: int)
    requires 0 <= i <= k < ts.len(), ts[k].from == start, ts[k].symbol == Symbol::Terminal(t)
    ensures shift_dest(ts, start, t, i) matches Some(d) && exists|k2: int| i <= k2 < ts.len() && #[trigger] ts[k2].to == d && ts[k2].from == start
    decreases k - i
{
    if !(ts[i].from == start && ts[i].symbol == Symbol::Terminal(t)) { lemma_shift_dest_some(ts, start, t, i + 1, k); }
    else { assert(ts[i].to == ts[i].to); }
}

/// a symbol after a dot of an item with a well-formed rule index is a known symbol
// props: C07 C04 C11 C17
proof fn lemma_after_dot_known(file: &File, it: StateItem, x: Symbol)
    requires syms_known(file), after_dot(file_gram(file), it) == Some(x)
    ensures sym_known(file, x)
{
    let g = file_rules(file);
    match it.rule_index {
        RuleIndex::Original(ri) => { assert(sym_known(file, rule_rhs(g[ri as int])[it.dot as int])); }
        RuleIndex::Augmented => {}
    }
}

/// THE chain: the LALR(1) automaton of a file whose symbols are all known, with dimensions that fit, is what machine_to_table requires
// props: C07 C04 C11 C17
pub proof fn lemma_lalr_machine_ok(file: &File, m: Machine)
    requires is_lalr_of(file, m), syms_known(file), sizes_fit(file, m)
    ensures machine_ok(file_rules(file), &m, file_terms(file), file_nts(file))
{
    let gr = file_gram(file);
    let g = file_rules(file);
    let terms = file_terms(file);
    let nts = file_nts(file);
    let (states, tr, pi) = choose|states: Seq<State>, tr: Set<Transition>, pi: Seq<usize>|
        #![trigger is_renumbering(pi, states, tr, m)]
        machine_is_lalr(gr, states.map_values(|st: State| st.items@), tr)
        && (forall|s: int| 0 <= s < states.len() ==> (#[trigger] states[s]).items.wf())
        && (forall|s: int, x: StateItem| 0 <= s < states.len() && #[trigger] states[s].items@.contains(x) ==> item_wf(gr, x))
        && is_renumbering(pi, states, tr, m);
    let its = states.map_values(|st: State| st.items@);
    let n = states.len() as int;
    let ms = m.states.seq();
    let mt = m.transitions.seq();
    assert(ms.len() == n);
    // every state of m is a state of the construction
    assert forall|j: int| 0 <= j < n implies #[trigger] origin_of(pi, ms, states, j) by {
        assert(hit(pi, j));
        let s = choose|s: int| 0 <= s < pi.len() && #[trigger] pi[s] == j;
    }
    // every transition of m is the image of a transition of the construction
    assert forall|i: int| 0 <= i < mt.len() implies #[trigger] image_of(pi, tr, mt[i]) by {
        assert(m.transitions@.contains(mt[i]));
    }
    // conjunct 2 and 3
    assert forall|j: int, k: int| #![trigger items_of(&m, j)[k]] 0 <= j < n && 0 <= k < items_of(&m, j).len() implies
        item_ok(g, items_of(&m, j)[k])
        && (demanded(g, &m, StateIndex(j as usize), &items_of(&m, j)[k]) matches Some(d) ==> qcol(terms, d.0) is Some)
        && (sym_after_dot(g, items_of(&m, j)[k]) matches Some(Symbol::Terminal(t)) ==>
                shift_dest(mt, StateIndex(j as usize), t, 0) matches Some(d) && d.0 < n) by {
        let it = items_of(&m, j)[k];
        assert(origin_of(pi, ms, states, j));
        let s = choose|s: int| 0 <= s < states.len() && #[trigger] pi[s] == j && ms[j] == states[s];
        assert(states[s].items@.contains(it)) by { assert(states[s].items.seq()[k] == it); }
        assert(its[s].contains(it));
        assert(item_wf(gr, it));
        assert(lalr_in(gr, tr, s, it));
        let nn = choose|nn: nat| lalr_reach(gr, tr, nn, s, it);
        lemma_lookahead_known(gr, tr, nn, s, it);
        match it.rule_index {
            RuleIndex::Augmented => {}
            RuleIndex::Original(ri) => {
                let rhs = rule_rhs(g[ri as int]);
                if it.dot == rhs.len() {
                    if let Lookahead::Terminal(t) = it.lookahead {
                        let p = choose|p: int| 0 <= p < all_syms(g).len() && all_syms(g)[p] == Symbol::Terminal(t);
                        lemma_all_syms_sym_known(file, p);
                    }
                } else {
                    assert(sym_known(file, rhs[it.dot as int]));
                    if let IdentOrTerminalIdent::Terminal(t) = fieldset_idents(*g[ri as int].fieldset)[it.dot as int] {
                        assert(rhs[it.dot as int] == Symbol::Terminal(t.name));
                        // a transition on t leaves state s, hence its image leaves state j
                        assert(has_after(gr, it, Symbol::Terminal(t.name)));
                        assert(crate::vx_gram::processed(gr, its, tr, s));
                        let t0 = choose|t0: Transition| #[trigger] tr.contains(t0) && t0.from.0 == s && t0.symbol == Symbol::Terminal(t.name) && its[t0.to.0 as int].contains(advanced(it));
                        let t1 = renumbered(pi, t0);
                        assert(m.transitions@.contains(t1));
                        let kk = choose|kk: int| 0 <= kk < mt.len() && mt[kk] == t1;
                        assert(StateIndex(pi[s]) == StateIndex(j as usize));
                        lemma_shift_dest_some(mt, StateIndex(j as usize), t.name, 0, kk);
                        let d = shift_dest(mt, StateIndex(j as usize), t.name, 0)->Some_0;
                        let k2 = choose|k2: int| 0 <= k2 < mt.len() && #[trigger] mt[k2].to == d && mt[k2].from == StateIndex(j as usize);
                        assert(image_of(pi, tr, mt[k2]));
                        let t2 = choose|t2: Transition| #[trigger] tr.contains(t2) && mt[k2] == renumbered(pi, t2);
                        assert(t2.to.0 < n);
                    }
                }
            }
        }
    }
    assert(m.start.0 == pi[0] && pi[0] < n);
    // conjunct 4: transitions in range, nonterminal symbols known
    assert forall|i: int| 0 <= i < mt.len() implies (#[trigger] mt[i]).from.0 < n && mt[i].to.0 < n
        && (mt[i].symbol matches Symbol::Nonterminal(nm) ==> nt_index(nts, nm@, 0) is Some) by {
        assert(image_of(pi, tr, mt[i]));
        let t0 = choose|t0: Transition| #[trigger] tr.contains(t0) && mt[i] == renumbered(pi, t0);
        assert(goto_core_ok(gr, its, t0));
        let it = choose|it: StateItem| its[t0.from.0 as int].contains(it) && #[trigger] has_after(gr, it, t0.symbol);
        lemma_after_dot_known(file, it, t0.symbol);
    }
    // conjunct 5: at most one transition per (state, nonterminal)
    assert forall|i: int, j: int| 0 <= i < j < mt.len() implies
        !((#[trigger] mt[i]).from == (#[trigger] mt[j]).from && mt[i].symbol is Nonterminal && mt[j].symbol is Nonterminal
          && mt[i].symbol->Nonterminal_0@ == mt[j].symbol->Nonterminal_0@) by {
        if mt[i].from == mt[j].from && mt[i].symbol is Nonterminal && mt[j].symbol is Nonterminal
            && mt[i].symbol->Nonterminal_0@ == mt[j].symbol->Nonterminal_0@ {
            assert(image_of(pi, tr, mt[i]) && image_of(pi, tr, mt[j]));
            let a = choose|t0: Transition| #[trigger] tr.contains(t0) && mt[i] == renumbered(pi, t0);
            let b = choose|t0: Transition| #[trigger] tr.contains(t0) && mt[j] == renumbered(pi, t0);
            crate::vx_hash::axiom_string_ext(mt[i].symbol->Nonterminal_0, mt[j].symbol->Nonterminal_0);
            assert(a.symbol == b.symbol);
            assert(a.from == b.from) by { if a.from.0 != b.from.0 { assert(pi[a.from.0 as int] != pi[b.from.0 as int]); } }
            assert(a.to == b.to);
            assert(mt[i] == mt[j]);
            lemma_lt_props::<Transition>();
            assert(lt(mt[i], mt[j]));
        }
    }
}

/// the p-th right-hand-side symbol of the grammar is a known symbol
// props: C07 C04 C11 C17
proof fn lemma_all_syms_sym_known(file: &File, p: int)
    requires syms_known(file), 0 <= p < all_syms(file_rules(file)).len()
    ensures sym_known(file, all_syms(file_rules(file))[p])
{
    lemma_all_syms_origin(file_rules(file), p);
    let g = file_rules(file);
    let (ri, i) = choose|ri: int, i: int| 0 <= ri < g.len() && 0 <= i < rule_rhs(g[ri]).len() && all_syms(g)[p] == #[trigger] rule_rhs(g[ri])[i];
}
// props: C07 C04 C11 C17
proof fn lemma_all_syms_origin(g: Seq<Rule>, p: int)
    requires 0 <= p < all_syms(g).len()
    ensures exists|ri: int, i: int| 0 <= ri < g.len() && 0 <= i < rule_rhs(g[ri]).len() && all_syms(g)[p] == #[trigger] rule_rhs(g[ri])[i]
    decreases g.len()
{
    let pre = all_syms(g.drop_last());
    if p < pre.len() {
        lemma_all_syms_origin(g.drop_last(), p);
        let (ri, i) = choose|ri: int, i: int| 0 <= ri < g.drop_last().len() && 0 <= i < rule_rhs(g.drop_last()[ri]).len() && pre[p] == #[trigger] rule_rhs(g.drop_last()[ri])[i];
        assert(g[ri] == g.drop_last()[ri]);
        assert(all_syms(g)[p] == rule_rhs(g[ri])[i]);
    } else {
        let ri = g.len() - 1;
        assert(g.last() == g[ri]);
        assert(all_syms(g)[p] == rule_rhs(g[ri])[p - pre.len()]);
    }
}

} // verus!
} // mod vx_chain
