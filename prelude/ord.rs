// Ghost vocabulary and assumed std contracts for ordered sequences (used by data/oset.rs).
pub mod vx_ord {
use vstd::prelude::*;
use vstd::std_specs::cmp::*;
use vstd::std_specs::iter::*;
use core::cmp::Ordering;
verus! {

// ---------- ghost vocabulary ----------
pub open spec fn lawful<T: Ord>() -> bool {
    &&& vstd::laws_cmp::obeys_cmp::<T>()
    &&& forall|a: T, b: T| #[trigger] a.cmp_spec(&b) == Ordering::Equal <==> a == b
}

pub open spec fn lt<T: Ord>(a: T, b: T) -> bool {
    a.cmp_spec(&b) == Ordering::Less
}

pub open spec fn strictly_sorted<T: Ord>(s: Seq<T>) -> bool {
    forall|i: int, j: int| 0 <= i < j < s.len() ==> lt(#[trigger] s[i], #[trigger] s[j])
}

pub open spec fn sorted_le<T: Ord>(s: Seq<T>) -> bool {
    forall|i: int, j: int| 0 <= i < j < s.len() ==> lt(#[trigger] s[i], #[trigger] s[j]) || s[i] == s[j]
}

pub open spec fn yielded<T, I: IntoIterator<Item = T>>(i: I) -> Seq<T> {
    vstd::std_specs::iter::into_iter_remaining::<T, I>(i)
}

pub open spec fn subseq_via<T>(d: Seq<T>, s: Seq<T>, f: Seq<int>) -> bool {
    &&& f.len() == d.len()
    &&& forall|i: int, j: int| 0 <= i < j < f.len() ==> 0 <= #[trigger] f[i] < #[trigger] f[j] < s.len()
    &&& forall|i: int| 0 <= i < f.len() ==> 0 <= #[trigger] f[i] < s.len() && d[i] == s[f[i]]
}

pub proof fn lemma_lt_props<T: Ord>()
    requires lawful::<T>()
    ensures
        forall|a: T, b: T| #[trigger] lt(a, b) ==> a != b && !lt(b, a),
        forall|a: T, b: T, c: T| #[trigger] lt(a, b) && #[trigger] lt(b, c) ==> lt(a, c),
        forall|a: T, b: T| a != b ==> #[trigger] lt(a, b) || lt(b, a),
{
    reveal(vstd::laws_cmp::obeys_cmp_ord);
    reveal(vstd::laws_cmp::obeys_cmp_partial_ord);
    reveal(vstd::laws_cmp::obeys_partial_cmp_spec_properties);
    assert(vstd::laws_cmp::obeys_cmp_ord::<T>());
    assert(vstd::laws_cmp::obeys_partial_cmp_spec_properties::<T>());
    assert forall|a: T, b: T| #[trigger] lt(a, b) implies a != b && !lt(b, a) by {
        assert(a.partial_cmp_spec(&b) == Some(a.cmp_spec(&b)));
        assert(b.partial_cmp_spec(&a) == Some(b.cmp_spec(&a)));
    }
    assert forall|a: T, b: T, c: T| #[trigger] lt(a, b) && #[trigger] lt(b, c) implies lt(a, c) by {
        assert(a.partial_cmp_spec(&b) == Some(a.cmp_spec(&b)));
        assert(b.partial_cmp_spec(&c) == Some(b.cmp_spec(&c)));
        assert(a.partial_cmp_spec(&c) == Some(a.cmp_spec(&c)));
    }
    assert forall|a: T, b: T| a != b implies #[trigger] lt(a, b) || lt(b, a) by {
        assert(a.partial_cmp_spec(&b) == Some(a.cmp_spec(&b)));
        assert(b.partial_cmp_spec(&a) == Some(b.cmp_spec(&a)));
    }
}

// strictly sorted sequences with the same element set are equal
pub proof fn lemma_sorted_ext<T: Ord>(a: Seq<T>, b: Seq<T>)
    requires lawful::<T>(), strictly_sorted(a), strictly_sorted(b), a.to_set() == b.to_set()
    ensures a == b
    decreases a.len()
{
    lemma_lt_props::<T>();
    broadcast use vstd::seq_lib::group_seq_properties;
    if a.len() == 0 {
        if b.len() > 0 { assert(b.to_set().contains(b[0])); assert(a.to_set().contains(b[0])); }
        assert(a =~= b);
    } else if b.len() == 0 {
        assert(a.to_set().contains(a[0])); assert(b.to_set().contains(a[0]));
    } else {
        let la = a.last(); let lb = b.last();
        assert(a.to_set().contains(la)); assert(b.to_set().contains(la));
        assert(b.to_set().contains(lb)); assert(a.to_set().contains(lb));
        let ia = choose|i: int| 0 <= i < b.len() && b[i] == la;
        let ib = choose|i: int| 0 <= i < a.len() && a[i] == lb;
        assert(la == lb) by {
            if la != lb {
                if ia < b.len() - 1 { assert(lt(b[ia], b[b.len() - 1])); }
                if ib < a.len() - 1 { assert(lt(a[ib], a[a.len() - 1])); }
            }
        }
        let a1 = a.drop_last(); let b1 = b.drop_last();
        assert(a1.to_set() =~= b1.to_set()) by {
            assert forall|x: T| a1.to_set().contains(x) <==> b1.to_set().contains(x) by {
                if a1.to_set().contains(x) {
                    let i = choose|i: int| 0 <= i < a1.len() && a1[i] == x;
                    assert(a[i] == x); assert(lt(a[i], a[a.len() - 1]));
                    assert(a.to_set().contains(x)); assert(b.to_set().contains(x));
                    let j = choose|j: int| 0 <= j < b.len() && b[j] == x;
                    assert(j < b.len() - 1);
                    assert(b1[j] == x);
                }
                if b1.to_set().contains(x) {
                    let i = choose|i: int| 0 <= i < b1.len() && b1[i] == x;
                    assert(b[i] == x); assert(lt(b[i], b[b.len() - 1]));
                    assert(b.to_set().contains(x)); assert(a.to_set().contains(x));
                    let j = choose|j: int| 0 <= j < a.len() && a[j] == x;
                    assert(j < a.len() - 1);
                    assert(a1[j] == x);
                }
            }
        }
        lemma_sorted_ext(a1, b1);
        assert(a =~= a1.push(la)); assert(b =~= b1.push(lb));
    }
}

pub proof fn lemma_multiset_eq_set_eq<T>(a: Seq<T>, b: Seq<T>)
    requires a.to_multiset() == b.to_multiset()
    ensures a.to_set() == b.to_set()
{
    broadcast use vstd::seq_lib::group_to_multiset_ensures;
    assert forall|x: T| a.to_set().contains(x) <==> b.to_set().contains(x) by {
        a.to_multiset_ensures(); b.to_multiset_ensures();
        assert(a.contains(x) <==> a.to_multiset().count(x) > 0);
        assert(b.contains(x) <==> b.to_multiset().count(x) > 0);
    }
    assert(a.to_set() =~= b.to_set());
}

pub proof fn lemma_sorted_le_dedup_strict<T: Ord>(s: Seq<T>, d: Seq<T>, f: Seq<int>)
    requires lawful::<T>(), sorted_le(s),
        subseq_via(d, s, f),
        forall|i: int| 0 <= i < d.len() - 1 ==> #[trigger] d[i] != d[i + 1],
    ensures strictly_sorted(d)
{
    lemma_lt_props::<T>();
    assert forall|i: int, j: int| 0 <= i < j < d.len() implies lt(#[trigger] d[i], #[trigger] d[j]) by {
        assert(lt(s[f[i]], s[f[i + 1]]) || s[f[i]] == s[f[i + 1]]);
        assert(d[i] != d[i + 1]);
        assert(lt(d[i], d[i + 1]));
        if i + 1 < j {
            assert(lt(s[f[i + 1]], s[f[j]]) || s[f[i + 1]] == s[f[j]]);
        }
    }
}

// a strictly sorted sequence has no duplicates (each element is yielded exactly once)
pub proof fn lemma_strictly_sorted_no_dup<T: Ord>(s: Seq<T>)
    requires lawful::<T>(), strictly_sorted(s)
    ensures s.no_duplicates()
{
    lemma_lt_props::<T>();
    assert forall|i: int, j: int| 0 <= i < s.len() && 0 <= j < s.len() && i != j implies s[i] != s[j] by {
        if i < j { assert(lt(s[i], s[j])); } else { assert(lt(s[j], s[i])); }
    }
}

// ---------- assumed std contracts (trusted) ----------
pub assume_specification<T: Ord>[ <[T]>::binary_search ](s: &[T], x: &T) -> (r: Result<usize, usize>)
    requires lawful::<T>(), strictly_sorted(s@),
    ensures
        match r {
            Ok(i) => i < s@.len() && s@[i as int] == *x,
            Err(i) => i <= s@.len()
                && (forall|k: int| 0 <= k < i ==> lt(#[trigger] s@[k], *x))
                && (forall|k: int| i <= k < s@.len() ==> lt(*x, #[trigger] s@[k])),
        };

pub assume_specification<T: Ord>[ <[T]>::sort ](s: &mut [T])
    ensures lawful::<T>() ==> sorted_le(final(s)@) && final(s)@.to_multiset() == old(s)@.to_multiset();

pub assume_specification<T: Ord>[ <[T]>::sort_unstable ](s: &mut [T])
    ensures lawful::<T>() ==> sorted_le(final(s)@) && final(s)@.to_multiset() == old(s)@.to_multiset();

pub assume_specification<T: PartialEq, A: std::alloc::Allocator>[ Vec::<T, A>::dedup ](v: &mut Vec<T, A>)
    ensures
        final(v)@.to_set() == old(v)@.to_set(),
        forall|i: int| 0 <= i < final(v)@.len() - 1 ==> #[trigger] final(v)@[i] != final(v)@[i + 1],
        exists|f: Seq<int>| #[trigger] subseq_via(final(v)@, old(v)@, f);

/// meaning of vstd's (uninterpreted) `into_iter_remaining` for a Vec passed by value: its elements in order (trusted bridge)
#[verifier::external_body]
pub broadcast proof fn axiom_yielded_vec<T>(v: Vec<T>)
    ensures #[trigger] yielded::<T, Vec<T>>(v) == v@
{}

pub assume_specification<T, const N: usize>[ <std::collections::VecDeque<T> as From<[T; N]>>::from ](arr: [T; N]) -> (r: std::collections::VecDeque<T>)
    ensures r@ == arr@;

pub assume_specification<T: Clone>[ <T as ToOwned>::to_owned ](x: &T) -> (r: T)
    ensures call_ensures(<T as Clone>::clone, (x,), r);

#[verifier::external_body]
pub fn __vx_collect<T, I: IntoIterator<Item = T>>(i: I) -> (r: Vec<T>)
    ensures r@ == yielded::<T, I>(i)
{ i.into_iter().collect() }

#[verifier::external_body]
pub fn __vx_extend<T, I: IntoIterator<Item = T>>(v: &mut Vec<T>, i: I)
    ensures final(v)@ == old(v)@ + yielded::<T, I>(i)
{ v.extend(i) }

// ---------- generic adapter helpers: std semantics trusted, the closure stays kiki's (live, verified) text ----------
/// the Some-results of g over s, in order
pub open spec fn filter_map_spec<T, U>(s: Seq<T>, g: spec_fn(T) -> Option<U>) -> Seq<U>
    decreases s.len()
{
    if s.len() == 0 { Seq::empty() }
    else { let r = filter_map_spec(s.drop_last(), g); match g(s.last()) { Some(u) => r.push(u), None => r } }
}
pub proof fn lemma_filter_map_contains<T, U>(s: Seq<T>, g: spec_fn(T) -> Option<U>, u: U)
    ensures filter_map_spec(s, g).contains(u) <==> exists|i: int| 0 <= i < s.len() && g(#[trigger] s[i]) == Some(u)
    decreases s.len()
{
    if s.len() > 0 {
        let pre = s.drop_last();
        let n1 = s.len() - 1;
        lemma_filter_map_contains(pre, g, u);
        let r = filter_map_spec(pre, g);
        assert(s.last() == s[n1]);
        if filter_map_spec(s, g).contains(u) {
            if r.contains(u) {
                let i = choose|i: int| 0 <= i < pre.len() && g(#[trigger] pre[i]) == Some(u);
                assert(s[i] == pre[i]);
            } else {
                let k = choose|k: int| 0 <= k < filter_map_spec(s, g).len() && filter_map_spec(s, g)[k] == u;
                assert(g(s[n1]) == Some(u)) by { if g(s.last()) is Some { if k < r.len() { assert(r[k] == u); } } }
            }
        }
        if exists|i: int| 0 <= i < s.len() && g(#[trigger] s[i]) == Some(u) {
            let i = choose|i: int| 0 <= i < s.len() && g(#[trigger] s[i]) == Some(u);
            if i < n1 { assert(pre[i] == s[i]); assert(r.contains(u)); let k = choose|k: int| 0 <= k < r.len() && r[k] == u; assert(filter_map_spec(s, g)[k] == u); }
            else { assert(filter_map_spec(s, g)[r.len() as int] == u); }
        }
    }
}
/// the first Some-result of g over s from index i on
pub open spec fn find_map_spec<T, U>(s: Seq<T>, g: spec_fn(T) -> Option<U>, i: int) -> Option<U>
    decreases s.len() - i
{
    if i < 0 || i >= s.len() { None } else if g(s[i]) is Some { g(s[i]) } else { find_map_spec(s, g, i + 1) }
}
/// T18 (trusted std semantics): `s.iter().find_map(f)`, for every spec function g that describes f's results
#[verifier::external_body]
pub fn __vx_find_map<'a, T, U, F: Fn(&'a T) -> Option<U>>(s: &'a [T], f: F) -> (r: Option<U>)
    requires forall|i: int| 0 <= i < s@.len() ==> call_requires(f, (&#[trigger] s@[i],)),
    ensures forall|g: spec_fn(T) -> Option<U>|
        (forall|i: int, o: Option<U>| 0 <= i < s@.len() && #[trigger] call_ensures(f, (&s@[i],), o) ==> o == g(s@[i]))
        ==> r == #[trigger] find_map_spec(s@, g, 0)
{ s.iter().find_map(f) }
/// the first Some-result of g over (index, element) pairs from index i on
pub open spec fn enum_find_map_spec<T, U>(s: Seq<T>, g: spec_fn(int, T) -> Option<U>, i: int) -> Option<U>
    decreases s.len() - i
{
    if i < 0 || i >= s.len() { None } else if g(i, s[i]) is Some { g(i, s[i]) } else { enum_find_map_spec(s, g, i + 1) }
}
/// T18 (trusted std semantics): `s.iter().enumerate().find_map(f)`, for every spec function g that describes f's results
#[verifier::external_body]
pub fn __vx_enumerate_find_map<'a, T, U, F: Fn((usize, &'a T)) -> Option<U>>(s: &'a [T], f: F) -> (r: Option<U>)
    requires forall|i: int| 0 <= i < s@.len() ==> call_requires(f, ((i as usize, &#[trigger] s@[i]),)),
    ensures forall|g: spec_fn(int, T) -> Option<U>|
        (forall|i: int, o: Option<U>| 0 <= i < s@.len() && #[trigger] call_ensures(f, ((i as usize, &s@[i]),), o) ==> o == g(i, s@[i]))
        ==> r == #[trigger] enum_find_map_spec(s@, g, 0)
{ s.iter().enumerate().find_map(f) }
/// the first index >= i at which p holds
pub open spec fn position_spec<T>(s: Seq<T>, p: spec_fn(T) -> bool, i: int) -> Option<int>
    decreases s.len() - i
{
    if i < 0 || i >= s.len() { None } else if p(s[i]) { Some(i) } else { position_spec(s, p, i + 1) }
}
/// T18 (trusted std semantics): `s.iter().position(f)`, for every spec predicate p that describes f's results
#[verifier::external_body]
pub fn __vx_position<'a, T, F: Fn(&'a T) -> bool>(s: &'a [T], f: F) -> (r: Option<usize>)
    requires forall|i: int| 0 <= i < s@.len() ==> call_requires(f, (&#[trigger] s@[i],)),
    ensures forall|p: spec_fn(T) -> bool|
        (forall|i: int, o: bool| 0 <= i < s@.len() && #[trigger] call_ensures(f, (&s@[i],), o) ==> o == p(s@[i]))
        ==> (match r { Some(k) => Some(k as int), None => None }) == #[trigger] position_spec(s@, p, 0)
{ s.iter().position(f) }
/// T18 (trusted std semantics): `s.iter().filter_map(f).collect::<Vec<_>>()`, for every spec function g that describes f's results
#[verifier::external_body]
pub fn __vx_filter_map_collect<'a, T, U, F: Fn(&'a T) -> Option<U>>(s: &'a [T], f: F) -> (r: Vec<U>)
    requires forall|i: int| 0 <= i < s@.len() ==> call_requires(f, (&#[trigger] s@[i],)),
    ensures forall|g: spec_fn(T) -> Option<U>|
        (forall|i: int, o: Option<U>| 0 <= i < s@.len() && #[trigger] call_ensures(f, (&s@[i],), o) ==> o == g(s@[i]))
        ==> r@ == #[trigger] filter_map_spec(s@, g),
        // the same through a view w of the results (e.g. Strings seen as character sequences)
        forall|w: spec_fn(U) -> Seq<char>, g: spec_fn(T) -> Option<Seq<char>>| #![trigger r@.map_values(w), filter_map_spec(s@, g)]
        (forall|i: int, o: Option<U>| 0 <= i < s@.len() && #[trigger] call_ensures(f, (&s@[i],), o) ==> opt_map(o, w) == g(s@[i]))
        ==> r@.map_values(w) == filter_map_spec(s@, g)
{ s.iter().filter_map(f).collect() }
pub open spec fn opt_map<U, W>(o: Option<U>, w: spec_fn(U) -> W) -> Option<W> { match o { Some(x) => Some(w(x)), None => None } }

/// assumed std contract: Option::filter keeps the value iff the predicate holds for it
pub assume_specification<T, P: FnOnce(&T) -> bool>[ Option::<T>::filter::<P> ](o: Option<T>, p: P) -> (r: Option<T>)
    requires o matches Some(x) ==> call_requires(p, (&x,)),
    ensures o is None ==> r is None,
            o matches Some(x) ==> (call_ensures(p, (&x,), true) && r == Some(x)) || (call_ensures(p, (&x,), false) && r is None);

pub open spec fn __vx_yields_ok<'a, T, U, E, F: Fn(&'a T) -> Result<U, E>>(f: F, x: &'a T) -> bool {
    exists|u: U| call_ensures(f, (x,), Ok::<U, E>(u))
}
/// T16 (trusted std semantics): `s.iter().map(f).collect::<Result<Vec<_>, _>>()` applies f to the elements in order and
/// yields all results, or the first error
#[verifier::external_body]
pub fn __vx_try_map_collect<'a, T, U, E, F: Fn(&'a T) -> Result<U, E>>(s: &'a [T], f: F) -> (r: Result<Vec<U>, E>)
    requires forall|i: int| 0 <= i < s@.len() ==> call_requires(f, (&#[trigger] s@[i],)),
    ensures match r {
        Ok(v) => v@.len() == s@.len() && forall|i: int| 0 <= i < s@.len() ==> call_ensures(f, (&#[trigger] s@[i],), Ok(v@[i])),
        Err(e) => exists|k: int| 0 <= k < s@.len() && call_ensures(f, (&#[trigger] s@[k],), Err(e))
            && forall|i: int| 0 <= i < k ==> __vx_yields_ok(f, &#[trigger] s@[i]),
    }
{ s.iter().map(f).collect::<Result<Vec<_>, _>>() }

} // verus!
} // mod vx_ord
