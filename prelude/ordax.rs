// T8 (trusted): the derived (lexicographic) Ord of the data types, and std's Ord on &str, are lawful total orders
// consistent with ==.  These are the element types of the ordered sets used by the pipeline.
pub mod vx_ordax {
use vstd::prelude::*;
use crate::vx_ord::*;
use crate::data::*;
use crate::data::machine::*;
verus! {
#[verifier::external_body]
pub broadcast proof fn axiom_lawful_terminal_name() ensures #[trigger] lawful::<DollarlessTerminalName>() {}
#[verifier::external_body]
pub broadcast proof fn axiom_lawful_symbol() ensures #[trigger] lawful::<Symbol>() {}
#[verifier::external_body]
pub broadcast proof fn axiom_lawful_state_item() ensures #[trigger] lawful::<StateItem>() {}
#[verifier::external_body]
pub broadcast proof fn axiom_lawful_lookahead() ensures #[trigger] lawful::<Lookahead>() {}
#[verifier::external_body]
pub broadcast proof fn axiom_lawful_state() ensures #[trigger] lawful::<State>() {}
#[verifier::external_body]
pub broadcast proof fn axiom_lawful_transition() ensures #[trigger] lawful::<Transition>() {}
#[verifier::external_body]
pub broadcast proof fn axiom_lawful_str<'a>() ensures #[trigger] lawful::<&'a str>() {}
pub broadcast group group_lawful {
    axiom_lawful_terminal_name, axiom_lawful_symbol, axiom_lawful_state_item, axiom_lawful_lookahead,
    axiom_lawful_state, axiom_lawful_transition, axiom_lawful_str,
}
} // verus!
} // mod vx_ordax
