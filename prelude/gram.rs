// Grammar view of the validated file and of parser items (shared by units first, lalr, table).
pub mod vx_gram {
use vstd::prelude::*;
use crate::data::*;
use crate::data::ast::*;
use crate::data::validated_file::*;
use crate::data::machine::*;
use crate::data::table::*;
verus! {

/// the grammar symbol a field refers to
pub open spec fn sym_of(i: IdentOrTerminalIdent) -> Symbol {
    match i {
        IdentOrTerminalIdent::Ident(id) => Symbol::Nonterminal(id.name),
        IdentOrTerminalIdent::Terminal(t) => Symbol::Terminal(t.name),
    }
}

pub open spec fn tuple_field_sym(f: TupleField) -> IdentOrTerminalIdent {
    match f { TupleField::Used(s) => s, TupleField::Skipped(s) => s }
}

/// the symbol identifiers of a fieldset, in declaration order (`_` fields included)
pub open spec fn fieldset_idents(fs: Fieldset) -> Seq<IdentOrTerminalIdent> {
    match fs {
        Fieldset::Empty => Seq::empty(),
        Fieldset::Named(n) => n.fields@.map_values(|f: NamedField| f.symbol),
        Fieldset::Tuple(t) => t.fields@.map_values(|f: TupleField| tuple_field_sym(f)),
    }
}

/// right-hand side of the production of a fieldset
pub open spec fn fieldset_syms(fs: Fieldset) -> Seq<Symbol> {
    fieldset_idents(fs).map_values(|i: IdentOrTerminalIdent| sym_of(i))
}

pub open spec fn rule_rhs(r: Rule) -> Seq<Symbol> { fieldset_syms(*r.fieldset) }

pub open spec fn cn_type_name(c: ConstructorName) -> Seq<char> {
    match c {
        ConstructorName::Struct(name) => name@,
        ConstructorName::EnumVariant { enum_name, variant_name } => enum_name@,
    }
}

/// left-hand side (nonterminal name) of a rule
pub open spec fn rule_lhs(r: Rule) -> Seq<char> { cn_type_name(r.constructor_name) }

/// pointwise equality of assignments
pub open spec fn fa_eq(x: FA, y: FA) -> bool {
    &&& forall|a: Seq<char>| #[trigger] (x.nul)(a) == (y.nul)(a)
    &&& forall|a: Seq<char>, t: DollarlessTerminalName| #[trigger] (x.fst)(a, t) == (y.fst)(a, t)
}

/// name of a nonterminal declaration
pub open spec fn nt_name(nt: Nonterminal) -> Seq<char> {
    match nt { Nonterminal::Struct(s) => s.name.name@, Nonterminal::Enum(e) => e.name.name@ }
}

/// an item refers to an existing rule and its dot is inside the right-hand side
pub open spec fn item_ok(rules: Seq<Rule>, it: StateItem) -> bool {
    match it.rule_index {
        RuleIndex::Original(ri) => ri < rules.len() && it.dot <= rule_rhs(rules[ri as int]).len(),
        RuleIndex::Augmented => it.dot <= 1,
    }
}

/// symbol after the dot of an original-rule item (None at the end)
pub open spec fn sym_after_dot(rules: Seq<Rule>, it: StateItem) -> Option<Symbol> {
    match it.rule_index {
        RuleIndex::Original(ri) =>
            if ri < rules.len() && it.dot < rule_rhs(rules[ri as int]).len() { Some(rule_rhs(rules[ri as int])[it.dot as int]) } else { None },
        RuleIndex::Augmented => None,
    }
}


// =====================================================================================================
// FIRST / nullable: least fixpoint of the textbook equations, as Kleene iterates from the empty assignment
// =====================================================================================================

pub open spec fn sym_name(s: Symbol) -> Seq<char> { s->Nonterminal_0@ }

/// every symbol of syms[0..i) is a nonterminal that is nullable at level n
pub open spec fn prefix_nullable_n(g: Seq<Rule>, n: nat, syms: Seq<Symbol>, i: int) -> bool
    decreases n, 1nat
{
    forall|j: int| 0 <= j < i && j < syms.len() ==> (#[trigger] syms[j]) is Nonterminal && nullable_n(g, n, sym_name(syms[j]))
}

/// A is nullable at level n: some rule A -> X1..Xk with all Xi nullable at level n-1
pub open spec fn nullable_n(g: Seq<Rule>, n: nat, a: Seq<char>) -> bool
    decreases n, 0nat
{
    n > 0 && exists|ri: int| 0 <= ri < g.len() && rule_lhs(#[trigger] g[ri]) == a
        && prefix_nullable_n(g, (n - 1) as nat, rule_rhs(g[ri]), rule_rhs(g[ri]).len() as int)
}

/// t is in FIRST_n of the symbol sequence: some position i contributes t and everything before it is nullable
pub open spec fn seq_first_n(g: Seq<Rule>, n: nat, syms: Seq<Symbol>, t: DollarlessTerminalName) -> bool
    decreases n, 1nat
{
    exists|i: int| 0 <= i < syms.len() && prefix_nullable_n(g, n, syms, i)
        && ((#[trigger] syms[i]) == Symbol::Terminal(t) || (syms[i] is Nonterminal && first_n(g, n, sym_name(syms[i]), t)))
}

pub open spec fn first_n(g: Seq<Rule>, n: nat, a: Seq<char>, t: DollarlessTerminalName) -> bool
    decreases n, 0nat
{
    n > 0 && exists|ri: int| 0 <= ri < g.len() && rule_lhs(#[trigger] g[ri]) == a && seq_first_n(g, (n - 1) as nat, rule_rhs(g[ri]), t)
}

/// t is in FIRST(A)
pub open spec fn in_first(g: Seq<Rule>, a: Seq<char>, t: DollarlessTerminalName) -> bool { exists|n: nat| first_n(g, n, a, t) }
/// A derives the empty string
pub open spec fn nullable(g: Seq<Rule>, a: Seq<char>) -> bool { exists|n: nat| nullable_n(g, n, a) }

/// an assignment of (terminal set, nullable flag) to nonterminal names
pub struct FA {
    pub fst: spec_fn(Seq<char>, DollarlessTerminalName) -> bool,
    pub nul: spec_fn(Seq<char>) -> bool,
}

pub open spec fn fa_prefix_nullable(fa: FA, syms: Seq<Symbol>, i: int) -> bool {
    forall|j: int| 0 <= j < i && j < syms.len() ==> (#[trigger] syms[j]) is Nonterminal && (fa.nul)(sym_name(syms[j]))
}

/// FIRST of a symbol sequence under an assignment
pub open spec fn fa_seq_first(fa: FA, syms: Seq<Symbol>, t: DollarlessTerminalName) -> bool {
    exists|i: int| 0 <= i < syms.len() && fa_prefix_nullable(fa, syms, i)
        && ((#[trigger] syms[i]) == Symbol::Terminal(t) || (syms[i] is Nonterminal && (fa.fst)(sym_name(syms[i]), t)))
}

pub open spec fn fa_seq_nullable(fa: FA, syms: Seq<Symbol>) -> bool { fa_prefix_nullable(fa, syms, syms.len() as int) }

/// the assignment is closed under the equations (a pre-fixpoint)
pub open spec fn fa_closed(g: Seq<Rule>, fa: FA) -> bool {
    forall|ri: int| 0 <= ri < g.len() ==> {
        &&& fa_seq_nullable(fa, rule_rhs(#[trigger] g[ri])) ==> (fa.nul)(rule_lhs(g[ri]))
        &&& forall|t: DollarlessTerminalName| fa_seq_first(fa, rule_rhs(g[ri]), t) ==> #[trigger] (fa.fst)(rule_lhs(g[ri]), t)
    }
}

/// the assignment claims nothing beyond the least fixpoint
pub open spec fn fa_sound(g: Seq<Rule>, fa: FA) -> bool {
    &&& forall|a: Seq<char>| #[trigger] (fa.nul)(a) ==> nullable(g, a)
    &&& forall|a: Seq<char>, t: DollarlessTerminalName| #[trigger] (fa.fst)(a, t) ==> in_first(g, a, t)
}

/// the least fixpoint itself
pub open spec fn fa_lfp(g: Seq<Rule>) -> FA {
    FA { fst: |a: Seq<char>, t: DollarlessTerminalName| in_first(g, a, t), nul: |a: Seq<char>| nullable(g, a) }
}

/// FIRST of a sentential form / its nullability (w.r.t. the least fixpoint)
pub open spec fn seq_in_first(g: Seq<Rule>, syms: Seq<Symbol>, t: DollarlessTerminalName) -> bool { fa_seq_first(fa_lfp(g), syms, t) }
pub open spec fn seq_nullable(g: Seq<Rule>, syms: Seq<Symbol>) -> bool { fa_seq_nullable(fa_lfp(g), syms) }

/// unfolding helpers (the level predicates are mutually recursive, so they unfold only on request)
pub proof fn lemma_prefix_nullable_n_unfold(g: Seq<Rule>, n: nat, syms: Seq<Symbol>, i: int)
    ensures prefix_nullable_n(g, n, syms, i) <==>
        (forall|j: int| 0 <= j < i && j < syms.len() ==> (#[trigger] syms[j]) is Nonterminal && nullable_n(g, n, sym_name(syms[j])))
{
}

pub proof fn lemma_levels_monotone(g: Seq<Rule>, n: nat)
    ensures
        forall|a: Seq<char>| #[trigger] nullable_n(g, n, a) ==> nullable_n(g, n + 1, a),
        forall|a: Seq<char>, t: DollarlessTerminalName| #[trigger] first_n(g, n, a, t) ==> first_n(g, n + 1, a, t),
    decreases n
{
    if n > 0 {
        lemma_levels_monotone(g, (n - 1) as nat);
        assert forall|a: Seq<char>| #[trigger] nullable_n(g, n, a) implies nullable_n(g, n + 1, a) by {
            let ri = choose|ri: int| 0 <= ri < g.len() && rule_lhs(#[trigger] g[ri]) == a
                && prefix_nullable_n(g, (n - 1) as nat, rule_rhs(g[ri]), rule_rhs(g[ri]).len() as int);
            lemma_prefix_nullable_n_unfold(g, (n - 1) as nat, rule_rhs(g[ri]), rule_rhs(g[ri]).len() as int);
            lemma_prefix_nullable_n_unfold(g, n, rule_rhs(g[ri]), rule_rhs(g[ri]).len() as int);
            assert(prefix_nullable_n(g, n, rule_rhs(g[ri]), rule_rhs(g[ri]).len() as int));
        }
        assert forall|a: Seq<char>, t: DollarlessTerminalName| #[trigger] first_n(g, n, a, t) implies first_n(g, n + 1, a, t) by {
            let ri = choose|ri: int| 0 <= ri < g.len() && rule_lhs(#[trigger] g[ri]) == a && seq_first_n(g, (n - 1) as nat, rule_rhs(g[ri]), t);
            let syms = rule_rhs(g[ri]);
            let i = choose|i: int| 0 <= i < syms.len() && prefix_nullable_n(g, (n - 1) as nat, syms, i)
                && ((#[trigger] syms[i]) == Symbol::Terminal(t) || (syms[i] is Nonterminal && first_n(g, (n - 1) as nat, sym_name(syms[i]), t)));
            lemma_prefix_nullable_n_unfold(g, (n - 1) as nat, syms, i);
            lemma_prefix_nullable_n_unfold(g, n, syms, i);
            assert(prefix_nullable_n(g, n, syms, i));
            assert(seq_first_n(g, n, syms, t));
        }
    }
}

pub proof fn lemma_levels_monotone_to(g: Seq<Rule>, n: nat, m: nat)
    requires n <= m
    ensures
        forall|a: Seq<char>| #[trigger] nullable_n(g, n, a) ==> nullable_n(g, m, a),
        forall|a: Seq<char>, t: DollarlessTerminalName| #[trigger] first_n(g, n, a, t) ==> first_n(g, m, a, t),
    decreases m - n
{
    if n < m { lemma_levels_monotone_to(g, n, (m - 1) as nat); lemma_levels_monotone(g, (m - 1) as nat); }
}

/// every level of the iteration stays below any closed assignment: the least fixpoint is below every pre-fixpoint
pub proof fn lemma_lfp_below_closed(g: Seq<Rule>, fa: FA, n: nat)
    requires fa_closed(g, fa)
    ensures
        forall|a: Seq<char>| #[trigger] nullable_n(g, n, a) ==> (fa.nul)(a),
        forall|a: Seq<char>, t: DollarlessTerminalName| #[trigger] first_n(g, n, a, t) ==> (fa.fst)(a, t),
    decreases n
{
    if n > 0 {
        lemma_lfp_below_closed(g, fa, (n - 1) as nat);
        assert forall|a: Seq<char>| #[trigger] nullable_n(g, n, a) implies (fa.nul)(a) by {
            let ri = choose|ri: int| 0 <= ri < g.len() && rule_lhs(#[trigger] g[ri]) == a
                && prefix_nullable_n(g, (n - 1) as nat, rule_rhs(g[ri]), rule_rhs(g[ri]).len() as int);
            lemma_prefix_nullable_n_unfold(g, (n - 1) as nat, rule_rhs(g[ri]), rule_rhs(g[ri]).len() as int);
            assert(fa_seq_nullable(fa, rule_rhs(g[ri])));
        }
        assert forall|a: Seq<char>, t: DollarlessTerminalName| #[trigger] first_n(g, n, a, t) implies (fa.fst)(a, t) by {
            let ri = choose|ri: int| 0 <= ri < g.len() && rule_lhs(#[trigger] g[ri]) == a && seq_first_n(g, (n - 1) as nat, rule_rhs(g[ri]), t);
            let syms = rule_rhs(g[ri]);
            let i = choose|i: int| 0 <= i < syms.len() && prefix_nullable_n(g, (n - 1) as nat, syms, i)
                && ((#[trigger] syms[i]) == Symbol::Terminal(t) || (syms[i] is Nonterminal && first_n(g, (n - 1) as nat, sym_name(syms[i]), t)));
            lemma_prefix_nullable_n_unfold(g, (n - 1) as nat, syms, i);
            assert(fa_prefix_nullable(fa, syms, i));
            assert(fa_seq_first(fa, syms, t));
        }
    }
}

/// a sound assignment stays sound when one rule's contribution is added to its left-hand side
pub proof fn lemma_rule_contribution_sound(g: Seq<Rule>, fa: FA, ri: int)
    requires fa_sound(g, fa), 0 <= ri < g.len()
    ensures
        fa_seq_nullable(fa, rule_rhs(g[ri])) ==> nullable(g, rule_lhs(g[ri])),
        forall|t: DollarlessTerminalName| fa_seq_first(fa, rule_rhs(g[ri]), t) ==> in_first(g, rule_lhs(g[ri]), t),
{
    let syms = rule_rhs(g[ri]);
    // a common level for finitely many facts: induction over the prefix
    if fa_seq_nullable(fa, syms) {
        let n = lemma_prefix_level(g, fa, syms, syms.len() as int);
        assert(nullable_n(g, n + 1, rule_lhs(g[ri])));
    }
    assert forall|t: DollarlessTerminalName| fa_seq_first(fa, syms, t) implies in_first(g, rule_lhs(g[ri]), t) by {
        let i = choose|i: int| 0 <= i < syms.len() && fa_prefix_nullable(fa, syms, i)
            && ((#[trigger] syms[i]) == Symbol::Terminal(t) || (syms[i] is Nonterminal && (fa.fst)(sym_name(syms[i]), t)));
        let n1 = lemma_prefix_level(g, fa, syms, i);
        if syms[i] == Symbol::Terminal(t) {
            assert(seq_first_n(g, n1, syms, t));
            assert(first_n(g, n1 + 1, rule_lhs(g[ri]), t));
        } else {
            let si = syms[i];
            let n2 = choose|n2: nat| first_n(g, n2, sym_name(si), t);
            let n = if n1 >= n2 { n1 } else { n2 };
            lemma_levels_monotone_to(g, n1, n);
            lemma_levels_monotone_to(g, n2, n);
            lemma_prefix_nullable_n_unfold(g, n1, syms, i);
            lemma_prefix_nullable_n_unfold(g, n, syms, i);
            assert(prefix_nullable_n(g, n, syms, i));
            assert(seq_first_n(g, n, syms, t));
            assert(first_n(g, n + 1, rule_lhs(g[ri]), t));
        }
    }
}

/// a level at which the whole prefix syms[0..i) is nullable
pub proof fn lemma_prefix_level(g: Seq<Rule>, fa: FA, syms: Seq<Symbol>, i: int) -> (n: nat)
    requires fa_sound(g, fa), 0 <= i <= syms.len(), fa_prefix_nullable(fa, syms, i)
    ensures prefix_nullable_n(g, n, syms, i)
    decreases i
{
    if i == 0 { 0 } else {
        let n1 = lemma_prefix_level(g, fa, syms, i - 1);
        let last = syms[i - 1];
        assert(last is Nonterminal && (fa.nul)(sym_name(last)));
        let n2 = choose|n2: nat| nullable_n(g, n2, sym_name(last));
        let n = if n1 >= n2 { n1 } else { n2 };
        lemma_levels_monotone_to(g, n1, n);
        lemma_levels_monotone_to(g, n2, n);
        lemma_prefix_nullable_n_unfold(g, n1, syms, i - 1);
        assert forall|j: int| 0 <= j < i && j < syms.len() implies (#[trigger] syms[j]) is Nonterminal && nullable_n(g, n, sym_name(syms[j])) by {
            if j < i - 1 { assert(syms[j] is Nonterminal && nullable_n(g, n1, sym_name(syms[j]))); }
        }
        lemma_prefix_nullable_n_unfold(g, n, syms, i);
        n
    }
}

pub proof fn lemma_fa_eq_seq(x: FA, y: FA, syms: Seq<Symbol>)
    requires fa_eq(x, y)
    ensures fa_seq_nullable(x, syms) == fa_seq_nullable(y, syms),
        forall|i: int| fa_prefix_nullable(x, syms, i) == fa_prefix_nullable(y, syms, i),
        forall|t: DollarlessTerminalName| fa_seq_first(x, syms, t) == fa_seq_first(y, syms, t),
{
    assert forall|i: int| fa_prefix_nullable(x, syms, i) == fa_prefix_nullable(y, syms, i) by {
        if fa_prefix_nullable(x, syms, i) {
            assert forall|j: int| 0 <= j < i && j < syms.len() implies (#[trigger] syms[j]) is Nonterminal && (y.nul)(sym_name(syms[j])) by { assert((x.nul)(sym_name(syms[j]))); }
        }
        if fa_prefix_nullable(y, syms, i) {
            assert forall|j: int| 0 <= j < i && j < syms.len() implies (#[trigger] syms[j]) is Nonterminal && (x.nul)(sym_name(syms[j])) by { assert((y.nul)(sym_name(syms[j]))); }
        }
    }
    assert forall|t: DollarlessTerminalName| fa_seq_first(x, syms, t) == fa_seq_first(y, syms, t) by {
        if fa_seq_first(x, syms, t) {
            let i = choose|i: int| 0 <= i < syms.len() && fa_prefix_nullable(x, syms, i)
                && ((#[trigger] syms[i]) == Symbol::Terminal(t) || (syms[i] is Nonterminal && (x.fst)(sym_name(syms[i]), t)));
            assert(fa_prefix_nullable(y, syms, i));
        }
        if fa_seq_first(y, syms, t) {
            let i = choose|i: int| 0 <= i < syms.len() && fa_prefix_nullable(y, syms, i)
                && ((#[trigger] syms[i]) == Symbol::Terminal(t) || (syms[i] is Nonterminal && (y.fst)(sym_name(syms[i]), t)));
            assert(fa_prefix_nullable(x, syms, i));
        }
    }
}

/// a closed and sound assignment IS the least fixpoint
pub proof fn lemma_closed_sound_is_lfp(g: Seq<Rule>, fa: FA)
    requires fa_closed(g, fa), fa_sound(g, fa)
    ensures
        forall|a: Seq<char>| #[trigger] (fa.nul)(a) <==> nullable(g, a),
        forall|a: Seq<char>, t: DollarlessTerminalName| #[trigger] (fa.fst)(a, t) <==> in_first(g, a, t),
{
    assert forall|a: Seq<char>| nullable(g, a) implies #[trigger] (fa.nul)(a) by {
        let n = choose|n: nat| nullable_n(g, n, a); lemma_lfp_below_closed(g, fa, n);
    }
    assert forall|a: Seq<char>, t: DollarlessTerminalName| in_first(g, a, t) implies #[trigger] (fa.fst)(a, t) by {
        let n = choose|n: nat| first_n(g, n, a, t); lemma_lfp_below_closed(g, fa, n);
    }
}


// =====================================================================================================
// LR(1) items of the augmented grammar (rules g, start nonterminal `start`)
// =====================================================================================================

/// the augmented grammar: rules g plus S' -> start
pub struct Gram<'a> { pub g: Seq<Rule<'a>>, pub start: String }

/// symbol right of the dot (None at the end of the rule)
pub open spec fn after_dot(gr: Gram, it: StateItem) -> Option<Symbol> {
    match it.rule_index {
        RuleIndex::Original(ri) =>
            if ri < gr.g.len() && it.dot < rule_rhs(gr.g[ri as int]).len() { Some(rule_rhs(gr.g[ri as int])[it.dot as int]) } else { None },
        RuleIndex::Augmented => if it.dot == 0 { Some(Symbol::Nonterminal(gr.start)) } else { None },
    }
}

/// right-hand side of the rule of an item (the augmented rule is S' -> start)
pub open spec fn item_rhs(gr: Gram, it: StateItem) -> Seq<Symbol> {
    match it.rule_index {
        RuleIndex::Original(ri) => if ri < gr.g.len() { rule_rhs(gr.g[ri as int]) } else { Seq::empty() },
        RuleIndex::Augmented => seq![Symbol::Nonterminal(gr.start)],
    }
}

/// the symbols from position `from` to the end of the item's rule
pub open spec fn rhs_from(gr: Gram, it: StateItem, from: int) -> Seq<Symbol> {
    let r = item_rhs(gr, it);
    if 0 <= from <= r.len() { r.subrange(from, r.len() as int) } else { Seq::empty() }
}

pub open spec fn item_wf(gr: Gram, it: StateItem) -> bool { item_ok(gr.g, it) && it.dot <= item_rhs(gr, it).len() }

pub open spec fn advanced(it: StateItem) -> StateItem { StateItem { rule_index: it.rule_index, lookahead: it.lookahead, dot: (it.dot + 1) as usize } }

/// the rules of the validated file as File::get_rules lists them (one per struct / enum variant, declaration order)
pub uninterp spec fn file_rules(f: &crate::data::validated_file::File) -> Seq<Rule<'_>>;

/// [S' -> . start, $]
pub open spec fn start_item() -> StateItem { StateItem { rule_index: RuleIndex::Augmented, lookahead: Lookahead::Eof, dot: 0 } }

/// la is a lookahead of FIRST(syms a): a terminal of FIRST(syms), or `a` itself if syms is nullable
pub open spec fn in_first_la(gr: Gram, syms: Seq<Symbol>, a: Lookahead, la: Lookahead) -> bool {
    (la matches Lookahead::Terminal(t) && seq_in_first(gr.g, syms, t)) || (seq_nullable(gr.g, syms) && la == a)
}

/// LR(1) closure step: it = [A -> alpha . B beta, a]  yields  x = [B -> . gamma, b] for every b in FIRST(beta a)
pub open spec fn closure_step(gr: Gram, it: StateItem, x: StateItem) -> bool {
    &&& after_dot(gr, it) matches Some(Symbol::Nonterminal(b))
        && x.rule_index matches RuleIndex::Original(rj) && rj < gr.g.len() && rule_lhs(gr.g[rj as int]) == b@
    &&& x.dot == 0
    &&& in_first_la(gr, rhs_from(gr, it, it.dot + 1), it.lookahead, x.lookahead)
}

/// x is reachable from the item set s by at most n closure steps
pub open spec fn closure_reach(gr: Gram, s: Set<StateItem>, n: nat, x: StateItem) -> bool
    decreases n
{
    if n == 0 { s.contains(x) }
    else { closure_reach(gr, s, (n - 1) as nat, x) || exists|i: StateItem| closure_reach(gr, s, (n - 1) as nat, i) && #[trigger] closure_step(gr, i, x) }
}

/// x is in the LR(1) closure of s
pub open spec fn in_closure(gr: Gram, s: Set<StateItem>, x: StateItem) -> bool { exists|n: nat| closure_reach(gr, s, n, x) }

/// t is closed under closure steps
pub open spec fn closure_closed(gr: Gram, t: Set<StateItem>) -> bool {
    forall|i: StateItem, x: StateItem| t.contains(i) && #[trigger] closure_step(gr, i, x) ==> t.contains(x)
}

pub proof fn lemma_closure_base(gr: Gram, s: Set<StateItem>, x: StateItem)
    requires s.contains(x)
    ensures in_closure(gr, s, x)
{
    assert(closure_reach(gr, s, 0, x));
}

pub proof fn lemma_closure_step(gr: Gram, s: Set<StateItem>, i: StateItem, x: StateItem)
    requires in_closure(gr, s, i), closure_step(gr, i, x)
    ensures in_closure(gr, s, x)
{
    let n = choose|n: nat| closure_reach(gr, s, n, i);
    assert(closure_reach(gr, s, n + 1, x));
}

/// the closure is the least closed superset
pub proof fn lemma_closure_least(gr: Gram, s: Set<StateItem>, t: Set<StateItem>, n: nat)
    requires s.subset_of(t), closure_closed(gr, t)
    ensures forall|x: StateItem| closure_reach(gr, s, n, x) ==> t.contains(x)
    decreases n
{
    if n > 0 {
        lemma_closure_least(gr, s, t, (n - 1) as nat);
        assert forall|x: StateItem| closure_reach(gr, s, n, x) implies t.contains(x) by {
            if !closure_reach(gr, s, (n - 1) as nat, x) {
                let i = choose|i: StateItem| closure_reach(gr, s, (n - 1) as nat, i) && #[trigger] closure_step(gr, i, x);
                assert(t.contains(i));
            }
        }
    }
}

/// core of an item: rule and dot position
pub open spec fn core_item(it: StateItem) -> (RuleIndex, usize) { (it.rule_index, it.dot) }

/// core of an item set
pub open spec fn core_has(s: Set<StateItem>, c: (RuleIndex, usize)) -> bool { exists|it: StateItem| s.contains(it) && #[trigger] core_item(it) == c }
pub open spec fn core_subset(a: Set<StateItem>, b: Set<StateItem>) -> bool { forall|it: StateItem| #[trigger] a.contains(it) ==> core_has(b, core_item(it)) }
pub open spec fn same_core(a: Set<StateItem>, b: Set<StateItem>) -> bool { core_subset(a, b) && core_subset(b, a) }

/// kernel of goto(s, X): the items of s with X after the dot, advanced
pub open spec fn goto_kernel_has(gr: Gram, s: Set<StateItem>, x: Symbol, k: StateItem) -> bool {
    exists|it: StateItem| s.contains(it) && #[trigger] after_dot(gr, it) == Some(x) && k == advanced(it)
}

} // verus!
} // mod vx_gram
