// Grammar view of the validated file and of parser items (shared by units first, lalr, table).
pub mod vx_gram {
use vstd::prelude::*;
use crate::data::*;
use crate::data::ast::*;
use crate::data::validated_file::*;
use crate::data::machine::*;
use crate::data::table::*;
verus! {

/// the grammar symbol a field refers to
pub open spec fn sym_of(i: IdentOrTerminalIdent) -> Symbol {
    match i {
        IdentOrTerminalIdent::Ident(id) => Symbol::Nonterminal(id.name),
        IdentOrTerminalIdent::Terminal(t) => Symbol::Terminal(t.name),
    }
}

pub open spec fn tuple_field_sym(f: TupleField) -> IdentOrTerminalIdent {
    match f { TupleField::Used(s) => s, TupleField::Skipped(s) => s }
}

/// the symbol identifiers of a fieldset, in declaration order (`_` fields included)
pub open spec fn fieldset_idents(fs: Fieldset) -> Seq<IdentOrTerminalIdent> {
    match fs {
        Fieldset::Empty => Seq::empty(),
        Fieldset::Named(n) => n.fields@.map_values(|f: NamedField| f.symbol),
        Fieldset::Tuple(t) => t.fields@.map_values(|f: TupleField| tuple_field_sym(f)),
    }
}

/// right-hand side of the production of a fieldset
pub open spec fn fieldset_syms(fs: Fieldset) -> Seq<Symbol> {
    fieldset_idents(fs).map_values(|i: IdentOrTerminalIdent| sym_of(i))
}

pub open spec fn rule_rhs(r: Rule) -> Seq<Symbol> { fieldset_syms(*r.fieldset) }

pub open spec fn cn_type_name(c: ConstructorName) -> Seq<char> {
    match c {
        ConstructorName::Struct(name) => name@,
        ConstructorName::EnumVariant { enum_name, variant_name } => enum_name@,
    }
}

/// left-hand side (nonterminal name) of a rule
pub open spec fn rule_lhs(r: Rule) -> Seq<char> { cn_type_name(r.constructor_name) }

/// pointwise equality of assignments
pub open spec fn fa_eq(x: FA, y: FA) -> bool {
    &&& forall|a: Seq<char>| #[trigger] (x.nul)(a) == (y.nul)(a)
    &&& forall|a: Seq<char>, t: DollarlessTerminalName| #[trigger] (x.fst)(a, t) == (y.fst)(a, t)
}

/// name of a nonterminal declaration
pub open spec fn nt_name(nt: Nonterminal) -> Seq<char> {
    match nt { Nonterminal::Struct(s) => s.name.name@, Nonterminal::Enum(e) => e.name.name@ }
}

/// an item refers to an existing rule and its dot is inside the right-hand side
pub open spec fn item_ok(rules: Seq<Rule>, it: StateItem) -> bool {
    match it.rule_index {
        RuleIndex::Original(ri) => ri < rules.len() && it.dot <= rule_rhs(rules[ri as int]).len(),
        RuleIndex::Augmented => it.dot <= 1,
    }
}

/// symbol after the dot of an original-rule item (None at the end)
pub open spec fn sym_after_dot(rules: Seq<Rule>, it: StateItem) -> Option<Symbol> {
    match it.rule_index {
        RuleIndex::Original(ri) =>
            if ri < rules.len() && it.dot < rule_rhs(rules[ri as int]).len() { Some(rule_rhs(rules[ri as int])[it.dot as int]) } else { None },
        RuleIndex::Augmented => None,
    }
}


// =====================================================================================================
// FIRST / nullable: least fixpoint of the textbook equations, as Kleene iterates from the empty assignment
// =====================================================================================================

pub open spec fn sym_name(s: Symbol) -> Seq<char> { s->Nonterminal_0@ }

/// every symbol of syms[0..i) is a nonterminal that is nullable at level n
pub open spec fn prefix_nullable_n(g: Seq<Rule>, n: nat, syms: Seq<Symbol>, i: int) -> bool
    decreases n, 1nat
{
    forall|j: int| 0 <= j < i && j < syms.len() ==> (#[trigger] syms[j]) is Nonterminal && nullable_n(g, n, sym_name(syms[j]))
}

/// A is nullable at level n: some rule A -> X1..Xk with all Xi nullable at level n-1
pub open spec fn nullable_n(g: Seq<Rule>, n: nat, a: Seq<char>) -> bool
    decreases n, 0nat
{
    n > 0 && exists|ri: int| 0 <= ri < g.len() && rule_lhs(#[trigger] g[ri]) == a
        && prefix_nullable_n(g, (n - 1) as nat, rule_rhs(g[ri]), rule_rhs(g[ri]).len() as int)
}

/// t is in FIRST_n of the symbol sequence: some position i contributes t and everything before it is nullable
pub open spec fn seq_first_n(g: Seq<Rule>, n: nat, syms: Seq<Symbol>, t: DollarlessTerminalName) -> bool
    decreases n, 1nat
{
    exists|i: int| 0 <= i < syms.len() && prefix_nullable_n(g, n, syms, i)
        && ((#[trigger] syms[i]) == Symbol::Terminal(t) || (syms[i] is Nonterminal && first_n(g, n, sym_name(syms[i]), t)))
}

pub open spec fn first_n(g: Seq<Rule>, n: nat, a: Seq<char>, t: DollarlessTerminalName) -> bool
    decreases n, 0nat
{
    n > 0 && exists|ri: int| 0 <= ri < g.len() && rule_lhs(#[trigger] g[ri]) == a && seq_first_n(g, (n - 1) as nat, rule_rhs(g[ri]), t)
}

/// t is in FIRST(A)
pub open spec fn in_first(g: Seq<Rule>, a: Seq<char>, t: DollarlessTerminalName) -> bool { exists|n: nat| first_n(g, n, a, t) }
/// A derives the empty string
pub open spec fn nullable(g: Seq<Rule>, a: Seq<char>) -> bool { exists|n: nat| nullable_n(g, n, a) }

/// all right-hand-side symbols of the grammar, with repetitions
pub open spec fn all_syms(g: Seq<Rule>) -> Seq<Symbol>
    decreases g.len()
{
    if g.len() == 0 { Seq::empty() } else { all_syms(g.drop_last()) + rule_rhs(g.last()) }
}
pub proof fn lemma_all_syms_has(g: Seq<Rule>, ri: int, i: int)
    requires 0 <= ri < g.len(), 0 <= i < rule_rhs(g[ri]).len()
    ensures all_syms(g).contains(rule_rhs(g[ri])[i])
    decreases g.len()
{
    let pre = all_syms(g.drop_last());
    if ri == g.len() - 1 {
        assert(g.last() == g[ri]);
        assert(all_syms(g)[pre.len() + i] == rule_rhs(g[ri])[i]);
    } else {
        assert(g.drop_last()[ri] == g[ri]);
        lemma_all_syms_has(g.drop_last(), ri, i);
        let k = choose|k: int| 0 <= k < pre.len() && pre[k] == rule_rhs(g[ri])[i];
        assert(all_syms(g)[k] == pre[k]);
    }
}
/// a terminal of FIRST_n(A) occurs in some right-hand side
pub proof fn lemma_first_n_in_syms(g: Seq<Rule>, n: nat, a: Seq<char>, t: DollarlessTerminalName)
    requires first_n(g, n, a, t)
    ensures all_syms(g).contains(Symbol::Terminal(t))
    decreases n
{
    let ri = choose|ri: int| 0 <= ri < g.len() && rule_lhs(#[trigger] g[ri]) == a && seq_first_n(g, (n - 1) as nat, rule_rhs(g[ri]), t);
    let syms = rule_rhs(g[ri]);
    let i = choose|i: int| 0 <= i < syms.len() && prefix_nullable_n(g, (n - 1) as nat, syms, i)
        && ((#[trigger] syms[i]) == Symbol::Terminal(t) || (syms[i] is Nonterminal && first_n(g, (n - 1) as nat, sym_name(syms[i]), t)));
    if syms[i] == Symbol::Terminal(t) { lemma_all_syms_has(g, ri, i); }
    else { lemma_first_n_in_syms(g, (n - 1) as nat, sym_name(syms[i]), t); }
}

/// an assignment of (terminal set, nullable flag) to nonterminal names
pub struct FA {
    pub fst: spec_fn(Seq<char>, DollarlessTerminalName) -> bool,
    pub nul: spec_fn(Seq<char>) -> bool,
}

pub open spec fn fa_prefix_nullable(fa: FA, syms: Seq<Symbol>, i: int) -> bool {
    forall|j: int| 0 <= j < i && j < syms.len() ==> (#[trigger] syms[j]) is Nonterminal && (fa.nul)(sym_name(syms[j]))
}

/// FIRST of a symbol sequence under an assignment
pub open spec fn fa_seq_first(fa: FA, syms: Seq<Symbol>, t: DollarlessTerminalName) -> bool {
    exists|i: int| 0 <= i < syms.len() && fa_prefix_nullable(fa, syms, i)
        && ((#[trigger] syms[i]) == Symbol::Terminal(t) || (syms[i] is Nonterminal && (fa.fst)(sym_name(syms[i]), t)))
}

pub open spec fn fa_seq_nullable(fa: FA, syms: Seq<Symbol>) -> bool { fa_prefix_nullable(fa, syms, syms.len() as int) }

/// the assignment is closed under the equations (a pre-fixpoint)
pub open spec fn fa_closed(g: Seq<Rule>, fa: FA) -> bool {
    forall|ri: int| 0 <= ri < g.len() ==> {
        &&& fa_seq_nullable(fa, rule_rhs(#[trigger] g[ri])) ==> (fa.nul)(rule_lhs(g[ri]))
        &&& forall|t: DollarlessTerminalName| fa_seq_first(fa, rule_rhs(g[ri]), t) ==> #[trigger] (fa.fst)(rule_lhs(g[ri]), t)
    }
}

/// the assignment claims nothing beyond the least fixpoint
pub open spec fn fa_sound(g: Seq<Rule>, fa: FA) -> bool {
    &&& forall|a: Seq<char>| #[trigger] (fa.nul)(a) ==> nullable(g, a)
    &&& forall|a: Seq<char>, t: DollarlessTerminalName| #[trigger] (fa.fst)(a, t) ==> in_first(g, a, t)
}

/// the least fixpoint itself
pub open spec fn fa_lfp(g: Seq<Rule>) -> FA {
    FA { fst: |a: Seq<char>, t: DollarlessTerminalName| in_first(g, a, t), nul: |a: Seq<char>| nullable(g, a) }
}

/// FIRST of a sentential form / its nullability (w.r.t. the least fixpoint)
pub open spec fn seq_in_first(g: Seq<Rule>, syms: Seq<Symbol>, t: DollarlessTerminalName) -> bool { fa_seq_first(fa_lfp(g), syms, t) }
pub open spec fn seq_nullable(g: Seq<Rule>, syms: Seq<Symbol>) -> bool { fa_seq_nullable(fa_lfp(g), syms) }

/// unfolding helpers (the level predicates are mutually recursive, so they unfold only on request)
pub proof fn lemma_prefix_nullable_n_unfold(g: Seq<Rule>, n: nat, syms: Seq<Symbol>, i: int)
    ensures prefix_nullable_n(g, n, syms, i) <==>
        (forall|j: int| 0 <= j < i && j < syms.len() ==> (#[trigger] syms[j]) is Nonterminal && nullable_n(g, n, sym_name(syms[j])))
{
}

pub proof fn lemma_levels_monotone(g: Seq<Rule>, n: nat)
    ensures
        forall|a: Seq<char>| #[trigger] nullable_n(g, n, a) ==> nullable_n(g, n + 1, a),
        forall|a: Seq<char>, t: DollarlessTerminalName| #[trigger] first_n(g, n, a, t) ==> first_n(g, n + 1, a, t),
    decreases n
{
    if n > 0 {
        lemma_levels_monotone(g, (n - 1) as nat);
        assert forall|a: Seq<char>| #[trigger] nullable_n(g, n, a) implies nullable_n(g, n + 1, a) by {
            let ri = choose|ri: int| 0 <= ri < g.len() && rule_lhs(#[trigger] g[ri]) == a
                && prefix_nullable_n(g, (n - 1) as nat, rule_rhs(g[ri]), rule_rhs(g[ri]).len() as int);
            lemma_prefix_nullable_n_unfold(g, (n - 1) as nat, rule_rhs(g[ri]), rule_rhs(g[ri]).len() as int);
            lemma_prefix_nullable_n_unfold(g, n, rule_rhs(g[ri]), rule_rhs(g[ri]).len() as int);
            assert(prefix_nullable_n(g, n, rule_rhs(g[ri]), rule_rhs(g[ri]).len() as int));
        }
        assert forall|a: Seq<char>, t: DollarlessTerminalName| #[trigger] first_n(g, n, a, t) implies first_n(g, n + 1, a, t) by {
            let ri = choose|ri: int| 0 <= ri < g.len() && rule_lhs(#[trigger] g[ri]) == a && seq_first_n(g, (n - 1) as nat, rule_rhs(g[ri]), t);
            let syms = rule_rhs(g[ri]);
            let i = choose|i: int| 0 <= i < syms.len() && prefix_nullable_n(g, (n - 1) as nat, syms, i)
                && ((#[trigger] syms[i]) == Symbol::Terminal(t) || (syms[i] is Nonterminal && first_n(g, (n - 1) as nat, sym_name(syms[i]), t)));
            lemma_prefix_nullable_n_unfold(g, (n - 1) as nat, syms, i);
            lemma_prefix_nullable_n_unfold(g, n, syms, i);
            assert(prefix_nullable_n(g, n, syms, i));
            assert(seq_first_n(g, n, syms, t));
        }
    }
}

pub proof fn lemma_levels_monotone_to(g: Seq<Rule>, n: nat, m: nat)
    requires n <= m
    ensures
        forall|a: Seq<char>| #[trigger] nullable_n(g, n, a) ==> nullable_n(g, m, a),
        forall|a: Seq<char>, t: DollarlessTerminalName| #[trigger] first_n(g, n, a, t) ==> first_n(g, m, a, t),
    decreases m - n
{
    if n < m { lemma_levels_monotone_to(g, n, (m - 1) as nat); lemma_levels_monotone(g, (m - 1) as nat); }
}

/// every level of the iteration stays below any closed assignment: the least fixpoint is below every pre-fixpoint
pub proof fn lemma_lfp_below_closed(g: Seq<Rule>, fa: FA, n: nat)
    requires fa_closed(g, fa)
    ensures
        forall|a: Seq<char>| #[trigger] nullable_n(g, n, a) ==> (fa.nul)(a),
        forall|a: Seq<char>, t: DollarlessTerminalName| #[trigger] first_n(g, n, a, t) ==> (fa.fst)(a, t),
    decreases n
{
    if n > 0 {
        lemma_lfp_below_closed(g, fa, (n - 1) as nat);
        assert forall|a: Seq<char>| #[trigger] nullable_n(g, n, a) implies (fa.nul)(a) by {
            let ri = choose|ri: int| 0 <= ri < g.len() && rule_lhs(#[trigger] g[ri]) == a
                && prefix_nullable_n(g, (n - 1) as nat, rule_rhs(g[ri]), rule_rhs(g[ri]).len() as int);
            lemma_prefix_nullable_n_unfold(g, (n - 1) as nat, rule_rhs(g[ri]), rule_rhs(g[ri]).len() as int);
            assert(fa_seq_nullable(fa, rule_rhs(g[ri])));
        }
        assert forall|a: Seq<char>, t: DollarlessTerminalName| #[trigger] first_n(g, n, a, t) implies (fa.fst)(a, t) by {
            let ri = choose|ri: int| 0 <= ri < g.len() && rule_lhs(#[trigger] g[ri]) == a && seq_first_n(g, (n - 1) as nat, rule_rhs(g[ri]), t);
            let syms = rule_rhs(g[ri]);
            let i = choose|i: int| 0 <= i < syms.len() && prefix_nullable_n(g, (n - 1) as nat, syms, i)
                && ((#[trigger] syms[i]) == Symbol::Terminal(t) || (syms[i] is Nonterminal && first_n(g, (n - 1) as nat, sym_name(syms[i]), t)));
            lemma_prefix_nullable_n_unfold(g, (n - 1) as nat, syms, i);
            assert(fa_prefix_nullable(fa, syms, i));
            assert(fa_seq_first(fa, syms, t));
        }
    }
}

/// a sound assignment stays sound when one rule's contribution is added to its left-hand side
pub proof fn lemma_rule_contribution_sound(g: Seq<Rule>, fa: FA, ri: int)
    requires fa_sound(g, fa), 0 <= ri < g.len()
    ensures
        fa_seq_nullable(fa, rule_rhs(g[ri])) ==> nullable(g, rule_lhs(g[ri])),
        forall|t: DollarlessTerminalName| fa_seq_first(fa, rule_rhs(g[ri]), t) ==> in_first(g, rule_lhs(g[ri]), t),
{
    let syms = rule_rhs(g[ri]);
    // a common level for finitely many facts: induction over the prefix
    if fa_seq_nullable(fa, syms) {
        let n = lemma_prefix_level(g, fa, syms, syms.len() as int);
        assert(nullable_n(g, n + 1, rule_lhs(g[ri])));
    }
    assert forall|t: DollarlessTerminalName| fa_seq_first(fa, syms, t) implies in_first(g, rule_lhs(g[ri]), t) by {
        let i = choose|i: int| 0 <= i < syms.len() && fa_prefix_nullable(fa, syms, i)
            && ((#[trigger] syms[i]) == Symbol::Terminal(t) || (syms[i] is Nonterminal && (fa.fst)(sym_name(syms[i]), t)));
        let n1 = lemma_prefix_level(g, fa, syms, i);
        if syms[i] == Symbol::Terminal(t) {
            assert(seq_first_n(g, n1, syms, t));
            assert(first_n(g, n1 + 1, rule_lhs(g[ri]), t));
        } else {
            let si = syms[i];
            let n2 = choose|n2: nat| first_n(g, n2, sym_name(si), t);
            let n = if n1 >= n2 { n1 } else { n2 };
            lemma_levels_monotone_to(g, n1, n);
            lemma_levels_monotone_to(g, n2, n);
            lemma_prefix_nullable_n_unfold(g, n1, syms, i);
            lemma_prefix_nullable_n_unfold(g, n, syms, i);
            assert(prefix_nullable_n(g, n, syms, i));
            assert(seq_first_n(g, n, syms, t));
            assert(first_n(g, n + 1, rule_lhs(g[ri]), t));
        }
    }
}

/// a level at which the whole prefix syms[0..i) is nullable
pub proof fn lemma_prefix_level(g: Seq<Rule>, fa: FA, syms: Seq<Symbol>, i: int) -> (n: nat)
    requires fa_sound(g, fa), 0 <= i <= syms.len(), fa_prefix_nullable(fa, syms, i)
    ensures prefix_nullable_n(g, n, syms, i)
    decreases i
{
    if i == 0 { 0 } else {
        let n1 = lemma_prefix_level(g, fa, syms, i - 1);
        let last = syms[i - 1];
        assert(last is Nonterminal && (fa.nul)(sym_name(last)));
        let n2 = choose|n2: nat| nullable_n(g, n2, sym_name(last));
        let n = if n1 >= n2 { n1 } else { n2 };
        lemma_levels_monotone_to(g, n1, n);
        lemma_levels_monotone_to(g, n2, n);
        lemma_prefix_nullable_n_unfold(g, n1, syms, i - 1);
        assert forall|j: int| 0 <= j < i && j < syms.len() implies (#[trigger] syms[j]) is Nonterminal && nullable_n(g, n, sym_name(syms[j])) by {
            if j < i - 1 { assert(syms[j] is Nonterminal && nullable_n(g, n1, sym_name(syms[j]))); }
        }
        lemma_prefix_nullable_n_unfold(g, n, syms, i);
        n
    }
}

pub proof fn lemma_fa_eq_seq(x: FA, y: FA, syms: Seq<Symbol>)
    requires fa_eq(x, y)
    ensures fa_seq_nullable(x, syms) == fa_seq_nullable(y, syms),
        forall|i: int| fa_prefix_nullable(x, syms, i) == fa_prefix_nullable(y, syms, i),
        forall|t: DollarlessTerminalName| fa_seq_first(x, syms, t) == fa_seq_first(y, syms, t),
{
    assert forall|i: int| fa_prefix_nullable(x, syms, i) == fa_prefix_nullable(y, syms, i) by {
        if fa_prefix_nullable(x, syms, i) {
            assert forall|j: int| 0 <= j < i && j < syms.len() implies (#[trigger] syms[j]) is Nonterminal && (y.nul)(sym_name(syms[j])) by { assert((x.nul)(sym_name(syms[j]))); }
        }
        if fa_prefix_nullable(y, syms, i) {
            assert forall|j: int| 0 <= j < i && j < syms.len() implies (#[trigger] syms[j]) is Nonterminal && (x.nul)(sym_name(syms[j])) by { assert((y.nul)(sym_name(syms[j]))); }
        }
    }
    assert forall|t: DollarlessTerminalName| fa_seq_first(x, syms, t) == fa_seq_first(y, syms, t) by {
        if fa_seq_first(x, syms, t) {
            let i = choose|i: int| 0 <= i < syms.len() && fa_prefix_nullable(x, syms, i)
                && ((#[trigger] syms[i]) == Symbol::Terminal(t) || (syms[i] is Nonterminal && (x.fst)(sym_name(syms[i]), t)));
            assert(fa_prefix_nullable(y, syms, i));
        }
        if fa_seq_first(y, syms, t) {
            let i = choose|i: int| 0 <= i < syms.len() && fa_prefix_nullable(y, syms, i)
                && ((#[trigger] syms[i]) == Symbol::Terminal(t) || (syms[i] is Nonterminal && (y.fst)(sym_name(syms[i]), t)));
            assert(fa_prefix_nullable(x, syms, i));
        }
    }
}

/// a closed and sound assignment IS the least fixpoint
pub proof fn lemma_closed_sound_is_lfp(g: Seq<Rule>, fa: FA)
    requires fa_closed(g, fa), fa_sound(g, fa)
    ensures
        forall|a: Seq<char>| #[trigger] (fa.nul)(a) <==> nullable(g, a),
        forall|a: Seq<char>, t: DollarlessTerminalName| #[trigger] (fa.fst)(a, t) <==> in_first(g, a, t),
{
    assert forall|a: Seq<char>| nullable(g, a) implies #[trigger] (fa.nul)(a) by {
        let n = choose|n: nat| nullable_n(g, n, a); lemma_lfp_below_closed(g, fa, n);
    }
    assert forall|a: Seq<char>, t: DollarlessTerminalName| in_first(g, a, t) implies #[trigger] (fa.fst)(a, t) by {
        let n = choose|n: nat| first_n(g, n, a, t); lemma_lfp_below_closed(g, fa, n);
    }
}


// =====================================================================================================
// LR(1) items of the augmented grammar (rules g, start nonterminal `start`)
// =====================================================================================================

/// the augmented grammar: rules g plus S' -> start
pub struct Gram<'a> { pub g: Seq<Rule<'a>>, pub start: String }

/// symbol right of the dot (None at the end of the rule)
pub open spec fn after_dot(gr: Gram, it: StateItem) -> Option<Symbol> {
    match it.rule_index {
        RuleIndex::Original(ri) =>
            if ri < gr.g.len() && it.dot < rule_rhs(gr.g[ri as int]).len() { Some(rule_rhs(gr.g[ri as int])[it.dot as int]) } else { None },
        RuleIndex::Augmented => if it.dot == 0 { Some(Symbol::Nonterminal(gr.start)) } else { None },
    }
}

/// right-hand side of the rule of an item (the augmented rule is S' -> start)
pub open spec fn item_rhs(gr: Gram, it: StateItem) -> Seq<Symbol> {
    match it.rule_index {
        RuleIndex::Original(ri) => if ri < gr.g.len() { rule_rhs(gr.g[ri as int]) } else { Seq::empty() },
        RuleIndex::Augmented => seq![Symbol::Nonterminal(gr.start)],
    }
}

/// the symbols from position `from` to the end of the item's rule
pub open spec fn rhs_from(gr: Gram, it: StateItem, from: int) -> Seq<Symbol> {
    let r = item_rhs(gr, it);
    if 0 <= from <= r.len() { r.subrange(from, r.len() as int) } else { Seq::empty() }
}

pub open spec fn item_wf(gr: Gram, it: StateItem) -> bool { item_ok(gr.g, it) && it.dot <= item_rhs(gr, it).len() }

pub open spec fn advanced(it: StateItem) -> StateItem { StateItem { rule_index: it.rule_index, lookahead: it.lookahead, dot: (it.dot + 1) as usize } }

/// the rules of the validated file as File::get_rules lists them (one per struct / enum variant, declaration order)
pub uninterp spec fn file_rules(f: &crate::data::validated_file::File) -> Seq<Rule<'_>>;

/// fs is the fieldset of the struct, or of a variant of the enum
pub open spec fn nt_has_fieldset(nt: Nonterminal, fs: Fieldset) -> bool {
    match nt {
        Nonterminal::Struct(s) => s.fieldset == fs,
        Nonterminal::Enum(e) => exists|k: int| 0 <= k < e.variants@.len() && (#[trigger] e.variants@[k]).fieldset == fs,
    }
}
/// trusted (contract of the T leaf File::get_rules, read off its body): every rule is built from the fieldset of a struct
/// or of an enum variant of the file
pub axiom fn axiom_file_rules_fieldsets(f: &crate::data::validated_file::File)
    ensures forall|ri: int| 0 <= ri < file_rules(f).len() ==>
        exists|j: int| 0 <= j < f.nonterminals@.len() && nt_has_fieldset(#[trigger] f.nonterminals@[j], *(#[trigger] file_rules(f)[ri]).fieldset);

/// [S' -> . start, $]
pub open spec fn start_item() -> StateItem { StateItem { rule_index: RuleIndex::Augmented, lookahead: Lookahead::Eof, dot: 0 } }

/// la is a lookahead of FIRST(syms a): a terminal of FIRST(syms), or `a` itself if syms is nullable
pub open spec fn in_first_la(gr: Gram, syms: Seq<Symbol>, a: Lookahead, la: Lookahead) -> bool {
    (la matches Lookahead::Terminal(t) && seq_in_first(gr.g, syms, t)) || (seq_nullable(gr.g, syms) && la == a)
}

/// LR(1) closure step: it = [A -> alpha . B beta, a]  yields  x = [B -> . gamma, b] for every b in FIRST(beta a)
pub open spec fn closure_step(gr: Gram, it: StateItem, x: StateItem) -> bool {
    &&& after_dot(gr, it) matches Some(Symbol::Nonterminal(b))
        && x.rule_index matches RuleIndex::Original(rj) && rj < gr.g.len() && rule_lhs(gr.g[rj as int]) == b@
    &&& x.dot == 0
    &&& in_first_la(gr, rhs_from(gr, it, it.dot + 1), it.lookahead, x.lookahead)
}

/// x is reachable from the item set s by at most n closure steps
pub open spec fn closure_reach(gr: Gram, s: Set<StateItem>, n: nat, x: StateItem) -> bool
    decreases n
{
    if n == 0 { s.contains(x) }
    else { closure_reach(gr, s, (n - 1) as nat, x) || exists|i: StateItem| closure_reach(gr, s, (n - 1) as nat, i) && #[trigger] closure_step(gr, i, x) }
}

/// x is in the LR(1) closure of s
pub open spec fn in_closure(gr: Gram, s: Set<StateItem>, x: StateItem) -> bool { exists|n: nat| closure_reach(gr, s, n, x) }

/// t is closed under closure steps
pub open spec fn closure_closed(gr: Gram, t: Set<StateItem>) -> bool {
    forall|i: StateItem, x: StateItem| t.contains(i) && #[trigger] closure_step(gr, i, x) ==> t.contains(x)
}

pub proof fn lemma_closure_base(gr: Gram, s: Set<StateItem>, x: StateItem)
    requires s.contains(x)
    ensures in_closure(gr, s, x)
{
    assert(closure_reach(gr, s, 0, x));
}

pub proof fn lemma_closure_step(gr: Gram, s: Set<StateItem>, i: StateItem, x: StateItem)
    requires in_closure(gr, s, i), closure_step(gr, i, x)
    ensures in_closure(gr, s, x)
{
    let n = choose|n: nat| closure_reach(gr, s, n, i);
    assert(closure_reach(gr, s, n + 1, x));
}

/// the closure is the least closed superset
pub proof fn lemma_closure_least(gr: Gram, s: Set<StateItem>, t: Set<StateItem>, n: nat)
    requires s.subset_of(t), closure_closed(gr, t)
    ensures forall|x: StateItem| closure_reach(gr, s, n, x) ==> t.contains(x)
    decreases n
{
    if n > 0 {
        lemma_closure_least(gr, s, t, (n - 1) as nat);
        assert forall|x: StateItem| closure_reach(gr, s, n, x) implies t.contains(x) by {
            if !closure_reach(gr, s, (n - 1) as nat, x) {
                let i = choose|i: StateItem| closure_reach(gr, s, (n - 1) as nat, i) && #[trigger] closure_step(gr, i, x);
                assert(t.contains(i));
            }
        }
    }
}

/// core of an item: rule and dot position
pub open spec fn core_item(it: StateItem) -> (RuleIndex, usize) { (it.rule_index, it.dot) }

/// core of an item set
pub open spec fn core_has(s: Set<StateItem>, c: (RuleIndex, usize)) -> bool { exists|it: StateItem| s.contains(it) && #[trigger] core_item(it) == c }
pub open spec fn core_subset(a: Set<StateItem>, b: Set<StateItem>) -> bool { forall|it: StateItem| #[trigger] a.contains(it) ==> core_has(b, core_item(it)) }
pub open spec fn same_core(a: Set<StateItem>, b: Set<StateItem>) -> bool { core_subset(a, b) && core_subset(b, a) }

/// kernel of goto(s, X): the items of s with X after the dot, advanced
pub open spec fn goto_kernel_has(gr: Gram, s: Set<StateItem>, x: Symbol, k: StateItem) -> bool {
    exists|it: StateItem| s.contains(it) && #[trigger] after_dot(gr, it) == Some(x) && k == advanced(it)
}


// =====================================================================================================
// The LALR(1) automaton, specified on the automaton itself (self-certifying conditions + minimality)
// =====================================================================================================

/// kernel of goto(i_set, x) as a set
pub open spec fn kernel_set(gr: Gram, i_set: Set<StateItem>, x: Symbol) -> Set<StateItem> {
    i_set.filter(|i: StateItem| after_dot(gr, i) == Some(x)).map(|i: StateItem| advanced(i))
}

pub proof fn lemma_kernel_set(gr: Gram, i_set: Set<StateItem>, x: Symbol)
    ensures forall|k: StateItem| #[trigger] kernel_set(gr, i_set, x).contains(k) <==> goto_kernel_has(gr, i_set, x, k),
{
    let f = i_set.filter(|i: StateItem| after_dot(gr, i) == Some(x));
    assert forall|k: StateItem| #[trigger] kernel_set(gr, i_set, x).contains(k) <==> goto_kernel_has(gr, i_set, x, k) by {
        if kernel_set(gr, i_set, x).contains(k) {
            let i = choose|i: StateItem| f.contains(i) && k == advanced(i);
            assert(i_set.contains(i) && after_dot(gr, i) == Some(x));
        }
        if goto_kernel_has(gr, i_set, x, k) {
            let i = choose|i: StateItem| i_set.contains(i) && #[trigger] after_dot(gr, i) == Some(x) && k == advanced(i);
            assert(f.contains(i));
        }
    }
}

/// x is derivable for state s by at most n steps from: the start item in state 0, closure steps inside a state,
/// goto steps along the recorded transitions.  The item sets of the LALR(1) automaton are the LEAST family closed
/// under these rules; `lalr_in` is membership in that least family.
pub open spec fn lalr_reach(gr: Gram, tr: Set<Transition>, n: nat, s: int, x: StateItem) -> bool
    decreases n
{
    if n == 0 { s == 0 && x == start_item() }
    else {
        ||| lalr_reach(gr, tr, (n - 1) as nat, s, x)
        ||| exists|i: StateItem| lalr_reach(gr, tr, (n - 1) as nat, s, i) && #[trigger] closure_step(gr, i, x)
        ||| exists|t: Transition, i: StateItem| #![trigger tr.contains(t), advanced(i)] tr.contains(t) && t.to.0 == s
                && lalr_reach(gr, tr, (n - 1) as nat, t.from.0 as int, i) && after_dot(gr, i) == Some(t.symbol) && x == advanced(i)
    }
}

pub open spec fn lalr_in(gr: Gram, tr: Set<Transition>, s: int, x: StateItem) -> bool { exists|n: nat| lalr_reach(gr, tr, n, s, x) }

pub proof fn lemma_lalr_mono_n(gr: Gram, tr: Set<Transition>, n: nat, m: nat, s: int, x: StateItem)
    requires n <= m, lalr_reach(gr, tr, n, s, x)
    ensures lalr_reach(gr, tr, m, s, x)
    decreases m - n
{
    if n < m { lemma_lalr_mono_n(gr, tr, n, (m - 1) as nat, s, x); }
}

/// more transitions justify more
pub proof fn lemma_lalr_mono_tr(gr: Gram, tr: Set<Transition>, tr2: Set<Transition>, n: nat, s: int, x: StateItem)
    requires tr.subset_of(tr2), lalr_reach(gr, tr, n, s, x)
    ensures lalr_reach(gr, tr2, n, s, x)
    decreases n
{
    if n > 0 {
        if lalr_reach(gr, tr, (n - 1) as nat, s, x) { lemma_lalr_mono_tr(gr, tr, tr2, (n - 1) as nat, s, x); }
        else if exists|i: StateItem| lalr_reach(gr, tr, (n - 1) as nat, s, i) && #[trigger] closure_step(gr, i, x) {
            let i = choose|i: StateItem| lalr_reach(gr, tr, (n - 1) as nat, s, i) && #[trigger] closure_step(gr, i, x);
            lemma_lalr_mono_tr(gr, tr, tr2, (n - 1) as nat, s, i);
        } else {
            let (t, i) = choose|t: Transition, i: StateItem| #![trigger tr.contains(t), advanced(i)] tr.contains(t) && t.to.0 == s
                && lalr_reach(gr, tr, (n - 1) as nat, t.from.0 as int, i) && after_dot(gr, i) == Some(t.symbol) && x == advanced(i);
            lemma_lalr_mono_tr(gr, tr, tr2, (n - 1) as nat, t.from.0 as int, i);
            assert(tr2.contains(t));
        }
    }
}

pub proof fn lemma_lalr_closure_step(gr: Gram, tr: Set<Transition>, s: int, i: StateItem, x: StateItem)
    requires lalr_in(gr, tr, s, i), closure_step(gr, i, x)
    ensures lalr_in(gr, tr, s, x)
{
    let n = choose|n: nat| lalr_reach(gr, tr, n, s, i);
    assert(lalr_reach(gr, tr, n + 1, s, x));
}

pub proof fn lemma_lalr_goto_step(gr: Gram, tr: Set<Transition>, t: Transition, i: StateItem)
    requires tr.contains(t), lalr_in(gr, tr, t.from.0 as int, i), after_dot(gr, i) == Some(t.symbol)
    ensures lalr_in(gr, tr, t.to.0 as int, advanced(i))
{
    let n = choose|n: nat| lalr_reach(gr, tr, n, t.from.0 as int, i);
    assert(lalr_reach(gr, tr, n + 1, t.to.0 as int, advanced(i)));
}

/// the closure of a justified kernel is justified
pub proof fn lemma_lalr_closure(gr: Gram, tr: Set<Transition>, s: int, k: Set<StateItem>, n: nat, x: StateItem)
    requires forall|y: StateItem| #[trigger] k.contains(y) ==> lalr_in(gr, tr, s, y), closure_reach(gr, k, n, x)
    ensures lalr_in(gr, tr, s, x)
    decreases n
{
    if n > 0 {
        if closure_reach(gr, k, (n - 1) as nat, x) { lemma_lalr_closure(gr, tr, s, k, (n - 1) as nat, x); }
        else {
            let i = choose|i: StateItem| closure_reach(gr, k, (n - 1) as nat, i) && #[trigger] closure_step(gr, i, x);
            lemma_lalr_closure(gr, tr, s, k, (n - 1) as nat, i);
            lemma_lalr_closure_step(gr, tr, s, i, x);
        }
    }
}

/// the closure of anything is closed
pub proof fn lemma_closure_is_closed(gr: Gram, s: Set<StateItem>, t: Set<StateItem>)
    requires forall|x: StateItem| #[trigger] t.contains(x) <==> in_closure(gr, s, x)
    ensures closure_closed(gr, t), s.subset_of(t)
{
    assert forall|i: StateItem, x: StateItem| t.contains(i) && #[trigger] closure_step(gr, i, x) implies t.contains(x) by {
        lemma_closure_step(gr, s, i, x);
    }
    assert forall|x: StateItem| s.contains(x) implies t.contains(x) by { lemma_closure_base(gr, s, x); }
}

/// the core of a closure depends only on the core of the kernel: a closure step is possible from one item iff it is
/// possible (perhaps with another lookahead) from any item with the same rule and dot
pub proof fn lemma_closure_core_mono(gr: Gram, k1: Set<StateItem>, k2: Set<StateItem>, n: nat, x: StateItem)
    requires core_subset(k1, k2), closure_reach(gr, k1, n, x)
    ensures exists|y: StateItem| in_closure(gr, k2, y) && #[trigger] core_item(y) == core_item(x)
    decreases n
{
    if n == 0 {
        let y = choose|y: StateItem| k2.contains(y) && #[trigger] core_item(y) == core_item(x);
        lemma_closure_base(gr, k2, y);
    } else if closure_reach(gr, k1, (n - 1) as nat, x) {
        lemma_closure_core_mono(gr, k1, k2, (n - 1) as nat, x);
    } else {
        let i = choose|i: StateItem| closure_reach(gr, k1, (n - 1) as nat, i) && #[trigger] closure_step(gr, i, x);
        lemma_closure_core_mono(gr, k1, k2, (n - 1) as nat, i);
        let i2 = choose|i2: StateItem| in_closure(gr, k2, i2) && #[trigger] core_item(i2) == core_item(i);
        // i2 has the same rule and dot as i: the same successor rule applies, with a lookahead chosen for i2
        let beta = rhs_from(gr, i, i.dot + 1);
        assert(rhs_from(gr, i2, i2.dot + 1) == beta);
        assert(after_dot(gr, i2) == after_dot(gr, i));
        let la2 = if x.lookahead is Terminal && seq_in_first(gr.g, beta, x.lookahead->Terminal_0) { x.lookahead } else { i2.lookahead };
        let y = StateItem { rule_index: x.rule_index, lookahead: la2, dot: 0 };
        assert(in_first_la(gr, beta, i2.lookahead, la2));
        assert(closure_step(gr, i2, y));
        lemma_closure_step(gr, k2, i2, y);
        assert(core_item(y) == core_item(x));
    }
}


// ---------- core algebra ----------
pub proof fn lemma_core_subset_trans(a: Set<StateItem>, b: Set<StateItem>, c: Set<StateItem>)
    requires core_subset(a, b), core_subset(b, c)
    ensures core_subset(a, c)
{
    assert forall|it: StateItem| #[trigger] a.contains(it) implies core_has(c, core_item(it)) by {
        let y = choose|y: StateItem| b.contains(y) && #[trigger] core_item(y) == core_item(it);
        assert(core_has(c, core_item(y)));
    }
}

pub proof fn lemma_same_core_union(a: Set<StateItem>, t: Set<StateItem>)
    requires same_core(t, a)
    ensures same_core(a.union(t), a), same_core(a, a.union(t))
{
    assert forall|it: StateItem| #[trigger] a.union(t).contains(it) implies core_has(a, core_item(it)) by {
        if a.contains(it) { assert(core_item(it) == core_item(it)); }
    }
    assert forall|it: StateItem| #[trigger] a.contains(it) implies core_has(a.union(t), core_item(it)) by {
        assert(a.union(t).contains(it));
    }
}

pub proof fn lemma_same_core_refl(a: Set<StateItem>)
    ensures same_core(a, a)
{
    assert forall|it: StateItem| #[trigger] a.contains(it) implies core_has(a, core_item(it)) by { assert(core_item(it) == core_item(it)); }
}

// ---------- the automaton invariant ----------
/// item i has symbol x right of its dot
pub open spec fn has_after(gr: Gram, i: StateItem, x: Symbol) -> bool { after_dot(gr, i) == Some(x) }

/// y is in goto(its[from], symbol) = closure(kernel)
pub open spec fn in_goto(gr: Gram, i_set: Set<StateItem>, x: Symbol, y: StateItem) -> bool { in_closure(gr, kernel_set(gr, i_set, x), y) }

/// the target of transition t has exactly the core of goto(its[t.from], t.symbol)
pub open spec fn goto_core_ok(gr: Gram, its: Seq<Set<StateItem>>, t: Transition) -> bool {
    let from = its[t.from.0 as int];
    let to = its[t.to.0 as int];
    &&& forall|x: StateItem| #[trigger] to.contains(x) ==> exists|y: StateItem| in_goto(gr, from, t.symbol, y) && #[trigger] core_item(y) == core_item(x)
    &&& forall|y: StateItem| #[trigger] in_goto(gr, from, t.symbol, y) ==> core_has(to, core_item(y))
    &&& exists|i: StateItem| from.contains(i) && #[trigger] has_after(gr, i, t.symbol)
}

/// state s is entered by a transition from an earlier state
pub open spec fn has_incoming(tr: Set<Transition>, s: int) -> bool { exists|t: Transition| #[trigger] tr.contains(t) && t.to.0 == s && t.from.0 < s }

/// everything about the automaton under construction that does not depend on the work queue
pub open spec fn inv_core(gr: Gram, its: Seq<Set<StateItem>>, tr: Set<Transition>) -> bool {
    &&& its.len() >= 1 && its[0].contains(start_item())
    &&& forall|s: int| 0 <= s < its.len() ==> closure_closed(gr, #[trigger] its[s])
    &&& forall|i: int, j: int| 0 <= i < j < its.len() ==> !same_core(#[trigger] its[i], #[trigger] its[j])
    &&& forall|t: Transition| #[trigger] tr.contains(t) ==> t.from.0 < its.len() && t.to.0 < its.len() && goto_core_ok(gr, its, t)
    &&& forall|t1: Transition, t2: Transition| #[trigger] tr.contains(t1) && #[trigger] tr.contains(t2) && t1.from == t2.from && t1.symbol == t2.symbol ==> t1.to == t2.to
    &&& forall|s: int| 0 < s < its.len() ==> #[trigger] has_incoming(tr, s)
    &&& forall|s: int, x: StateItem| 0 <= s < its.len() && #[trigger] its[s].contains(x) ==> lalr_in(gr, tr, s, x)
}

/// state s is goto-complete: every item with a symbol after its dot has its successor in the transition target
pub open spec fn processed(gr: Gram, its: Seq<Set<StateItem>>, tr: Set<Transition>, s: int) -> bool {
    forall|i: StateItem, x: Symbol| its[s].contains(i) && #[trigger] has_after(gr, i, x) ==>
        exists|t: Transition| #[trigger] tr.contains(t) && t.from.0 == s && t.symbol == x && its[t.to.0 as int].contains(advanced(i))
}

/// THE specification of C17 on the automaton itself: the item sets are closed under closure and goto along a
/// deterministic transition structure with one state per core (completeness), every item is derivable from the start
/// item by closure and goto steps (exactness: no extra lookahead), every state is entered by a transition from an
/// earlier state (reachability), and transitions exist only on symbols that follow a dot.
pub open spec fn machine_is_lalr(gr: Gram, its: Seq<Set<StateItem>>, tr: Set<Transition>) -> bool {
    inv_core(gr, its, tr) && forall|s: int| 0 <= s < its.len() ==> #[trigger] processed(gr, its, tr, s)
}

/// one merge/create step of the construction (abstract form of enqueue_transition_target)
pub open spec fn step_rel(gr: Gram, its0: Seq<Set<StateItem>>, tr0: Set<Transition>, its1: Seq<Set<StateItem>>, tr1: Set<Transition>,
                          s: int, x: Symbol, t: Set<StateItem>, r: int) -> bool {
    let n = its0.len() as int;
    &&& 0 <= s < n
    &&& forall|y: StateItem| #[trigger] t.contains(y) <==> in_goto(gr, its0[s], x, y)
    &&& exists|i: StateItem| its0[s].contains(i) && #[trigger] has_after(gr, i, x)
    &&& tr1 == tr0.insert(Transition { from: StateIndex(s as usize), to: StateIndex(r as usize), symbol: x })
    &&& if exists|j: int| 0 <= j < n && same_core(t, #[trigger] its0[j]) {
            &&& 0 <= r < n && same_core(t, its0[r]) && forall|j: int| 0 <= j < r ==> !same_core(t, #[trigger] its0[j])
            &&& its1 == its0.update(r, its0[r].union(t))
        } else {
            r == n && its1 == its0.push(t)
        }
}

pub proof fn lemma_goto_core_stable(gr: Gram, its0: Seq<Set<StateItem>>, its1: Seq<Set<StateItem>>, t: Transition)
    requires t.from.0 < its0.len(), t.to.0 < its0.len(), its0.len() <= its1.len(), goto_core_ok(gr, its0, t),
        same_core(its0[t.from.0 as int], its1[t.from.0 as int]), same_core(its0[t.to.0 as int], its1[t.to.0 as int]),
        its0[t.from.0 as int].subset_of(its1[t.from.0 as int]),
    ensures goto_core_ok(gr, its1, t)
{
    let f0 = its0[t.from.0 as int]; let f1 = its1[t.from.0 as int];
    let to0 = its0[t.to.0 as int]; let to1 = its1[t.to.0 as int];
    let k0 = kernel_set(gr, f0, t.symbol); let k1 = kernel_set(gr, f1, t.symbol);
    lemma_kernel_set(gr, f0, t.symbol); lemma_kernel_set(gr, f1, t.symbol);
    // kernels have the same core
    assert(core_subset(k0, k1)) by {
        assert forall|k: StateItem| #[trigger] k0.contains(k) implies core_has(k1, core_item(k)) by {
            let i = choose|i: StateItem| f0.contains(i) && #[trigger] after_dot(gr, i) == Some(t.symbol) && k == advanced(i);
            assert(f1.contains(i)); assert(goto_kernel_has(gr, f1, t.symbol, k)); assert(k1.contains(k) && core_item(k) == core_item(k));
        }
    }
    assert(core_subset(k1, k0)) by {
        assert forall|k: StateItem| #[trigger] k1.contains(k) implies core_has(k0, core_item(k)) by {
            let i = choose|i: StateItem| f1.contains(i) && #[trigger] after_dot(gr, i) == Some(t.symbol) && k == advanced(i);
            let i0 = choose|i0: StateItem| f0.contains(i0) && #[trigger] core_item(i0) == core_item(i);
            assert(after_dot(gr, i0) == after_dot(gr, i));
            assert(goto_kernel_has(gr, f0, t.symbol, advanced(i0)));
            assert(k0.contains(advanced(i0)) && core_item(advanced(i0)) == core_item(k));
        }
    }
    assert forall|x: StateItem| #[trigger] to1.contains(x) implies exists|y: StateItem| in_goto(gr, f1, t.symbol, y) && #[trigger] core_item(y) == core_item(x) by {
        let x0 = choose|x0: StateItem| to0.contains(x0) && #[trigger] core_item(x0) == core_item(x);
        let y0 = choose|y0: StateItem| in_goto(gr, f0, t.symbol, y0) && #[trigger] core_item(y0) == core_item(x0);
        let n = choose|n: nat| closure_reach(gr, k0, n, y0);
        lemma_closure_core_mono(gr, k0, k1, n, y0);
    }
    assert forall|y: StateItem| #[trigger] in_goto(gr, f1, t.symbol, y) implies core_has(to1, core_item(y)) by {
        let n = choose|n: nat| closure_reach(gr, k1, n, y);
        lemma_closure_core_mono(gr, k1, k0, n, y);
        let y0 = choose|y0: StateItem| in_closure(gr, k0, y0) && #[trigger] core_item(y0) == core_item(y);
        assert(in_goto(gr, f0, t.symbol, y0));
        assert(core_has(to0, core_item(y0)));
        let x0 = choose|x0: StateItem| to0.contains(x0) && #[trigger] core_item(x0) == core_item(y0);
        assert(core_has(to1, core_item(x0)));
    }
    let i = choose|i: StateItem| f0.contains(i) && #[trigger] has_after(gr, i, t.symbol);
    assert(f1.contains(i) && has_after(gr, i, t.symbol));
}


/// One step of the construction preserves the queue-independent invariant, keeps processed states processed unless they
/// grew, and makes the successor of every (old) item of s on x present in the target.
pub proof fn lemma_step_inv(gr: Gram, its0: Seq<Set<StateItem>>, tr0: Set<Transition>, its1: Seq<Set<StateItem>>, tr1: Set<Transition>,
                            s: int, x: Symbol, t: Set<StateItem>, r: int)
    requires inv_core(gr, its0, tr0), step_rel(gr, its0, tr0, its1, tr1, s, x, t, r), its1.len() <= usize::MAX,
    ensures inv_core(gr, its1, tr1),
        its1.len() >= its0.len(), 0 <= r < its1.len(),
        forall|p: int| 0 <= p < its0.len() ==> its0[p].subset_of(#[trigger] its1[p]),
        forall|p: int| 0 <= p < its0.len() && p != r ==> #[trigger] its1[p] == its0[p],
        forall|p: int| 0 <= p < its0.len() && its1[p] == its0[p] && processed(gr, its0, tr0, p) ==> #[trigger] processed(gr, its1, tr1, p),
        forall|i: StateItem| its0[s].contains(i) && #[trigger] has_after(gr, i, x) ==> its1[r].contains(advanced(i)),
        tr1.contains(Transition { from: StateIndex(s as usize), to: StateIndex(r as usize), symbol: x }),
{
    let n = its0.len() as int;
    let tn = Transition { from: StateIndex(s as usize), to: StateIndex(r as usize), symbol: x };
    let k0 = kernel_set(gr, its0[s], x);
    lemma_kernel_set(gr, its0[s], x);
    lemma_closure_is_closed(gr, k0, t);
    let merged = exists|j: int| 0 <= j < n && same_core(t, #[trigger] its0[j]);
    assert(tr0.subset_of(tr1));
    assert(tn.from.0 == s && tn.to.0 == r);

    // shape facts
    assert forall|p: int| 0 <= p < n implies its0[p].subset_of(#[trigger] its1[p]) by {}
    assert(t.subset_of(its1[r]));
    if merged { lemma_same_core_union(its0[r], t); }
    assert forall|p: int| 0 <= p < n implies same_core(its0[p], #[trigger] its1[p]) by {
        if p == r && merged { } else { lemma_same_core_refl(its0[p]); }
    }
    // target core == core of t
    assert(same_core(its1[r], t)) by {
        if merged { lemma_core_subset_trans(its1[r], its0[r], t); lemma_core_subset_trans(t, its0[r], its1[r]); } else { lemma_same_core_refl(t); }
    }

    // closure-closedness
    assert forall|p: int| 0 <= p < its1.len() implies closure_closed(gr, #[trigger] its1[p]) by {
        if p == r {
            assert forall|i: StateItem, y: StateItem| its1[p].contains(i) && #[trigger] closure_step(gr, i, y) implies its1[p].contains(y) by {
                if t.contains(i) { assert(t.contains(y)); } else { assert(its0[r].contains(i)); assert(its0[r].contains(y)); }
            }
        }
    }

    // distinct cores
    assert forall|i: int, j: int| 0 <= i < j < its1.len() implies !same_core(#[trigger] its1[i], #[trigger] its1[j]) by {
        if same_core(its1[i], its1[j]) {
            if j < n {
                lemma_core_subset_trans(its0[i], its1[i], its1[j]); lemma_core_subset_trans(its0[i], its1[j], its0[j]);
                lemma_core_subset_trans(its0[j], its1[j], its1[i]); lemma_core_subset_trans(its0[j], its1[i], its0[i]);
                assert(same_core(its0[i], its0[j]));
            } else {
                // j is the new state (core of t), i an old one
                lemma_core_subset_trans(t, its1[j], its1[i]); lemma_core_subset_trans(t, its1[i], its0[i]);
                lemma_core_subset_trans(its0[i], its1[i], its1[j]);
                assert(same_core(t, its0[i]));
            }
        }
    }

    // the new transition has the right target core
    assert(goto_core_ok(gr, its1, tn)) by {
        let f1 = its1[s];
        let k1 = kernel_set(gr, f1, x);
        lemma_kernel_set(gr, f1, x);
        assert(core_subset(k0, k1)) by {
            assert forall|k: StateItem| #[trigger] k0.contains(k) implies core_has(k1, core_item(k)) by {
                let i = choose|i: StateItem| its0[s].contains(i) && #[trigger] after_dot(gr, i) == Some(x) && k == advanced(i);
                assert(f1.contains(i)); assert(goto_kernel_has(gr, f1, x, k)); assert(k1.contains(k) && core_item(k) == core_item(k));
            }
        }
        assert(core_subset(k1, k0)) by {
            assert forall|k: StateItem| #[trigger] k1.contains(k) implies core_has(k0, core_item(k)) by {
                let i = choose|i: StateItem| f1.contains(i) && #[trigger] after_dot(gr, i) == Some(x) && k == advanced(i);
                let i0 = choose|i0: StateItem| its0[s].contains(i0) && #[trigger] core_item(i0) == core_item(i);
                assert(after_dot(gr, i0) == after_dot(gr, i));
                assert(goto_kernel_has(gr, its0[s], x, advanced(i0)));
                assert(k0.contains(advanced(i0)) && core_item(advanced(i0)) == core_item(k));
            }
        }
        assert forall|y: StateItem| #[trigger] its1[r].contains(y) implies exists|z: StateItem| in_goto(gr, f1, x, z) && #[trigger] core_item(z) == core_item(y) by {
            let y0 = choose|y0: StateItem| t.contains(y0) && #[trigger] core_item(y0) == core_item(y);
            assert(in_goto(gr, its0[s], x, y0));
            let m = choose|m: nat| closure_reach(gr, k0, m, y0);
            lemma_closure_core_mono(gr, k0, k1, m, y0);
        }
        assert forall|z: StateItem| #[trigger] in_goto(gr, f1, x, z) implies core_has(its1[r], core_item(z)) by {
            let m = choose|m: nat| closure_reach(gr, k1, m, z);
            lemma_closure_core_mono(gr, k1, k0, m, z);
            let z0 = choose|z0: StateItem| in_closure(gr, k0, z0) && #[trigger] core_item(z0) == core_item(z);
            assert(in_goto(gr, its0[s], x, z0)); assert(t.contains(z0));
            assert(its1[r].contains(z0));
        }
        let i = choose|i: StateItem| its0[s].contains(i) && #[trigger] has_after(gr, i, x);
        assert(f1.contains(i) && has_after(gr, i, x));
    }

    // all transitions: in range, right target core
    assert forall|t0: Transition| #[trigger] tr1.contains(t0) implies t0.from.0 < its1.len() && t0.to.0 < its1.len() && goto_core_ok(gr, its1, t0) by {
        if t0 != tn { assert(tr0.contains(t0)); lemma_goto_core_stable(gr, its0, its1, t0); }
    }

    // determinism
    assert forall|t1: Transition, t2: Transition| #[trigger] tr1.contains(t1) && #[trigger] tr1.contains(t2) && t1.from == t2.from && t1.symbol == t2.symbol implies t1.to == t2.to by {
        let other = if t1 == tn { t2 } else { t1 };
        if (t1 == tn) != (t2 == tn) {
            // an older transition from s on x: its target has the core of goto(s, x) = core of t, so t was merged into it
            assert(tr0.contains(other) && other.from.0 == s && other.symbol == x);
            let r0 = other.to.0 as int;
            assert(goto_core_ok(gr, its0, other));
            assert(same_core(t, its0[r0])) by {
                assert forall|y: StateItem| #[trigger] t.contains(y) implies core_has(its0[r0], core_item(y)) by { assert(in_goto(gr, its0[s], x, y)); }
                assert forall|y: StateItem| #[trigger] its0[r0].contains(y) implies core_has(t, core_item(y)) by {
                    let z = choose|z: StateItem| in_goto(gr, its0[s], x, z) && #[trigger] core_item(z) == core_item(y);
                    assert(t.contains(z));
                }
            }
            assert(merged);
            if r0 != r {
                lemma_core_subset_trans(its0[r0], t, its0[r]); lemma_core_subset_trans(its0[r], t, its0[r0]);
                if r0 < r { assert(!same_core(its0[r0], its0[r])); } else { assert(!same_core(its0[r], its0[r0])); }
            }
        }
    }

    // incoming transitions
    assert forall|p: int| 0 < p < its1.len() implies #[trigger] has_incoming(tr1, p) by {
        if p < n { assert(has_incoming(tr0, p)); let t0 = choose|t0: Transition| #[trigger] tr0.contains(t0) && t0.to.0 == p && t0.from.0 < p; assert(tr1.contains(t0)); }
        else { assert(tr1.contains(tn) && tn.to.0 == p && tn.from.0 < p); }
    }

    // every item is justified
    assert forall|p: int, y: StateItem| 0 <= p < its1.len() && #[trigger] its1[p].contains(y) implies lalr_in(gr, tr1, p, y) by {
        if p < n && its0[p].contains(y) {
            let m = choose|m: nat| lalr_reach(gr, tr0, m, p, y);
            lemma_lalr_mono_tr(gr, tr0, tr1, m, p, y);
        } else {
            assert(p == r && t.contains(y));
            // kernel items are justified by the goto step along the new transition
            assert forall|k: StateItem| #[trigger] k0.contains(k) implies lalr_in(gr, tr1, r, k) by {
                let i = choose|i: StateItem| its0[s].contains(i) && #[trigger] after_dot(gr, i) == Some(x) && k == advanced(i);
                let m = choose|m: nat| lalr_reach(gr, tr0, m, s, i);
                lemma_lalr_mono_tr(gr, tr0, tr1, m, s, i);
                lemma_lalr_goto_step(gr, tr1, tn, i);
            }
            let m2 = choose|m2: nat| closure_reach(gr, k0, m2, y);
            lemma_lalr_closure(gr, tr1, r, k0, m2, y);
        }
    }

    // processed states stay processed as long as they did not grow
    assert forall|p: int| 0 <= p < n && its1[p] == its0[p] && processed(gr, its0, tr0, p) implies #[trigger] processed(gr, its1, tr1, p) by {
        assert forall|i: StateItem, y: Symbol| its1[p].contains(i) && #[trigger] has_after(gr, i, y) implies
            exists|t0: Transition| #[trigger] tr1.contains(t0) && t0.from.0 == p && t0.symbol == y && its1[t0.to.0 as int].contains(advanced(i)) by {
            let t0 = choose|t0: Transition| #[trigger] tr0.contains(t0) && t0.from.0 == p && t0.symbol == y && its0[t0.to.0 as int].contains(advanced(i));
            assert(tr1.contains(t0));
            assert(its0[t0.to.0 as int].subset_of(its1[t0.to.0 as int]));
        }
    }

    // the successors of the old items of s on x are in the target
    assert forall|i: StateItem| its0[s].contains(i) && #[trigger] has_after(gr, i, x) implies its1[r].contains(advanced(i)) by {
        assert(goto_kernel_has(gr, its0[s], x, advanced(i)));
        lemma_closure_base(gr, k0, advanced(i));
        assert(t.contains(advanced(i)));
    }
}

} // verus!
} // mod vx_gram
