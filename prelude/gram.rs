// Grammar view of the validated file and of parser items (shared by units first, lalr, table).
pub mod vx_gram {
use vstd::prelude::*;
use crate::data::*;
use crate::data::ast::*;
use crate::data::validated_file::*;
use crate::data::machine::*;
use crate::data::table::*;
verus! {

/// the grammar symbol a field refers to
pub open spec fn sym_of(i: IdentOrTerminalIdent) -> Symbol {
    match i {
        IdentOrTerminalIdent::Ident(id) => Symbol::Nonterminal(id.name),
        IdentOrTerminalIdent::Terminal(t) => Symbol::Terminal(t.name),
    }
}

pub open spec fn tuple_field_sym(f: TupleField) -> IdentOrTerminalIdent {
    match f { TupleField::Used(s) => s, TupleField::Skipped(s) => s }
}

/// the symbol identifiers of a fieldset, in declaration order (`_` fields included)
pub open spec fn fieldset_idents(fs: Fieldset) -> Seq<IdentOrTerminalIdent> {
    match fs {
        Fieldset::Empty => Seq::empty(),
        Fieldset::Named(n) => n.fields@.map_values(|f: NamedField| f.symbol),
        Fieldset::Tuple(t) => t.fields@.map_values(|f: TupleField| tuple_field_sym(f)),
    }
}

/// right-hand side of the production of a fieldset
pub open spec fn fieldset_syms(fs: Fieldset) -> Seq<Symbol> {
    fieldset_idents(fs).map_values(|i: IdentOrTerminalIdent| sym_of(i))
}

pub open spec fn rule_rhs(r: Rule) -> Seq<Symbol> { fieldset_syms(*r.fieldset) }

/// left-hand side (nonterminal name) of a rule
pub open spec fn rule_lhs(r: Rule) -> Seq<char> {
    match r.constructor_name {
        ConstructorName::Struct(name) => name@,
        ConstructorName::EnumVariant { enum_name, variant_name } => enum_name@,
    }
}

/// name of a nonterminal declaration
pub open spec fn nt_name(nt: Nonterminal) -> Seq<char> {
    match nt { Nonterminal::Struct(s) => s.name.name@, Nonterminal::Enum(e) => e.name.name@ }
}

/// an item refers to an existing rule and its dot is inside the right-hand side
pub open spec fn item_ok(rules: Seq<Rule>, it: StateItem) -> bool {
    match it.rule_index {
        RuleIndex::Original(ri) => ri < rules.len() && it.dot <= rule_rhs(rules[ri as int]).len(),
        RuleIndex::Augmented => it.dot <= 1,
    }
}

/// symbol after the dot of an original-rule item (None at the end)
pub open spec fn sym_after_dot(rules: Seq<Rule>, it: StateItem) -> Option<Symbol> {
    match it.rule_index {
        RuleIndex::Original(ri) =>
            if ri < rules.len() && it.dot < rule_rhs(rules[ri as int]).len() { Some(rule_rhs(rules[ri as int])[it.dot as int]) } else { None },
        RuleIndex::Augmented => None,
    }
}

} // verus!
} // mod vx_gram
