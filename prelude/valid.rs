// Ghost vocabulary for static validation (C10), written from the property statement.
pub mod vx_valid {
use vstd::prelude::*;
use crate::vx_utf8::*;
use crate::data::*;
use crate::data::ast::*;
verus! {

/// the `terminal` declarations of a file, in order
pub open spec fn sel_terminals(items: Seq<FileItem>) -> Seq<TerminalEnum>
    decreases items.len()
{
    if items.len() == 0 { Seq::empty() }
    else {
        let rest = sel_terminals(items.drop_last());
        match items.last() { FileItem::Terminal(t) => rest.push(t), _ => rest }
    }
}

/// the `start` declarations of a file, in order
pub open spec fn sel_starts(items: Seq<FileItem>) -> Seq<Ident>
    decreases items.len()
{
    if items.len() == 0 { Seq::empty() }
    else {
        let rest = sel_starts(items.drop_last());
        match items.last() { FileItem::Start(s) => rest.push(s), _ => rest }
    }
}

/// the nonterminal declarations (structs and enums) of a file, in order
pub open spec fn sel_nonterminals(items: Seq<FileItem>) -> Seq<FileItem>
    decreases items.len()
{
    if items.len() == 0 { Seq::empty() }
    else {
        let rest = sel_nonterminals(items.drop_last());
        match items.last() { FileItem::Struct(_) => rest.push(items.last()), FileItem::Enum(_) => rest.push(items.last()), _ => rest }
    }
}

/// every selected declaration is an item of the file
pub proof fn lemma_sel_terminals_in(items: Seq<FileItem>, j: int)
    requires 0 <= j < sel_terminals(items).len()
    ensures exists|i: int| 0 <= i < items.len() && (#[trigger] items[i]) is Terminal && items[i]->Terminal_0 == sel_terminals(items)[j]
    decreases items.len()
{
    if items.len() > 0 {
        let pre = items.drop_last();
        let n1 = items.len() - 1;
        assert(items.last() == items[n1]);
        if j < sel_terminals(pre).len() {
            lemma_sel_terminals_in(pre, j);
            let i = choose|i: int| 0 <= i < pre.len() && (#[trigger] pre[i]) is Terminal && pre[i]->Terminal_0 == sel_terminals(pre)[j];
            assert(items[i] == pre[i]);
        } else { assert(items[n1] is Terminal && items[n1]->Terminal_0 == sel_terminals(items)[j]); }
    }
}
pub proof fn lemma_sel_starts_in(items: Seq<FileItem>, j: int)
    requires 0 <= j < sel_starts(items).len()
    ensures exists|i: int| 0 <= i < items.len() && (#[trigger] items[i]) is Start && items[i]->Start_0 == sel_starts(items)[j]
    decreases items.len()
{
    if items.len() > 0 {
        let pre = items.drop_last();
        let n1 = items.len() - 1;
        assert(items.last() == items[n1]);
        if j < sel_starts(pre).len() {
            lemma_sel_starts_in(pre, j);
            let i = choose|i: int| 0 <= i < pre.len() && (#[trigger] pre[i]) is Start && pre[i]->Start_0 == sel_starts(pre)[j];
            assert(items[i] == pre[i]);
        } else { assert(items[n1] is Start && items[n1]->Start_0 == sel_starts(items)[j]); }
    }
}
/// the selected nonterminal declarations are exactly the struct / enum items, in order: sel_nonterminals(items)[nt_rank(items, i)] == items[i]
pub open spec fn nt_rank(items: Seq<FileItem>, i: int) -> int { sel_nonterminals(items.take(i)).len() as int }
pub proof fn lemma_sel_nonterminals_take(items: Seq<FileItem>, k: int)
    requires 0 <= k < items.len()
    ensures sel_nonterminals(items.take(k + 1)) == (if item_is_nt(items[k]) { sel_nonterminals(items.take(k)).push(items[k]) } else { sel_nonterminals(items.take(k)) })
{
    assert(items.take(k + 1).drop_last() =~= items.take(k));
    assert(items.take(k + 1).last() == items[k]);
}
pub proof fn lemma_sel_nonterminals_in(items: Seq<FileItem>, j: int)
    requires 0 <= j < sel_nonterminals(items).len()
    ensures exists|i: int| 0 <= i < items.len() && item_is_nt(#[trigger] items[i]) && items[i] == sel_nonterminals(items)[j]
    decreases items.len()
{
    if items.len() > 0 {
        let pre = items.drop_last();
        let n1 = items.len() - 1;
        assert(items.last() == items[n1]);
        if j < sel_nonterminals(pre).len() {
            lemma_sel_nonterminals_in(pre, j);
            let i = choose|i: int| 0 <= i < pre.len() && item_is_nt(#[trigger] pre[i]) && pre[i] == sel_nonterminals(pre)[j];
            assert(items[i] == pre[i]);
        } else { assert(item_is_nt(items[n1]) && items[n1] == sel_nonterminals(items)[j]); }
    }
}
pub proof fn lemma_sel_nonterminals_has(items: Seq<FileItem>, i: int)
    requires 0 <= i < items.len(), item_is_nt(items[i])
    ensures exists|j: int| 0 <= j < sel_nonterminals(items).len() && #[trigger] sel_nonterminals(items)[j] == items[i]
    decreases items.len()
{
    let pre = items.drop_last();
    let n1 = items.len() - 1;
    assert(items.last() == items[n1]);
    if i < n1 {
        assert(pre[i] == items[i]);
        lemma_sel_nonterminals_has(pre, i);
        let j = choose|j: int| 0 <= j < sel_nonterminals(pre).len() && #[trigger] sel_nonterminals(pre)[j] == pre[i];
        assert(sel_nonterminals(items)[j] == sel_nonterminals(pre)[j]);
    } else {
        assert(sel_nonterminals(items)[sel_nonterminals(pre).len() as int] == items[i]);
    }
}

// ---------- capitalisation rules ----------
/// the first ASCII letter of a name, if it has one
pub open spec fn first_letter(name: Seq<char>) -> Option<char>
    decreases name.len()
{
    if name.len() == 0 { None } else if is_ascii_alpha(name[0]) { Some(name[0]) } else { first_letter(name.drop_first()) }
}
/// `if the name contains letters, the first letter is uppercase` / lowercase
pub open spec fn upper_ok(name: Seq<char>) -> bool { first_letter(name) matches Some(c) ==> is_ascii_upper(c) }
pub open spec fn lower_ok(name: Seq<char>) -> bool { first_letter(name) matches Some(c) ==> is_ascii_lower(c) }

/// what `chars().find(is_ascii_alphabetic)` returns is the first letter
pub open spec fn is_find_result(s: Seq<char>, r: Option<char>) -> bool {
    match r {
        Some(c) => exists|i: int| 0 <= i < s.len() && s[i] == c && is_ascii_alpha(c) && forall|j: int| 0 <= j < i ==> !is_ascii_alpha(#[trigger] s[j]),
        None => forall|j: int| 0 <= j < s.len() ==> !is_ascii_alpha(#[trigger] s[j]),
    }
}
pub proof fn lemma_find_is_first_letter(s: Seq<char>, r: Option<char>)
    requires is_find_result(s, r)
    ensures first_letter(s) == r
    decreases s.len()
{
    if s.len() > 0 {
        if is_ascii_alpha(s[0]) {
            match r { Some(c) => { let i = choose|i: int| 0 <= i < s.len() && s[i] == c && is_ascii_alpha(c) && forall|j: int| 0 <= j < i ==> !is_ascii_alpha(#[trigger] s[j]); if i > 0 { assert(!is_ascii_alpha(s[0])); } } None => { assert(!is_ascii_alpha(s[0])); } }
        } else {
            let t = s.drop_first();
            assert(is_find_result(t, r)) by {
                match r {
                    Some(c) => {
                        let i = choose|i: int| 0 <= i < s.len() && s[i] == c && is_ascii_alpha(c) && forall|j: int| 0 <= j < i ==> !is_ascii_alpha(#[trigger] s[j]);
                        assert(i > 0); assert(t[i - 1] == c);
                        assert forall|j: int| 0 <= j < i - 1 implies !is_ascii_alpha(#[trigger] t[j]) by { assert(t[j] == s[j + 1]); }
                    }
                    None => { assert forall|j: int| 0 <= j < t.len() implies !is_ascii_alpha(#[trigger] t[j]) by { assert(t[j] == s[j + 1]); } }
                }
            }
            lemma_find_is_first_letter(t, r);
        }
    } else {
        match r { Some(c) => { } None => {} }
    }
}

// ---------- definitions and references ----------
pub open spec fn item_is_nt(it: FileItem) -> bool { it is Struct || it is Enum }
pub open spec fn item_name(it: FileItem) -> Ident {
    match it { FileItem::Struct(s) => s.name, FileItem::Enum(e) => e.name, FileItem::Start(i) => i, FileItem::Terminal(t) => t.name }
}

/// some nonterminal declaration of the file is called a
pub open spec fn nt_defined(items: Seq<FileItem>, a: Seq<char>) -> bool {
    exists|i: int| 0 <= i < items.len() && item_is_nt(#[trigger] items[i]) && item_name(items[i]).name@ == a
}
/// some variant of the terminal enum is called a
pub open spec fn term_defined(te: TerminalEnum, a: Seq<char>) -> bool {
    exists|i: int| 0 <= i < te.variants@.len() && (#[trigger] te.variants@[i]).name.name@ == a
}

/// the names of the nonterminal declarations / of the terminal variants, as sets
pub open spec fn nt_name_set(items: Seq<FileItem>) -> Set<Seq<char>>
    decreases items.len()
{
    if items.len() == 0 { Set::empty() }
    else if item_is_nt(items.last()) { nt_name_set(items.drop_last()).insert(item_name(items.last()).name@) }
    else { nt_name_set(items.drop_last()) }
}
pub open spec fn term_name_set(vs: Seq<TerminalEnumVariant>) -> Set<Seq<char>>
    decreases vs.len()
{
    if vs.len() == 0 { Set::empty() } else { term_name_set(vs.drop_last()).insert(vs.last().name.name@) }
}
pub proof fn lemma_nt_name_set(items: Seq<FileItem>)
    ensures forall|a: Seq<char>| #[trigger] nt_name_set(items).contains(a) <==> nt_defined(items, a)
    decreases items.len()
{
    if items.len() > 0 {
        let pre = items.drop_last();
        let n1 = items.len() - 1;
        lemma_nt_name_set(pre);
        assert(items.last() == items[n1]);
        assert forall|a: Seq<char>| #[trigger] nt_name_set(items).contains(a) <==> nt_defined(items, a) by {
            if nt_defined(items, a) {
                let i = choose|i: int| 0 <= i < items.len() && item_is_nt(#[trigger] items[i]) && item_name(items[i]).name@ == a;
                if i < n1 { assert(pre[i] == items[i]); assert(nt_defined(pre, a)); assert(nt_name_set(pre).contains(a)); }
                else { assert(i == n1); assert(item_is_nt(items.last()) && item_name(items.last()).name@ == a); }
                assert(nt_name_set(items).contains(a));
            }
            if nt_name_set(items).contains(a) {
                if nt_name_set(pre).contains(a) {
                    assert(nt_defined(pre, a));
                    let i = choose|i: int| 0 <= i < pre.len() && item_is_nt(#[trigger] pre[i]) && item_name(pre[i]).name@ == a;
                    assert(items[i] == pre[i]);
                    assert(nt_defined(items, a));
                } else {
                    assert(item_is_nt(items.last()) && item_name(items.last()).name@ == a);
                    assert(item_is_nt(items[n1]) && item_name(items[n1]).name@ == a);
                    assert(nt_defined(items, a));
                }
            }
        }
    } else {
        assert forall|a: Seq<char>| #[trigger] nt_name_set(items).contains(a) <==> nt_defined(items, a) by {}
    }
}
pub open spec fn vs_has(vs: Seq<TerminalEnumVariant>, a: Seq<char>) -> bool { exists|i: int| 0 <= i < vs.len() && (#[trigger] vs[i]).name.name@ == a }
pub proof fn lemma_term_name_set(vs: Seq<TerminalEnumVariant>)
    ensures forall|a: Seq<char>| #[trigger] term_name_set(vs).contains(a) <==> vs_has(vs, a)
    decreases vs.len()
{
    if vs.len() > 0 {
        let pre = vs.drop_last();
        let n1 = vs.len() - 1;
        lemma_term_name_set(pre);
        assert(vs.last() == vs[n1]);
        assert forall|a: Seq<char>| #[trigger] term_name_set(vs).contains(a) <==> vs_has(vs, a) by {
            if vs_has(vs, a) {
                let i = choose|i: int| 0 <= i < vs.len() && (#[trigger] vs[i]).name.name@ == a;
                if i < n1 { assert(pre[i] == vs[i]); assert(vs_has(pre, a)); assert(term_name_set(pre).contains(a)); }
                else { assert(vs.last().name.name@ == a); }
                assert(term_name_set(vs).contains(a));
            }
            if term_name_set(vs).contains(a) {
                if term_name_set(pre).contains(a) {
                    assert(vs_has(pre, a));
                    let i = choose|i: int| 0 <= i < pre.len() && (#[trigger] pre[i]).name.name@ == a; assert(vs[i] == pre[i]);
                    assert(vs_has(vs, a));
                } else { assert(vs[n1].name.name@ == a); assert(vs_has(vs, a)); }
            }
        }
    } else {
        assert forall|a: Seq<char>| #[trigger] term_name_set(vs).contains(a) <==> vs_has(vs, a) by {}
    }
}

/// a symbol reference is to a definition of its own kind (nts / terms: the defined nonterminal / terminal names)
pub open spec fn ref_ok(nts: Set<Seq<char>>, terms: Set<Seq<char>>, r: IdentOrTerminalIdent) -> bool {
    match r {
        IdentOrTerminalIdent::Ident(id) => nts.contains(id.name@),
        IdentOrTerminalIdent::Terminal(t) => terms.contains(t.name@),
    }
}

/// field names of a named fieldset are lowercase-first; every symbol reference resolves
pub open spec fn fieldset_ok(nts: Set<Seq<char>>, terms: Set<Seq<char>>, fs: Fieldset) -> bool {
    &&& forall|i: int| 0 <= i < crate::vx_gram::fieldset_idents(fs).len() ==> ref_ok(nts, terms, #[trigger] crate::vx_gram::fieldset_idents(fs)[i])
    &&& fs matches Fieldset::Named(n) ==> forall|i: int| 0 <= i < n.fields@.len() ==>
            ((#[trigger] n.fields@[i]).name matches IdentOrUnderscore::Ident(id) ==> lower_ok(id.name@))
}

pub open spec fn variant_syms(v: EnumVariant) -> Seq<Symbol> { crate::vx_gram::fieldset_syms(v.fieldset) }

/// an enum: variant names distinct, field-symbol sequences distinct, names uppercase-first, fieldsets ok
pub open spec fn enum_ok(nts: Set<Seq<char>>, terms: Set<Seq<char>>, e: Enum) -> bool {
    &&& upper_ok(e.name.name@)
    &&& forall|i: int, j: int| 0 <= i < j < e.variants@.len() ==> (#[trigger] e.variants@[i]).name.name@ != (#[trigger] e.variants@[j]).name.name@
    &&& forall|i: int, j: int| 0 <= i < j < e.variants@.len() ==> variant_syms(#[trigger] e.variants@[i]) != variant_syms(#[trigger] e.variants@[j])
    &&& forall|i: int| 0 <= i < e.variants@.len() ==> upper_ok((#[trigger] e.variants@[i]).name.name@) && fieldset_ok(nts, terms, e.variants@[i].fieldset)
}

pub open spec fn nonterminal_ok(nts: Set<Seq<char>>, terms: Set<Seq<char>>, it: FileItem) -> bool {
    match it {
        FileItem::Struct(s) => upper_ok(s.name.name@) && fieldset_ok(nts, terms, s.fieldset),
        FileItem::Enum(e) => enum_ok(nts, terms, e),
        _ => true,
    }
}

/// top-level definitions (name, position) in scan order: nonterminals in file order, terminal variants, the terminal enum name
pub open spec fn nt_defs(items: Seq<FileItem>) -> Seq<(Seq<char>, ByteIndex)>
    decreases items.len()
{
    if items.len() == 0 { Seq::empty() }
    else {
        let rest = nt_defs(items.drop_last());
        if item_is_nt(items.last()) { rest.push((item_name(items.last()).name@, item_name(items.last()).position)) } else { rest }
    }
}
pub proof fn lemma_nt_defs_take(items: Seq<FileItem>, k: int)
    requires 0 <= k < items.len()
    ensures nt_defs(items.take(k + 1)) == (if item_is_nt(items[k]) { nt_defs(items.take(k)).push((item_name(items[k]).name@, item_name(items[k]).position)) } else { nt_defs(items.take(k)) }),
            nt_name_set(items.take(k + 1)) == (if item_is_nt(items[k]) { nt_name_set(items.take(k)).insert(item_name(items[k]).name@) } else { nt_name_set(items.take(k)) }),
{
    assert(items.take(k + 1).drop_last() =~= items.take(k));
    assert(items.take(k + 1).last() == items[k]);
}
pub open spec fn is_prefix_of<A>(a: Seq<A>, b: Seq<A>) -> bool { a.len() <= b.len() && forall|j: int| 0 <= j < a.len() ==> #[trigger] a[j] == b[j] }
pub proof fn lemma_nt_defs_prefix(items: Seq<FileItem>, k: int)
    requires 0 <= k <= items.len()
    ensures is_prefix_of(nt_defs(items.take(k)), nt_defs(items))
    decreases items.len() - k
{
    if k == items.len() { assert(items.take(k) =~= items); }
    else {
        lemma_nt_defs_take(items, k); lemma_nt_defs_prefix(items, k + 1);
        let (a, b, c) = (nt_defs(items.take(k)), nt_defs(items.take(k + 1)), nt_defs(items));
        assert forall|j: int| 0 <= j < a.len() implies #[trigger] a[j] == c[j] by { assert(a[j] == b[j]); }
    }
}
pub proof fn lemma_term_name_set_take(vs: Seq<TerminalEnumVariant>, k: int)
    requires 0 <= k < vs.len()
    ensures term_name_set(vs.take(k + 1)) == term_name_set(vs.take(k)).insert(vs[k].name.name@)
{
    assert(vs.take(k + 1).drop_last() =~= vs.take(k));
    assert(vs.take(k + 1).last() == vs[k]);
}
pub open spec fn term_defs(te: TerminalEnum) -> Seq<(Seq<char>, ByteIndex)> {
    te.variants@.map_values(|v: TerminalEnumVariant| (v.name.name@, v.name.dollarless_position))
}
pub open spec fn all_defs(items: Seq<FileItem>, te: TerminalEnum) -> Seq<(Seq<char>, ByteIndex)> {
    nt_defs(items) + term_defs(te) + seq![(te.name.name@, te.name.position)]
}
pub open spec fn defs_distinct(d: Seq<(Seq<char>, ByteIndex)>) -> bool {
    forall|i: int, j: int| 0 <= i < j < d.len() ==> (#[trigger] d[i]).0 != (#[trigger] d[j]).0
}

/// C10, the `Ok only if` half: the file is statically well-formed
pub open spec fn file_wf(f: File) -> bool {
    let items = f.items@;
    &&& sel_starts(items).len() == 1 && sel_terminals(items).len() == 1
    &&& ({
        let te = sel_terminals(items)[0];
        &&& nt_defined(items, sel_starts(items)[0].name@)
        &&& upper_ok(te.name.name@)
        &&& forall|i: int| 0 <= i < te.variants@.len() ==> upper_ok((#[trigger] te.variants@[i]).name.name@)
        &&& forall|i: int| 0 <= i < items.len() ==> nonterminal_ok(nt_name_set(items), term_name_set(te.variants@), #[trigger] items[i])
        &&& defs_distinct(all_defs(items, te))
    })
}

// ---------- truthfulness of the reported error ----------
/// two of the top-level definitions scanned so far (d) clash on the name n, at positions p (earlier) and q (later)
pub open spec fn clash_in(d: Seq<(Seq<char>, ByteIndex)>, n: Seq<char>, p: ByteIndex, q: ByteIndex) -> bool {
    exists|i: int, j: int| 0 <= i < j < d.len() && #[trigger] d[i] == (n, p) && #[trigger] d[j] == (n, q)
}
pub open spec fn variant_name_clash(vs: Seq<EnumVariant>, n: Seq<char>, p: ByteIndex, q: ByteIndex) -> bool {
    exists|i: int, j: int| 0 <= i < j < vs.len() && (#[trigger] vs[i]).name.name@ == n && vs[i].name.position == p
        && (#[trigger] vs[j]).name.name@ == n && vs[j].name.position == q
}
pub open spec fn variant_seq_clash(vs: Seq<EnumVariant>, s: Seq<Symbol>, p: ByteIndex, q: ByteIndex) -> bool {
    exists|i: int, j: int| 0 <= i < j < vs.len() && variant_syms(#[trigger] vs[i]) == s && vs[i].name.position == p
        && variant_syms(#[trigger] vs[j]) == s && vs[j].name.position == q
}
/// an identifier that must be uppercase-first sits at position p and is not
pub open spec fn bad_upper_in_variants(vs: Seq<EnumVariant>, p: ByteIndex) -> bool {
    exists|i: int| 0 <= i < vs.len() && (#[trigger] vs[i]).name.position == p && !upper_ok(vs[i].name.name@)
}
pub open spec fn bad_upper_in_terminal_variants(vs: Seq<TerminalEnumVariant>, p: ByteIndex) -> bool {
    exists|k: int| 0 <= k < vs.len() && (#[trigger] vs[k]).name.dollarless_position == p && !upper_ok(vs[k].name.name@)
}
pub open spec fn bad_lower_in_fieldset(fs: Fieldset, p: ByteIndex) -> bool {
    fs is Named && exists|i: int| 0 <= i < fs->Named_0.fields@.len() && (#[trigger] fs->Named_0.fields@[i]).name is Ident
        && fs->Named_0.fields@[i].name->Ident_0.position == p && !lower_ok(fs->Named_0.fields@[i].name->Ident_0.name@)
}
/// an undefined reference inside a fieldset: nonterminal named n at p / terminal named n at p
pub open spec fn undef_nt_in_fieldset(nts: Set<Seq<char>>, fs: Fieldset, n: Seq<char>, p: ByteIndex) -> bool {
    exists|i: int| 0 <= i < crate::vx_gram::fieldset_idents(fs).len() && (#[trigger] crate::vx_gram::fieldset_idents(fs)[i]) is Ident
        && crate::vx_gram::fieldset_idents(fs)[i]->Ident_0.name@ == n && crate::vx_gram::fieldset_idents(fs)[i]->Ident_0.position == p && !nts.contains(n)
}
pub open spec fn undef_term_in_fieldset(terms: Set<Seq<char>>, fs: Fieldset, n: Seq<char>, p: ByteIndex) -> bool {
    exists|i: int| 0 <= i < crate::vx_gram::fieldset_idents(fs).len() && (#[trigger] crate::vx_gram::fieldset_idents(fs)[i]) is Terminal
        && crate::vx_gram::fieldset_idents(fs)[i]->Terminal_0.name@ == n && crate::vx_gram::fieldset_idents(fs)[i]->Terminal_0.dollarless_position == p && !terms.contains(n)
}

/// the fieldsets of a nonterminal declaration
pub open spec fn item_has_fieldset(it: FileItem, fs: Fieldset) -> bool {
    match it {
        FileItem::Struct(s) => s.fieldset == fs,
        FileItem::Enum(e) => exists|k: int| 0 <= k < e.variants@.len() && (#[trigger] e.variants@[k]).fieldset == fs,
        _ => false,
    }
}

/// C10, the `reported truthfully` half: the error describes a violation really present in the file at the positions it carries
pub open spec fn err_truthful(f: File, e: KikiErr) -> bool {
    let items = f.items@;
    match e {
        KikiErr::NoStartSymbol => sel_starts(items).len() == 0,
        KikiErr::MultipleStartSymbols(ps) => sel_starts(items).len() >= 2 && ps@ == sel_starts(items).map_values(|s: Ident| s.position),
        KikiErr::NoTerminalEnum => sel_terminals(items).len() == 0,
        KikiErr::MultipleTerminalEnums(ps) => sel_terminals(items).len() >= 2 && ps@ == sel_terminals(items).map_values(|t: TerminalEnum| t.name.position),
        KikiErr::SymbolOrTerminalEnumNameFirstLetterNotUppercase(p) => {
            ||| exists|i: int| 0 <= i < items.len() && item_is_nt(#[trigger] items[i]) && item_name(items[i]).position == p && !upper_ok(item_name(items[i]).name@)
            ||| exists|i: int| 0 <= i < items.len() && (#[trigger] items[i]) is Enum && bad_upper_in_variants(items[i]->Enum_0.variants@, p)
            ||| exists|i: int| 0 <= i < items.len() && (#[trigger] items[i]) is Terminal && items[i]->Terminal_0.name.position == p && !upper_ok(items[i]->Terminal_0.name.name@)
            ||| exists|i: int| 0 <= i < items.len() && (#[trigger] items[i]) is Terminal && bad_upper_in_terminal_variants(items[i]->Terminal_0.variants@, p)
        },
        KikiErr::FieldFirstLetterNotLowercase(p) =>
            exists|i: int, fs: Fieldset| 0 <= i < items.len() && #[trigger] item_has_fieldset(items[i], fs) && bad_lower_in_fieldset(fs, p),
        KikiErr::NameClash(n, p, q) =>
            clash_in(nt_defs(items), n@, p, q) || (sel_terminals(items).len() == 1 && clash_in(all_defs(items, sel_terminals(items)[0]), n@, p, q)),
        KikiErr::NonterminalEnumVariantNameClash(n, p, q) =>
            exists|i: int| 0 <= i < items.len() && (#[trigger] items[i]) is Enum && variant_name_clash(items[i]->Enum_0.variants@, n@, p, q),
        KikiErr::NonterminalEnumVariantSymbolSequenceClash(s, p, q) =>
            exists|i: int| 0 <= i < items.len() && (#[trigger] items[i]) is Enum && variant_seq_clash(items[i]->Enum_0.variants@, s@, p, q),
        KikiErr::UndefinedNonterminal(n, p) => {
            ||| exists|i: int, fs: Fieldset| 0 <= i < items.len() && #[trigger] item_has_fieldset(items[i], fs) && undef_nt_in_fieldset(nt_name_set(items), fs, n@, p)
            ||| exists|i: int| 0 <= i < sel_starts(items).len() && (#[trigger] sel_starts(items)[i]).name@ == n@ && sel_starts(items)[i].position == p && !nt_defined(items, n@)
        },
        KikiErr::UndefinedTerminal(n, p) =>
            sel_terminals(items).len() == 1
            && exists|i: int, fs: Fieldset| 0 <= i < items.len() && #[trigger] item_has_fieldset(items[i], fs) && undef_term_in_fieldset(term_name_set(sel_terminals(items)[0].variants@), fs, n@, p),
        _ => false,
    }
}

} // verus!
} // mod vx_valid
