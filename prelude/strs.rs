// Ghost vocabulary and assumed std contracts for &str operations (used by lib.rs, tokenize.rs, table_to_rust.rs).
pub mod vx_pat {
    use vstd::prelude::*;
    verus! {
    /// the character sequence a `Pattern` value stands for (only &str and char patterns are given a meaning)
    pub uninterp spec fn pat_view<P>(p: P) -> Seq<char>;

    #[verifier::external_body]
    pub broadcast proof fn axiom_pat_view_str(p: &str)
        ensures #[trigger] pat_view::<&str>(p) == p@
    {}
    }
}

pub mod vx_str {
use vstd::prelude::*;
use crate::vx_pat::*;
verus! {

broadcast use crate::vx_pat::axiom_pat_view_str;

pub open spec fn is_prefix(p: Seq<char>, s: Seq<char>) -> bool {
    p.len() <= s.len() && s.subrange(0, p.len() as int) == p
}

/// index of the first '\n' in s, or -1
pub open spec fn first_nl(s: Seq<char>) -> int
    decreases s.len()
{
    if s.len() == 0 { -1 }
    else if s[0] == '\n' { 0 }
    else { let r = first_nl(s.subrange(1, s.len() as int)); if r < 0 { -1 } else { r + 1 } }
}

pub open spec fn strip_cr(l: Seq<char>) -> Seq<char> {
    if l.len() > 0 && l.last() == '\r' { l.drop_last() } else { l }
}

/// `str::lines` exactly as std defines it: pieces of split_inclusive('\n'); a final "\n" is removed from a
/// piece and then a "\r" only if that "\n" was present; no piece after a final "\n".
pub open spec fn spec_lines(s: Seq<char>) -> Seq<Seq<char>>
    decreases s.len()
{
    if s.len() == 0 { Seq::empty() }
    else {
        let i = first_nl(s);
        if i < 0 || i >= s.len() { seq![s] }
        else { seq![strip_cr(s.subrange(0, i))] + spec_lines(s.subrange(i + 1, s.len() as int)) }
    }
}

#[verifier::external_body]
pub fn __vx_lines<'a>(s: &'a str) -> (r: Vec<&'a str>)
    ensures r@.len() == spec_lines(s@).len(),
        forall|i: int| 0 <= i < r@.len() ==> (#[trigger] r@[i])@ == spec_lines(s@)[i]
{ s.lines().collect() }

pub assume_specification<P: std::str::pattern::Pattern>[ str::starts_with::<P> ](s: &str, p: P) -> (b: bool)
    ensures b == is_prefix(pat_view(p), s@);

pub assume_specification<'a, P: std::str::pattern::Pattern>[ str::strip_prefix::<P> ](s: &'a str, p: P) -> (r: Option<&'a str>)
    ensures
        match r {
            Some(t) => is_prefix(pat_view(p), s@) && t@ == s@.subrange(pat_view(p).len() as int, s@.len() as int),
            None => !is_prefix(pat_view(p), s@),
        };

/// `trim_start_matches(p)` removes the prefix `p` repeatedly (std documentation)
pub open spec fn strip_all(p: Seq<char>, s: Seq<char>) -> Seq<char>
    decreases s.len()
{
    if p.len() > 0 && is_prefix(p, s) { strip_all(p, s.subrange(p.len() as int, s.len() as int)) } else { s }
}

pub assume_specification<P: std::str::pattern::Pattern>[ str::trim_start_matches::<P> ](s: &str, p: P) -> (r: &str)
    ensures r@ == strip_all(pat_view(p), s@);

/// assumed std contract: `split_once` cuts the text at an occurrence of the pattern (the first one; not needed here)
pub assume_specification<'a, P: std::str::pattern::Pattern>[ str::split_once::<P> ](s: &'a str, p: P) -> (r: Option<(&'a str, &'a str)>)
    ensures r matches Some(ab) ==> s@ == ab.0@ + pat_view(p) + ab.1@;

/// `str::eq_ignore_ascii_case`: equal texts compare equal; otherwise not modelled
pub uninterp spec fn spec_eq_ignore_ascii_case(a: Seq<char>, b: Seq<char>) -> bool;
pub assume_specification[ str::eq_ignore_ascii_case ](a: &str, b: &str) -> (r: bool)
    ensures r == spec_eq_ignore_ascii_case(a@, b@), a@ == b@ ==> r;

/// `str::replace`: some function of the three texts (not modelled further)
pub uninterp spec fn spec_replace(s: Seq<char>, from: Seq<char>, to: Seq<char>) -> Seq<char>;
pub assume_specification<P: std::str::pattern::Pattern>[ str::replace::<P> ](s: &str, from: P, to: &str) -> (r: String)
    ensures r@ == spec_replace(s@, pat_view(from), to@);

// ---------- C15: the header scan, from the property statement ----------
pub open spec fn spec_hash_from(lines: Seq<Seq<char>>, i: int) -> Option<Seq<char>>
    decreases lines.len() - i
{
    if i < 0 || i >= lines.len() { None }
    else if !is_prefix("//"@, lines[i]) { None }
    else if is_prefix("// @sha256 "@, lines[i]) { Some(lines[i].subrange(11, lines[i].len() as int)) }
    else { spec_hash_from(lines, i + 1) }
}

/// a line that starts with the hash prefix is a `//` line (so the two tests of the scan may come in either order)
// props: C15
pub proof fn lemma_hash_prefix_is_comment()
    ensures forall|l: Seq<char>| #[trigger] is_prefix("// @sha256 "@, l) ==> is_prefix("//"@, l)
{
    reveal_strlit("// @sha256 "); reveal_strlit("//");
    assert forall|l: Seq<char>| #[trigger] is_prefix("// @sha256 "@, l) implies is_prefix("//"@, l) by {
        let hp = "// @sha256 "@;
        assert(l.subrange(0, 11) == hp);
        assert(l.subrange(0, 11)[0] == l[0] && l.subrange(0, 11)[1] == l[1]);
        assert(l.subrange(0, 2) =~= "//"@);
    }
}

/// the remainder of the first line starting with `// @sha256 ` inside the leading block of `//` lines
pub open spec fn spec_hash(text: Seq<char>) -> Option<Seq<char>> {
    spec_hash_from(spec_lines(text), 0)
}

// ---------- reading the hash back from a text that starts with known comment lines ----------
pub open spec fn no_nl(l: Seq<char>) -> bool { forall|i: int| 0 <= i < l.len() ==> #[trigger] l[i] != '\n' }
pub open spec fn nl() -> Seq<char> { seq!['\n'] }

pub proof fn lemma_first_nl_after(l: Seq<char>, rest: Seq<char>)
    requires no_nl(l)
    ensures first_nl(l + nl() + rest) == l.len()
    decreases l.len()
{
    let t = l + nl() + rest;
    if l.len() == 0 { assert(t[0] == '\n'); }
    else {
        assert(t[0] == l[0]);
        let l1 = l.subrange(1, l.len() as int);
        assert(t.subrange(1, t.len() as int) =~= l1 + nl() + rest);
        lemma_first_nl_after(l1, rest);
    }
}
pub proof fn lemma_lines_cons(l: Seq<char>, rest: Seq<char>)
    requires no_nl(l)
    ensures spec_lines(l + nl() + rest) == seq![strip_cr(l)] + spec_lines(rest)
{
    let t = l + nl() + rest;
    lemma_first_nl_after(l, rest);
    assert(t.subrange(0, l.len() as int) =~= l);
    assert(t.subrange(l.len() as int + 1, t.len() as int) =~= rest);
}
pub proof fn lemma_hash_shift(x: Seq<char>, lines: Seq<Seq<char>>, i: int)
    requires 0 <= i
    ensures spec_hash_from(seq![x] + lines, i + 1) == spec_hash_from(lines, i)
    decreases lines.len() - i
{
    let xl = seq![x] + lines;
    if i < lines.len() {
        assert(xl[i + 1] == lines[i]);
        lemma_hash_shift(x, lines, i + 1);
    }
}
/// a leading `//` line that is not the hash line is skipped
pub proof fn lemma_hash_skip(text: Seq<char>, l: Seq<char>)
    requires is_prefix(l + nl(), text), no_nl(l), l.len() == 0 || l.last() != '\r', is_prefix("//"@, l), !is_prefix("// @sha256 "@, l)
    ensures spec_hash(text) == spec_hash(text.subrange(l.len() as int + 1, text.len() as int))
{
    let rest = text.subrange(l.len() as int + 1, text.len() as int);
    assert(text =~= l + nl() + rest) by { assert(text.subrange(0, l.len() as int + 1) == l + nl()); }
    lemma_lines_cons(l, rest);
    let lines = seq![l] + spec_lines(rest);
    assert(lines[0] == l);
    lemma_hash_shift(l, spec_lines(rest), 0);
}
/// the hash line is read back
pub proof fn lemma_hash_hit(text: Seq<char>, h: Seq<char>)
    requires is_prefix("// @sha256 "@ + h + nl(), text), no_nl(h), h.len() == 0 || h.last() != '\r'
    ensures spec_hash(text) == Some(h)
{
    reveal_strlit("// @sha256 "); reveal_strlit("//");
    let l = "// @sha256 "@ + h;
    let rest = text.subrange(l.len() as int + 1, text.len() as int);
    assert(text =~= l + nl() + rest) by { assert(text.subrange(0, l.len() as int + 1) == "// @sha256 "@ + h + nl()); assert("// @sha256 "@ + h + nl() =~= l + nl()); }
    assert(no_nl(l));
    lemma_lines_cons(l, rest);
    let lines = seq![l] + spec_lines(rest);
    assert(lines[0] == l);
    assert(is_prefix("// @sha256 "@, l)) by { assert(l.subrange(0, 11) =~= "// @sha256 "@); }
    assert(is_prefix("//"@, l)) by { assert(l.subrange(0, 2) =~= "//"@); }
    assert(l.subrange(11, l.len() as int) =~= h);
}

/// trusted: `&str == String` compares the character sequences (std: impl PartialEq<String> for &str)
pub broadcast axiom fn axiom_str_eq_string_obeys()
    ensures #[trigger] <&str as vstd::std_specs::cmp::PartialEqSpec<String>>::obeys_eq_spec();
pub broadcast axiom fn axiom_str_eq_string(a: &str, b: String)
    ensures #[trigger] <&str as vstd::std_specs::cmp::PartialEqSpec<String>>::eq_spec(&a, &b) == (a@ == b@);
/// trusted: `&String == &str` compares the character sequences (std: impl PartialEq<str> for String, through the reference impl)
pub broadcast axiom fn axiom_stringref_eq_strref_obeys<'a, 'b>()
    ensures #[trigger] <&'a String as vstd::std_specs::cmp::PartialEqSpec<&'b str>>::obeys_eq_spec();
pub broadcast axiom fn axiom_stringref_eq_strref<'a, 'b>(a: &'a String, b: &'b str)
    ensures #[trigger] <&'a String as vstd::std_specs::cmp::PartialEqSpec<&'b str>>::eq_spec(&a, &b) == (a@ == b@);
/// trusted: the other std impls that compare a string slice with a `String` (method forms `a.eq(&b)` resolve to these): the character sequences
pub broadcast axiom fn axiom_strv_eq_string_obeys()
    ensures #[trigger] <str as vstd::std_specs::cmp::PartialEqSpec<String>>::obeys_eq_spec();
pub broadcast axiom fn axiom_strv_eq_string(a: &str, b: &String)
    ensures #[trigger] <str as vstd::std_specs::cmp::PartialEqSpec<String>>::eq_spec(a, b) == (a@ == b@);
pub broadcast axiom fn axiom_string_eq_strv_obeys()
    ensures #[trigger] <String as vstd::std_specs::cmp::PartialEqSpec<str>>::obeys_eq_spec();
pub broadcast axiom fn axiom_string_eq_strv(a: &String, b: &str)
    ensures #[trigger] <String as vstd::std_specs::cmp::PartialEqSpec<str>>::eq_spec(a, b) == (a@ == b@);
pub broadcast axiom fn axiom_string_eq_strref_obeys<'b>()
    ensures #[trigger] <String as vstd::std_specs::cmp::PartialEqSpec<&'b str>>::obeys_eq_spec();
pub broadcast axiom fn axiom_string_eq_strref<'b>(a: &String, b: &&'b str)
    ensures #[trigger] <String as vstd::std_specs::cmp::PartialEqSpec<&'b str>>::eq_spec(a, b) == (a@ == b@);
pub broadcast group group_str_eq { axiom_str_eq_string_obeys, axiom_str_eq_string, axiom_stringref_eq_strref_obeys, axiom_stringref_eq_strref,
    axiom_strv_eq_string_obeys, axiom_strv_eq_string, axiom_string_eq_strv_obeys, axiom_string_eq_strv, axiom_string_eq_strref_obeys, axiom_string_eq_strref }
} // verus!
} // mod vx_str
