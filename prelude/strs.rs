// Ghost vocabulary and assumed std contracts for &str operations (used by lib.rs, tokenize.rs, table_to_rust.rs).
pub mod vx_pat {
    use vstd::prelude::*;
    verus! {
    /// the character sequence a `Pattern` value stands for (only &str and char patterns are given a meaning)
    pub uninterp spec fn pat_view<P>(p: P) -> Seq<char>;

    #[verifier::external_body]
    pub broadcast proof fn axiom_pat_view_str(p: &str)
        ensures #[trigger] pat_view::<&str>(p) == p@
    {}
    }
}

pub mod vx_str {
use vstd::prelude::*;
use crate::vx_pat::*;
verus! {

broadcast use crate::vx_pat::axiom_pat_view_str;

pub open spec fn is_prefix(p: Seq<char>, s: Seq<char>) -> bool {
    p.len() <= s.len() && s.subrange(0, p.len() as int) == p
}

/// index of the first '\n' in s, or -1
pub open spec fn first_nl(s: Seq<char>) -> int
    decreases s.len()
{
    if s.len() == 0 { -1 }
    else if s[0] == '\n' { 0 }
    else { let r = first_nl(s.subrange(1, s.len() as int)); if r < 0 { -1 } else { r + 1 } }
}

pub open spec fn strip_cr(l: Seq<char>) -> Seq<char> {
    if l.len() > 0 && l.last() == '\r' { l.drop_last() } else { l }
}

/// `str::lines` exactly as std defines it: pieces of split_inclusive('\n'); a final "\n" is removed from a
/// piece and then a "\r" only if that "\n" was present; no piece after a final "\n".
pub open spec fn spec_lines(s: Seq<char>) -> Seq<Seq<char>>
    decreases s.len()
{
    if s.len() == 0 { Seq::empty() }
    else {
        let i = first_nl(s);
        if i < 0 || i >= s.len() { seq![s] }
        else { seq![strip_cr(s.subrange(0, i))] + spec_lines(s.subrange(i + 1, s.len() as int)) }
    }
}

#[verifier::external_body]
pub fn __vx_lines<'a>(s: &'a str) -> (r: Vec<&'a str>)
    ensures r@.len() == spec_lines(s@).len(),
        forall|i: int| 0 <= i < r@.len() ==> (#[trigger] r@[i])@ == spec_lines(s@)[i]
{ s.lines().collect() }

pub assume_specification<P: std::str::pattern::Pattern>[ str::starts_with::<P> ](s: &str, p: P) -> (b: bool)
    ensures b == is_prefix(pat_view(p), s@);

pub assume_specification<'a, P: std::str::pattern::Pattern>[ str::strip_prefix::<P> ](s: &'a str, p: P) -> (r: Option<&'a str>)
    ensures
        match r {
            Some(t) => is_prefix(pat_view(p), s@) && t@ == s@.subrange(pat_view(p).len() as int, s@.len() as int),
            None => !is_prefix(pat_view(p), s@),
        };

/// `trim_start_matches(p)` removes the prefix `p` repeatedly (std documentation)
pub open spec fn strip_all(p: Seq<char>, s: Seq<char>) -> Seq<char>
    decreases s.len()
{
    if p.len() > 0 && is_prefix(p, s) { strip_all(p, s.subrange(p.len() as int, s.len() as int)) } else { s }
}

pub assume_specification<P: std::str::pattern::Pattern>[ str::trim_start_matches::<P> ](s: &str, p: P) -> (r: &str)
    ensures r@ == strip_all(pat_view(p), s@);

// ---------- C15: the header scan, from the property statement ----------
pub open spec fn spec_hash_from(lines: Seq<Seq<char>>, i: int) -> Option<Seq<char>>
    decreases lines.len() - i
{
    if i < 0 || i >= lines.len() { None }
    else if !is_prefix("//"@, lines[i]) { None }
    else if is_prefix("// @sha256 "@, lines[i]) { Some(lines[i].subrange(11, lines[i].len() as int)) }
    else { spec_hash_from(lines, i + 1) }
}

/// the remainder of the first line starting with `// @sha256 ` inside the leading block of `//` lines
pub open spec fn spec_hash(text: Seq<char>) -> Option<Seq<char>> {
    spec_hash_from(spec_lines(text), 0)
}

/// trusted: `&str == String` compares the character sequences (std: impl PartialEq<String> for &str)
pub broadcast axiom fn axiom_str_eq_string_obeys()
    ensures #[trigger] <&str as vstd::std_specs::cmp::PartialEqSpec<String>>::obeys_eq_spec();
pub broadcast axiom fn axiom_str_eq_string(a: &str, b: String)
    ensures #[trigger] <&str as vstd::std_specs::cmp::PartialEqSpec<String>>::eq_spec(&a, &b) == (a@ == b@);
pub broadcast group group_str_eq { axiom_str_eq_string_obeys, axiom_str_eq_string }
} // verus!
} // mod vx_str
