// T3 vocabulary: the Display rendering used by the generated format! helpers (see vx/fmt.py)
pub mod vx_fmt {
use vstd::prelude::*;
verus! {

/// what `{}` prints for a value (trusted: std Display impls of String, str, &T and the integer types)
pub uninterp spec fn disp<A: ?Sized>(a: &A) -> Seq<char>;

pub open spec fn digit(d: int) -> char {
    if d == 0 { '0' } else if d == 1 { '1' } else if d == 2 { '2' } else if d == 3 { '3' } else if d == 4 { '4' }
    else if d == 5 { '5' } else if d == 6 { '6' } else if d == 7 { '7' } else if d == 8 { '8' } else { '9' }
}
pub open spec fn dec_nat(n: nat) -> Seq<char>
    decreases n
{
    if n < 10 { seq![digit(n as int)] } else { dec_nat(n / 10).push(digit((n % 10) as int)) }
}
pub open spec fn dec(n: int) -> Seq<char> { if n < 0 { seq!['-'] + dec_nat((-n) as nat) } else { dec_nat(n as nat) } }

pub broadcast axiom fn axiom_disp_string(s: &String) ensures #[trigger] disp::<String>(s) == s@;
pub broadcast axiom fn axiom_disp_str(s: &str) ensures #[trigger] disp::<str>(s) == s@;
pub broadcast axiom fn axiom_disp_ref<A: ?Sized>(s: &&A) ensures #[trigger] disp::<&A>(s) == disp::<A>(*s);
pub broadcast axiom fn axiom_disp_usize(n: &usize) ensures #[trigger] disp::<usize>(n) == dec(*n as int);
pub broadcast axiom fn axiom_disp_i32(n: &i32) ensures #[trigger] disp::<i32>(n) == dec(*n as int);
pub broadcast axiom fn axiom_disp_u32(n: &u32) ensures #[trigger] disp::<u32>(n) == dec(*n as int);
pub broadcast axiom fn axiom_disp_u64(n: &u64) ensures #[trigger] disp::<u64>(n) == dec(*n as int);
/// `String::to_string()` goes through Display (vstd leaves the blanket impl open per type): the characters of the string
pub broadcast axiom fn axiom_to_string_string(s: &String, r: String)
    ensures #[trigger] vstd::string::to_string_from_display_ensures::<String>(s, r) ==> r@ == s@;
pub broadcast group group_disp { axiom_to_string_string, axiom_indent_of_str, axiom_str_of_str, axiom_str_of_string, axiom_disp_string, axiom_disp_str, axiom_disp_ref, axiom_disp_usize, axiom_disp_i32, axiom_disp_u32, axiom_disp_u64 }

/// the lower-case hexadecimal SHA-256 digest of a text (crate sha256, not modelled)
pub uninterp spec fn sha256_hex(s: Seq<char>) -> Seq<char>;
pub uninterp spec fn str_of<D>(d: D) -> Seq<char>;
pub broadcast axiom fn axiom_str_of_str(s: &str) ensures #[trigger] str_of::<&str>(s) == s@;
pub broadcast axiom fn axiom_str_of_string(s: String) ensures #[trigger] str_of::<String>(s) == s@;
/// stands for `sha256::digest` (the crate is not available to the single-file verifier): 64 hex digits, a function of the text
#[verifier::external_body]
pub fn __vx_sha256_hex<D: AsRef<str>>(d: D) -> (r: String)
    ensures r@ == sha256_hex(str_of(d)), r@.len() == 64, forall|i: int| 0 <= i < 64 ==> is_hex_digit(#[trigger] r@[i])
{ unimplemented!() }
pub open spec fn is_hex_digit(c: char) -> bool { ('0' <= c <= '9') || ('a' <= c <= 'f') }

/// what kiki's `Indent::indent` produces is not modelled: some function of the text and the level
pub uninterp spec fn indent_of<S: ?Sized>(s: &S, level: usize) -> Seq<char>;
pub uninterp spec fn indent_of_seq(s: Seq<char>, level: usize) -> Seq<char>;
/// ... which for a str depends on its characters only
pub broadcast axiom fn axiom_indent_of_str(s: &str, level: usize)
    ensures #[trigger] indent_of::<str>(s, level) == indent_of_seq(s@, level);

// ---------- concatenation and joining of rendered pieces ----------
pub open spec fn flatten(ss: Seq<Seq<char>>) -> Seq<char>
    decreases ss.len()
{
    if ss.len() == 0 { Seq::empty() } else { flatten(ss.drop_last()) + ss.last() }
}
pub open spec fn join_spec(ss: Seq<Seq<char>>, sep: Seq<char>) -> Seq<char>
    decreases ss.len()
{
    if ss.len() == 0 { Seq::empty() } else if ss.len() == 1 { ss[0] } else { join_spec(ss.drop_last(), sep) + sep + ss.last() }
}
pub open spec fn string_view() -> spec_fn(String) -> Seq<char> { |x: String| x@ }
pub open spec fn str_views(s: Seq<String>) -> Seq<Seq<char>> { s.map_values(string_view()) }
/// T17 (trusted std semantics): `s.iter().map(f).collect::<String>()` concatenates the results in order.
/// Stated for every spec function g that describes f's results.
#[verifier::external_body]
pub fn __vx_map_concat<'a, T, F: Fn(&'a T) -> String>(s: &'a [T], f: F) -> (r: String)
    requires forall|i: int| 0 <= i < s@.len() ==> call_requires(f, (&#[trigger] s@[i],)),
    ensures forall|g: spec_fn(T) -> Seq<char>|
        (forall|i: int, o: String| 0 <= i < s@.len() && #[trigger] call_ensures(f, (&s@[i],), o) ==> o@ == g(s@[i]))
        ==> r@ == #[trigger] flatten(s@.map_values(g))
{ s.iter().map(f).collect() }
/// T17 (trusted std semantics): `v.join(sep)` for a vector of Strings
#[verifier::external_body]
pub fn __vx_join(v: &Vec<String>, sep: &str) -> (r: String)
    ensures r@ == join_spec(str_views(v@), sep@)
{ v.join(sep) }
pub proof fn lemma_flatten_ext(a: Seq<Seq<char>>, b: Seq<Seq<char>>)
    requires a.len() == b.len(), forall|i: int| 0 <= i < a.len() ==> #[trigger] a[i] == b[i]
    ensures flatten(a) == flatten(b)
{ assert(a =~= b); }

/// decimal rendering is injective on naturals
pub proof fn lemma_dec_nat_len(n: nat)
    ensures dec_nat(n).len() >= 1, forall|i: int| 0 <= i < dec_nat(n).len() ==> '0' <= #[trigger] dec_nat(n)[i] <= '9'
    decreases n
{
    if n >= 10 { lemma_dec_nat_len(n / 10); }
}
pub proof fn lemma_dec_nat_inj(a: nat, b: nat)
    requires dec_nat(a) == dec_nat(b)
    ensures a == b
    decreases a
{
    lemma_dec_nat_len(a); lemma_dec_nat_len(b);
    if a < 10 && b < 10 {
        assert(dec_nat(a)[0] == dec_nat(b)[0]);
    } else if a >= 10 && b >= 10 {
        let (pa, pb) = (dec_nat(a / 10), dec_nat(b / 10));
        lemma_dec_nat_len(a / 10); lemma_dec_nat_len(b / 10);
        assert(dec_nat(a).last() == dec_nat(b).last());
        assert(dec_nat(a).drop_last() =~= pa);
        assert(dec_nat(b).drop_last() =~= pb);
        lemma_dec_nat_inj(a / 10, b / 10);
        assert(dec_nat(a).last() == digit((a % 10) as int) && dec_nat(b).last() == digit((b % 10) as int));
        assert(a % 10 == b % 10);
    } else if a < 10 {
        lemma_dec_nat_len(b / 10);
        assert(dec_nat(b).len() >= 2);
    } else {
        lemma_dec_nat_len(a / 10);
        assert(dec_nat(a).len() >= 2);
    }
}

} // verus!
} // mod vx_fmt
